package main

import (
	"fmt"

	"github.com/anyproto/any-sync/util/crypto"
)

// Symbolic description (Model/Payloads.v term layer) of the payloads the harness builds structurally.
// Keys are numbered by the first six bytes of their raw public key (big endian), which preserves the byte
// order of marshalled public keys; other byte strings get run-wide fresh numbers.

type termTab struct {
	atoms map[string]uint64
	next  uint64
}

var tt = &termTab{atoms: map[string]uint64{}, next: 1000}

func (t *termTab) atom(b []byte) uint64 {
	if len(b) == 0 {
		return 0
	}
	if v, ok := t.atoms[string(b)]; ok {
		return v
	}
	t.next++
	t.atoms[string(b)] = t.next
	return t.next
}

func (t *termTab) fresh() uint64 { t.next++; return t.next }

func keyNum(k crypto.PrivKey) uint64 {
	raw, _ := k.GetPublic().Raw()
	var v uint64
	for _, b := range raw[:6] {
		v = v<<8 | uint64(b)
	}
	return v
}

func stNum(spaceType string) uint64 {
	switch spaceType {
	case otoTypeA:
		return 1
	case otoTypeB:
		return 2
	}
	return 10 + tt.atom([]byte("type:"+spaceType))
}

func skAtom(k crypto.PrivKey) string { return fmt.Sprintf("(SKAtom %d)", keyNum(k)) }

func createTerm(v1 bool, sk, mk crypto.PrivKey, rk uint64, spaceType string, pl []byte) string {
	c := "create_v0"
	if v1 {
		c = "create_v1"
	}
	return fmt.Sprintf("(%s %s %s %d %d (TAtom %d) %d %d %d)", c, skAtom(sk), skAtom(mk), rk, stNum(spaceType), tt.atom(pl), tt.fresh(), tt.fresh(), tt.fresh())
}

func deriveTerm(v1 bool, sk, mk crypto.PrivKey, spaceType string, pl []byte) string {
	c := "derive_v0"
	if v1 {
		c = "derive_v1"
	}
	return fmt.Sprintf("(%s run_rk %s %s %d (TAtom %d) 0)", c, skAtom(sk), skAtom(mk), stNum(spaceType), tt.atom(pl))
}

func otoTerm(a, b crypto.PrivKey, spaceType string) string {
	return fmt.Sprintf("(run_oto %d %d %d)", keyNum(a), keyNum(b), stNum(spaceType))
}

func mixTerm(h, a, s bool, x, y string) string {
	b := func(v bool) string {
		if v {
			return "true"
		}
		return "false"
	}
	return fmt.Sprintf("(mix %s %s %s %s %s)", b(h), b(a), b(s), x, y)
}

var fieldNames = []string{"FId", "FRaw", "FAclId", "FAcl", "FSetId", "FSet"}

// fields of y (mask bits) written over x
func fineTerm(mask int, x, y string) string {
	t := x
	for i, f := range fieldNames {
		if mask&(1<<uint(i)) != 0 {
			t = fmt.Sprintf("(set_field %s (get_field %s %s) %s)", f, f, y, t)
		}
	}
	return t
}

func forgeTerm(variant int, x string, at attacker) string {
	e, m := skAtom(at.sk), skAtom(at.mk)
	r1, r2 := tt.fresh(), tt.fresh()
	if variant == 1 {
		return fmt.Sprintf("(let p := %s in let set' := settings_root %s (t_aclid p) (t_id p) %d in mkT (t_id p) (t_raw p) (t_aclid p) (t_acl p) (TCid set') set')", x, e, r2)
	}
	return fmt.Sprintf("(let p := %s in let acl' := acl_root %s %s (t_id p) tempty %d in let set' := settings_root %s (TCid acl') (t_id p) %d in mkT (t_id p) (t_raw p) (TCid acl') acl' (TCid set') set')", x, e, m, r1, e, r2)
}
