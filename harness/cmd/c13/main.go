// Correspondence driver for C13: builds space create payloads with the real constructors of
// commonspace/spacepayloads, mutates / splices them, runs the real validators (under recover) and writes
// what it observed as Coq cases.  The view handed to the model (Model/Payloads.v) is computed here from
// the delivered bytes with the primitives only (cidutil, PubKey.Verify, the vtproto decoders, strconv) —
// never by asking the code under test.
package main

import (
	"bytes"
	"encoding/base64"
	"encoding/json"
	"errors"
	"fmt"
	"sort"
	"strconv"
	"strings"

	"github.com/anyproto/any-sync/commonspace/object/acl/aclrecordproto"
	"github.com/anyproto/any-sync/commonspace/object/tree/objecttree"
	"github.com/anyproto/any-sync/commonspace/object/tree/treechangeproto"
	"github.com/anyproto/any-sync/commonspace/spacepayloads"
	"github.com/anyproto/any-sync/commonspace/spacestorage"
	"github.com/anyproto/any-sync/commonspace/spacesyncproto"
	"github.com/anyproto/any-sync/consensus/consensusproto"
	"github.com/anyproto/any-sync/util/cidutil"
	"github.com/anyproto/any-sync/util/crypto"

	"verifharness/vlib"
)

// ------------------------------------------------------------------------------------ delivered payloads

// part = one of the three "WithId" messages; Nil = nil pointer, DNil = nil data slice
type part struct {
	Nil  bool   `json:"nil,omitempty"`
	Id   string `json:"id"`
	Data []byte `json:"data"`
	DNil bool   `json:"dnil,omitempty"`
}

type pay struct{ H, A, S part }

func (p part) data() []byte {
	if p.DNil {
		return nil
	}
	if p.Data == nil {
		return []byte{}
	}
	return p.Data
}

func (p pay) real() spacestorage.SpaceStorageCreatePayload {
	var r spacestorage.SpaceStorageCreatePayload
	if !p.H.Nil {
		r.SpaceHeaderWithId = &spacesyncproto.RawSpaceHeaderWithId{RawHeader: p.H.data(), Id: p.H.Id}
	}
	if !p.A.Nil {
		r.AclWithId = &consensusproto.RawRecordWithId{Payload: p.A.data(), Id: p.A.Id}
	}
	if !p.S.Nil {
		r.SpaceSettingsWithId = &treechangeproto.RawTreeChangeWithId{RawChange: p.S.data(), Id: p.S.Id}
	}
	return r
}

func fromReal(r spacestorage.SpaceStorageCreatePayload) pay {
	return pay{
		H: part{Id: r.SpaceHeaderWithId.Id, Data: r.SpaceHeaderWithId.RawHeader},
		A: part{Id: r.AclWithId.Id, Data: r.AclWithId.Payload},
		S: part{Id: r.SpaceSettingsWithId.Id, Data: r.SpaceSettingsWithId.RawChange},
	}
}

// ------------------------------------------------------------------------------------ running the code under test

func classify(err error) string {
	switch {
	case err == nil:
		return "VOk"
	case errors.Is(err, spacestorage.ErrIncorrectSpaceHeader):
		return "VErrHeader"
	case errors.Is(err, objecttree.ErrIncorrectCid):
		return "VErrCid"
	case errors.Is(err, spacepayloads.ErrIncorrectIdentity):
		return "VErrIdentity"
	case errors.Is(err, spacepayloads.ErrIncorrectOneToOnePayload):
		return "VErrOto"
	}
	return "VErrParse"
}

func runCreate(p pay) (v string, pan interface{}) {
	defer func() {
		if r := recover(); r != nil {
			pan = r
			v = "VErrHeader"
		}
	}()
	return classify(spacepayloads.ValidateSpaceStorageCreatePayload(p.real())), nil
}

type optBytes struct {
	Nil  bool   `json:"nil,omitempty"`
	Data []byte `json:"data"`
}

func (o optBytes) get() []byte {
	if o.Nil {
		return nil
	}
	if o.Data == nil {
		return []byte{}
	}
	return o.Data
}

func runHeader(h part, identity []byte, aa, sa optBytes) (v string, need bool, pan interface{}) {
	defer func() {
		if r := recover(); r != nil {
			pan = r
			v, need = "VErrHeader", false
		}
	}()
	var hp *spacesyncproto.RawSpaceHeaderWithId
	if !h.Nil {
		hp = &spacesyncproto.RawSpaceHeaderWithId{RawHeader: h.data(), Id: h.Id}
	}
	var id crypto.PubKey
	if identity != nil {
		k, err := crypto.UnmarshalEd25519PublicKeyProto(identity)
		if err != nil {
			panic("harness: bad identity argument")
		}
		id = k
	}
	n, err := spacepayloads.ValidateSpaceHeader(hp, id, aa.get(), sa.get())
	return classify(err), n, nil
}

// ------------------------------------------------------------------------------------ views (primitives only)

type interner struct{ m map[string]uint64 }

func newInterner() *interner { return &interner{m: map[string]uint64{"": 0}} }
func (in *interner) a(b []byte) string {
	k := string(b)
	v, ok := in.m[k]
	if !ok {
		v = uint64(len(in.m))
		in.m[k] = v
	}
	return vlib.N(v)
}
func (in *interner) s(s string) string { return in.a([]byte(s)) }

func cidOf(b []byte) string {
	c, err := cidutil.NewCidFromBytes(b)
	if err != nil {
		panic(err)
	}
	return c
}

func keyView(in *interner, marshalled []byte) (crypto.PubKey, string) {
	k, err := crypto.UnmarshalEd25519PublicKeyProto(marshalled)
	if err != nil {
		return nil, "None"
	}
	raw, _ := k.Raw()
	return k, vlib.Some(in.a(raw))
}

func verify(k crypto.PubKey, msg, sig []byte) bool {
	if k == nil {
		return false
	}
	ok, err := k.Verify(msg, sig)
	return err == nil && ok
}

const (
	otoTypeA = "anytype.onetoone"
	otoTypeB = "any.onetoone"
)

func hview(in *interner, h part) string {
	if h.Nil {
		return "None"
	}
	split := "None"
	if i := strings.IndexByte(h.Id, '.'); i >= 0 {
		split = vlib.Some(vlib.Pair(in.s(h.Id[:i]), in.s(h.Id[i+1:])))
	}
	parse := "None"
	var raw spacesyncproto.RawSpaceHeader
	if raw.UnmarshalVT(h.data()) == nil {
		parse = "(Some None)"
		var hd spacesyncproto.SpaceHeader
		if hd.UnmarshalVT(raw.SpaceHeader) == nil {
			k, kv := keyView(in, hd.Identity)
			var info aclrecordproto.AclOneToOneInfo
			parse = vlib.Some(vlib.Some(vlib.App("mkHdr", kv, vlib.Bool(verify(k, raw.SpaceHeader, raw.Signature)),
				in.s(strconv.FormatUint(hd.ReplicationKey, 36)),
				vlib.Bool(hd.Version == spacesyncproto.SpaceHeaderVersion_SpaceHeaderVersion1),
				in.a(hd.AclPayload), in.a(hd.SettingPayload),
				vlib.Bool(hd.SpaceType == otoTypeA || hd.SpaceType == otoTypeB),
				vlib.Bool(info.UnmarshalVT(hd.SpaceHeaderPayload) == nil))))
		}
	}
	return vlib.Some(vlib.App("mkHPart", in.s(h.Id), split, in.a(h.data()), in.s(cidOf(h.data())), parse))
}

func aview(in *interner, a part) string {
	if a.Nil {
		return "None"
	}
	parse := "None"
	var raw consensusproto.RawRecord
	if raw.UnmarshalVT(a.data()) == nil {
		parse = "(Some None)"
		var root aclrecordproto.AclRoot
		if root.UnmarshalVT(raw.Payload) == nil {
			k, kv := keyView(in, root.Identity)
			mk, mv := keyView(in, root.MasterKey)
			idsig := false
			if k != nil {
				rawId, _ := k.Raw()
				idsig = verify(mk, rawId, root.IdentitySignature)
			}
			parse = vlib.Some(vlib.Some(vlib.App("mkAclRoot", kv, vlib.Bool(verify(k, raw.Payload, raw.Signature)),
				mv, vlib.Bool(idsig), in.s(root.SpaceId))))
		}
	}
	return vlib.Some(vlib.App("mkAPart", in.s(a.Id), vlib.Bool(a.DNil), in.a(a.data()), in.s(cidOf(a.data())), parse))
}

func sview(in *interner, s part) string {
	if s.Nil {
		return "None"
	}
	parse := "None"
	var raw treechangeproto.RawTreeChange
	if raw.UnmarshalVT(s.data()) == nil {
		parse = "(Some None)"
		var root treechangeproto.RootChange
		if root.UnmarshalVT(raw.Payload) == nil {
			k, kv := keyView(in, root.Identity)
			parse = vlib.Some(vlib.Some(vlib.App("mkSRoot", kv, vlib.Bool(verify(k, raw.Payload, raw.Signature)),
				in.s(root.SpaceId), in.s(root.AclHeadId))))
		}
	}
	return vlib.Some(vlib.App("mkSPart", in.s(s.Id), vlib.Bool(s.DNil), in.a(s.data()), in.s(cidOf(s.data())), parse))
}

// ------------------------------------------------------------------------------------ case emission

type createDesc struct {
	Kind     string   `json:"kind"`
	Name     string   `json:"name"`
	H        part     `json:"h"`
	A        part     `json:"a"`
	S        part     `json:"s"`
	Pristine bool     `json:"pristine,omitempty"`
	Obs      string   `json:"obs"`
	Term     string   `json:"term,omitempty"`
	Tags     []string `json:"tags,omitempty"`
}

type headerDesc struct {
	Kind     string   `json:"kind"`
	Name     string   `json:"name"`
	H        part     `json:"h"`
	Identity []byte   `json:"identity"` // marshalled public key; null = nil argument
	AclArg   optBytes `json:"acl_arg"`
	SetArg   optBytes `json:"set_arg"`
	Pristine bool     `json:"pristine,omitempty"`
	Obs      string   `json:"obs"`
	Need     bool     `json:"need"`
}

type otoDesc struct {
	Kind string   `json:"kind"`
	Name string   `json:"name"`
	Keys [][]byte `json:"keys"` // raw private keys a, b, c
	Type string   `json:"type"`
	Obs  string   `json:"obs"`
}

type emitter struct {
	w       *vlib.Writer
	samples []interface{}
	termOn  bool
}

func label(name string) string {
	if i := strings.IndexByte(name, ':'); i >= 0 {
		return name[:i]
	}
	return name
}

func (e *emitter) create(name string, p pay, pristine bool) string {
	return e.createT(name, p, pristine, "")
}

// createT additionally emits the symbolic term of the same payload (structured cases)
func (e *emitter) createT(name string, p pay, pristine bool, tterm string) string {
	in := newInterner()
	obs, pan := runCreate(p)
	view := vlib.App("mkPayload", hview(in, p.H), aview(in, p.A), sview(in, p.S))
	term := vlib.App("CCreate", view, vlib.Bool(pristine), obs)
	d := createDesc{Kind: "create", Name: name, H: p.H, A: p.A, S: p.S, Pristine: pristine, Obs: obs, Term: tterm}
	idx := e.w.Add(term, d, "create|"+view+"|"+obs, true)
	e.w.Stat("create/" + label(name) + "/" + obs)
	e.w.Stat("verdict/" + obs)
	if pan != nil {
		e.w.Stat("panic/create")
		e.w.Violation(idx, "C13-panic-create", fmt.Sprintf("ValidateSpaceStorageCreatePayload panicked on %s: %v", name, pan), d)
	}
	if len(e.samples) < 4 && (len(e.samples)%2 == 0) == (obs == "VOk") {
		e.samples = append(e.samples, map[string]interface{}{"name": name, "observed": obs, "coq": term})
	}
	if tterm != "" {
		e.w.Add(vlib.App("CTerm", tterm, obs), d, "term|"+label(name)+"|"+obs, true)
		e.w.Stat("term/" + label(name) + "/" + obs)
	}
	return obs
}

func (e *emitter) header(name string, h part, identity []byte, aa, sa optBytes, pristine bool) string {
	in := newInterner()
	obs, need, pan := runHeader(h, identity, aa, sa)
	hv := hview(in, h)
	idt := "None"
	if identity != nil {
		_, idt = keyView(in, identity)
	}
	arg := func(o optBytes) string {
		if o.Nil {
			return "None"
		}
		return vlib.Some(in.a(o.get()))
	}
	term := vlib.App("CHeader", hv, idt, arg(aa), arg(sa), vlib.Bool(pristine), obs, vlib.Bool(need))
	d := headerDesc{Kind: "header", Name: name, H: h, Identity: identity, AclArg: aa, SetArg: sa, Pristine: pristine, Obs: obs, Need: need}
	idx := e.w.Add(term, d, "header|"+term, true)
	e.w.Stat("header/" + label(name) + "/" + obs)
	e.w.Stat("verdict/" + obs)
	if pan != nil {
		e.w.Stat("panic/header")
		e.w.Violation(idx, "C13-panic-header", fmt.Sprintf("ValidateSpaceHeader panicked on %s: %v", name, pan), d)
	}
	return obs
}

// ------------------------------------------------------------------------------------ worlds (constructor outputs)

type detReader struct{ r *vlib.Rand }

func (d detReader) Read(p []byte) (int, error) {
	for i := range p {
		p[i] = byte(d.r.U64())
	}
	return len(p), nil
}

func newKey(r *vlib.Rand) crypto.PrivKey {
	k, _, err := crypto.GenerateEd25519Key(detReader{r})
	if err != nil {
		panic(err)
	}
	return k
}

func randBytes(r *vlib.Rand, n int) []byte {
	b := make([]byte, n)
	detReader{r}.Read(b)
	return b
}

func must(err error) {
	if err != nil {
		panic(err)
	}
}

func pubBytes(k crypto.PrivKey) []byte {
	b, err := k.GetPublic().Marshall()
	must(err)
	return b
}

var ctorNames = []string{"create_v0", "create_v1", "derive_v0", "derive_v1", "oto_anytype", "oto_any"}

type world struct {
	term   string // Coq expression of type tpayload describing this world symbolically
	ctor   int
	sk, mk crypto.PrivKey // keys that sign the three parts (one-to-one: the shared key for both)
	p      pay
	v1     bool
}

func mkWorld(r *vlib.Rand, ctor int, sk, mk crypto.PrivKey, spaceType string) world {
	if sk == nil {
		sk = newKey(r)
	}
	if mk == nil {
		mk = newKey(r)
	}
	if spaceType == "" {
		spaceType = fmt.Sprintf("type-%d", r.Intn(1000))
	}
	var out spacestorage.SpaceStorageCreatePayload
	var err error
	var term string
	switch ctor {
	case 0, 1:
		meta := newKey(r)
		rk := crypto.NewAES()
		cp := spacepayloads.SpaceCreatePayload{SigningKey: sk, MasterKey: mk, SpaceType: spaceType, ReplicationKey: r.U64(),
			SpacePayload: randBytes(r, r.Intn(24)), ReadKey: rk, MetadataKey: meta, Metadata: randBytes(r, 8)}
		if r.Bool() {
			cp.FileProtoVersion = spacesyncproto.SpaceFileProtoVersion_SpaceFileProtoVersionV2
		}
		if ctor == 0 {
			out, err = spacepayloads.StoragePayloadForSpaceCreate(cp)
		} else {
			out, err = spacepayloads.StoragePayloadForSpaceCreateV1(cp)
		}
		term = createTerm(ctor == 1, sk, mk, cp.ReplicationKey, spaceType, cp.SpacePayload)
	case 2, 3:
		dp := spacepayloads.SpaceDerivePayload{SigningKey: sk, MasterKey: mk, SpaceType: spaceType, SpacePayload: randBytes(r, r.Intn(24))}
		if ctor == 2 {
			out, err = spacepayloads.StoragePayloadForSpaceDerive(dp)
		} else {
			out, err = spacepayloads.StoragePayloadForSpaceDeriveV1(dp)
		}
		term = deriveTerm(ctor == 3, sk, mk, spaceType, dp.SpacePayload)
	case 4, 5:
		other := newKey(r)
		t := otoTypeA
		if ctor == 5 {
			t = otoTypeB
		}
		out, err = spacepayloads.StoragePayloadForOneToOneSpaceWithType(sk, other.GetPublic(), t)
		must(err)
		shared, e2 := crypto.GenerateSharedKey(sk, other.GetPublic(), crypto.AnysyncOneToOneSpacePath)
		must(e2)
		term = otoTerm(sk, other, t)
		sk, mk = shared, shared
	}
	must(err)
	return world{term: term, ctor: ctor, sk: sk, mk: mk, p: fromReal(out), v1: ctor == 1 || ctor >= 3}
}

// ------------------------------------------------------------------------------------ decode / re-encode

type dec struct {
	hdr  *spacesyncproto.SpaceHeader
	hsig []byte
	acl  *aclrecordproto.AclRoot
	asig []byte
	set  *treechangeproto.RootChange
	ssig []byte
}

func decode(p pay) *dec {
	d := &dec{hdr: &spacesyncproto.SpaceHeader{}, acl: &aclrecordproto.AclRoot{}, set: &treechangeproto.RootChange{}}
	var rh spacesyncproto.RawSpaceHeader
	must(rh.UnmarshalVT(p.H.Data))
	must(d.hdr.UnmarshalVT(rh.SpaceHeader))
	d.hsig = rh.Signature
	var ra consensusproto.RawRecord
	must(ra.UnmarshalVT(p.A.Data))
	must(d.acl.UnmarshalVT(ra.Payload))
	d.asig = ra.Signature
	var rs treechangeproto.RawTreeChange
	must(rs.UnmarshalVT(p.S.Data))
	must(d.set.UnmarshalVT(rs.Payload))
	d.ssig = rs.Signature
	return d
}

func sign(k crypto.PrivKey, msg []byte) []byte {
	s, err := k.Sign(msg)
	must(err)
	return s
}

// seal* marshal the inner message, sign it with key (or keep sig when key == nil), wrap it
func sealH(h *spacesyncproto.SpaceHeader, sig []byte, key crypto.PrivKey) []byte {
	inner, err := h.MarshalVT()
	must(err)
	if key != nil {
		sig = sign(key, inner)
	}
	raw, err := (&spacesyncproto.RawSpaceHeader{SpaceHeader: inner, Signature: sig}).MarshalVT()
	must(err)
	return raw
}
func sealA(a *aclrecordproto.AclRoot, sig []byte, key crypto.PrivKey) []byte {
	inner, err := a.MarshalVT()
	must(err)
	if key != nil {
		sig = sign(key, inner)
	}
	raw, err := (&consensusproto.RawRecord{Payload: inner, Signature: sig}).MarshalVT()
	must(err)
	return raw
}
func sealS(s *treechangeproto.RootChange, sig []byte, key crypto.PrivKey) []byte {
	inner, err := s.MarshalVT()
	must(err)
	if key != nil {
		sig = sign(key, inner)
	}
	raw, err := (&treechangeproto.RawTreeChange{Payload: inner, Signature: sig}).MarshalVT()
	must(err)
	return raw
}
func spaceIdOf(raw []byte, rk uint64) string {
	return cidOf(raw) + "." + strconv.FormatUint(rk, 36)
}

// attacker material
type attacker struct{ sk, mk crypto.PrivKey }

func (at attacker) ownAcl(a *aclrecordproto.AclRoot) {
	a.Identity = pubBytes(at.sk)
	a.MasterKey = pubBytes(at.mk)
	raw, _ := at.sk.GetPublic().Raw()
	a.IdentitySignature = sign(at.mk, raw)
}

// ------------------------------------------------------------------------------------ mutations

const (
	lvStale   = iota // new inner bytes, old signature, old id
	lvRecid          // new inner bytes, old signature, recomputed id
	lvResign         // re-signed with the original key, recomputed id
	lvForeign        // identity replaced by the attacker's, signed by the attacker, recomputed id
)

var lvNames = []string{"stale", "recid", "resign", "foreign"}

const (
	cascNone    = iota
	cascOwner   // dependants updated and re-signed with the original key
	cascForeign // dependants updated, re-owned and re-signed by the attacker
)

var cascNames = []string{"nocascade", "cascade-owner", "cascade-foreign"}

type fmut struct {
	name string
	part byte // 'h', 'a', 's'
	f    func(d *dec, o *world, at attacker, r *vlib.Rand)
}

func flip(b []byte, r *vlib.Rand) []byte {
	c := append([]byte{}, b...)
	if len(c) == 0 {
		return []byte{1}
	}
	c[r.Intn(len(c))] ^= byte(1 << uint(r.Intn(8)))
	return c
}

func fieldMutations() []fmut {
	ms := []fmut{
		// ---- header fields
		{"hdr.identity=attacker", 'h', func(d *dec, o *world, at attacker, r *vlib.Rand) { d.hdr.Identity = pubBytes(at.sk) }},
		{"hdr.identity=garbage", 'h', func(d *dec, o *world, at attacker, r *vlib.Rand) { d.hdr.Identity = randBytes(r, 36) }},
		{"hdr.identity=empty", 'h', func(d *dec, o *world, at attacker, r *vlib.Rand) { d.hdr.Identity = nil }},
		{"hdr.timestamp+1", 'h', func(d *dec, o *world, at attacker, r *vlib.Rand) { d.hdr.Timestamp++ }},
		{"hdr.spaceType=x", 'h', func(d *dec, o *world, at attacker, r *vlib.Rand) { d.hdr.SpaceType += "x" }},
		{"hdr.spaceType=onetoone", 'h', func(d *dec, o *world, at attacker, r *vlib.Rand) {
			if d.hdr.SpaceType == otoTypeA {
				d.hdr.SpaceType = otoTypeB
			} else {
				d.hdr.SpaceType = otoTypeA
			}
		}},
		{"hdr.replicationKey+1", 'h', func(d *dec, o *world, at attacker, r *vlib.Rand) { d.hdr.ReplicationKey++ }},
		{"hdr.replicationKey=0", 'h', func(d *dec, o *world, at attacker, r *vlib.Rand) {
			if d.hdr.ReplicationKey == 0 {
				d.hdr.ReplicationKey = ^uint64(0)
			} else {
				d.hdr.ReplicationKey = 0
			}
		}},
		{"hdr.seed=flip", 'h', func(d *dec, o *world, at attacker, r *vlib.Rand) { d.hdr.Seed = flip(d.hdr.Seed, r) }},
		{"hdr.payload=flip", 'h', func(d *dec, o *world, at attacker, r *vlib.Rand) {
			d.hdr.SpaceHeaderPayload = flip(d.hdr.SpaceHeaderPayload, r)
		}},
		{"hdr.payload=unparseable", 'h', func(d *dec, o *world, at attacker, r *vlib.Rand) {
			d.hdr.SpaceHeaderPayload = []byte{0x0a, 0xff, 0x01}
		}},
		{"hdr.aclPayload=other", 'h', func(d *dec, o *world, at attacker, r *vlib.Rand) { d.hdr.AclPayload = o.p.A.Data }},
		{"hdr.aclPayload=empty", 'h', func(d *dec, o *world, at attacker, r *vlib.Rand) {
			if len(d.hdr.AclPayload) == 0 {
				d.hdr.AclPayload = []byte{7}
			} else {
				d.hdr.AclPayload = nil
			}
		}},
		{"hdr.aclPayload=flip", 'h', func(d *dec, o *world, at attacker, r *vlib.Rand) { d.hdr.AclPayload = flip(d.hdr.AclPayload, r) }},
		{"hdr.settingPayload=other", 'h', func(d *dec, o *world, at attacker, r *vlib.Rand) { d.hdr.SettingPayload = o.p.S.Data }},
		{"hdr.settingPayload=empty", 'h', func(d *dec, o *world, at attacker, r *vlib.Rand) {
			if len(d.hdr.SettingPayload) == 0 {
				d.hdr.SettingPayload = []byte{7}
			} else {
				d.hdr.SettingPayload = nil
			}
		}},
		{"hdr.settingPayload=flip", 'h', func(d *dec, o *world, at attacker, r *vlib.Rand) {
			d.hdr.SettingPayload = flip(d.hdr.SettingPayload, r)
		}},
		{"hdr.fileproto=toggle", 'h', func(d *dec, o *world, at attacker, r *vlib.Rand) {
			if d.hdr.FileprotoVersion == 0 {
				d.hdr.FileprotoVersion = spacesyncproto.SpaceFileProtoVersion_SpaceFileProtoVersionV2
			} else {
				d.hdr.FileprotoVersion = 0
			}
		}},
		{"hdr.version=toggle", 'h', func(d *dec, o *world, at attacker, r *vlib.Rand) {
			if d.hdr.Version == 0 {
				d.hdr.Version = spacesyncproto.SpaceHeaderVersion_SpaceHeaderVersion1
			} else {
				d.hdr.Version = 0
			}
		}},
		{"hdr.version=2", 'h', func(d *dec, o *world, at attacker, r *vlib.Rand) { d.hdr.Version = 2 }},
		{"hdr.sig=flip", 'h', func(d *dec, o *world, at attacker, r *vlib.Rand) { d.hsig = flip(d.hsig, r) }},
		{"hdr.sig=empty", 'h', func(d *dec, o *world, at attacker, r *vlib.Rand) { d.hsig = nil }},
		{"hdr.sig=attacker", 'h', func(d *dec, o *world, at attacker, r *vlib.Rand) {
			inner, _ := d.hdr.MarshalVT()
			d.hsig = sign(at.sk, inner)
		}},
		// ---- acl root fields
		{"acl.identity=attacker", 'a', func(d *dec, o *world, at attacker, r *vlib.Rand) { d.acl.Identity = pubBytes(at.sk) }},
		{"acl.identity=garbage", 'a', func(d *dec, o *world, at attacker, r *vlib.Rand) { d.acl.Identity = randBytes(r, 36) }},
		{"acl.masterKey=attacker", 'a', func(d *dec, o *world, at attacker, r *vlib.Rand) { d.acl.MasterKey = pubBytes(at.mk) }},
		{"acl.masterKey=garbage", 'a', func(d *dec, o *world, at attacker, r *vlib.Rand) { d.acl.MasterKey = randBytes(r, 5) }},
		{"acl.identitySignature=flip", 'a', func(d *dec, o *world, at attacker, r *vlib.Rand) {
			d.acl.IdentitySignature = flip(d.acl.IdentitySignature, r)
		}},
		{"acl.identitySignature=empty", 'a', func(d *dec, o *world, at attacker, r *vlib.Rand) { d.acl.IdentitySignature = nil }},
		{"acl.identitySignature=over-marshalled", 'a', func(d *dec, o *world, at attacker, r *vlib.Rand) {
			// master key signs the marshalled (not the raw) identity
			d.acl.IdentitySignature = sign(o.mk, d.acl.Identity)
		}},
		{"acl.identitySignature=by-identity", 'a', func(d *dec, o *world, at attacker, r *vlib.Rand) {
			k, err := crypto.UnmarshalEd25519PublicKeyProto(d.acl.Identity)
			if err == nil {
				raw, _ := k.Raw()
				d.acl.IdentitySignature = sign(at.sk, raw)
			}
		}},
		{"acl.spaceId=other", 'a', func(d *dec, o *world, at attacker, r *vlib.Rand) { d.acl.SpaceId = o.p.H.Id }},
		{"acl.spaceId=empty", 'a', func(d *dec, o *world, at attacker, r *vlib.Rand) {
			if d.acl.SpaceId == "" {
				d.acl.SpaceId = "x"
			} else {
				d.acl.SpaceId = ""
			}
		}},
		{"acl.spaceId=suffixed", 'a', func(d *dec, o *world, at attacker, r *vlib.Rand) { d.acl.SpaceId += "0" }},
		{"acl.timestamp+1", 'a', func(d *dec, o *world, at attacker, r *vlib.Rand) { d.acl.Timestamp++ }},
		{"acl.encryptedReadKey=flip", 'a', func(d *dec, o *world, at attacker, r *vlib.Rand) {
			d.acl.EncryptedReadKey = flip(d.acl.EncryptedReadKey, r)
		}},
		{"acl.oneToOneInfo=toggle", 'a', func(d *dec, o *world, at attacker, r *vlib.Rand) {
			if d.acl.OneToOneInfo == nil {
				d.acl.OneToOneInfo = &aclrecordproto.AclOneToOneInfo{Owner: pubBytes(at.sk), Writers: [][]byte{pubBytes(at.sk), pubBytes(at.mk)}}
			} else {
				d.acl.OneToOneInfo = nil
			}
		}},
		{"acl.sig=flip", 'a', func(d *dec, o *world, at attacker, r *vlib.Rand) { d.asig = flip(d.asig, r) }},
		{"acl.sig=empty", 'a', func(d *dec, o *world, at attacker, r *vlib.Rand) { d.asig = nil }},
		{"acl.sig=attacker", 'a', func(d *dec, o *world, at attacker, r *vlib.Rand) {
			inner, _ := d.acl.MarshalVT()
			d.asig = sign(at.sk, inner)
		}},
		// ---- settings root fields
		{"set.aclHeadId=other", 's', func(d *dec, o *world, at attacker, r *vlib.Rand) { d.set.AclHeadId = o.p.A.Id }},
		{"set.aclHeadId=empty", 's', func(d *dec, o *world, at attacker, r *vlib.Rand) { d.set.AclHeadId = "" }},
		{"set.aclHeadId=settings-id", 's', func(d *dec, o *world, at attacker, r *vlib.Rand) { d.set.AclHeadId = o.p.S.Id }},
		{"set.spaceId=other", 's', func(d *dec, o *world, at attacker, r *vlib.Rand) { d.set.SpaceId = o.p.H.Id }},
		{"set.spaceId=empty", 's', func(d *dec, o *world, at attacker, r *vlib.Rand) {
			if d.set.SpaceId == "" {
				d.set.SpaceId = "x"
			} else {
				d.set.SpaceId = ""
			}
		}},
		{"set.identity=attacker", 's', func(d *dec, o *world, at attacker, r *vlib.Rand) { d.set.Identity = pubBytes(at.sk) }},
		{"set.identity=garbage", 's', func(d *dec, o *world, at attacker, r *vlib.Rand) { d.set.Identity = randBytes(r, 36) }},
		{"set.seed=flip", 's', func(d *dec, o *world, at attacker, r *vlib.Rand) { d.set.Seed = flip(d.set.Seed, r) }},
		{"set.timestamp+1", 's', func(d *dec, o *world, at attacker, r *vlib.Rand) { d.set.Timestamp++ }},
		{"set.changeType=x", 's', func(d *dec, o *world, at attacker, r *vlib.Rand) { d.set.ChangeType += "x" }},
		{"set.changePayload=flip", 's', func(d *dec, o *world, at attacker, r *vlib.Rand) { d.set.ChangePayload = flip(d.set.ChangePayload, r) }},
		{"set.isDerived=toggle", 's', func(d *dec, o *world, at attacker, r *vlib.Rand) { d.set.IsDerived = !d.set.IsDerived }},
		{"set.sig=flip", 's', func(d *dec, o *world, at attacker, r *vlib.Rand) { d.ssig = flip(d.ssig, r) }},
		{"set.sig=empty", 's', func(d *dec, o *world, at attacker, r *vlib.Rand) { d.ssig = nil }},
		{"set.sig=attacker", 's', func(d *dec, o *world, at attacker, r *vlib.Rand) {
			inner, _ := d.set.MarshalVT()
			d.ssig = sign(at.sk, inner)
		}},
	}
	return ms
}

// applyField re-encodes world x with one field mutation at the given reseal level and cascade mode.
func applyField(x *world, other *world, m fmut, level, casc int, at attacker, r *vlib.Rand) pay {
	d := decode(x.p)
	p := x.p
	keyFor := func(lv int) crypto.PrivKey {
		switch lv {
		case lvResign:
			return x.sk
		case lvForeign:
			return at.sk
		}
		return nil
	}
	own := func(part byte) { // identity replacement of the mutated part for lvForeign (before the field change)
		switch part {
		case 'h':
			d.hdr.Identity = pubBytes(at.sk)
		case 'a':
			at.ownAcl(d.acl)
		case 's':
			d.set.Identity = pubBytes(at.sk)
		}
	}
	if level == lvForeign {
		own(m.part)
	}
	m.f(d, other, at, r)
	ck := x.sk
	if casc == cascForeign {
		ck = at.sk
	}
	// re-encode in dependency order: acl -> settings -> header (v1) or header -> acl -> settings (v0)
	encA := func(lv int) {
		p.A.Data = sealA(d.acl, d.asig, keyFor(lv))
		if lv != lvStale {
			p.A.Id = cidOf(p.A.Data)
		}
	}
	encS := func(lv int) {
		p.S.Data = sealS(d.set, d.ssig, keyFor(lv))
		if lv != lvStale {
			p.S.Id = cidOf(p.S.Data)
		}
	}
	encH := func(lv int) {
		p.H.Data = sealH(d.hdr, d.hsig, keyFor(lv))
		if lv != lvStale {
			p.H.Id = spaceIdOf(p.H.Data, d.hdr.ReplicationKey)
		}
	}
	depS := func() { // settings follow the acl id / space id
		if casc == cascForeign {
			d.set.Identity = pubBytes(at.sk)
		}
		p.S.Data = sealS(d.set, nil, ck)
		p.S.Id = cidOf(p.S.Data)
	}
	depA := func() {
		if casc == cascForeign {
			at.ownAcl(d.acl)
		}
		p.A.Data = sealA(d.acl, nil, ck)
		p.A.Id = cidOf(p.A.Data)
	}
	depH := func() {
		if casc == cascForeign {
			d.hdr.Identity = pubBytes(at.sk)
		}
		p.H.Data = sealH(d.hdr, nil, ck)
		p.H.Id = spaceIdOf(p.H.Data, d.hdr.ReplicationKey)
	}
	switch m.part {
	case 'a':
		encA(level)
		if casc != cascNone {
			d.set.AclHeadId = p.A.Id
			depS()
			if x.v1 {
				d.hdr.AclPayload, d.hdr.SettingPayload = p.A.Data, p.S.Data
				depH()
			}
		}
	case 's':
		encS(level)
		if casc != cascNone && x.v1 {
			d.hdr.SettingPayload = p.S.Data
			depH()
		}
	case 'h':
		encH(level)
		if casc != cascNone && !x.v1 {
			d.acl.SpaceId = p.H.Id
			depA()
			d.set.SpaceId, d.set.AclHeadId = p.H.Id, p.A.Id
			depS()
		}
	}
	return p
}

// id-string mutations of one part
func idMutations(id, otherId string) map[string]string {
	m := map[string]string{
		"empty":     "",
		"other":     otherId,
		"upper":     strings.ToUpper(id),
		"append0":   id + "0",
		"prepend":   "b" + id,
		"truncated": id[:len(id)-1],
		"space":     id + " ",
	}
	if len(id) > 10 {
		b := []byte(id)
		if b[9] == 'a' {
			b[9] = 'b'
		} else {
			b[9] = 'a'
		}
		m["char9"] = string(b)
	}
	if i := strings.IndexByte(id, '.'); i >= 0 {
		pre, suf := id[:i], id[i+1:]
		m["nodot"] = pre + suf
		m["nosuffix"] = pre + "."
		m["noprefix"] = "." + suf
		m["onlyprefix"] = pre
		m["onlydot"] = "."
		m["twodots"] = pre + ".." + suf
		m["suffix.x"] = id + ".x"
		m["suffix+0"] = pre + ".0" + suf
		m["suffixupper"] = pre + "." + strings.ToUpper(suf)
		m["suffixdecimal"] = pre + "." + func() string { v, _ := strconv.ParseUint(suf, 36, 64); return strconv.FormatUint(v, 10) }()
		m["suffix+1"] = pre + "." + func() string { v, _ := strconv.ParseUint(suf, 36, 64); return strconv.FormatUint(v+1, 36) }()
		if j := strings.IndexByte(otherId, '.'); j >= 0 {
			m["otherprefix"] = otherId[:j] + "." + suf
			m["othersuffix"] = pre + "." + otherId[j+1:]
		}
	}
	return m
}

func sortedKeys(m map[string]string) []string {
	ks := make([]string, 0, len(m))
	for k := range m {
		ks = append(ks, k)
	}
	sort.Strings(ks)
	return ks
}

// ------------------------------------------------------------------------------------ generators

func (e *emitter) genPristine(x *world, r *vlib.Rand, args bool) {
	name := ctorNames[x.ctor]
	if e.createT("pristine:"+name, x.p, true, x.term) != "VOk" {
		e.w.Stat("pristine-rejected")
	}
	if !args {
		return
	}
	own := pubBytes(x.sk)
	hd := decode(x.p).hdr
	otherKey := pubBytes(newKey(r))
	ids := [][]byte{nil, hd.Identity, otherKey, own}
	aargs := []optBytes{{Nil: true}, {Data: x.p.A.Data}, {Data: flip(x.p.A.Data, r)}, {Data: []byte{}}, {Data: x.p.S.Data}}
	sargs := []optBytes{{Nil: true}, {Data: x.p.S.Data}, {Data: flip(x.p.S.Data, r)}, {Data: []byte{}}}
	for ii, id := range ids {
		for ai, aa := range aargs {
			for si, sa := range sargs {
				// pristine = every supplied argument is the constructor's own value
				pr := (ii == 0 || ii == 1 || (ii == 3 && bytes.Equal(own, hd.Identity))) && ai <= 1 && si <= 1
				e.header(fmt.Sprintf("pristine-args:%s id%d acl%d set%d", name, ii, ai, si), x.p.H, id, aa, sa, pr)
			}
		}
	}
}

func (e *emitter) genFieldMutations(x, other *world, r *vlib.Rand, density int) {
	at := attacker{newKey(r), newKey(r)}
	for _, m := range fieldMutations() {
		for lv := lvStale; lv <= lvForeign; lv++ {
			for casc := cascNone; casc <= cascForeign; casc++ {
				if casc != cascNone && lv == lvStale {
					continue
				}
				if density < 100 && r.Intn(100) >= density {
					continue
				}
				p := applyField(x, other, m, lv, casc, at, r)
				name := fmt.Sprintf("field:%s %s %s on %s", m.name, lvNames[lv], cascNames[casc], ctorNames[x.ctor])
				e.create(name, p, false)
				if m.part == 'h' && r.Intn(3) == 0 {
					var id []byte
					switch r.Intn(3) {
					case 1:
						id = pubBytes(x.sk)
					case 2:
						id = pubBytes(at.sk)
					}
					e.header("field-header:"+name, p.H, id, optBytes{Data: p.A.Data}, optBytes{Data: p.S.Data}, false)
				}
			}
		}
	}
}

func (e *emitter) genIdMutations(x, other *world, r *vlib.Rand) {
	for _, k := range sortedKeys(idMutations(x.p.H.Id, other.p.H.Id)) {
		v := idMutations(x.p.H.Id, other.p.H.Id)[k]
		if v == x.p.H.Id {
			continue
		}
		p := x.p
		p.H.Id = v
		e.create("id:hdr "+k+" on "+ctorNames[x.ctor], p, false)
		e.header("id-header:hdr "+k+" on "+ctorNames[x.ctor], p.H, nil, optBytes{Nil: true}, optBytes{Nil: true}, false)
	}
	for _, k := range sortedKeys(idMutations(x.p.A.Id, other.p.A.Id)) {
		v := idMutations(x.p.A.Id, other.p.A.Id)[k]
		if v == x.p.A.Id {
			continue
		}
		p := x.p
		p.A.Id = v
		e.create("id:acl "+k+" on "+ctorNames[x.ctor], p, false)
	}
	for _, k := range sortedKeys(idMutations(x.p.S.Id, other.p.S.Id)) {
		v := idMutations(x.p.S.Id, other.p.S.Id)[k]
		if v == x.p.S.Id {
			continue
		}
		p := x.p
		p.S.Id = v
		e.create("id:set "+k+" on "+ctorNames[x.ctor], p, false)
	}
}

// single-bit flips at stride over the raw bytes of each part; with and without recomputing the id
func (e *emitter) genByteFlips(x *world, r *vlib.Rand, stride int) {
	hd := decode(x.p).hdr
	for pi, get := range []func(p *pay) *part{func(p *pay) *part { return &p.H }, func(p *pay) *part { return &p.A }, func(p *pay) *part { return &p.S }} {
		n := len(get(&x.p).Data)
		for off := r.Intn(stride); off < n; off += stride {
			for _, recid := range []bool{false, true} {
				p := x.p
				pt := get(&p)
				pt.Data = append([]byte{}, pt.Data...)
				pt.Data[off] ^= byte(1 << uint(r.Intn(8)))
				if recid {
					if pi == 0 {
						pt.Id = spaceIdOf(pt.Data, hd.ReplicationKey)
					} else {
						pt.Id = cidOf(pt.Data)
					}
				}
				name := fmt.Sprintf("byteflip:%s off=%d recid=%v on %s", []string{"hdr", "acl", "set"}[pi], off, recid, ctorNames[x.ctor])
				e.create(name, p, false)
				if pi == 0 {
					e.header("byteflip-header:"+name, p.H, nil, optBytes{Nil: true}, optBytes{Nil: true}, false)
				}
			}
		}
		// truncation and extension
		for _, cut := range []int{0, 1, n / 2, n - 1} {
			p := x.p
			pt := get(&p)
			pt.Data = append([]byte{}, pt.Data[:cut]...)
			if pi == 0 {
				pt.Id = spaceIdOf(pt.Data, hd.ReplicationKey)
			} else {
				pt.Id = cidOf(pt.Data)
			}
			e.create(fmt.Sprintf("truncate:%s to=%d on %s", []string{"hdr", "acl", "set"}[pi], cut, ctorNames[x.ctor]), p, false)
		}
	}
}

// parts (id+bytes) of two spaces mixed; fine = the six fields mixed independently
func (e *emitter) genSplices(x, y *world, fine bool, tag string) {
	if !fine {
		for mask := 1; mask < 7; mask++ {
			p := x.p
			if mask&1 != 0 {
				p.H = y.p.H
			}
			if mask&2 != 0 {
				p.A = y.p.A
			}
			if mask&4 != 0 {
				p.S = y.p.S
			}
			e.createT(fmt.Sprintf("splice%s:parts mask=%d %s x %s", tag, mask, ctorNames[x.ctor], ctorNames[y.ctor]), p, false,
				mixTerm(mask&1 == 0, mask&2 == 0, mask&4 == 0, x.term, y.term))
		}
		return
	}
	for mask := 1; mask < 63; mask++ {
		p := x.p
		if mask&1 != 0 {
			p.H.Id = y.p.H.Id
		}
		if mask&2 != 0 {
			p.H.Data = y.p.H.Data
		}
		if mask&4 != 0 {
			p.A.Id = y.p.A.Id
		}
		if mask&8 != 0 {
			p.A.Data = y.p.A.Data
		}
		if mask&16 != 0 {
			p.S.Id = y.p.S.Id
		}
		if mask&32 != 0 {
			p.S.Data = y.p.S.Data
		}
		if (mask&3 == 0 || mask&3 == 3) && (mask&12 == 0 || mask&12 == 12) && (mask&48 == 0 || mask&48 == 48) {
			continue // part-level mixes are generated separately
		}
		e.createT(fmt.Sprintf("splice-fine%s:mask=%d %s x %s", tag, mask, ctorNames[x.ctor], ctorNames[y.ctor]), p, false, fineTerm(mask, x.term, y.term))
	}
}

// the adversary keeps the header and fabricates both roots with its own keys, naming the victim's space
func (e *emitter) genForeignRoots(x *world, r *vlib.Rand) {
	at := attacker{newKey(r), newKey(r)}
	for variant := 0; variant < 3; variant++ {
		d := decode(x.p)
		p := x.p
		acl := &aclrecordproto.AclRoot{SpaceId: x.p.H.Id}
		if variant == 2 {
			acl = d.acl // keep every other field of the original root
		}
		at.ownAcl(acl)
		p.A.Data = sealA(acl, nil, at.sk)
		p.A.Id = cidOf(p.A.Data)
		set := &treechangeproto.RootChange{AclHeadId: p.A.Id, SpaceId: x.p.H.Id, ChangeType: spacepayloads.SpaceReserved, Identity: pubBytes(at.sk), Seed: randBytes(r, 8)}
		if variant == 1 {
			// only the settings root is replaced (it cites the genuine acl root)
			p.A = x.p.A
			set.AclHeadId = x.p.A.Id
		}
		p.S.Data = sealS(set, nil, at.sk)
		p.S.Id = cidOf(p.S.Data)
		ft := ""
		if variant < 2 {
			ft = forgeTerm(variant, x.term, at)
		}
		obs := e.createT(fmt.Sprintf("foreign-roots:variant=%d on %s", variant, ctorNames[x.ctor]), p, false, ft)
		if obs == "VOk" {
			e.w.Stat(fmt.Sprintf("foreign-roots-accepted/v1=%v", x.v1))
		}
	}
}

// absent sub-messages, nil slices, garbage, cross-kind bytes
func (e *emitter) genHostile(x, y *world, r *vlib.Rand) {
	n := ctorNames[x.ctor]
	for mask := 1; mask < 8; mask++ {
		p := x.p
		if mask&1 != 0 {
			p.H = part{Nil: true}
		}
		if mask&2 != 0 {
			p.A = part{Nil: true}
		}
		if mask&4 != 0 {
			p.S = part{Nil: true}
		}
		e.create(fmt.Sprintf("hostile:nil-parts mask=%d on %s", mask, n), p, false)
	}
	e.header("hostile-header:nil header", part{Nil: true}, nil, optBytes{Nil: true}, optBytes{Nil: true}, false)
	for pi := 0; pi < 3; pi++ {
		get := func(p *pay) *part { return []*part{&p.H, &p.A, &p.S}[pi] }
		pn := []string{"hdr", "acl", "set"}[pi]
		// nil / empty data, with the stale id and with the id of the empty string
		for _, dn := range []bool{true, false} {
			for _, reid := range []bool{false, true} {
				p := x.p
				pt := get(&p)
				pt.Data, pt.DNil = nil, dn
				if reid {
					pt.Id = cidOf(nil)
					if pi == 0 {
						pt.Id += ".0"
					}
				}
				e.create(fmt.Sprintf("hostile:%s data nil=%v reid=%v on %s", pn, dn, reid, n), p, false)
			}
		}
		// garbage bytes with a matching id
		for _, ln := range []int{1, 7, 64, 300} {
			p := x.p
			pt := get(&p)
			pt.Data = randBytes(r, ln)
			pt.Id = cidOf(pt.Data)
			if pi == 0 {
				pt.Id += "." + strconv.FormatUint(r.U64(), 36)
			}
			e.create(fmt.Sprintf("hostile:%s garbage len=%d on %s", pn, ln, n), p, false)
			if pi == 0 {
				e.header("hostile-header:garbage", p.H, nil, optBytes{Nil: true}, optBytes{Nil: true}, false)
			}
		}
		// bytes of another kind in this slot, with a matching id
		srcs := []part{x.p.H, x.p.A, x.p.S, y.p.H, y.p.A, y.p.S}
		for si, src := range srcs {
			if si%3 == pi && si < 3 {
				continue
			}
			p := x.p
			pt := get(&p)
			pt.Data = src.Data
			pt.Id = cidOf(pt.Data)
			if pi == 0 {
				pt.Id += ".0"
			}
			e.create(fmt.Sprintf("hostile:%s holds slot%d bytes on %s", pn, si, n), p, false)
		}
	}
	// ids that are not ids
	for _, id := range []string{"", ".", "..", "a", "a.b.c", strings.Repeat("z", 5000), "\x00.\x00", "é.ü", x.p.A.Id, x.p.A.Id + "." + "0"} {
		p := x.p
		p.H.Id = id
		e.create(fmt.Sprintf("hostile:hdr id=%q on %s", trunc(id), n), p, false)
		e.header(fmt.Sprintf("hostile-header:id=%q", trunc(id)), p.H, nil, optBytes{Nil: true}, optBytes{Nil: true}, false)
	}
}

func trunc(s string) string {
	if len(s) > 24 {
		return s[:24] + "…"
	}
	return s
}

// one-to-one derivation by both parties and by a third pair
func (e *emitter) genOto(r *vlib.Rand) {
	ks := []crypto.PrivKey{newKey(r), newKey(r), newKey(r)}
	for _, t := range []string{otoTypeA, otoTypeB} {
		e.oto("oto:"+t, ks, t)
	}
}

func (e *emitter) oto(name string, ks []crypto.PrivKey, t string) {
	// number the keys in the byte order of their marshalled public keys
	order := []int{0, 1, 2}
	sort.Slice(order, func(i, j int) bool { return bytes.Compare(pubBytes(ks[order[i]]), pubBytes(ks[order[j]])) < 0 })
	num := make([]uint64, 3)
	for rank, i := range order {
		num[i] = uint64(rank + 1)
		for j := 0; j < rank; j++ { // equal keys get equal numbers
			if bytes.Equal(pubBytes(ks[order[j]]), pubBytes(ks[i])) {
				num[i] = num[order[j]]
				break
			}
		}
	}
	in := newInterner()
	out := func(a, b crypto.PrivKey) (string, pay) {
		res, err := spacepayloads.StoragePayloadForOneToOneSpaceWithType(a, b.GetPublic(), t)
		must(err)
		p := fromReal(res)
		return "(" + strings.Join([]string{in.s(p.H.Id), in.a(p.H.Data), in.s(p.A.Id), in.a(p.A.Data), in.s(p.S.Id), in.a(p.S.Data)}, ", ") + ")", p
	}
	ab, pab := out(ks[0], ks[1])
	ba, pba := out(ks[1], ks[0])
	ac, pac := out(ks[0], ks[2])
	st := uint64(1)
	if t == otoTypeB {
		st = 2
	}
	term := vlib.App("COto", vlib.N(num[0]), vlib.N(num[1]), vlib.N(num[2]), vlib.N(st), ab, ba, ac)
	raws := make([][]byte, 3)
	for i, k := range ks {
		raws[i], _ = k.Raw()
	}
	obs := fmt.Sprintf("ab=ba:%v ab=ac:%v", pab.H.Id == pba.H.Id, pab.H.Id == pac.H.Id)
	e.w.Add(term, otoDesc{Kind: "oto", Name: name, Keys: raws, Type: t, Obs: obs}, "oto|"+term, true)
	e.w.Stat("oto/" + t + "/" + obs)
	if len(e.samples) < 5 {
		e.samples = append(e.samples, map[string]interface{}{"name": name, "observed": obs, "coq": term})
	}
	// the derived owner key is the identity of all three parts and opens the ACL: checked by the validators
	e.create("pristine:oto(a,B) "+t, pab, true)
	e.create("pristine:oto(b,A) "+t, pba, true)
	// parts of the two parties' payloads are interchangeable, parts of a third pair's are not
	e.create("splice:oto hdr(a,B)+roots(b,A) "+t, pay{H: pab.H, A: pba.A, S: pba.S}, true)
	e.create("splice:oto hdr(a,B)+roots(a,C) "+t, pay{H: pab.H, A: pac.A, S: pac.S}, false)
	e.create("splice:oto hdr(a,C)+acl(a,B) "+t, pay{H: pac.H, A: pab.A, S: pac.S}, false)
}

// ------------------------------------------------------------------------------------ replay

func (e *emitter) replay(raw json.RawMessage) {
	var k struct {
		Kind string `json:"kind"`
	}
	must(json.Unmarshal(raw, &k))
	switch k.Kind {
	case "create":
		var d createDesc
		must(json.Unmarshal(raw, &d))
		e.createT(d.Name, pay{d.H, d.A, d.S}, d.Pristine, d.Term)
	case "header":
		var d headerDesc
		must(json.Unmarshal(raw, &d))
		e.header(d.Name, d.H, d.Identity, d.AclArg, d.SetArg, d.Pristine)
	case "oto":
		var d otoDesc
		must(json.Unmarshal(raw, &d))
		ks := make([]crypto.PrivKey, len(d.Keys))
		for i, b := range d.Keys {
			ks[i] = crypto.NewEd25519PrivKey(b)
		}
		e.oto(d.Name, ks, d.Type)
	case "conc":
		e.replayConc(raw)
	}
}

var _ = base64.StdEncoding

// ------------------------------------------------------------------------------------ main

func main() {
	vlib.Quiet()
	o := vlib.ParseFlags()
	w := vlib.NewWriter(o.Out, "C13_run", 400)
	e := &emitter{w: w, termOn: true}
	if o.Replay != "" {
		for _, raw := range vlib.ReadReplay(o.Replay) {
			e.replay(raw)
		}
		w.Finish("replay", e.samples, nil)
		return
	}
	root := vlib.NewRand(o.Seed)
	rounds := 1
	density := 45
	stride := 41
	fineEvery := 9
	otos := 12
	if o.Tier == "thorough" {
		rounds, density, stride, fineEvery, otos = 6, 100, 7, 2, 150
	}
	rounds *= o.Budget
	otos *= o.Budget
	for round := 0; round < rounds; round++ {
		r := root.Fork(uint64(round))
		worlds := make([]world, 6)
		for c := range worlds {
			worlds[c] = mkWorld(r, c, nil, nil, "")
		}
		// a second family owned by ONE key pair: spaces of the same owner share keys (and, for derive v1 with
		// the same keys, byte-identical roots)
		sk, mk := newKey(r), newKey(r)
		same := []world{mkWorld(r, 0, sk, mk, "s0"), mkWorld(r, 1, sk, mk, "s1"), mkWorld(r, 2, sk, mk, "s2"),
			mkWorld(r, 3, sk, mk, "s3"), mkWorld(r, 2, sk, mk, "s2b"), mkWorld(r, 3, sk, mk, "s3b"), mkWorld(r, 0, sk, mk, "s0"), mkWorld(r, 1, sk, mk, "s1")}
		for c := range worlds {
			x := &worlds[c]
			other := &worlds[(c+1+r.Intn(5))%6]
			e.genPristine(x, r, true)
			e.genFieldMutations(x, other, r, density)
			e.genIdMutations(x, other, r)
			e.genByteFlips(x, r, stride)
			e.genForeignRoots(x, r)
			e.genHostile(x, other, r)
		}
		k := 0
		for i := range worlds {
			for j := range worlds {
				if i == j {
					continue
				}
				e.genSplices(&worlds[i], &worlds[j], false, "")
				if k%fineEvery == 0 {
					e.genSplices(&worlds[i], &worlds[j], true, "")
				}
				k++
			}
		}
		for i := range same {
			e.genPristine(&same[i], r, o.Tier == "thorough")
			for j := range same {
				if i != j {
					e.genSplices(&same[i], &same[j], false, "-sameowner")
					if k%fineEvery == 0 {
						e.genSplices(&same[i], &same[j], true, "-sameowner")
					}
					k++
				}
			}
		}
	}
	ro := root.Fork(1 << 40)
	for i := 0; i < otos; i++ {
		e.genOto(ro)
	}
	// overlapping derivations (conc.go)
	scale := o.Budget
	if o.Tier == "thorough" {
		scale *= 6
	}
	e.genConc(root.Fork(1<<41), scale)
	w.Finish("every case counts once per distinct (validator, view, observed verdict): the view is the decoded payload with "+
		"byte strings replaced by per-case numbers, i.e. its flag and equality structure; repeated structures are not counted again",
		e.samples, nil)
}

// term emission (structured description of the same payload as a symbolic term) — see term.go
