// Overlapping one-to-one derivations: account A derives its one-to-one spaces / shared keys for several contacts
// on several goroutines of ONE process at the same time; every result is compared with what the contact derives
// alone, sequentially, from its own private key (and with what every OTHER contact derives).
//
// Schedule families:
//
//	free     — W goroutines run R rounds each without coordination (W up to 4 x GOMAXPROCS: OS / runtime
//	           preemption inside a derivation happens on its own);
//	lockstep — A's private key is handed to the code under test wrapped in a key whose every method first meets
//	           the other workers at a spin barrier: the calls in flight touch A's key at the same points, so they
//	           leave the last such point (aPrivKey.GetPublic() right before HKDF + SLIP-21) within a fraction of
//	           a microsecond of each other and run the derivation proper side by side.  The barrier is soft
//	           (bounded wait), so machine load degrades it to `free`, never to a hang.
//
// Observation = the set of DISTINCT results per contact (a pure derivation has exactly one); the Coq case CConc
// carries them with the contacts' own derivations, spec_C13_conc decides.  A worker that panics or a stage that
// does not finish is reported directly.
package main

import (
	"bytes"
	"encoding/json"
	"fmt"
	"runtime"
	"sort"
	"strings"
	"sync"
	"sync/atomic"
	"time"

	"github.com/anyproto/any-sync/commonspace/spacepayloads"
	"github.com/anyproto/any-sync/util/crypto"

	"verifharness/vlib"
)

// ------------------------------------------------------------------------------------ soft spin barrier

type gate struct {
	n       atomic.Int32 // workers still running
	arrived atomic.Int32
	gen     atomic.Uint32
	yield   bool // more workers than Ps: spin with Gosched
	timeout time.Duration
}

func (g *gate) wait() {
	if g == nil {
		return
	}
	gen := g.gen.Load()
	if g.arrived.Add(1) >= g.n.Load() {
		// everybody else spins on gen: reset the count first, then release
		g.arrived.Store(0)
		g.gen.CompareAndSwap(gen, gen+1)
		return
	}
	var deadline time.Time
	for i := 1; g.gen.Load() == gen; i++ {
		if g.yield {
			runtime.Gosched()
		}
		if i%256 == 0 {
			now := time.Now()
			if deadline.IsZero() {
				deadline = now.Add(g.timeout)
			} else if now.After(deadline) || g.arrived.Load() >= g.n.Load() {
				// give up waiting for the absent ones: release everybody who is here
				if g.gen.Load() == gen {
					g.arrived.Store(0)
					g.gen.CompareAndSwap(gen, gen+1)
				}
				return
			}
		}
	}
}

func (g *gate) leave() {
	if g != nil {
		g.n.Add(-1)
	}
}

// gatedKey is A's private key as seen by the code under test: the same key, every method call is a meeting point
type gatedKey struct {
	crypto.PrivKey
	g *gate
}

func (k gatedKey) Raw() ([]byte, error)             { k.g.wait(); return k.PrivKey.Raw() }
func (k gatedKey) GetPublic() crypto.PubKey         { k.g.wait(); return k.PrivKey.GetPublic() }
func (k gatedKey) Sign(m []byte) ([]byte, error)    { k.g.wait(); return k.PrivKey.Sign(m) }
func (k gatedKey) Decrypt(m []byte) ([]byte, error) { k.g.wait(); return k.PrivKey.Decrypt(m) }
func (k gatedKey) Marshall() ([]byte, error)        { k.g.wait(); return k.PrivKey.Marshall() }
func (k gatedKey) Equals(o crypto.Key) bool         { return k.PrivKey.Equals(o) }

// ------------------------------------------------------------------------------------ the two derivations

var otoPaths = []string{crypto.AnysyncOneToOneSpacePath, crypto.AnysyncReadOneToOneSpacePath, crypto.AnysyncMetadataOneToOnePath}

// derive returns the observable fields of one derivation by `me` for the peer `other`
//
//	payload: space id, raw header, acl id, acl payload, settings id, settings payload
//	keys:    raw public key of GenerateSharedKey for the three one-to-one paths
func deriveFields(op string, me crypto.PrivKey, other crypto.PubKey, spaceType string) (fields [][]byte, err error) {
	switch op {
	case "payload":
		res, e := spacepayloads.StoragePayloadForOneToOneSpaceWithType(me, other, spaceType)
		if e != nil {
			return nil, e
		}
		p := fromReal(res)
		return [][]byte{[]byte(p.H.Id), p.H.Data, []byte(p.A.Id), p.A.Data, []byte(p.S.Id), p.S.Data}, nil
	case "keys":
		for _, path := range otoPaths {
			k, e := crypto.GenerateSharedKey(me, other, path)
			if e != nil {
				return nil, e
			}
			raw, e := k.GetPublic().Raw()
			if e != nil {
				return nil, e
			}
			fields = append(fields, raw)
		}
		return fields, nil
	}
	panic("harness: unknown conc op " + op)
}

func showField(op string, b []byte) string {
	if op == "keys" {
		if len(b) > 8 {
			b = b[:8]
		}
		return fmt.Sprintf("pubkey %x…", b)
	}
	return trunc(string(b))
}

func fieldsKey(f [][]byte) string {
	var b strings.Builder
	for _, x := range f {
		fmt.Fprintf(&b, "%d:", len(x))
		b.Write(x)
	}
	return b.String()
}

// ------------------------------------------------------------------------------------ one stage = one case

type concDesc struct {
	Kind     string   `json:"kind"`
	Name     string   `json:"name"`
	Op       string   `json:"op"`       // payload | keys
	Mode     string   `json:"mode"`     // free | lockstep
	A        []byte   `json:"a"`        // raw private key of the deriving account
	Contacts [][]byte `json:"contacts"` // raw private keys of the contacts
	Type     string   `json:"type"`
	Workers  int      `json:"workers"` // worker g derives for contact g % len(contacts)
	Rounds   int      `json:"rounds"`
	Total    int      `json:"total"`
	Wrong    int      `json:"wrong"` // results that differ from the contact's own derivation
	Errors   int      `json:"errors"`
	Obs      string   `json:"obs"`
	First    string   `json:"first,omitempty"`
}

const concKeepWrong = 3 // distinct wrong results per contact carried into the Coq case

type concResult struct {
	fields [][]byte
	isErr  bool
	count  int
}

func (e *emitter) conc(name, op, mode string, a crypto.PrivKey, contacts []crypto.PrivKey, spaceType string, workers, rounds int) {
	n := len(contacts)
	// key numbers in the byte order of the marshalled public keys (a and the contacts)
	all := append([]crypto.PrivKey{a}, contacts...)
	order := make([]int, len(all))
	for i := range order {
		order[i] = i
	}
	sort.Slice(order, func(i, j int) bool { return bytes.Compare(pubBytes(all[order[i]]), pubBytes(all[order[j]])) < 0 })
	num := make([]uint64, len(all))
	for rank, i := range order {
		num[i] = uint64(rank + 1)
		if rank > 0 && bytes.Equal(pubBytes(all[order[rank-1]]), pubBytes(all[i])) {
			num[i] = num[order[rank-1]]
		}
	}

	// the contacts' side: alone, one after another
	expected := make([][][]byte, n)
	expKey := make([]string, n)
	for i, b := range contacts {
		f, err := deriveFields(op, b, a.GetPublic(), spaceType)
		must(err)
		expected[i], expKey[i] = f, fieldsKey(f)
	}
	// A's side
	distinct := make([]map[string]*concResult, n)
	for i := range distinct {
		distinct[i] = map[string]*concResult{}
	}
	var mu sync.Mutex
	record := func(i int, f [][]byte, err error) {
		k := fieldsKey(f)
		if err != nil {
			k = "error"
		}
		mu.Lock()
		r := distinct[i][k]
		if r == nil {
			r = &concResult{fields: f, isErr: err != nil}
			distinct[i][k] = r
		}
		r.count++
		mu.Unlock()
	}
	// sequential first (what any single-threaded use sees)
	for i, b := range contacts {
		f, err := deriveFields(op, a, b.GetPublic(), spaceType)
		record(i, f, err)
	}
	// overlapping
	var g *gate
	if mode == "lockstep" {
		g = &gate{yield: workers > runtime.GOMAXPROCS(0), timeout: 500 * time.Microsecond}
		g.n.Store(int32(workers))
	}
	start := make(chan struct{})
	var wg sync.WaitGroup
	var panics atomic.Int32
	var firstPanic atomic.Value
	for w := 0; w < workers; w++ {
		wg.Add(1)
		go func(w int) {
			defer wg.Done()
			defer g.leave()
			defer func() {
				if r := recover(); r != nil {
					panics.Add(1)
					firstPanic.CompareAndSwap(nil, fmt.Sprint(r))
				}
			}()
			i := w % n
			var me crypto.PrivKey = a
			if g != nil {
				me = gatedKey{a, g}
			}
			other := contacts[i].GetPublic()
			local := map[string]*concResult{}
			<-start
			for r := 0; r < rounds; r++ {
				f, err := deriveFields(op, me, other, spaceType)
				k := "error"
				if err == nil {
					k = fieldsKey(f)
				}
				lr := local[k]
				if lr == nil {
					lr = &concResult{fields: f, isErr: err != nil}
					local[k] = lr
				}
				lr.count++
			}
			mu.Lock()
			for k, lr := range local {
				r := distinct[i][k]
				if r == nil {
					distinct[i][k] = lr
				} else {
					r.count += lr.count
				}
			}
			mu.Unlock()
		}(w)
	}
	done := make(chan struct{})
	go func() { wg.Wait(); close(done) }()
	close(start)
	hung := false
	select {
	case <-done:
	case <-time.After(180 * time.Second):
		hung = true
	}

	// the case
	in := newInterner()
	flds := func(f [][]byte) string {
		items := make([]string, len(f))
		for j, x := range f {
			items[j] = in.a(x)
		}
		return vlib.List(items)
	}
	cs := make([]string, n)
	for i := range contacts {
		cs[i] = vlib.Pair(vlib.N(num[i+1]), flds(expected[i]))
	}
	var obs []string
	total, wrong, errs := 0, 0, 0
	first := ""
	mu.Lock()
	for i := range contacts {
		keys := make([]string, 0, len(distinct[i]))
		for k := range distinct[i] {
			keys = append(keys, k)
		}
		sort.Strings(keys)
		kept := 0
		for _, k := range keys {
			r := distinct[i][k]
			total += r.count
			if k == expKey[i] {
				obs = append(obs, vlib.Pair(vlib.N(num[i+1]), flds(r.fields)))
				continue
			}
			wrong += r.count
			if r.isErr {
				errs += r.count
			}
			if kept < concKeepWrong {
				kept++
				obs = append(obs, vlib.Pair(vlib.N(num[i+1]), flds(r.fields)))
				if first == "" {
					if r.isErr {
						first = fmt.Sprintf("contact %d: derivation returned an error", i)
					} else {
						first = fmt.Sprintf("contact %d: A derived %s, the contact derived %s (field 0)", i, showField(op, r.fields[0]), showField(op, expected[i][0]))
						for j := range contacts {
							if j != i && k == expKey[j] {
								first += fmt.Sprintf(" = what contact %d derived", j)
							}
						}
					}
				}
			}
		}
	}
	mu.Unlock()
	kind, st := uint64(0), uint64(1)
	if op == "keys" {
		kind = 1
	}
	if spaceType == otoTypeB {
		st = 2
	}
	term := vlib.App("CConc", vlib.N(kind), vlib.N(num[0]), vlib.N(st), vlib.List(cs), vlib.List(obs))
	summary := "all-agree"
	if wrong > 0 {
		summary = "disagree"
	}
	raws := make([][]byte, n)
	for i, k := range contacts {
		raws[i], _ = k.Raw()
	}
	araw, _ := a.Raw()
	d := concDesc{Kind: "conc", Name: name, Op: op, Mode: mode, A: araw, Contacts: raws, Type: spaceType, Workers: workers, Rounds: rounds,
		Total: total, Wrong: wrong, Errors: errs, Obs: summary, First: first}
	idx := e.w.Add(term, d, fmt.Sprintf("conc|%s|%s|w=%d|n=%d|%s|%s", op, mode, workers, n, spaceType, summary), true)
	e.w.Stat(fmt.Sprintf("conc/%s/%s/%s", op, mode, summary))
	e.w.Stats["conc-derivations"] += total
	if len(e.samples) < 6 && op == "keys" {
		e.samples = append(e.samples, map[string]interface{}{"name": name, "observed": summary, "coq": term})
	}
	if hung {
		e.w.Violation(idx, "C13-conc-hang", fmt.Sprintf("%s: overlapping derivations did not finish within 180 s", name), d)
	}
	if p := panics.Load(); p > 0 {
		e.w.Violation(idx, "C13-conc-panic", fmt.Sprintf("%s: %d workers panicked, first: %v", name, p, firstPanic.Load()), d)
	}
}

// shapes: (mode, workers, contacts); workers > contacts puts several goroutines on the SAME pair
type concShape struct {
	mode    string
	workers int
	n       int
}

func concShapes() []concShape {
	p := runtime.GOMAXPROCS(0)
	return []concShape{
		{"lockstep", 2, 2}, {"lockstep", 4, 4}, {"lockstep", 8, 8}, {"lockstep", 4, 2},
		{"free", 2, 2}, {"free", p, 8}, {"free", 4 * p, 8},
	}
}

func (e *emitter) genConc(r *vlib.Rand, scale int) {
	for si, sh := range concShapes() {
		for _, op := range []string{"keys", "payload"} {
			a := newKey(r)
			contacts := make([]crypto.PrivKey, sh.n)
			for i := range contacts {
				contacts[i] = newKey(r)
			}
			t := otoTypeA
			if (si+len(op))%2 == 0 {
				t = otoTypeB
			}
			// about the same number of derivations per stage whatever the shape
			calls := 1600 * scale
			if op == "payload" {
				calls = 1200 * scale
			}
			rounds := calls / sh.workers
			if rounds < 4 {
				rounds = 4
			}
			e.conc(fmt.Sprintf("conc:%s %s w=%d n=%d", op, sh.mode, sh.workers, sh.n), op, sh.mode, a, contacts, t, sh.workers, rounds)
		}
	}
}

func (e *emitter) replayConc(raw json.RawMessage) {
	var d concDesc
	must(json.Unmarshal(raw, &d))
	cs := make([]crypto.PrivKey, len(d.Contacts))
	for i, b := range d.Contacts {
		cs[i] = crypto.NewEd25519PrivKey(b)
	}
	e.conc(d.Name, d.Op, d.Mode, crypto.NewEd25519PrivKey(d.A), cs, d.Type, d.Workers, d.Rounds)
}
