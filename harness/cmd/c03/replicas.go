package main

// Phase 2: the history is delivered to the replicas A, B, C, D, D', E and compared.

import (
	"fmt"
	"os"
	"path/filepath"
	"sort"

	anystore "github.com/anyproto/any-store"

	"github.com/anyproto/any-sync/commonspace/headsync/headstorage"
	"github.com/anyproto/any-sync/commonspace/object/acl/list"

	"verifharness/cmd/c04/aclh"
)

// share of the history positions at which the reference replica is offered an id alias of the next record
var aliasNum, aliasDen = 1, 2

func (h *hist) cloneOf(rp *replica, name string) *replica {
	cp := rp.st.(interface{ Copy() list.Storage }).Copy()
	c, err := h.build(name, rp.me, rp.v, cp, rp.pos)
	if err != nil {
		d := h.desc("build", name, rp.pos)
		d.Obs = err.Error()
		h.w.Violation(h.w.Count(), "rebuild-failed", fmt.Sprintf("rebuilding %s from a copy of its storage failed: %v", rp.name, err), d)
		return nil
	}
	return c
}

func (h *hist) memberIdentity() int {
	var c []int
	for a := range h.everMember {
		c = append(c, a)
	}
	sort.Ints(c)
	if len(c) > 1 && h.r.Chance(3, 4) {
		// prefer an account that is not the root's author
		var d []int
		for _, a := range c {
			if a != h.owner {
				d = append(d, a)
			}
		}
		c = d
	}
	return c[h.r.Intn(len(c))]
}

func (h *hist) someIdentity() int {
	if h.r.Bool() {
		return aclh.Observer
	}
	return h.memberIdentity()
}

func (h *hist) unexpected(rp *replica, what string, i int, res string) {
	d := h.desc("add", rp.name, i)
	d.Rec, d.Obs, d.Me = h.recs[i].kind, res, rp.me
	h.w.Violation(h.w.Count(), "history-record-not-accepted", fmt.Sprintf("%s: replica %s (me=%d v=%v) answered %s to history record %d (%s)", what, rp.name, rp.me, rp.v, res, i, h.recs[i].kind), d)
	h.w.Stat("history_record_not_accepted_" + rp.name)
}

// feed delivers history records [rp.pos, upto) one by one, emitting a sample of the deliveries.
func (h *hist) feed(rp *replica, upto int, p, q int) bool {
	for i := rp.pos; i < upto; i++ {
		res := h.add(rp, h.recs[i].raw, h.recs[i].kind, "", h.r.Chance(p, q), h.recs[i].nc)
		if res != "OAccepted" {
			h.unexpected(rp, "feed", i, res)
			return false
		}
	}
	return true
}

func (h *hist) addRecords(rp *replica, recs []*RawRec) (err error) {
	defer func() {
		if p := recover(); p != nil {
			err = fmt.Errorf("PANIC: %v", p)
			h.w.Violation(h.w.Count(), "panic", fmt.Sprintf("AddRawRecords panicked on %s: %v", rp.name, p), h.desc("addrecords", rp.name, rp.pos))
		}
	}()
	err = rp.l.AddRawRecords(recs)
	rp.pos = len(rp.l.Records()) - 1
	return
}

func (h *hist) replicas() {
	n := len(h.recs)
	if n == 0 {
		h.w.Stat("empty_history")
		return
	}
	r := h.r
	w := h.w
	w.Stat(fmt.Sprintf("history_len_%02d", n))

	// ---------------------------------------------------------------- A: reference, one by one, with mutations
	A, err := h.newMem("A", aclh.Observer, true, 0)
	if err != nil {
		panic(err)
	}
	h.snaps[aclh.Observer] = []aclh.State{h.W.Dump(A.l.AclState())}
	for i := 0; i <= n; i++ {
		for r.Chance(1, 3) {
			kind := commonMuts[r.Intn(len(commonMuts))]
			m := h.mutate(kind, i, r)
			if m == nil {
				continue
			}
			rk := ""
			if i < n {
				rk = h.recs[i].kind
			}
			h.add(A, m, rk, kind, true, 0)
			if A.forked {
				break
			}
		}
		if A.forked {
			break
		}
		for _, bad := range h.invalid[i] {
			if c := h.cloneOf(A, "Aclone"); c != nil {
				h.add(c, bad.raw, bad.kind, "invalid", true, 0)
			}
		}
		if i == n {
			break
		}
		if r.Chance(aliasNum, aliasDen) {
			// the next record under an alias of its id (other multibase / codec / CID version / case / padding of the same
			// digest), at every position of the history; the genuine record follows (catch-up)
			if m := h.mutate("cid_alias", i, r); m != nil {
				h.add(A, m, h.recs[i].kind, "cid_alias", true, 0)
				if A.forked {
					break
				}
			}
		}
		if r.Chance(1, 15) {
			// malleability probe on a clone: AcceptorTimestamp is not covered by any signature
			if c := h.cloneOf(A, "Aclone"); c != nil {
				h.add(c, h.mutate("acc_timestamp_new_id", i, r), h.recs[i].kind, "acc_timestamp_new_id", true, 0)
			}
		}
		res := h.add(A, h.recs[i].raw, h.recs[i].kind, "", true, h.recs[i].nc)
		if res != "OAccepted" {
			h.unexpected(A, "reference", i, res)
			return
		}
		h.snaps[aclh.Observer] = append(h.snaps[aclh.Observer], h.W.Dump(A.l.AclState()))
	}
	if A.forked {
		w.Stat("A_forked")
		return
	}
	h.fold(A)

	// ---------------------------------------------------------------- B: batched AddRawRecords (route 1)
	B, err := h.newMem("B", aclh.Observer, true, 0)
	if err != nil {
		panic(err)
	}
	all := h.prefix(n) // all[0] = root, all[k] = recs[k-1]
	for B.pos < n {
		start := B.pos + 1
		if back := r.Intn(4); back > 0 { // overlap with records B already has (possibly the root)
			start -= back
			if start < 0 {
				start = 0
			}
			w.Stat("route1_chunk_with_known_records")
		}
		end := B.pos + 1 + 1 + r.Intn(5)
		if end > n+1 {
			end = n + 1
		}
		before := B.pos
		if err := h.addRecords(B, all[start:end]); err != nil || B.pos != end-1 {
			d := h.desc("addrecords", "B", before)
			d.Obs = fmt.Sprintf("chunk [%d,%d) -> err %v, pos %d", start, end, err, B.pos)
			w.Violation(w.Count(), "batch-not-accepted", "AddRawRecords did not accept a chunk of the history: "+d.Obs, d)
			break
		}
		w.Stat("route1_chunks")
		if r.Chance(1, 4) || B.pos == n {
			h.sameAt(1, B, B.pos)
		}
	}

	// ---------------------------------------------------------------- C: non-validating, acceptor check, partial decode (route 2)
	cid := aclh.Observer
	if r.Chance(4, 5) {
		cid = h.memberIdentity()
	}
	C, err := h.newMem("C", cid, false, 0)
	if err != nil {
		panic(err)
	}
	okC := true
	for i := 0; i < n && okC; i++ {
		if r.Chance(1, 3) {
			kind := acceptorMuts[r.Intn(len(acceptorMuts))]
			if r.Chance(1, 4) {
				kind = commonMuts[r.Intn(len(commonMuts))]
			}
			if m := h.mutate(kind, i, r); m != nil {
				h.add(C, m, h.recs[i].kind, kind, true, 0)
			}
			if C.forked {
				w.Stat("C_forked")
				okC = false
				break
			}
		}
		if r.Chance(1, 25) {
			if c := h.cloneOf(C, "Cclone"); c != nil {
				h.add(c, h.mutate("acc_timestamp_new_id", i, r), h.recs[i].kind, "acc_timestamp_new_id", true, 0)
			}
		}
		res := h.add(C, h.recs[i].raw, h.recs[i].kind, "", r.Chance(1, 3), h.recs[i].nc)
		if res != "OAccepted" {
			h.unexpected(C, "non-validating", i, res)
			okC = false
			break
		}
		if r.Chance(1, 8) {
			h.sameAt(2, C, C.pos)
		}
	}
	if okC {
		h.sameAt(2, C, n)
		h.fold(C)
	}

	// ---------------------------------------------------------------- D: rebuilt from in-memory storage at a prefix (route 3)
	{
		k := r.Intn(n + 1)
		id := h.someIdentity()
		v := !r.Chance(1, 3)
		D, err := h.newMem("D", id, v, k)
		if err != nil {
			d := h.desc("build", "D", k)
			d.Obs, d.Me = err.Error(), id
			w.Violation(w.Count(), "rebuild-failed", fmt.Sprintf("BuildAclListWithIdentity(me=%d, v=%v) over in-memory storage with the first %d records failed: %v", id, v, k, err), d)
		} else {
			w.Stat(fmt.Sprintf("route3_rebuild_v_%v", v))
			h.sameAt(3, D, k)
			if h.feed(D, n, 1, 4) {
				h.sameAt(3, D, n)
				if r.Chance(1, 3) {
					h.fold(D)
				}
			}
		}
	}

	// ---------------------------------------------------------------- D': any-store storage, closed and reopened (route 4)
	var Dany *replica
	if db2 := h.anyStoreReplica(&Dany); db2 != nil {
		defer db2.Close()
	}

	// ---------------------------------------------------------------- E: catch-up through RecordsAfter (route 5)
	for _, srv := range []*replica{A, Dany} {
		if srv == nil || srv.pos != n {
			continue
		}
		kindName := "inmemory"
		if srv == Dany {
			kindName = "anystore"
		}
		k := r.Intn(n + 1)
		if r.Chance(1, 8) {
			k = 0
		}
		id := h.someIdentity()
		E, err := h.newMem("E_"+kindName, id, true, k)
		if err != nil {
			continue
		}
		served, err := srv.l.RecordsAfter(ctx, E.l.Head().Id)
		what := "other"
		switch {
		case len(served) == 0:
			what = "NOTHING"
		case len(served) == n+1 && served[0].Id == all[0].Id:
			what = "whole_log_incl_root"
		case k >= 1 && len(served) == n+2-k && served[0].Id == all[k-1].Id:
			what = "from_predecessor_of_head"
		case len(served) == n+1-k && served[0].Id == all[k].Id:
			what = "from_head_itself"
		case len(served) == n-k && k < n && served[0].Id == all[k+1].Id:
			what = "strictly_after_head"
		}
		hk := "nonroot"
		if k == 0 {
			hk = "ROOT"
		} else if k == 1 {
			hk = "first_record"
		}
		w.Stat(fmt.Sprintf("route5_%s_RecordsAfter_head_%s_served_%s_err_%v", kindName, hk, what, err != nil))
		if os.Getenv("C03_DEBUG") != "" {
			var ids []int
			for _, s := range served {
				ids = append(ids, h.W.RidNum(s.Id))
			}
			fmt.Println("RA", kindName, "n", n, "k", k, "served", ids, err)
		}
		_ = h.addRecords(E, served)
		var tags []string
		if E.pos != n {
			w.Stat(fmt.Sprintf("route5_%s_catchup_incomplete_from_k_%s", kindName, map[bool]string{true: "root", false: "nonroot"}[k == 0]))
			if k == 0 && kindName == "inmemory" {
				tags = []string{"C03-recordsafter-root-inmemory"}
			}
		}
		h.sameAt(5, E, n, tags...)
	}

	// ---------------------------------------------------------------- route 6: the account replicas (other observer identities)
	end := h.snaps[h.owner][n]
	picks := []int{h.owner}
	var members, removed []int
	for _, a := range end.Accs {
		if a.Id == h.owner || a.Id > nAccounts {
			continue
		}
		if a.Perm != 0 {
			members = append(members, a.Id)
		} else if a.Status == 3 {
			removed = append(removed, a.Id)
		}
	}
	if len(members) > 0 {
		picks = append(picks, members[r.Intn(len(members))])
		w.Stat("route6_member")
	}
	if len(removed) > 0 {
		picks = append(picks, removed[r.Intn(len(removed))])
		w.Stat("route6_removed_member")
	}
	for j, id := range picks {
		h.same(6, false, h.snaps[aclh.Observer][n], h.heads[n], h.accts[id])
		if j == len(picks)-1 {
			h.fold(h.accts[id])
		}
	}
}

// anyStoreReplica: storage created with list.CreateStorage, filled with a prefix (through a list or with AddAll),
// database closed and reopened, list rebuilt with list.NewStorage + BuildAclListWithIdentity, fed the rest.
func (h *hist) anyStoreReplica(out **replica) anystore.DB {
	r, w, n := h.r, h.w, len(h.recs)
	if os.Getenv("C03_NOANY") != "" || h.idx%2 == 1 {
		// any-store databases are expensive to open and close (about 0.2 s per history): every second history
		return nil
	}
	fail := func(what string, err error) anystore.DB {
		d := h.desc("build", "Dany", 0)
		d.Obs = fmt.Sprintf("%s: %v", what, err)
		w.Violation(w.Count(), "anystore-setup", d.Obs, d)
		return nil
	}
	if err := os.MkdirAll(h.dbDir, 0o755); err != nil {
		return fail("mkdir", err)
	}
	path := filepath.Join(h.dbDir, "acl.db")
	db, err := anystore.Open(ctx, path, dbConfig())
	if err != nil {
		return fail("open", err)
	}
	hs, err := headstorage.New(ctx, db)
	if err != nil {
		db.Close()
		return fail("headstorage", err)
	}
	st, err := list.CreateStorage(ctx, h.root, hs, db)
	if err != nil {
		db.Close()
		return fail("CreateStorage", err)
	}
	k := r.Intn(n + 1)
	if r.Bool() {
		w.Stat("route4_prefix_via_list")
		pre, err := h.build("Dany_writer", aclh.Observer, true, st, 0)
		if err != nil {
			db.Close()
			return fail("build on fresh any-store storage", err)
		}
		if !h.feed(pre, k, 1, 6) {
			db.Close()
			return nil
		}
	} else if k > 0 {
		w.Stat("route4_prefix_via_AddAll")
		var srs []list.StorageRecord
		prev := h.root.Id
		for i, rec := range h.recs[:k] {
			srs = append(srs, list.StorageRecord{RawRecord: rec.raw.Payload, PrevId: prev, Id: rec.raw.Id, Order: i + 2, ChangeSize: len(rec.raw.Payload)})
			prev = rec.raw.Id
		}
		if err := st.AddAll(ctx, srs); err != nil {
			db.Close()
			return fail("AddAll", err)
		}
	}
	if err := db.Close(); err != nil {
		return fail("close", err)
	}
	db2, err := anystore.Open(ctx, path, dbConfig())
	if err != nil {
		return fail("reopen", err)
	}
	hs2, err := headstorage.New(ctx, db2)
	if err != nil {
		db2.Close()
		return fail("headstorage (reopen)", err)
	}
	st2, err := list.NewStorage(ctx, h.root.Id, hs2, db2)
	if err != nil {
		db2.Close()
		return fail("NewStorage", err)
	}
	id := h.someIdentity()
	v := !r.Chance(1, 3)
	D, err := h.build("Dany", id, v, st2, k)
	if err != nil {
		d := h.desc("build", "Dany", k)
		d.Obs, d.Me = err.Error(), id
		w.Violation(w.Count(), "rebuild-failed", fmt.Sprintf("BuildAclListWithIdentity(me=%d, v=%v) over reopened any-store storage with the first %d records failed: %v", id, v, k, err), d)
		return db2
	}
	w.Stat(fmt.Sprintf("route4_rebuild_v_%v", v))
	h.sameAt(4, D, k)
	if h.feed(D, n, 1, 4) {
		h.sameAt(4, D, n)
		*out = D
	}
	return db2
}

// dbConfig: one read connection and no fsync — the harness does not test durability, and the defaults (one read
// connection per CPU, synchronous writes) cost ~0.4 s per history.
func dbConfig() *anystore.Config {
	return &anystore.Config{ReadConnections: 1, SQLiteConnectionOptions: map[string]string{"synchronous": "off"}}
}
