package main

// History generation with the real record builders.

import (
	"fmt"
	"os"
	"runtime/debug"

	"github.com/anyproto/any-sync/commonspace/object/acl/aclrecordproto"
	"github.com/anyproto/any-sync/commonspace/object/acl/list"
	"github.com/anyproto/any-sync/commonspace/object/acl/recordverifier"
	"github.com/anyproto/any-sync/consensus/consensusproto"
	"github.com/anyproto/any-sync/util/crypto"

	"verifharness/cmd/c04/aclh"
)

type attempt struct {
	kind  string
	actor int
	build func(b list.AclRecordBuilder) (*consensusproto.RawRecord, error)
}

func (h *hist) newRoot() *RawRec {
	b := list.NewAclRecordBuilder("", crypto.NewKeyStorage(), h.W.AccountKeys(h.owner), recordverifier.NewValidateFull())
	var opts *aclrecordproto.AclSpaceOptions
	if h.rootOpt > 0 {
		opts = &aclrecordproto.AclSpaceOptions{DeleteRestricted: h.rootOpt == 2}
	}
	root, err := b.BuildRoot(list.RootContent{
		PrivKey:   h.W.Key(h.owner),
		MasterKey: h.W.Key(masterKeyNum),
		SpaceId:   fmt.Sprintf("space-c03-%d-%d", h.seed, h.idx),
		Change:    list.ReadKeyChangePayload{MetadataKey: h.W.MetaKey, ReadKey: crypto.NewAES()},
		Metadata:  []byte("owner"),
		Options:   opts,
	})
	if err != nil {
		panic(err)
	}
	return root
}

func (h *hist) regInvite(k crypto.PrivKey) {
	if k == nil {
		return
	}
	n := h.W.RegisterPub(k.GetPublic())
	h.invKeys[n] = k
}

func newChange() list.ReadKeyChangePayload {
	mk, _, err := crypto.GenerateRandomEd25519KeyPair()
	if err != nil {
		panic(err)
	}
	return list.ReadKeyChangePayload{MetadataKey: mk, ReadKey: crypto.NewAES()}
}

// ---- views of the current state (a dump of the owner's replica; sorted, so choices are reproducible)

type view struct {
	h  *hist
	st aclh.State
}

func (v view) perm(a int) int {
	for _, x := range v.st.Accs {
		if x.Id == a {
			return x.Perm
		}
	}
	return 0
}
func (v view) status(a int) int {
	for _, x := range v.st.Accs {
		if x.Id == a {
			return x.Status
		}
	}
	return 0
}
func (v view) pending(a int) bool {
	for _, p := range v.st.Pend {
		if p[0] == a {
			return true
		}
	}
	return false
}
func (v view) filter(f func(a int) bool) []int {
	var out []int
	for a := 1; a <= nAccounts; a++ {
		if f(a) {
			out = append(out, a)
		}
	}
	return out
}
func (v view) managers() []int {
	return v.filter(func(a int) bool { p := v.perm(a); return p == 1 || p == 2 })
}
func (v view) members() []int   { return v.filter(func(a int) bool { return v.perm(a) != 0 }) }
func (v view) outsiders() []int { return v.filter(func(a int) bool { return v.perm(a) == 0 }) }
func (v view) ownerNow() int {
	for _, a := range v.members() {
		if v.perm(a) == 1 {
			return a
		}
	}
	return 0
}

func (h *hist) pick(l []int) int {
	if len(l) == 0 {
		return 0
	}
	return l[h.r.Intn(len(l))]
}
func (h *hist) anyAcct() int { return 1 + h.r.Intn(nAccounts) }

var joinPerms = []int{4, 3, 5, 2}

var actionKinds = []string{"invite", "invite", "invite_anyone", "invite_anyone", "rjoin", "rjoin", "rjoin", "accept", "accept", "accept", "decline", "cancel",
	"rremove", "rremove", "remove", "remove", "add", "add", "add", "perm", "perms", "perms", "rk", "revoke", "ichange", "ijoin", "ijoin", "ijoin",
	"owner", "options", "batch", "batch", "batch", "batch_rotate"}

func (h *hist) pub(a int) crypto.PubKey { return h.W.Pub(a) }

// choose returns an attempt (nil = not feasible in this state).  sloppy = actors / targets are picked without
// respecting the rules, to provoke builder refusals and preflight failures.
func (h *hist) choose(v view, sloppy bool) *attempt {
	r := h.r
	kind := actionKinds[r.Intn(len(actionKinds))]
	mgr := h.pick(v.managers())
	if sloppy {
		mgr = h.anyAcct()
	}
	actorIsOwner := v.perm(mgr) == 1
	grant := func() int { // a permission the actor may grant
		p := joinPerms[r.Intn(len(joinPerms))]
		if p == 2 && !actorIsOwner && !sloppy {
			p = 3
		}
		return p
	}
	invsOf := func(ty int, needKey bool) []aclh.Inv {
		var out []aclh.Inv
		for _, i := range v.st.Invs {
			if (i.Type == ty || ty < 0) && (!needKey || h.invKeys[i.Key] != nil) {
				out = append(out, i)
			}
		}
		return out
	}
	joinReqs := func() []aclh.Req { // live (non-stale) join requests
		var out []aclh.Req
		for _, q := range v.st.Reqs {
			if q.Type == 1 && q.Ident != 0 && v.perm(q.Ident) == 0 {
				out = append(out, q)
			}
		}
		return out
	}
	removable := func(actor int) []int {
		return v.filter(func(a int) bool {
			p := v.perm(a)
			if p == 0 || p == 1 || a == actor {
				return false
			}
			return p != 2 || v.perm(actor) == 1 || sloppy
		})
	}
	switch kind {
	case "invite":
		if mgr == 0 {
			return nil
		}
		return &attempt{kind, mgr, func(b list.AclRecordBuilder) (*consensusproto.RawRecord, error) {
			res, err := b.BuildInvite()
			h.regInvite(res.InviteKey)
			return res.InviteRec, err
		}}
	case "invite_anyone":
		if mgr == 0 {
			return nil
		}
		p := []int{4, 3, 2}[r.Intn(3)]
		if p == 2 && !actorIsOwner && !sloppy {
			p = 4
		}
		return &attempt{kind, mgr, func(b list.AclRecordBuilder) (*consensusproto.RawRecord, error) {
			res, err := b.BuildInviteAnyone(list.AclPermissions(p))
			h.regInvite(res.InviteKey)
			return res.InviteRec, err
		}}
	case "rjoin":
		cands := v.filter(func(a int) bool { return v.perm(a) == 0 && !v.pending(a) })
		ty := 0
		if sloppy {
			cands = v.filter(func(a int) bool { return true })
			ty = -1
		}
		invs := invsOf(ty, true)
		if len(cands) == 0 || len(invs) == 0 {
			return nil
		}
		actor, inv := h.pick(cands), invs[r.Intn(len(invs))]
		meta := []byte(fmt.Sprintf("join-%d", actor))
		return &attempt{kind, actor, func(b list.AclRecordBuilder) (*consensusproto.RawRecord, error) {
			return b.BuildRequestJoin(list.RequestJoinPayload{InviteKey: h.invKeys[inv.Key], Metadata: meta})
		}}
	case "accept":
		qs := joinReqs()
		if mgr == 0 || len(qs) == 0 {
			return nil
		}
		q, p := qs[r.Intn(len(qs))], grant()
		return &attempt{kind, mgr, func(b list.AclRecordBuilder) (*consensusproto.RawRecord, error) {
			return b.BuildRequestAccept(list.RequestAcceptPayload{RequestRecordId: h.W.Rid(q.Rid), Permissions: list.AclPermissions(p)})
		}}
	case "decline":
		var qs []aclh.Req
		for _, q := range v.st.Reqs {
			if q.Type == 1 || sloppy {
				qs = append(qs, q)
			}
		}
		if mgr == 0 || len(qs) == 0 {
			return nil
		}
		q := qs[r.Intn(len(qs))]
		return &attempt{kind, mgr, func(b list.AclRecordBuilder) (*consensusproto.RawRecord, error) {
			return b.BuildRequestDecline(h.W.Rid(q.Rid))
		}}
	case "cancel":
		if len(v.st.Reqs) == 0 {
			return nil
		}
		q := v.st.Reqs[r.Intn(len(v.st.Reqs))]
		actor := q.Ident
		if sloppy {
			actor = h.anyAcct()
		}
		if actor < 1 || actor > nAccounts {
			return nil
		}
		return &attempt{kind, actor, func(b list.AclRecordBuilder) (*consensusproto.RawRecord, error) {
			return b.BuildRequestCancel(h.W.Rid(q.Rid))
		}}
	case "rremove":
		cands := v.filter(func(a int) bool { p := v.perm(a); return p != 0 && p != 1 && p != 5 && !v.pending(a) })
		if sloppy {
			cands = v.members()
		}
		if len(cands) == 0 {
			return nil
		}
		return &attempt{kind, h.pick(cands), func(b list.AclRecordBuilder) (*consensusproto.RawRecord, error) {
			return b.BuildRequestRemove()
		}}
	case "remove":
		if mgr == 0 {
			return nil
		}
		cands := removable(mgr)
		if len(cands) == 0 {
			return nil
		}
		var ids []crypto.PubKey
		perm := r.Perm(len(cands))
		n := 1 + r.Intn(2)
		for i := 0; i < n && i < len(cands); i++ {
			ids = append(ids, h.pub(cands[perm[i]]))
		}
		return &attempt{kind, mgr, func(b list.AclRecordBuilder) (*consensusproto.RawRecord, error) {
			return b.BuildAccountRemove(list.AccountRemovePayload{Identities: ids, Change: newChange()})
		}}
	case "add":
		outs := v.outsiders()
		if mgr == 0 || len(outs) == 0 {
			return nil
		}
		var adds []list.AccountAdd
		perm := r.Perm(len(outs))
		n := 1 + r.Intn(2)
		for i := 0; i < n && i < len(outs); i++ {
			adds = append(adds, list.AccountAdd{Identity: h.pub(outs[perm[i]]), Permissions: list.AclPermissions(grant()), Metadata: []byte(fmt.Sprintf("added-%d", outs[perm[i]]))})
		}
		return &attempt{kind, mgr, func(b list.AclRecordBuilder) (*consensusproto.RawRecord, error) {
			return b.BuildAccountsAdd(list.AccountsAddPayload{Additions: adds})
		}}
	case "perm", "perms":
		if mgr == 0 {
			return nil
		}
		cands := v.filter(func(a int) bool {
			p := v.perm(a)
			if a == mgr || p == 0 || p == 1 {
				return false
			}
			if sloppy {
				return true
			}
			return p != 5 && (p != 2 || actorIsOwner)
		})
		if len(cands) == 0 {
			return nil
		}
		mk := func(a int) list.PermissionChangePayload {
			ps := []int{4, 3}
			if actorIsOwner || sloppy {
				ps = append(ps, 2)
			}
			if v.perm(a) == 4 || sloppy {
				ps = append(ps, 5)
			}
			return list.PermissionChangePayload{Identity: h.pub(a), Permissions: list.AclPermissions(ps[r.Intn(len(ps))])}
		}
		if kind == "perm" {
			ch := mk(h.pick(cands))
			return &attempt{kind, mgr, func(b list.AclRecordBuilder) (*consensusproto.RawRecord, error) {
				return b.BuildPermissionChange(ch)
			}}
		}
		var chs []list.PermissionChangePayload
		perm := r.Perm(len(cands))
		n := 1 + r.Intn(3)
		for i := 0; i < n && i < len(cands); i++ {
			chs = append(chs, mk(cands[perm[i]]))
		}
		return &attempt{kind, mgr, func(b list.AclRecordBuilder) (*consensusproto.RawRecord, error) {
			return b.BuildPermissionChanges(list.PermissionChangesPayload{Changes: chs})
		}}
	case "rk":
		if mgr == 0 {
			return nil
		}
		return &attempt{kind, mgr, func(b list.AclRecordBuilder) (*consensusproto.RawRecord, error) {
			return b.BuildReadKeyChange(newChange())
		}}
	case "revoke":
		if mgr == 0 || len(v.st.Invs) == 0 {
			return nil
		}
		i := v.st.Invs[r.Intn(len(v.st.Invs))]
		return &attempt{kind, mgr, func(b list.AclRecordBuilder) (*consensusproto.RawRecord, error) {
			return b.BuildInviteRevoke(h.W.Rid(i.Rid))
		}}
	case "ichange":
		invs := invsOf(1, false)
		if sloppy {
			invs = invsOf(-1, false)
		}
		if mgr == 0 || len(invs) == 0 {
			return nil
		}
		i := invs[r.Intn(len(invs))]
		var ps []int
		for _, p := range []int{4, 3, 2} {
			if (p != i.Perm && (p != 2 || actorIsOwner)) || sloppy {
				ps = append(ps, p)
			}
		}
		p := ps[r.Intn(len(ps))]
		return &attempt{kind, mgr, func(b list.AclRecordBuilder) (*consensusproto.RawRecord, error) {
			return b.BuildInviteChange(list.InviteChangePayload{IniviteRecordId: h.W.Rid(i.Rid), Permissions: list.AclPermissions(p)})
		}}
	case "ijoin":
		cands := v.outsiders()
		if sloppy {
			cands = v.filter(func(a int) bool { return true })
		}
		invs := invsOf(1, true)
		if len(cands) == 0 || len(invs) == 0 {
			return nil
		}
		actor, inv := h.pick(cands), invs[r.Intn(len(invs))]
		p := 0
		if r.Bool() {
			// at most the invite's permission (IsLessOrEqual), unless sloppy
			switch inv.Perm {
			case 2:
				p = []int{4, 3, 2}[r.Intn(3)]
			case 3:
				p = []int{4, 3}[r.Intn(2)]
			default:
				p = 4
			}
			if sloppy {
				p = []int{4, 3, 2, 5}[r.Intn(4)]
			}
		}
		meta := []byte(fmt.Sprintf("ijoin-%d", actor))
		return &attempt{kind, actor, func(b list.AclRecordBuilder) (*consensusproto.RawRecord, error) {
			return b.BuildInviteJoinWithoutApprove(list.InviteJoinPayload{InviteKey: h.invKeys[inv.Key], Permissions: list.AclPermissions(p), Metadata: meta})
		}}
	case "owner":
		o := v.ownerNow()
		if sloppy {
			o = h.anyAcct()
		}
		// never a Guest as new owner (F22, C04's finding, repaired in the model)
		cands := v.filter(func(a int) bool {
			p := v.perm(a)
			return a != o && p != 0 && p != 1 && p != 5 && (v.status(a) == 2 || sloppy)
		})
		if o == 0 || len(cands) == 0 {
			return nil
		}
		old := []int{2, 3, 4}[r.Intn(3)]
		nw := h.pick(cands)
		return &attempt{kind, o, func(b list.AclRecordBuilder) (*consensusproto.RawRecord, error) {
			return b.BuildOwnershipChange(list.OwnershipChangePayload{NewOwner: h.pub(nw), OldOwnerPermissions: list.AclPermissions(old)})
		}}
	case "options":
		o := v.ownerNow()
		if sloppy {
			o = h.anyAcct()
		}
		if o == 0 {
			return nil
		}
		var opts *aclrecordproto.AclSpaceOptions
		if k := r.Intn(3); k > 0 {
			opts = &aclrecordproto.AclSpaceOptions{DeleteRestricted: k == 2}
		}
		return &attempt{kind, o, func(b list.AclRecordBuilder) (*consensusproto.RawRecord, error) {
			return b.BuildSpaceOptionsChange(opts)
		}}
	case "batch":
		if mgr == 0 {
			return nil
		}
		var p list.BatchRequestPayload
		used := map[int]bool{mgr: true}
		if r.Chance(1, 2) {
			cands := removable(mgr)
			if len(cands) > 0 {
				a := h.pick(cands)
				used[a] = true
				p.Removals = list.AccountRemovePayload{Identities: []crypto.PubKey{h.pub(a)}, Change: newChange()}
				// Additions are encrypted with Removals.Change, so they are only legal next to a removal
				for _, o := range v.outsiders() {
					if r.Chance(1, 2) && len(p.Additions) < 2 && !v.pending(o) {
						used[o] = true
						p.Additions = append(p.Additions, list.AccountAdd{Identity: h.pub(o), Permissions: list.AclPermissions(grant()), Metadata: []byte("batch-add")})
					}
				}
			}
		}
		for _, a := range v.members() {
			pa := v.perm(a)
			if used[a] || pa == 1 || pa == 5 || (pa == 2 && !actorIsOwner) || !r.Chance(1, 3) || len(p.Changes) >= 2 {
				continue
			}
			used[a] = true
			np := []int{4, 3}[r.Intn(2)]
			p.Changes = append(p.Changes, list.PermissionChangePayload{Identity: h.pub(a), Permissions: list.AclPermissions(np)})
		}
		for _, q := range joinReqs() {
			if used[q.Ident] {
				continue
			}
			used[q.Ident] = true
			if r.Bool() {
				p.Approvals = append(p.Approvals, list.RequestAcceptPayload{RequestRecordId: h.W.Rid(q.Rid), Permissions: list.AclPermissions(grant())})
			} else {
				p.Declines = append(p.Declines, h.W.Rid(q.Rid))
			}
		}
		for _, i := range v.st.Invs {
			switch r.Intn(4) {
			case 0:
				if len(p.InviteRevokes) < 2 {
					p.InviteRevokes = append(p.InviteRevokes, h.W.Rid(i.Rid))
				}
			case 1:
				if i.Type == 1 && len(p.InviteChanges) < 1 {
					np := 4
					if i.Perm == 4 {
						np = 3
					}
					p.InviteChanges = append(p.InviteChanges, list.InviteChangePayload{IniviteRecordId: h.W.Rid(i.Rid), Permissions: list.AclPermissions(np)})
				}
			}
		}
		for k := r.Intn(3); k > 0; k-- {
			np := []int{0, 4, 3}[r.Intn(3)]
			if len(p.Removals.Identities) > 0 {
				np = 0 // an anyone-can-join invite made next to a rotation would embed the pre-rotation key
			}
			p.NewInvites = append(p.NewInvites, list.AclPermissions(np))
		}
		if len(p.Removals.Identities)+len(p.Changes)+len(p.Approvals)+len(p.Declines)+len(p.InviteRevokes)+len(p.InviteChanges)+len(p.NewInvites) == 0 {
			return nil
		}
		return &attempt{kind, mgr, func(b list.AclRecordBuilder) (*consensusproto.RawRecord, error) {
			res, err := b.BuildBatchRequest(p)
			for _, k := range res.Invites {
				h.regInvite(k)
			}
			return res.Rec, err
		}}
	case "batch_rotate":
		if mgr == 0 || len(v.st.Invs) == 0 {
			return nil
		}
		var p list.BatchRequestPayload
		for _, i := range v.st.Invs {
			if r.Bool() || len(p.InviteRevokes) == 0 {
				p.InviteRevokes = append(p.InviteRevokes, h.W.Rid(i.Rid))
			}
		}
		for _, q := range joinReqs() {
			if r.Bool() {
				p.Declines = append(p.Declines, h.W.Rid(q.Rid))
			}
		}
		ch := newChange()
		p.ReadKeyChange = &ch
		return &attempt{kind, mgr, func(b list.AclRecordBuilder) (*consensusproto.RawRecord, error) {
			res, err := b.BuildBatchRequest(p)
			return res.Rec, err
		}}
	}
	return nil
}

func (h *hist) tryBuild(a *attempt) (raw *consensusproto.RawRecord, err error, panicked interface{}) {
	defer func() {
		if p := recover(); p != nil {
			panicked = p
			if os.Getenv("C03_DEBUG") != "" {
				fmt.Printf("BUILDER PANIC %s actor %d: %v\n%s\n", a.kind, a.actor, p, debug.Stack())
			}
		}
	}()
	raw, err = a.build(h.accts[a.actor].l.RecordBuilder())
	return
}

func (h *hist) snapshot() {
	for id := 1; id <= nAccounts; id++ {
		h.snaps[id] = append(h.snaps[id], h.W.Dump(h.accts[id].l.AclState()))
	}
	h.heads = append(h.heads, h.W.RidNum(h.accts[h.owner].l.Head().Id))
	for _, a := range h.snaps[h.owner][len(h.heads)-1].Accs {
		if a.Perm != 0 {
			h.everMember[a.Id] = true
		}
	}
}

func (h *hist) generate() {
	r := h.r
	h.W = aclh.NewWorld(worldSeed)
	h.owner = 1 + r.Intn(nAccounts)
	h.rootOpt = 0
	if r.Chance(1, 3) {
		h.rootOpt = 1 + r.Intn(2)
	}
	h.netKey = h.W.Key(netKeyNum)
	h.netId, _ = h.netKey.GetPublic().Marshall()
	h.netVerifier = recordverifier.New(h.netKey.GetPublic())
	h.invKeys = map[int]crypto.PrivKey{}
	h.invalid = map[int][]*hrec{}
	h.snaps = map[int][]aclh.State{}
	h.termCache = map[*RawRec]cachedTerm{}
	h.everMember = map[int]bool{}
	h.accts = map[int]*replica{}
	h.root = h.newRoot()
	h.W.Bind(1, h.root.Id)
	for a := 1; a <= nAccounts; a++ {
		rp, err := h.newMem(fmt.Sprintf("acct%d", a), a, true, 0)
		if err != nil {
			panic(fmt.Sprintf("account replica %d: %v", a, err))
		}
		h.accts[a] = rp
	}
	h.snapshot()
	target := 6 + r.Intn(15)
	for tries := 0; len(h.recs) < target && tries < target*12; tries++ {
		v := view{h, h.snaps[h.owner][len(h.recs)]}
		sloppy := r.Chance(1, 5)
		a := h.choose(v, sloppy)
		if a == nil {
			continue
		}
		raw, err, p := h.tryBuild(a)
		h.w.Stat("builder_calls")
		if p != nil {
			d := h.desc("build", fmt.Sprintf("acct%d", a.actor), len(h.recs))
			d.Rec, d.Obs, d.Me = a.kind, fmt.Sprintf("PANIC: %v", p), a.actor
			if v.perm(a.actor) == 0 {
				// client-side misuse outside the property (an account that does not hold the current read key asks its own
				// record builder for a record): counted and listed in stats.json, not a C03 violation
				h.w.Stat("builder_panic_nonmember_" + a.kind)
				if len(h.rn.builderPanics) < 5 {
					h.rn.builderPanics = append(h.rn.builderPanics, d)
				}
			} else {
				h.w.Violation(h.w.Count(), "panic", fmt.Sprintf("record builder %s of member account %d panicked: %v", a.kind, a.actor, p), d)
				h.w.Stat("builder_panic_member_" + a.kind)
			}
			continue
		}
		if raw == nil {
			h.w.Stat("builder_refused_" + a.kind)
			continue
		}
		rec := &hrec{raw: h.consensus(raw), kind: a.kind, author: a.actor}
		if err != nil {
			// the builder's preflight check refused the record but handed it out: a content-invalid record
			h.w.Stat("builder_preflight_failed_" + a.kind)
			if len(h.invalid[len(h.recs)]) < 2 {
				h.invalid[len(h.recs)] = append(h.invalid[len(h.recs)], rec)
			}
			continue
		}
		h.W.Bind(len(h.recs)+2, rec.raw.Id)
		ok := true
		for id := 1; id <= nAccounts; id++ {
			res, derr, _ := h.deliver(h.accts[id], rec.raw)
			if res != "OAccepted" {
				ok = false
				d := h.desc("generate", fmt.Sprintf("acct%d", id), len(h.recs))
				d.Rec, d.Obs = a.kind, fmt.Sprintf("%s: %v", res, derr)
				h.w.Violation(h.w.Count(), "replica-diverged", fmt.Sprintf("record %s built by account %d (accepted by its preflight check) was not accepted by the replica of account %d: %v", a.kind, a.actor, id, derr), d)
				h.w.Stat("account_replica_rejected_" + a.kind)
			}
		}
		if !ok {
			panic("account replicas diverged")
		}
		h.recs = append(h.recs, rec)
		in := h.info(rec.raw, v.st)
		rec.nc = len(in.Cs)
		h.termCache[rec.raw] = cachedTerm{in.Coq(), in}
		for _, rp := range h.accts {
			rp.pos = len(h.recs)
		}
		h.snapshot()
		h.w.Stat("history_records")
		h.w.Stat("built_" + a.kind)
	}
	h.w.Stat("histories")
}
