// Correspondence driver for C03 (ACL log = tamper-evident chain with deterministic, atomically updated state).
//
// Per history: a handful of accounts (owner, members, joiners, removed members), each with its own validating AclList
// replica, produce records with the REAL client record builders (AclList.RecordBuilder(): every Build* method incl.
// BuildBatchRequest); the harness plays the consensus node (acceptor identity/signature/timestamp, CID) and feeds every
// accepted record to every account replica.  The resulting history is then delivered
//
//	A   one by one to a validating reference replica (observer identity), interleaved with a mutation stream and with the
//	    content-invalid records the builders' preflight check refused (on a clone rebuilt from A's storage);
//	B   in batches (AddRawRecords, random chunks overlapping known records)                                  route 1
//	C   one by one to a NON-validating replica with a member identity (recordverifier.New(network key): acceptor
//	    check + keep-only-ours partial decode), with acceptor mutations                                       route 2
//	D   rebuilt (BuildAclListWithIdentity) from in-memory storage truncated at a prefix, then fed the rest     route 3
//	D'  same on any-store storage (closed and reopened)                                                        route 4
//	E   started at a prefix and caught up with RecordsAfter from an in-memory / any-store backed replica        route 5
//	account replicas with other identities (owner, member, removed member)                                     route 6
//	batch stream (batch.go): batches / sequences containing a record that must be rejected                     routes 7, 8
//
// Every delivery that is emitted is a CAdd case, every AddRawRecords call of the batch stream a CBatch case, every
// cross-replica comparison a CSame case, every end state a CFold case of Run/C03_run.v; coqc checks them against Model/Acl.v (model_ok) and spec_C03_add / state equality (spec_ok).
package main

import (
	"context"
	"encoding/json"
	"fmt"
	"os"
	"path/filepath"
	"runtime/pprof"

	"github.com/anyproto/any-sync/commonspace/object/acl/list"
	"github.com/anyproto/any-sync/commonspace/object/acl/recordverifier"
	"github.com/anyproto/any-sync/util/crypto"

	"verifharness/cmd/c04/aclh"
	"verifharness/vlib"
)

const (
	nAccounts      = 7 // account numbers 1..nAccounts
	netKeyNum      = 950
	badAcceptorKey = 951
	masterKeyNum   = 901
	worldSeed      = 3030
)

var ctx = context.Background()

type desc struct {
	Seed    uint64   `json:"seed"`
	Hist    int      `json:"hist"`
	Kind    string   `json:"kind"` // add | same | fold | batch
	Replica string   `json:"replica"`
	Step    int      `json:"step"`
	Rec     string   `json:"rec,omitempty"`
	Mut     string   `json:"mut,omitempty"`
	Route   int      `json:"route,omitempty"`
	Me      int      `json:"me,omitempty"`
	Obs     string   `json:"observed,omitempty"`
	Tags    []string `json:"tags,omitempty"`
	World   string   `json:"world,omitempty"` // "one" = one-to-one world (onetoone.go); Hist is then the world index
}

type runner struct {
	w             *vlib.Writer
	o             vlib.Opts
	samples       []interface{}
	builderPanics []interface{}
	batchTrials   int
	oneSamples    []interface{}
}

type hrec struct {
	raw    *RawRec
	kind   string
	author int
	nc     int
}

type hist struct {
	rn          *runner
	w           *vlib.Writer
	seed        uint64
	idx         int
	r           *vlib.Rand
	W           *aclh.World
	owner       int
	rootOpt     int // 0 no options in the root, 1 Some false, 2 Some true
	root        *RawRec
	netKey      crypto.PrivKey
	netId       []byte
	netVerifier recordverifier.RecordVerifier
	accts       map[int]*replica
	invKeys     map[int]crypto.PrivKey
	recs        []*hrec
	invalid     map[int][]*hrec      // position -> records refused by the builder's preflight check at that position
	snaps       map[int][]aclh.State // identity -> observed state after k accepted records (k = 0..n)
	heads       []int                // head number after k accepted records
	termCache   map[*RawRec]cachedTerm
	everMember  map[int]bool
	dbDir       string
	world       string // "" = ordinary history, "one" = one-to-one world
}

// ---------------------------------------------------------------- replicas

type replica struct {
	name    string
	l       list.AclList
	st      list.Storage
	me      int
	v       bool
	needAcc bool
	pos     int // number of history records accepted so far
	forked  bool
}

func (h *hist) verifier(v bool) recordverifier.RecordVerifier {
	if v {
		return recordverifier.NewValidateFull()
	}
	return recordverifier.New(h.netKey.GetPublic())
}

func (h *hist) prefix(k int) []*RawRec {
	out := []*RawRec{h.root}
	for _, r := range h.recs[:k] {
		out = append(out, r.raw)
	}
	return out
}

// newMem builds a replica over an in-memory storage holding root + the first k history records.
func (h *hist) newMem(name string, me int, v bool, k int) (*replica, error) {
	st, err := list.NewInMemoryStorage(h.root.Id, h.prefix(k))
	if err != nil {
		return nil, err
	}
	return h.build(name, me, v, st, k)
}

func (h *hist) build(name string, me int, v bool, st list.Storage, k int) (rp *replica, err error) {
	defer func() {
		if p := recover(); p != nil {
			err = fmt.Errorf("PANIC in build: %v", p)
			h.w.Violation(h.w.Count(), "panic", fmt.Sprintf("BuildAclListWithIdentity panicked: %v", p), h.desc("build", name, k))
		}
	}()
	l, err := list.BuildAclListWithIdentity(h.W.AccountKeys(me), st, h.verifier(v))
	if err != nil {
		return nil, err
	}
	return &replica{name: name, l: l, st: st, me: me, v: v, needAcc: !v, pos: k}, nil
}

type obsv struct {
	S      aclh.State
	Ids    []int
	Head   int
	Stored []int
}

func (h *hist) observe(rp *replica) obsv {
	var o obsv
	o.S = h.W.Dump(rp.l.AclState())
	for _, r := range rp.l.Records() {
		o.Ids = append(o.Ids, h.W.RidNum(r.Id))
	}
	o.Head = h.W.RidNum(rp.l.Head().Id)
	_ = rp.st.GetAfterOrder(ctx, 1, func(_ context.Context, sr list.StorageRecord) (bool, error) {
		o.Stored = append(o.Stored, h.W.RidNum(sr.Id))
		return true, nil
	})
	return o
}

func ints(v []int) string {
	s := make([]string, len(v))
	for i, x := range v {
		s[i] = fmt.Sprintf("%d", x)
	}
	return vlib.List(s)
}

func (h *hist) desc(kind, replica string, step int) desc {
	return desc{Seed: h.seed, Hist: h.idx, Kind: kind, Replica: replica, Step: step, World: h.world}
}

// deliver performs one AddRawRecord under recover.
func (h *hist) deliver(rp *replica, rec *RawRec) (res string, err error, panicked interface{}) {
	defer func() {
		if p := recover(); p != nil {
			panicked = p
			res = "ORejected"
		}
	}()
	err = rp.l.AddRawRecord(rec)
	switch {
	case err == nil:
		res = "OAccepted"
	case err == list.ErrRecordAlreadyExists:
		res = "ODup"
	default:
		res = "ORejected"
	}
	return
}

// add delivers rec to rp; when emit is set the delivery becomes a CAdd case.  recKind: builder kind of the record,
// mut: mutation kind ("" = the genuine next record, "invalid" = refused by the builder's preflight check).
func (h *hist) add(rp *replica, rec *RawRec, recKind, mut string, emit bool, nc int) string {
	w := h.w
	var before obsv
	var term string
	var in rawInfo
	if emit {
		before = h.observe(rp)
		term, in = h.term(rec, before.S)
	}
	res, err, p := h.deliver(rp, rec)
	w.Stat("deliveries")
	if res == "OAccepted" && mut == "" {
		rp.pos++
	}
	if res == "OAccepted" && mut != "" {
		rp.forked = true // the replica now holds a record that is not part of the history
		w.Stat("accepted_offstream_" + mut)
	}
	d := h.desc("add", rp.name, rp.pos)
	d.Rec, d.Mut, d.Me = recKind, mut, rp.me
	d.Obs = res
	if err != nil {
		d.Obs = fmt.Sprintf("%s: %v", res, err)
	}
	if p != nil {
		d.Obs = fmt.Sprintf("PANIC: %v", p)
		w.Violation(w.Count(), "panic", fmt.Sprintf("AddRawRecord panicked on replica %s: %v", rp.name, p), d)
		w.Stat("panic")
	}
	if emit {
		after := h.observe(rp)
		t := vlib.App("CAdd", vlib.Bool(rp.needAcc), vlib.Bool(rp.v), vlib.N(uint64(rp.me)), before.S.Coq(), ints(before.Ids), term,
			res, after.S.Coq(), ints(after.Ids), ints(after.Stored))
		nontriv := (res == "OAccepted" && len(in.Cs) >= 1) || (mut != "" && mut != "invalid")
		_ = nc
		w.Add(t, d, t, nontriv)
		w.Stat("case_CAdd")
		w.Stat("CAdd_" + rp.name + "_" + res)
		if mut == "" {
			w.Stat("record_" + recKind + "_" + res)
			if len(in.Cs) > 1 {
				w.Stat("multi_content_record_" + res)
			}
		} else {
			w.Stat("mut_" + mut + "_" + res)
		}
		if len(h.rn.samples) < 5 && ((mut == "" && len(in.Cs) > 1 && len(h.rn.samples) < 2) || (mut != "" && mut != "dup" && len(h.rn.samples) >= 2 && h.r.Chance(1, 30))) {
			h.rn.samples = append(h.rn.samples, d)
		}
	}
	return res
}

func (h *hist) same(route int, withKeys bool, ref aclh.State, refHead int, rp *replica, tags ...string) {
	o := h.observe(rp)
	t := vlib.App("CSame", fmt.Sprintf("%d", route), vlib.Bool(withKeys), ref.Coq(), fmt.Sprintf("%d", refHead), o.S.Coq(), fmt.Sprintf("%d", o.Head))
	d := h.desc("same", rp.name, rp.pos)
	d.Route, d.Me, d.Tags = route, rp.me, tags
	if o.Head != refHead {
		d.Obs = "head differs"
		h.w.Stat(fmt.Sprintf("route%d_head_differs", route))
	}
	h.w.Add(t, d, t, len(h.recs) >= 5)
	h.w.Stat("case_CSame")
	h.w.Stat(fmt.Sprintf("CSame_route%d", route))
	if len(h.rn.samples) == 4 {
		h.rn.samples = append(h.rn.samples, d)
	}
}

// sameAt compares rp (which has accepted rp.pos history records) with the recorded states at that position: with the
// reference replica A (identity Observer) without keys, and with the account replica of the same identity with keys.
func (h *hist) sameAt(route int, rp *replica, k int, tags ...string) {
	if s, ok := h.snaps[rp.me]; ok && k < len(s) {
		h.same(route, true, s[k], h.heads[k], rp, tags...)
	}
	if rp.me != aclh.Observer {
		h.same(route, false, h.snaps[aclh.Observer][k], h.heads[k], rp, tags...)
	}
}

func (h *hist) fold(rp *replica) {
	o := h.observe(rp)
	var ws []string
	for _, r := range h.recs[:rp.pos] {
		t, _ := h.term(r.raw, o.S)
		ws = append(ws, t)
	}
	opts := "None"
	switch h.rootOpt {
	case 1:
		opts = "(Some (Some false))"
	case 2:
		opts = "(Some (Some true))"
	}
	t := vlib.App("CFold", vlib.Bool(rp.v), fmt.Sprintf("%d", rp.me), fmt.Sprintf("%d", h.owner), "1", opts, vlib.List(ws), o.S.Coq())
	d := h.desc("fold", rp.name, rp.pos)
	d.Me = rp.me
	h.w.Add(t, d, t, rp.pos >= 5)
	h.w.Stat("case_CFold")
	h.w.Stat("CFold_" + rp.name)
}

// ---------------------------------------------------------------- main

func (rn *runner) history(seed uint64, idx int) {
	h := &hist{rn: rn, w: rn.w, seed: seed, idx: idx, r: vlib.NewRand(seed).Fork(uint64(idx))}
	h.dbDir = filepath.Join(rn.o.Out, "db", fmt.Sprintf("h%d_%d", seed, idx))
	defer func() {
		if p := recover(); p != nil {
			rn.w.Violation(rn.w.Count(), "harness-panic", fmt.Sprintf("history %d/%d: %v", seed, idx, p), h.desc("history", "", 0))
			rn.w.Stat("history_panicked")
		}
		_ = os.RemoveAll(h.dbDir)
	}()
	h.generate()
	h.replicas()
	h.batches(rn.batchTrials)
}

func main() {
	o := vlib.ParseFlags()
	vlib.Quiet()
	if pf := os.Getenv("C03_PPROF"); pf != "" {
		f, _ := os.Create(pf)
		pprof.StartCPUProfile(f)
		defer pprof.StopCPUProfile()
	}
	w := vlib.NewWriter(o.Out, "C03_run", 200)
	rn := &runner{w: w, o: o, batchTrials: 3}
	if o.Tier == "thorough" {
		rn.batchTrials = 6
		aliasNum, aliasDen = 1, 1
	}
	rule := "histories of 6-20 records made by the real AclRecordBuilder methods (all kinds incl. multi-content BuildBatchRequest) by 7 accounts " +
		"(owner, admins, writers, readers, guests, joiners, removed and re-added members), consensus-signed by the harness, delivered to replicas " +
		"A (validating, one by one, with 16 kinds of raw-record mutations incl. ~60 id aliases = re-encodings of the same digest, and builder-refused records), B (AddRawRecords chunks), C (non-validating member, " +
		"acceptor check + partial decode, 6 acceptor mutations), D/D' (rebuilt from in-memory / any-store storage at a prefix), E (RecordsAfter catch-up), " +
		"account replicas; batch stream: AddRawRecords batches [known records, 0-4 new valid records, a record that must be rejected, 0-2 valid continuation " +
		"records] and the same sequence through AddRawRecord, where the rejected record is a hand-signed correctly chained record of 1-4 contents failing at " +
		"content k (every k), a record failing late in apply, a raw mutation or a builder-refused record; compared with the one-at-a-time replica at the same " +
		"head, with a rebuild from the replica's own storage and with the model's add_raws (CBatch); a CAdd case is non-trivial if the record is accepted with >= 1 content or is a mutation of an acceptable record; " +
		"CSame/CFold if the history has >= 5 accepted records; " +
		"one-to-one worlds (root with OneToOneInfo made by spacepayloads / BuildOneToOneRoot; replicas of both parties, a third account, a node and a list " +
		"run with the shared owner key; validating / non-validating; in-memory / any-store): every first build (COneBuild), per replica 5-8 hand-signed " +
		"consensus-signed records chained onto its head, of every content kind, single and multi-content, by the shared owner key / a writer / the third " +
		"account / a stranger, builder-made records and 15 kinds of raw mutations through AddRawRecord (COne) and AddRawRecords (COneBatch), restarts from " +
		"the replica's own storage (COneBuild), catch-up through RecordsAfter and cross-replica equality (CSame route 9); a COne case is non-trivial if the " +
		"record is well-formed, correctly signed and chained onto the head, or is a raw mutation; distinct by full case term"
	if o.Replay != "" {
		seen := map[[2]uint64]bool{}
		for _, raw := range vlib.ReadReplay(o.Replay) {
			var d desc
			if json.Unmarshal(raw, &d) != nil {
				continue
			}
			k := [2]uint64{d.Seed, uint64(d.Hist)}
			if d.World == "one" {
				k[1] += 1 << 40
			}
			if seen[k] {
				continue
			}
			seen[k] = true
			if d.World == "one" {
				rn.oneWorld(d.Seed, d.Hist)
			} else {
				rn.history(d.Seed, d.Hist)
			}
		}
		w.Finish("replay: "+rule, append(rn.samples, rn.oneSamples...), nil)
		return
	}
	n := 100
	if o.Tier == "thorough" {
		n = 1000
	}
	n *= o.Budget
	for i := 0; i < n; i++ {
		rn.history(o.Seed, i)
	}
	nOne := 24
	if o.Tier == "thorough" {
		nOne = 150
	}
	nOne *= o.Budget
	for i := 0; i < nOne; i++ {
		rn.oneWorld(o.Seed, i)
	}
	w.Finish(rule, append(rn.samples, rn.oneSamples...), map[string]interface{}{"builder_panics_nonmember": rn.builderPanics})
}
