package main

// Raw records: playing the consensus node, computing the validity flags of a raw record with the real primitives,
// printing it as a Coq [raw] term, and the mutation stream.

import (
	"fmt"
	"sort"
	"strings"

	"github.com/ipfs/go-cid"
	"github.com/multiformats/go-multibase"
	mh "github.com/multiformats/go-multihash"

	"github.com/anyproto/any-sync/commonspace/object/acl/aclrecordproto"
	"github.com/anyproto/any-sync/consensus/consensusproto"
	"github.com/anyproto/any-sync/util/cidutil"
	"github.com/anyproto/any-sync/util/crypto"

	"verifharness/cmd/c04/aclh"
	"verifharness/vlib"
)

type RawRec = consensusproto.RawRecordWithId

// consensus: what the consensus node does with a client-built record: acceptor identity / signature over
// RawRecord.Payload / timestamp, marshal, CID.
func (h *hist) consensus(raw *consensusproto.RawRecord) *RawRec {
	raw.AcceptorIdentity = h.netId
	sig, err := h.netKey.Sign(raw.Payload)
	if err != nil {
		panic(err)
	}
	raw.AcceptorSignature = sig
	raw.AcceptorTimestamp = 1700000100
	return aclh.WithId(raw)
}

type rawInfo struct {
	Id                           int
	CidOk, Decodes, SigOk, AccOk bool
	Prev, Author                 int
	Cs                           []aclh.C
}

func (i rawInfo) Coq() string {
	return fmt.Sprintf("(mkRaw %d %s %s %s %s %d %d %s)", i.Id, vlib.Bool(i.CidOk), vlib.Bool(i.Decodes), vlib.Bool(i.SigOk),
		vlib.Bool(i.AccOk), i.Prev, i.Author, aclh.CsCoq(i.Cs))
}

// info computes the flags of a raw record with the real primitives (own canonical cid string, proto unmarshalling,
// PubKey.Verify, recordverifier.New(network key).VerifyAcceptor) and decodes its contents.
func (h *hist) info(rec *RawRec, st aclh.State) rawInfo {
	in := rawInfo{Id: h.W.RidNum(rec.Id), Cs: []aclh.C{}}
	// the id is the hash of the bytes iff it is, AS A STRING, the canonical id (CIDv1, dag-cbor, sha2-256, base32 lower
	// case) that the harness computes itself with go-cid / go-multihash -- not what cidutil.VerifyCid says
	in.CidOk = canonicalCid(rec.Payload) == rec.Id
	raw := &consensusproto.RawRecord{}
	if err := raw.UnmarshalVT(rec.Payload); err != nil {
		return in
	}
	in.AccOk = h.netVerifier.VerifyAcceptor(raw) == nil
	r := &consensusproto.Record{}
	if err := r.UnmarshalVT(raw.Payload); err != nil {
		return in
	}
	in.Prev = h.W.RidNum(r.PrevId)
	pk, err := crypto.UnmarshalEd25519PublicKeyProto(r.Identity)
	if err != nil || pk == nil {
		return in
	}
	in.Author = h.W.KeyNum(pk)
	data := &aclrecordproto.AclData{}
	if err := data.UnmarshalVT(r.Data); err != nil {
		return in
	}
	in.Decodes = true
	ok, err := pk.Verify(raw.Payload, raw.Signature)
	in.SigOk = err == nil && ok
	in.Cs = aclh.Decode(h.W, data, st)
	return in
}

// canonicalCid: the one id string a record with these bytes may carry.
func canonicalCid(payload []byte) string {
	sum, err := mh.Sum(payload, mh.SHA2_256, -1)
	if err != nil {
		panic(err)
	}
	return cid.NewCidV1(0x71, sum).String() // 0x71 = dag-cbor; multibase base32 (lower case, no padding)
}

type cidAlias struct{ name, id string }

// cidAliases: every other spelling of the SAME digest: all multibases go-multibase knows, other codecs, CIDv0, case
// variants, padding / whitespace / path decoration (whether or not go-cid parses them: a replica compares ids as strings,
// so every one of them must be refused).
func cidAliases(id string, r *vlib.Rand) []cidAlias {
	c, err := cid.Decode(id)
	if err != nil {
		return nil
	}
	var out []cidAlias
	add := func(name, s string) {
		if s != id && s != "" {
			out = append(out, cidAlias{name, s})
		}
	}
	var encs []int
	for e := range multibase.EncodingToStr {
		encs = append(encs, int(e))
	}
	sort.Ints(encs)
	for _, e := range encs {
		if s, err := c.StringOfBase(multibase.Encoding(e)); err == nil {
			add("multibase_"+multibase.EncodingToStr[multibase.Encoding(e)], s)
		}
	}
	for _, codec := range []uint64{0x55, 0x70, 0x0129, 0x00, 0x72} { // raw, dag-pb, dag-json, identity, other
		add(fmt.Sprintf("codec_0x%x", codec), cid.NewCidV1(codec, c.Hash()).String())
		if s, err := cid.NewCidV1(codec, c.Hash()).StringOfBase(multibase.Base58BTC); err == nil {
			add(fmt.Sprintf("codec_0x%x_base58btc", codec), s)
		}
	}
	add("cidv0", cid.NewCidV0(c.Hash()).String())
	add("cidv0_multibase_z", "z"+cid.NewCidV0(c.Hash()).String())
	add("case_upper_body", id[:1]+strings.ToUpper(id[1:]))
	add("case_upper_all", strings.ToUpper(id))
	mixed := []byte(id)
	for i := 1; i < len(mixed); i++ {
		if r.Bool() {
			mixed[i] = strings.ToUpper(string(mixed[i]))[0]
		}
	}
	add("case_mixed", string(mixed))
	add("space_after", id+" ")
	add("space_before", " "+id)
	add("newline_after", id+"\n")
	add("crlf_inside", id[:10]+"\r\n"+id[10:])
	add("tab_before", "\t"+id)
	add("pad_1", id+"=")
	add("pad_6", id+"======")
	add("nul_after", id+"\x00")
	add("path_ipfs", "/ipfs/"+id)
	add("slash_after", id+"/")
	return out
}

// term: cached for the unmutated history records.
func (h *hist) term(rec *RawRec, st aclh.State) (string, rawInfo) {
	if c, ok := h.termCache[rec]; ok {
		return c.term, c.info
	}
	in := h.info(rec, st)
	return in.Coq(), in
}

type cachedTerm struct {
	term string
	info rawInfo
}

// ---------------------------------------------------------------- mutations

func clone(b []byte) []byte { return append([]byte(nil), b...) }

func unwrap(rec *RawRec) (*consensusproto.RawRecord, *consensusproto.Record) {
	raw := &consensusproto.RawRecord{}
	if err := raw.UnmarshalVT(rec.Payload); err != nil {
		panic(err)
	}
	r := &consensusproto.Record{}
	if err := r.UnmarshalVT(raw.Payload); err != nil {
		panic(err)
	}
	return raw, r
}

func (h *hist) acceptorSign(raw *consensusproto.RawRecord) {
	sig, err := h.netKey.Sign(raw.Payload)
	if err != nil {
		panic(err)
	}
	raw.AcceptorSignature = sig
}

// resign: marshal r, sign with the author's real key, acceptor-sign.
func (h *hist) resign(raw *consensusproto.RawRecord, r *consensusproto.Record, author int) {
	p, err := r.MarshalVT()
	if err != nil {
		panic(err)
	}
	raw.Payload = p
	sig, err := h.W.Key(author).Sign(p)
	if err != nil {
		panic(err)
	}
	raw.Signature = sig
	h.acceptorSign(raw)
}

func flip(b []byte, r *vlib.Rand) {
	if len(b) == 0 {
		return
	}
	b[r.Intn(len(b))] ^= byte(1 << uint(r.Intn(8)))
}

func bogusCid(r *vlib.Rand) string {
	b := make([]byte, 16)
	for i := range b {
		b[i] = byte(r.U64())
	}
	id, _ := cidutil.NewCidFromBytes(b)
	return id
}

var commonMuts = []string{"cid_alias", "cid_alias", "flip_keep_id", "flip_payload_new_id", "flip_sig_new_id", "wrong_id", "resign_other", "prev_older",
	"prev_bogus", "dup", "dup_root", "trunc_keep_id", "trunc_new_id", "swap_sig", "skip_ahead", "empty_payload", "flip_data_resigned_by_other"}

var acceptorMuts = []string{"acc_drop", "acc_corrupt", "acc_other_key", "acc_wrong_signer", "acc_sig_of_other_record", "acc_identity_garbage"}

// mutate builds a mutated delivery aimed at a replica that has accepted recs[:i] (so recs[i] is the acceptable
// next record).  Returns nil when the mutation kind is not applicable at this position.
func (h *hist) mutate(kind string, i int, r *vlib.Rand) *RawRec {
	if i >= len(h.recs) {
		if kind != "dup" && kind != "dup_root" {
			return nil
		}
	}
	var t *RawRec
	var author int
	if i < len(h.recs) {
		t = h.recs[i].raw
		author = h.recs[i].author
	}
	switch kind {
	case "cid_alias":
		// bytes and signatures untouched, the id is another spelling of the same digest
		al := cidAliases(t.Id, r)
		if len(al) == 0 {
			return nil
		}
		a := al[r.Intn(len(al))]
		h.w.Stat("cid_alias_variant_" + a.name)
		if _, err := cid.Decode(a.id); err == nil {
			h.w.Stat("cid_alias_parseable_by_go_cid")
		}
		return &RawRec{Payload: clone(t.Payload), Id: a.id}
	case "flip_keep_id":
		p := clone(t.Payload)
		flip(p, r)
		return &RawRec{Payload: p, Id: t.Id}
	case "flip_payload_new_id":
		raw, _ := unwrap(t)
		raw.Payload = clone(raw.Payload)
		flip(raw.Payload, r)
		h.acceptorSign(raw) // the acceptor signed the tampered bytes: only the author's signature / decoding is broken
		return aclh.WithId(raw)
	case "flip_sig_new_id":
		raw, _ := unwrap(t)
		raw.Signature = clone(raw.Signature)
		flip(raw.Signature, r)
		return aclh.WithId(raw)
	case "wrong_id":
		return &RawRec{Payload: clone(t.Payload), Id: bogusCid(r)}
	case "resign_other":
		raw, _ := unwrap(t)
		other := 1 + r.Intn(nAccounts)
		if other == author {
			other = aclh.Observer
		}
		sig, _ := h.W.Key(other).Sign(raw.Payload)
		raw.Signature = sig
		return aclh.WithId(raw)
	case "flip_data_resigned_by_other":
		// an attacker without the author's key alters the content and signs with its own key, keeping the identity
		raw, rec := unwrap(t)
		rec.Data = clone(rec.Data)
		flip(rec.Data, r)
		other := 1 + r.Intn(nAccounts)
		if other == author {
			other = aclh.Observer
		}
		h.resign(raw, rec, other)
		return aclh.WithId(raw)
	case "prev_older":
		if i < 1 {
			return nil
		}
		raw, rec := unwrap(t)
		j := r.Intn(i) // 0 = root, k = recs[k-1]; the head is recs[i-1] = index i
		if j == 0 {
			rec.PrevId = h.root.Id
		} else {
			rec.PrevId = h.recs[j-1].raw.Id
		}
		h.resign(raw, rec, author)
		return aclh.WithId(raw)
	case "prev_bogus":
		raw, rec := unwrap(t)
		if r.Bool() {
			rec.PrevId = bogusCid(r)
		} else {
			rec.PrevId = ""
		}
		h.resign(raw, rec, author)
		return aclh.WithId(raw)
	case "dup":
		if i < 1 {
			return nil
		}
		d := h.recs[r.Intn(i)].raw
		return &RawRec{Payload: clone(d.Payload), Id: d.Id}
	case "dup_root":
		return &RawRec{Payload: clone(h.root.Payload), Id: h.root.Id}
	case "trunc_keep_id":
		cut := 1 + r.Intn(len(t.Payload)-1)
		return &RawRec{Payload: clone(t.Payload[:cut]), Id: t.Id}
	case "trunc_new_id":
		// cut inside the Payload / Signature fields (cutting at a boundary inside the trailing acceptor fields gives a
		// well-formed record that a replica without acceptor check legitimately accepts under a new id)
		raw, _ := unwrap(t)
		raw.AcceptorIdentity, raw.AcceptorSignature, raw.AcceptorTimestamp = nil, nil, 0
		base, _ := raw.MarshalVT()
		cut := 1 + r.Intn(len(base)-1)
		p := clone(t.Payload[:cut])
		id, _ := cidutil.NewCidFromBytes(p)
		return &RawRec{Payload: p, Id: id}
	case "swap_sig":
		raw, _ := unwrap(t)
		var o *RawRec
		if i >= 1 {
			o = h.recs[r.Intn(i)].raw
		} else if len(h.recs) > 1 {
			o = h.recs[1].raw
		} else {
			return nil
		}
		oraw, _ := unwrap(o)
		raw.Signature = oraw.Signature
		return aclh.WithId(raw)
	case "skip_ahead":
		if i+1 >= len(h.recs) {
			return nil
		}
		d := h.recs[i+1].raw
		return &RawRec{Payload: clone(d.Payload), Id: d.Id}
	case "empty_payload":
		if r.Bool() {
			return &RawRec{Payload: nil, Id: t.Id}
		}
		id, _ := cidutil.NewCidFromBytes(nil)
		return &RawRec{Payload: nil, Id: id}
	// ---- acceptor mutations (only meaningful for replicas built with recordverifier.New(network key))
	case "acc_drop":
		raw, _ := unwrap(t)
		raw.AcceptorIdentity, raw.AcceptorSignature = nil, nil
		if r.Bool() {
			raw.AcceptorIdentity = h.netId
		}
		return aclh.WithId(raw)
	case "acc_corrupt":
		raw, _ := unwrap(t)
		raw.AcceptorSignature = clone(raw.AcceptorSignature)
		flip(raw.AcceptorSignature, r)
		return aclh.WithId(raw)
	case "acc_other_key":
		raw, _ := unwrap(t)
		k := h.W.Key(badAcceptorKey)
		if r.Bool() {
			k = h.W.Key(author) // the author accepts its own record
		}
		raw.AcceptorIdentity, _ = k.GetPublic().Marshall()
		raw.AcceptorSignature, _ = k.Sign(raw.Payload)
		return aclh.WithId(raw)
	case "acc_wrong_signer":
		raw, _ := unwrap(t)
		raw.AcceptorSignature, _ = h.W.Key(badAcceptorKey).Sign(raw.Payload)
		return aclh.WithId(raw)
	case "acc_sig_of_other_record":
		raw, _ := unwrap(t)
		var o *RawRec
		if i >= 1 {
			o = h.recs[r.Intn(i)].raw
		} else if len(h.recs) > 1 {
			o = h.recs[1].raw
		} else {
			return nil
		}
		oraw, _ := unwrap(o)
		raw.AcceptorSignature = oraw.AcceptorSignature
		return aclh.WithId(raw)
	case "acc_identity_garbage":
		raw, _ := unwrap(t)
		raw.AcceptorIdentity = []byte{0xff, 0x01, 0x02}
		return aclh.WithId(raw)
	// ---- malleability probe (expected to be ACCEPTED: AcceptorTimestamp is covered by no signature)
	case "acc_timestamp_new_id":
		raw, _ := unwrap(t)
		raw.AcceptorTimestamp += int64(1 + r.Intn(1000))
		return aclh.WithId(raw)
	}
	panic("unknown mutation " + kind)
}
