package main

// Phase 4: worlds whose ACL is ONE-TO-ONE (root with OneToOneInfo: the shared key both parties derive is Owner, the
// two parties are Writers).  Such a list consists of its root only: AclState.ApplyRecord refuses every record.
//
// Per world: two parties a, b (random accounts), the shared owner key derived with crypto.GenerateSharedKey (key number
// 800), the root made by spacepayloads.StoragePayloadForOneToOneSpace (as clients do) or by
// AclRecordBuilder.BuildOneToOneRoot (writers in either order).  Replicas: party a, party b, a third account, a node
// (observer identity), and a list run with the shared key itself as identity; validating (ValidateFull) and
// non-validating (recordverifier.New(network key)); in-memory and any-store storage.  Every first build is a COneBuild
// case.  Each replica is then offered its own stream:
//   - hand-signed, consensus-signed records chained onto ITS CURRENT head, of every content kind (single and
//     multi-content), signed by the shared owner key, by each writer, by the third account and by strangers; contents
//     that the ordinary rules would allow in the current state (validCands) and contents they would refuse;
//   - records the real client builders hand out on a one-to-one list (with or without a preflight error);
//   - raw mutations of such a record (signature, id, id alias, prev, truncation, re-signing, the root again);
//   through AddRawRecord (COne) and AddRawRecords (COneBatch: known root + several records);
//   then restart = BuildAclListWithIdentity over a copy of the replica's own storage / the reopened database
//   (COneBuild with the live observation), catch-up of a fresh replica from what the live one serves through
//   RecordsAfter (COneBatch + CSame route 9), and at the end every replica against the first one (CSame route 9:
//   whatever they were offered, all replicas of a one-to-one ACL expose the same head and state).

import (
	"context"
	"fmt"
	"os"
	"path/filepath"
	"runtime/debug"

	anystore "github.com/anyproto/any-store"

	"github.com/anyproto/any-sync/commonspace/headsync/headstorage"
	"github.com/anyproto/any-sync/commonspace/object/acl/aclrecordproto"
	"github.com/anyproto/any-sync/commonspace/object/acl/list"
	"github.com/anyproto/any-sync/commonspace/object/acl/recordverifier"
	"github.com/anyproto/any-sync/commonspace/spacepayloads"
	"github.com/anyproto/any-sync/consensus/consensusproto"
	"github.com/anyproto/any-sync/util/crypto"

	"verifharness/cmd/c04/aclh"
	"verifharness/vlib"
)

const sharedKeyNum = 800

type oneWorld struct {
	h        *hist
	a, b, c  int // parties and the third account
	w1, w2   int // writers in root order
	stranger int
	rootKind string
	reps     []*oneRep
}

type oneRep struct {
	*replica
	role string // partyA | partyB | third | node | sharedkey
	any  bool
	db   anystore.DB
	path string
}

func (o *oneWorld) desc(kind, replica string, step int) desc { return o.h.desc(kind, replica, step) }

// same: CSame route 9 (replica rp against the observation ref of another replica of the same one-to-one ACL).
func (o *oneWorld) same(withKeys bool, ref obsv, refName string, rp *replica) {
	h := o.h
	ob := h.observe(rp)
	t := vlib.App("CSame", "9", vlib.Bool(withKeys), ref.S.Coq(), fmt.Sprintf("%d", ref.Head), ob.S.Coq(), fmt.Sprintf("%d", ob.Head))
	d := o.desc("one-same", rp.name, rp.pos)
	d.Route, d.Me = 9, rp.me
	d.Obs = fmt.Sprintf("against %s: heads %d / %d", refName, ref.Head, ob.Head)
	h.w.Add(t, d, t, true)
	h.w.Stat("case_CSame")
	h.w.Stat("CSame_route9")
	if ob.Head != ref.Head {
		h.w.Stat("route9_head_differs")
	}
}

func isOne(rp *replica) bool { return rp.l.AclState().IsOneToOne() }

func (rn *runner) oneWorld(seed uint64, idx int) {
	h := &hist{rn: rn, w: rn.w, seed: seed, idx: idx, r: vlib.NewRand(seed).Fork(uint64(7_000_000 + idx)), world: "one"}
	h.dbDir = filepath.Join(rn.o.Out, "db", fmt.Sprintf("one%d_%d", seed, idx))
	o := &oneWorld{h: h}
	defer func() {
		if p := recover(); p != nil {
			if os.Getenv("C03_DEBUG") != "" {
				fmt.Printf("ONE-WORLD PANIC %v\n%s\n", p, debug.Stack())
			}
			rn.w.Violation(rn.w.Count(), "harness-panic", fmt.Sprintf("one-to-one world %d/%d: %v", seed, idx, p), o.desc("one-world", "", 0))
			rn.w.Stat("one_world_panicked")
		}
		for _, rp := range o.reps {
			if rp.db != nil {
				_ = rp.db.Close()
			}
		}
		_ = os.RemoveAll(h.dbDir)
	}()
	o.setup()
	o.run()
}

func (o *oneWorld) setup() {
	h := o.h
	r := h.r
	h.W = aclh.NewWorld(worldSeed)
	h.netKey = h.W.Key(netKeyNum)
	h.netId, _ = h.netKey.GetPublic().Marshall()
	h.netVerifier = recordverifier.New(h.netKey.GetPublic())
	h.invKeys = map[int]crypto.PrivKey{}
	h.invalid = map[int][]*hrec{}
	h.snaps = map[int][]aclh.State{}
	h.termCache = map[*RawRec]cachedTerm{}
	h.everMember = map[int]bool{}
	h.accts = map[int]*replica{}
	p := r.Perm(nAccounts)
	o.a, o.b, o.c, o.stranger = 1+p[0], 1+p[1], 1+p[2], 1+p[3]
	ka, kb := h.W.Key(o.a), h.W.Key(o.b)
	shared, err := crypto.GenerateSharedKey(ka, kb.GetPublic(), crypto.AnysyncOneToOneSpacePath)
	if err != nil {
		panic(err)
	}
	sharedB, err := crypto.GenerateSharedKey(kb, ka.GetPublic(), crypto.AnysyncOneToOneSpacePath)
	if err != nil || !sharedB.GetPublic().Equals(shared.GetPublic()) {
		panic("the two parties derive different shared keys")
	}
	h.W.SetKey(sharedKeyNum, shared)
	h.owner = sharedKeyNum
	switch h.idx % 3 {
	case 0:
		// what a client does when it creates the space
		o.rootKind = "spacepayloads"
		pl, err := spacepayloads.StoragePayloadForOneToOneSpace(ka, kb.GetPublic())
		if err != nil {
			panic(err)
		}
		plB, err := spacepayloads.StoragePayloadForOneToOneSpace(kb, ka.GetPublic())
		if err != nil || plB.AclWithId.Id != pl.AclWithId.Id {
			panic("the two parties build different one-to-one roots")
		}
		h.root = pl.AclWithId
		rt := &aclrecordproto.AclRoot{}
		raw := &consensusproto.RawRecord{}
		if raw.UnmarshalVT(h.root.Payload) != nil || rt.UnmarshalVT(raw.Payload) != nil || rt.OneToOneInfo == nil || len(rt.OneToOneInfo.Writers) != 2 {
			panic("cannot read back the one-to-one root")
		}
		o.w1, o.w2 = h.W.IdNum(rt.OneToOneInfo.Writers[0]), h.W.IdNum(rt.OneToOneInfo.Writers[1])
	default:
		o.rootKind = "builder"
		o.w1, o.w2 = o.a, o.b
		if h.idx%3 == 2 {
			o.w1, o.w2 = o.b, o.a
		}
		rb := list.NewAclRecordBuilder("", crypto.NewKeyStorage(), nil, recordverifier.NewValidateFull())
		root, err := rb.BuildOneToOneRoot(list.RootContent{PrivKey: shared, MasterKey: shared},
			&aclrecordproto.AclOneToOneInfo{Owner: h.W.IdBytes(sharedKeyNum), Writers: [][]byte{h.W.IdBytes(o.w1), h.W.IdBytes(o.w2)}})
		if err != nil {
			panic(err)
		}
		h.root = root
	}
	h.W.Bind(1, h.root.Id)
	h.w.Stat("one_world")
	h.w.Stat("one_root_by_" + o.rootKind)
}

func (o *oneWorld) storedTerms(rp *replica, s aclh.State) []string {
	var ws []string
	first := true
	_ = rp.st.GetAfterOrder(ctx, 1, func(_ context.Context, sr list.StorageRecord) (bool, error) {
		if first {
			first = false
			return true, nil
		}
		t, _ := o.h.term(&RawRec{Payload: sr.RawRecord, Id: sr.Id}, s)
		ws = append(ws, t)
		return true, nil
	})
	return ws
}

// buildCase emits the COneBuild case of a (re)build; live = observation of the live replica whose storage it is.
func (o *oneWorld) buildCase(name string, me int, v bool, stored []string, live *obsv, liveOne bool, rp *replica, err error, step int) {
	h := o.h
	liveT := "None"
	if live != nil {
		liveT = fmt.Sprintf("(Some (%s, %s, %s))", vlib.Bool(liveOne), live.S.Coq(), ints(live.Ids))
	}
	ok, oneR := err == nil && rp != nil, false
	sR, idsR := "(mkState [] [] [] [] [] [] 0 [])", "[]"
	if ok {
		ob := h.observe(rp)
		oneR, sR, idsR = isOne(rp), ob.S.Coq(), ints(ob.Ids)
	}
	t := vlib.App("COneBuild", vlib.Bool(!v), vlib.Bool(v), vlib.N(uint64(me)), vlib.N(sharedKeyNum), vlib.N(uint64(o.w1)), vlib.N(uint64(o.w2)), "1",
		vlib.List(stored), liveT, vlib.Bool(ok), vlib.Bool(oneR), sR, idsR)
	d := o.desc("one-build", name, step)
	d.Me = me
	if err != nil {
		d.Obs = "build failed: " + err.Error()
	} else {
		d.Obs = fmt.Sprintf("built, IsOneToOne=%v, %d stored records after the root", oneR, len(stored))
	}
	h.w.Add(t, d, t, true)
	h.w.Stat("case_COneBuild")
	if live == nil {
		h.w.Stat("one_first_build")
	} else {
		h.w.Stat("one_restart")
		if !ok {
			h.w.Stat("one_restart_FAILED")
		}
	}
}

func (o *oneWorld) newRep(role string, me int, v, any bool) *oneRep {
	h := o.h
	rp := &oneRep{role: role, any: any}
	name := fmt.Sprintf("%s_me%d_v%v", role, me, v)
	var st list.Storage
	var err error
	if any {
		name += "_anystore"
		if err = os.MkdirAll(h.dbDir, 0o755); err != nil {
			panic(err)
		}
		rp.path = filepath.Join(h.dbDir, name+".db")
		rp.db, err = anystore.Open(ctx, rp.path, dbConfig())
		if err != nil {
			panic(err)
		}
		hs, err := headstorage.New(ctx, rp.db)
		if err != nil {
			panic(err)
		}
		st, err = list.CreateStorage(ctx, h.root, hs, rp.db)
		if err != nil {
			panic(err)
		}
	} else {
		st, err = list.NewInMemoryStorage(h.root.Id, []*RawRec{h.root})
		if err != nil {
			panic(err)
		}
	}
	r, err := h.build(name, me, v, st, 0)
	o.buildCase(name, me, v, nil, nil, false, r, err, 0)
	if err != nil {
		h.w.Violation(h.w.Count(), "one-first-build-failed", fmt.Sprintf("BuildAclListWithIdentity(me=%d, v=%v) over a one-to-one root failed: %v", me, v, err), o.desc("one-build", name, 0))
		return nil
	}
	rp.replica = r
	o.reps = append(o.reps, rp)
	h.w.Stat("one_replica_" + role)
	return rp
}

// restart: a list rebuilt from the live replica's own storage (copy of the in-memory storage / reopened database).
func (o *oneWorld) restart(rp *oneRep) {
	h := o.h
	live := h.observe(rp.replica)
	liveOne := isOne(rp.replica)
	stored := o.storedTerms(rp.replica, live.S)
	var st list.Storage
	if rp.any {
		if err := rp.db.Close(); err != nil {
			panic(err)
		}
		db, err := anystore.Open(ctx, rp.path, dbConfig())
		if err != nil {
			panic(err)
		}
		rp.db = db
		hs, err := headstorage.New(ctx, db)
		if err != nil {
			panic(err)
		}
		st, err = list.NewStorage(ctx, h.root.Id, hs, db)
		if err != nil {
			panic(err)
		}
	} else {
		st = rp.st.(interface{ Copy() list.Storage }).Copy()
	}
	nr, err := h.build(rp.name+"_restarted", rp.me, rp.v, st, rp.pos)
	o.buildCase(rp.name+"_restarted", rp.me, rp.v, stored, &live, liveOne, nr, err, rp.pos)
	if rp.any && err == nil {
		// the process goes on with the rebuilt list (the old one belongs to the closed database)
		nr.name = rp.name
		rp.replica = nr
	} else if rp.any {
		// no list can be built over this database any more: the replica is dead
		rp.replica = nil
	}
}

// ---------------------------------------------------------------- offered records

type oneOffer struct {
	rec  *RawRec
	kind string // author role + content kinds
	mut  string
}

func (o *oneWorld) roleOf(author int) string {
	switch author {
	case sharedKeyNum:
		return "sharedkey"
	case o.a, o.b:
		return "writer"
	case o.c:
		return "third"
	}
	return "stranger"
}

// contentsFor: 1-3 contents for a record by author in the observed state s.
func (o *oneWorld) contentsFor(s aclh.State, author int) []aclh.C {
	h := o.h
	r := h.r
	var pool []aclh.C
	good := h.validCands(s, author, r.Intn(1000))
	switch permOf(s, author) {
	case 1, 2:
		pool = good
		if r.Chance(1, 4) {
			pool = h.invalidCands(s, author)
		}
	case 0:
		pool = []aclh.C{{K: "empty"}, {K: "rremove"}, {K: "invite", A: 310, T: 0}, {K: "add", L: []aclh.AP{{A: author, P: 3}}},
			{K: "rjoin", A: author, R: 7777, SK: 0, SM: author, Meta: true}, {K: "options", Opt: 2}}
		for _, i := range s.Invs {
			if i.Key >= 300 && i.Key < 500 {
				pool = append(pool, aclh.C{K: "rjoin", A: author, R: i.Rid, SK: i.Key, SM: author, Meta: true})
				pool = append(pool, aclh.C{K: "ijoin", A: author, R: i.Rid, P: i.Perm, SK: i.Key, SM: author, Meta: true, Enc: true})
			}
		}
	default:
		pool = []aclh.C{{K: "rremove"}, {K: "empty"}, {K: "unknown"}, {K: "invite", A: 311, T: 0}, {K: "options", Opt: 1},
			{K: "perm", A: author, P: 2}, {K: "owner", A: author, P: 3}, {K: "add", L: []aclh.AP{{A: o.c, P: 3}}},
			{K: "rk", Rk: &aclh.Rk{Meta: true, Fields: true, Acc: s.ActiveUsers(nil), Inv: s.ActiveInviteKeys()}}}
		for _, q := range s.Reqs {
			pool = append(pool, aclh.C{K: "cancel", R: q.Rid})
		}
	}
	if author == sharedKeyNum && r.Chance(1, 5) {
		// the owner key hands ownership to a party / removes a party
		pool = []aclh.C{{K: "owner", A: o.a, P: 2}, {K: "owner", A: o.b, P: 3},
			{K: "remove", Ids: []int{o.b}, Rk: &aclh.Rk{Meta: true, Fields: true, Acc: s.ActiveUsers([]int{o.b}), Inv: s.ActiveInviteKeys()}}}
	}
	if len(pool) == 0 {
		pool = []aclh.C{{K: "empty"}}
	}
	n := 1
	if r.Chance(1, 4) {
		n = 2 + r.Intn(2)
	}
	var cs []aclh.C
	for i := 0; i < n; i++ {
		cs = append(cs, pool[r.Intn(len(pool))])
	}
	return cs
}

func csKinds(cs []aclh.C) string {
	s := ""
	for i, c := range cs {
		if i > 0 {
			s += "+"
		}
		s += c.K
	}
	return s
}

var oneMuts = []string{"cid_alias", "flip_keep_id", "flip_payload_new_id", "flip_sig_new_id", "wrong_id", "resign_other", "prev_bogus",
	"dup_root", "trunc_keep_id", "trunc_new_id", "empty_payload", "flip_data_resigned_by_other", "acc_drop", "acc_corrupt", "acc_other_key"}

// offer: the next record offered to rp (chained onto its current head).
func (o *oneWorld) offer(rp *oneRep, s aclh.State) *oneOffer {
	h := o.h
	r := h.r
	authors := []int{sharedKeyNum, sharedKeyNum, sharedKeyNum, o.a, o.b, o.c, o.stranger}
	author := authors[r.Intn(len(authors))]
	prev := rp.l.Head().Id
	x := r.Intn(20)
	switch {
	case x < 2:
		// a record from the real client builder of a list run by the author (owner key or a writer)
		if raw, kind := o.fromBuilder(rp, author); raw != nil {
			return &oneOffer{rec: h.consensus(raw), kind: o.roleOf(author) + ":builder_" + kind}
		}
	case x < 3:
		prev = h.W.Rid(7000 + r.Intn(50)) // not the head
	}
	cs := o.contentsFor(s, author)
	rec := h.handRecord(prev, author, cs)
	of := &oneOffer{rec: rec, kind: o.roleOf(author) + ":" + csKinds(cs)}
	if x >= 3 && x < 7 {
		kind := oneMuts[r.Intn(len(oneMuts))]
		h.recs = []*hrec{{raw: rec, kind: of.kind, author: author}}
		m := h.mutate(kind, 0, r)
		h.recs = nil
		if m != nil {
			of.rec, of.mut = m, kind
		}
	}
	return of
}

// fromBuilder: what the real record builder of a list with the author's identity, in rp's state, hands out (possibly
// together with a preflight error).
func (o *oneWorld) fromBuilder(rp *oneRep, author int) (raw *consensusproto.RawRecord, kind string) {
	h := o.h
	defer func() {
		if p := recover(); p != nil {
			h.w.Stat("one_builder_panic_" + kind)
			raw = nil
		}
	}()
	if author != sharedKeyNum && author != o.a && author != o.b {
		return nil, ""
	}
	st, ok := rp.st.(interface{ Copy() list.Storage })
	if rp.any || !ok {
		return nil, ""
	}
	l, err := list.BuildAclListWithIdentity(h.W.AccountKeys(author), st.Copy(), recordverifier.NewValidateFull())
	if err != nil {
		h.w.Stat("one_builder_list_not_buildable")
		return nil, ""
	}
	b := l.RecordBuilder()
	switch h.r.Intn(4) {
	case 0:
		kind = "invite"
		res, e := b.BuildInvite()
		raw, err = res.InviteRec, e
	case 1:
		kind = "options"
		raw, err = b.BuildSpaceOptionsChange(&aclrecordproto.AclSpaceOptions{DeleteRestricted: true})
	case 2:
		kind = "rremove"
		raw, err = b.BuildRequestRemove()
	default:
		kind = "add"
		raw, err = b.BuildAccountsAdd(list.AccountsAddPayload{Additions: []list.AccountAdd{{Identity: h.W.Pub(o.c), Permissions: list.AclPermissionsReader, Metadata: []byte("m")}}})
	}
	if raw == nil {
		h.w.Stat("one_builder_gave_nothing_" + kind)
		return nil, kind
	}
	if err != nil {
		h.w.Stat("one_builder_preflight_error_" + kind)
	} else {
		h.w.Stat("one_builder_NO_preflight_error_" + kind)
	}
	return raw, kind
}

// ---------------------------------------------------------------- deliveries

func (o *oneWorld) add(rp *oneRep, of *oneOffer) string {
	h := o.h
	w := h.w
	before := h.observe(rp.replica)
	oneB := isOne(rp.replica)
	term, in := h.term(of.rec, before.S)
	o.validateProbe(rp, of, oneB)
	res, err, p := h.deliver(rp.replica, of.rec)
	w.Stat("deliveries")
	if res == "OAccepted" {
		rp.pos++
	}
	after := h.observe(rp.replica)
	oneA := isOne(rp.replica)
	d := o.desc("one-add", rp.name, rp.pos)
	d.Rec, d.Mut, d.Me = of.kind, of.mut, rp.me
	d.Obs = fmt.Sprintf("IsOneToOne %v -> %v; %s", oneB, oneA, res)
	if err != nil {
		d.Obs += ": " + err.Error()
	}
	if p != nil {
		d.Obs = fmt.Sprintf("PANIC: %v", p)
		w.Violation(w.Count(), "panic", fmt.Sprintf("AddRawRecord panicked on one-to-one replica %s: %v", rp.name, p), d)
	}
	t := vlib.App("COne", vlib.Bool(rp.needAcc), vlib.Bool(rp.v), vlib.N(uint64(rp.me)), vlib.Bool(oneB), before.S.Coq(), ints(before.Ids), term,
		res, vlib.Bool(oneA), after.S.Coq(), ints(after.Ids), ints(after.Stored))
	// non-trivial: nothing but the one-to-one guard (and the ordinary content rules behind it) stands between the record
	// and the log, or the record is a raw mutation of such a record
	fine := in.CidOk && in.SigOk && in.Decodes && (in.AccOk || !rp.needAcc) && in.Prev == before.Head
	w.Add(t, d, t, fine || of.mut != "")
	w.Stat("case_COne")
	w.Stat("COne_" + rp.role + "_" + res)
	if of.mut != "" {
		w.Stat("one_mut_" + of.mut + "_" + res)
	} else {
		w.Stat("one_record_by_" + o.roleOf(in.Author) + "_" + res)
		if fine {
			w.Stat("one_wellformed_chained_record_" + res)
		}
		for _, c := range in.Cs {
			w.Stat("one_content_" + c.K + "_" + res)
		}
		if len(in.Cs) > 1 {
			w.Stat("one_multi_content_record_" + res)
		}
	}
	if oneB && !oneA {
		w.Stat("one_FLAG_LOST")
	}
	if len(h.rn.oneSamples) < 2 && fine && of.mut == "" {
		h.rn.oneSamples = append(h.rn.oneSamples, d)
	}
	return res
}

// validateProbe: AclList.ValidateRawRecord (what a consensus / coordinator node asks before it accepts a record into the
// log) applies the record to a copy of the state as well: on a list that is one-to-one it must refuse every record.
// Not part of the model: reported directly.
func (o *oneWorld) validateProbe(rp *oneRep, of *oneOffer, one bool) {
	h := o.h
	if !one {
		return
	}
	raw := &consensusproto.RawRecord{}
	if raw.UnmarshalVT(of.rec.Payload) != nil {
		return
	}
	var err error
	func() {
		defer func() {
			if p := recover(); p != nil {
				err = fmt.Errorf("PANIC: %v", p)
			}
		}()
		err = rp.l.ValidateRawRecord(raw, nil)
	}()
	h.w.Stat("one_ValidateRawRecord_calls")
	if err == nil {
		h.w.Stat("one_ValidateRawRecord_ACCEPTED")
		d := o.desc("one-validate", rp.name, rp.pos)
		d.Rec, d.Mut, d.Me = of.kind, of.mut, rp.me
		d.Obs = "ValidateRawRecord returned nil on a list whose IsOneToOne() is true"
		h.w.Violation(h.w.Count(), "one-validate-accepts", fmt.Sprintf("replica %s (one-to-one): ValidateRawRecord accepted a record (%s)", rp.name, of.kind), d)
	}
}

func (o *oneWorld) batch(rp *oneRep, offers []*oneOffer, kind string) {
	h := o.h
	w := h.w
	before := h.observe(rp.replica)
	oneB := isOne(rp.replica)
	var raws []*RawRec
	var ws []string
	for _, of := range offers {
		raws = append(raws, of.rec)
		t, _ := h.term(of.rec, before.S)
		ws = append(ws, t)
	}
	berr := h.addRecords(rp.replica, raws)
	after := h.observe(rp.replica)
	oneA := isOne(rp.replica)
	t := vlib.App("COneBatch", vlib.Bool(rp.needAcc), vlib.Bool(rp.v), vlib.N(uint64(rp.me)), vlib.Bool(oneB), before.S.Coq(), ints(before.Ids),
		vlib.List(ws), vlib.Bool(berr == nil), vlib.Bool(oneA), after.S.Coq(), ints(after.Ids), ints(after.Stored))
	d := o.desc("one-batch", rp.name, rp.pos)
	d.Me, d.Mut = rp.me, kind
	d.Obs = fmt.Sprintf("IsOneToOne %v -> %v; %d offered, log %d -> %d records; err=%v", oneB, oneA, len(raws), len(before.Ids), len(after.Ids), berr)
	w.Add(t, d, t, len(raws) > 0)
	w.Stat("case_COneBatch")
	w.Stat("one_batch_" + kind)
	if len(after.Ids) != len(before.Ids) {
		w.Stat("one_batch_ACCEPTED_records")
	}
}

func (o *oneWorld) run() {
	h := o.h
	r := h.r
	anyIdx := -1
	if h.idx%3 == 0 && os.Getenv("C03_NOANY") == "" {
		anyIdx = r.Intn(5)
	}
	roles := []struct {
		role string
		me   int
	}{{"partyA", o.a}, {"partyB", o.b}, {"third", o.c}, {"node", aclh.Observer}, {"sharedkey", sharedKeyNum}}
	for i, ro := range roles {
		v := r.Chance(2, 3)
		if ro.role == "node" {
			v = r.Bool()
		}
		o.newRep(ro.role, ro.me, v, i == anyIdx)
	}
	if len(o.reps) == 0 {
		return
	}
	rootOffer := &oneOffer{rec: &RawRec{Payload: clone(h.root.Payload), Id: h.root.Id}, kind: "root", mut: "dup_root"}
	steps := 5 + r.Intn(4)
	if h.rn.o.Tier == "thorough" {
		steps += 4
	}
	for _, rp := range o.reps {
		for k := 0; k < steps && rp.replica != nil; k++ {
			s := h.W.Dump(rp.l.AclState())
			o.add(rp, o.offer(rp, s))
			if r.Chance(1, 10) {
				o.restart(rp)
			}
		}
		if rp.replica == nil {
			continue
		}
		// AddRawRecords: [the root (known)] ++ 1-3 records, each chained onto the head at the time it was made
		var offers []*oneOffer
		if r.Bool() {
			offers = append(offers, rootOffer)
		}
		s := h.W.Dump(rp.l.AclState())
		for k, n := 0, 1+r.Intn(3); k < n; k++ {
			of := o.offer(rp, s)
			offers = append(offers, of)
		}
		if r.Chance(1, 5) {
			offers = []*oneOffer{rootOffer, rootOffer}
		}
		o.batch(rp, offers, "offered")
		o.restart(rp)
		if rp.replica == nil {
			continue
		}
		// a record after the restart, too
		s = h.W.Dump(rp.l.AclState())
		o.add(rp, o.offer(rp, s))
	}
	// catch-up of a fresh replica from what a live one serves
	for _, srv := range o.reps {
		if srv.replica == nil || !r.Chance(1, 3) {
			continue
		}
		ids := []int{o.a, o.b, o.c, aclh.Observer}
		E := o.newRep("catchup", ids[r.Intn(len(ids))], r.Bool(), false)
		if E == nil {
			continue
		}
		o.reps = o.reps[:len(o.reps)-1] // not part of the final comparison loop below (compared right here)
		served, err := srv.l.RecordsAfter(ctx, E.l.Head().Id)
		h.w.Stat(fmt.Sprintf("one_RecordsAfter_root_served_%d_err_%v", len(served), err != nil))
		var offers []*oneOffer
		for _, s := range served {
			offers = append(offers, &oneOffer{rec: s, kind: "served"})
		}
		o.batch(E, offers, "catchup")
		o.same(srv.me == E.me, h.observe(srv.replica), srv.name, E.replica)
	}
	// all replicas of a one-to-one ACL expose the same head and state, whatever they were offered
	var ref *oneRep
	for _, rp := range o.reps {
		if rp.replica == nil {
			continue
		}
		if ref == nil {
			ref = rp
			continue
		}
		o.same(ref.me == rp.me, h.observe(ref.replica), ref.name, rp.replica)
	}
}
