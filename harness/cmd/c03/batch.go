package main

// Phase 3: the batch stream.  Batches [known records..., valid new records..., BAD, valid continuation...] are delivered
// through AddRawRecords to a fresh validating replica, and the same sequence one by one through AddRawRecord to another
// one.  BAD is a record that a replica must reject:
//   - "content":  hand-signed by a member (owner / admin / guest), consensus-signed, chained onto the right head, with m
//                 contents of which the first k-1 are valid in sequence and state-changing and the k-th is invalid
//                 (every k in 1..m, m in 1..4), optionally followed by more contents;
//   - "late":     a record whose content passes its validator and fails in apply after it has begun to mutate the copy
//                 (RequestRemove by a Guest);
//   - "mut:*":    a raw-record mutation of the acceptable next record (signature, CID, prev, truncation, ..., and
//                 "cid_alias": bytes and signatures untouched, id = another spelling of the same digest);
//   - "invalid":  a record the client builder's preflight check refused at this position.
// BAD sits at every position of the batch (first new record, after 1..4 new valid records, last, followed by valid
// continuation records, preceded by records the replica already has).  After the call the batch replica is compared with
//   - the one-at-a-time reference replica A at the same head               (CSame route 7)
//   - a list rebuilt from the batch replica's OWN storage                   (CSame route 8)
//   - the model's add_raws on the observed state before the call           (CBatch)
// and the rest of the history is then delivered to it in a second AddRawRecords call (so that a state that silently
// diverged shows at the end of the history as well).

import (
	"fmt"
	"sort"

	"github.com/anyproto/any-sync/commonspace/object/acl/list"

	"verifharness/cmd/c04/aclh"
	"verifharness/vlib"
)

var batchMuts = []string{"flip_keep_id", "flip_payload_new_id", "flip_sig_new_id", "wrong_id", "resign_other", "prev_older",
	"prev_bogus", "trunc_keep_id", "trunc_new_id", "swap_sig", "skip_ahead", "empty_payload", "flip_data_resigned_by_other", "dup",
	"cid_alias", "cid_alias", "cid_alias", "cid_alias"}

type batchItem struct {
	rec  *RawRec
	kind string // builder kind ("" for hand-made records)
	mut  string // "" = genuine next record of the history
}

// validates reports whether a validating observer replica in the state of ref accepts (author, cs) chained on its head.
func (h *hist) validates(ref *replica, author int, cs []aclh.C) (st *aclh.State, ok bool) {
	defer func() {
		if p := recover(); p != nil {
			st, ok = nil, false
		}
	}()
	raw := h.W.RawRecord(ref.l.Head().Id, author, cs)
	err := ref.l.ValidateRawRecord(raw, func(s *list.AclState) error {
		d := h.W.Dump(s)
		st = &d
		return nil
	})
	return st, err == nil && st != nil
}

func permOf(s aclh.State, a int) int {
	for _, x := range s.Accs {
		if x.Id == a {
			return x.Perm
		}
	}
	return 0
}

// validCands: contents that are (probably) valid for author in state s and change the observable state.
func (h *hist) validCands(s aclh.State, author int, salt int) []aclh.C {
	ap := permOf(s, author)
	var out []aclh.C
	if ap != 1 && ap != 2 {
		return out
	}
	out = append(out, aclh.C{K: "invite", A: 300 + salt%50, T: 0})
	out = append(out, aclh.C{K: "invite", A: 360 + salt%50, T: 1, P: 3 + salt%2, Enc: true})
	if ap == 1 {
		out = append(out, aclh.C{K: "options", Opt: 1 + salt%2})
	}
	for _, a := range s.Accs {
		if a.Id == author || a.Id > nAccounts {
			continue
		}
		switch {
		case a.Perm == 3 || a.Perm == 4:
			out = append(out, aclh.C{K: "perm", A: a.Id, P: 7 - a.Perm})
			out = append(out, aclh.C{K: "perms", L: []aclh.AP{{A: a.Id, P: 7 - a.Perm}}})
			if ap == 1 {
				out = append(out, aclh.C{K: "perm", A: a.Id, P: 2})
			}
			out = append(out, aclh.C{K: "remove", Ids: []int{a.Id}, Rk: &aclh.Rk{Meta: true, Fields: true, Acc: s.ActiveUsers([]int{a.Id}), Inv: s.ActiveInviteKeys()}})
		case a.Perm == 2 && ap == 1:
			out = append(out, aclh.C{K: "perm", A: a.Id, P: 3})
			out = append(out, aclh.C{K: "owner", A: a.Id, P: 2})
		case a.Perm == 0:
			out = append(out, aclh.C{K: "add", L: []aclh.AP{{A: a.Id, P: 3 + salt%2}}})
		}
	}
	for a := 1; a <= nAccounts; a++ {
		known := false
		for _, x := range s.Accs {
			known = known || x.Id == a
		}
		if !known {
			out = append(out, aclh.C{K: "add", L: []aclh.AP{{A: a, P: 3 + salt%2}}})
		}
	}
	for _, i := range s.Invs {
		out = append(out, aclh.C{K: "revoke", R: i.Rid})
		if i.Type == 1 && i.Perm != 4 {
			out = append(out, aclh.C{K: "ichange", R: i.Rid, P: 4})
		}
	}
	for _, q := range s.Reqs {
		if q.Type == 1 {
			out = append(out, aclh.C{K: "decline", R: q.Rid})
			if permOf(s, q.Ident) == 0 {
				out = append(out, aclh.C{K: "accept", A: q.Ident, R: q.Rid, P: 4})
			}
		}
	}
	out = append(out, aclh.C{K: "rk", Rk: &aclh.Rk{Meta: true, Fields: true, Acc: s.ActiveUsers(nil), Inv: s.ActiveInviteKeys()}})
	return out
}

// invalidCands: contents that a validating replica must refuse from author in state s.
func (h *hist) invalidCands(s aclh.State, author int) []aclh.C {
	out := []aclh.C{
		{K: "revoke", R: 7777},
		{K: "perm", A: author, P: 3},
		{K: "perm", A: 13, P: 3},
		{K: "add", L: []aclh.AP{{A: author, P: 3}}},
		{K: "add", L: []aclh.AP{{A: 13, P: 1}}},
		{K: "add", L: []aclh.AP{{A: 13, P: 3}, {A: 0, P: 3}}},
		{K: "accept", A: 13, R: 7778, P: 4},
		{K: "decline", R: 7778},
		{K: "cancel", R: 7778},
		{K: "owner", A: 13, P: 2},
		{K: "owner", A: author, P: 2},
		{K: "ichange", R: 7777, P: 3},
		{K: "invite", A: 0, T: 0},
		{K: "invite", A: 399, T: 1, P: 1, Enc: true},
		{K: "invite", A: 399, T: 1, P: 3},
		{K: "rjoin", A: author, R: 7777, SK: 0, SM: author, Meta: true},
		{K: "ijoin", A: author, R: 7777, SK: 0, SM: author, Meta: true, Enc: true},
		{K: "remove", Ids: []int{author}, Rk: &aclh.Rk{Meta: true, Fields: true, Acc: s.ActiveUsers([]int{author}), Inv: s.ActiveInviteKeys()}},
		{K: "remove", Ids: []int{13}, Rk: &aclh.Rk{Meta: true, Fields: true, Acc: s.ActiveUsers(nil), Inv: s.ActiveInviteKeys()}},
		{K: "rk", Rk: &aclh.Rk{Meta: true, Fields: true, Acc: append(s.ActiveUsers(nil), 13), Inv: s.ActiveInviteKeys()}},
		{K: "rk", Rk: &aclh.Rk{Meta: false, Fields: true, Acc: s.ActiveUsers(nil), Inv: s.ActiveInviteKeys()}},
	}
	if permOf(s, author) == 1 {
		out = append(out, aclh.C{K: "rremove"})
	} else {
		out = append(out, aclh.C{K: "options", Opt: 2})
		for _, a := range s.Accs {
			if a.Perm == 2 && a.Id != author {
				out = append(out, aclh.C{K: "perm", A: a.Id, P: 4})
			}
		}
	}
	for _, a := range s.Accs {
		if a.Perm == 5 {
			out = append(out, aclh.C{K: "perm", A: a.Id, P: 3})
		}
		if a.Perm != 0 && a.Id != author {
			// a removal whose read-key change forgets a remaining member
			rest := s.ActiveUsers([]int{a.Id})
			if len(rest) > 1 {
				out = append(out, aclh.C{K: "remove", Ids: []int{a.Id}, Rk: &aclh.Rk{Meta: true, Fields: true, Acc: rest[1:], Inv: s.ActiveInviteKeys()}})
			}
		}
	}
	return out
}

// badContentRecord: contents cs with cs[:k-1] valid in sequence, cs[k-1] the first invalid one (k is 1-based), by a
// manager of the state at ref.  Returns nil when none could be made.
func (h *hist) badContentRecord(ref *replica, s aclh.State, m, k int) (author int, cs []aclh.C) {
	r := h.r
	var mgrs []int
	for _, a := range s.Accs {
		if (a.Perm == 1 || (a.Perm == 2 && r.Chance(1, 3))) && a.Id <= nAccounts {
			mgrs = append(mgrs, a.Id)
		}
	}
	if len(mgrs) == 0 {
		return 0, nil
	}
	sort.Ints(mgrs)
	author = mgrs[r.Intn(len(mgrs))]
	cur := s
	for len(cs) < k-1 {
		cands := h.validCands(cur, author, r.Intn(1000))
		found := false
		for try := 0; try < 6 && len(cands) > 0 && !found; try++ {
			c := cands[r.Intn(len(cands))]
			if st, ok := h.validates(ref, author, append(append([]aclh.C(nil), cs...), c)); ok {
				cs = append(cs, c)
				cur = *st
				found = true
			}
		}
		if !found {
			return 0, nil
		}
		if permOf(cur, author) != 1 && permOf(cur, author) != 2 {
			break // the author gave its role away inside the record: whatever follows is invalid
		}
	}
	bads := h.invalidCands(cur, author)
	found := false
	for try := 0; try < 6 && !found; try++ {
		c := bads[r.Intn(len(bads))]
		if _, ok := h.validates(ref, author, append(append([]aclh.C(nil), cs...), c)); !ok {
			cs = append(cs, c)
			found = true
		}
	}
	if !found {
		return 0, nil
	}
	for len(cs) < m {
		pool := h.validCands(cur, author, r.Intn(1000))
		if r.Chance(1, 3) || len(pool) == 0 {
			pool = h.invalidCands(cur, author)
		}
		cs = append(cs, pool[r.Intn(len(pool))])
	}
	return author, cs
}

func (h *hist) handRecord(prevId string, author int, cs []aclh.C) *RawRec {
	return h.consensus(h.W.RawRecord(prevId, author, cs))
}

func (h *hist) batches(trials int) {
	n := len(h.recs)
	if n == 0 || len(h.snaps[aclh.Observer]) != n+1 {
		return
	}
	for t := 0; t < trials; t++ {
		h.batchTrial(t)
	}
}

func (h *hist) batchTrial(t int) {
	r, w, n := h.r, h.w, len(h.recs)
	all := h.prefix(n) // all[0] = root, all[k] = recs[k-1]
	i := r.Intn(n + 1) // the replicas start with recs[:i]
	before := 0        // new valid records in front of the bad one
	if i < n {
		before = r.Intn(min(n-i, 4) + 1)
	}
	if t == 0 && before == 0 && i < n {
		before = 1
	}
	j := i + before
	tail := 0
	if j < n {
		tail = r.Intn(min(n-j, 2) + 1)
	}
	overlap := 0
	if r.Chance(1, 3) {
		overlap = 1 + r.Intn(min(i+1, 3))
	}
	ref, err := h.newMem("ref", aclh.Observer, true, j)
	if err != nil {
		return
	}
	sj := h.snaps[aclh.Observer][j]

	// ---- the bad record
	var bad *batchItem
	what := "content"
	switch x := r.Intn(10); {
	case x < 6:
	case x < 7:
		what = "late"
	case x < 9:
		what = "mut"
	default:
		what = "invalid"
	}
	if what == "invalid" && len(h.invalid[j]) == 0 {
		what = "content"
	}
	if what == "mut" && j >= n {
		what = "content"
	}
	switch what {
	case "late":
		var guests []int
		for _, a := range sj.Accs {
			if a.Perm == 5 && a.Id <= nAccounts && !(view{h, sj}).pending(a.Id) {
				guests = append(guests, a.Id)
			}
		}
		if len(guests) > 0 {
			g := guests[r.Intn(len(guests))]
			cs := []aclh.C{{K: "rremove"}}
			if _, ok := h.validates(ref, g, cs); !ok {
				bad = &batchItem{rec: h.handRecord(all[j].Id, g, cs), mut: "batch_late_guest_rremove"}
			}
		}
	case "mut":
		kind := batchMuts[r.Intn(len(batchMuts))]
		if m := h.mutate(kind, j, r); m != nil {
			bad = &batchItem{rec: m, kind: h.recs[j].kind, mut: kind}
		}
	case "invalid":
		b := h.invalid[j][r.Intn(len(h.invalid[j]))]
		bad = &batchItem{rec: b.raw, kind: b.kind, mut: "invalid"}
	}
	if bad == nil {
		m := 1 + r.Intn(4)
		k := 1 + r.Intn(m)
		if t == 0 && m < 2 {
			m, k = 2+r.Intn(2), 2
		}
		author, cs := h.badContentRecord(ref, sj, m, k)
		if cs == nil {
			w.Stat("batch_no_bad_record_possible")
			return
		}
		k = len(cs) // position of the first invalid content may be earlier than planned only if the author lost its role
		for q := range cs {
			if _, ok := h.validates(ref, author, cs[:q+1]); !ok {
				k = q + 1
				break
			}
		}
		what = "content"
		bad = &batchItem{rec: h.handRecord(all[j].Id, author, cs), mut: fmt.Sprintf("batch_content_%d_of_%d", k, len(cs))}
		w.Stat(fmt.Sprintf("batch_bad_content_fails_at_%d_of_%d", k, len(cs)))
	}
	w.Stat("batch_bad_" + what)
	w.Stat(fmt.Sprintf("batch_bad_after_%d_new_valid", before))
	w.Stat(fmt.Sprintf("batch_bad_followed_by_%d_valid", tail))
	w.Stat(fmt.Sprintf("batch_known_records_in_front_%d", overlap))

	// ---- the batch
	var items []batchItem
	for k := i + 1 - overlap; k <= i; k++ {
		if k >= 0 {
			items = append(items, batchItem{rec: all[k], mut: "dup"})
		}
	}
	for k := i; k < j; k++ {
		items = append(items, batchItem{rec: h.recs[k].raw, kind: h.recs[k].kind})
	}
	badPos := len(items)
	items = append(items, *bad)
	for k := j; k < j+tail; k++ {
		items = append(items, batchItem{rec: h.recs[k].raw, kind: h.recs[k].kind})
	}
	var raws []*RawRec
	for _, it := range items {
		raws = append(raws, it.rec)
	}

	// ---- batch replica
	B, err := h.newMem("Bbatch", aclh.Observer, true, i)
	if err != nil {
		return
	}
	ob := h.observe(B)
	berr := h.addRecords(B, raws)
	oa := h.observe(B)
	var ws []string
	for _, it := range items {
		term, _ := h.term(it.rec, ob.S)
		ws = append(ws, term)
	}
	term := vlib.App("CBatch", vlib.Bool(B.needAcc), vlib.Bool(B.v), vlib.N(uint64(B.me)), ob.S.Coq(), ints(ob.Ids), vlib.List(ws),
		vlib.Bool(berr == nil), oa.S.Coq(), ints(oa.Ids), ints(oa.Stored))
	d := h.desc("batch", "Bbatch", i)
	d.Mut, d.Rec, d.Me = bad.mut, bad.kind, B.me
	d.Obs = fmt.Sprintf("start %d, %d known + %d new valid + bad(%s) at %d + %d valid; err=%v; head after = record %d", i, overlap, before, bad.mut, badPos, tail, berr, oa.Head)
	w.Add(term, d, term, before > 0 || tail > 0)
	w.Stat("case_CBatch")
	if berr == nil {
		w.Stat("batch_returned_nil")
	}
	h.sameHead(7, B)
	if c := h.cloneOf(B, "Bbatch_rebuilt"); c != nil {
		oc := h.observe(c)
		h.same(8, true, oc.S, oc.Head, B)
	}
	// the rest of the history in a second call
	if B.pos < n && !h.headUnknown(B) {
		if err := h.addRecords(B, all[B.pos+1:]); err != nil {
			d2 := h.desc("addrecords", "Bbatch", B.pos)
			d2.Obs = fmt.Sprintf("after a batch with a rejected record (%s), the rest of the history was refused: %v", bad.mut, err)
			w.Violation(w.Count(), "batch-not-accepted", d2.Obs, d2)
		}
		if r.Bool() {
			h.sameHead(7, B)
		}
	}

	// ---- the same sequence one at a time (every delivery of and after the bad record is a CAdd case)
	S, err := h.newMem("Sseq", aclh.Observer, true, i)
	if err != nil {
		return
	}
	for q, it := range items {
		h.add(S, it.rec, it.kind, it.mut, q >= badPos || r.Chance(1, 4), 0)
		if S.forked {
			w.Stat("batch_seq_forked")
			return
		}
	}
	h.sameHead(7, S)
	if !r.Chance(1, 3) {
		return
	}
	if c := h.cloneOf(S, "Sseq_rebuilt"); c != nil {
		oc := h.observe(c)
		h.same(8, true, oc.S, oc.Head, S)
	}
}

func (h *hist) headUnknown(rp *replica) bool {
	hd := h.W.RidNum(rp.l.Head().Id)
	for _, x := range h.heads {
		if x == hd {
			return false
		}
	}
	return true
}

// sameHead compares rp with the reference replica A at the position where A had the same head.
func (h *hist) sameHead(route int, rp *replica) {
	hd := h.W.RidNum(rp.l.Head().Id)
	for k, x := range h.heads {
		if x == hd && k < len(h.snaps[aclh.Observer]) {
			h.same(route, rp.me == aclh.Observer, h.snaps[aclh.Observer][k], x, rp)
			return
		}
	}
	h.w.Stat(fmt.Sprintf("route%d_head_not_in_history", route))
}
