package aclh

// Decoding of real (builder-made or mutated) ACL records back into content specs: the inverse of World.Proto.
// Used by the C03 harness to print raw records made by the real client record builders as Coq [raw] terms.

import (
	"sort"

	"github.com/anyproto/any-sync/commonspace/object/acl/aclrecordproto"
	"github.com/anyproto/any-sync/commonspace/object/acl/list"
	"github.com/anyproto/any-sync/util/crypto"
)

// RegisterPub gives a public key the harness did not derive itself (an invite key made by the record builder)
// a stable number (>= 2000, in order of registration) and returns it.
func (w *World) RegisterPub(pk crypto.PubKey) int { return w.KeyNum(pk) }

// PubOf returns the public key with number n (nil if unknown).
func (w *World) PubOf(n int) crypto.PubKey {
	if k, ok := w.keys[n]; ok {
		return k.GetPublic()
	}
	if pk, ok := w.extra[n]; ok {
		return pk
	}
	return nil
}

// KnownNums: numbers of all keys that may sign / be signed in invite-identity signatures (account and invite keys,
// not the peer keys), sorted.
func (w *World) KnownNums() []int {
	var out []int
	for n := range w.keys {
		if n < 500000 {
			out = append(out, n)
		}
	}
	for n := range w.extra {
		out = append(out, n)
	}
	sort.Ints(out)
	return out
}

// IdNum: key number of marshalled identity bytes; 0 = the bytes do not parse as a public key.
func (w *World) IdNum(b []byte) int {
	pk, err := crypto.UnmarshalEd25519PublicKeyProto(b)
	if err != nil || pk == nil {
		return 0
	}
	return w.KeyNum(pk)
}

// SigOf finds (signing key, signed identity) of an invite-identity signature by verifying it with the real
// primitive: first the keys of the invites in st over the claimed identity, then every known key over every known
// identity.  (0, 0) = no known key verifies it.
func (w *World) SigOf(sig []byte, st State, claimed int) (sk, sm int) {
	try := func(k, m int) bool {
		pk, id := w.PubOf(k), w.PubOf(m)
		if pk == nil || id == nil {
			return false
		}
		raw, err := id.Raw()
		if err != nil {
			return false
		}
		ok, err := pk.Verify(raw, sig)
		return err == nil && ok
	}
	if claimed != 0 {
		for _, i := range st.Invs {
			if try(i.Key, claimed) {
				return i.Key, claimed
			}
		}
	}
	if len(sig) != 64 {
		return 0, 0
	}
	nums := w.KnownNums()
	for _, k := range nums {
		if claimed != 0 && try(k, claimed) {
			return k, claimed
		}
	}
	for _, k := range nums {
		for _, m := range nums {
			if try(k, m) {
				return k, m
			}
		}
	}
	return 0, 0
}

func (w *World) decodeRk(rk *aclrecordproto.AclReadKeyChange) *Rk {
	if rk == nil {
		return nil
	}
	out := &Rk{Acc: []int{}, Inv: []int{}}
	if pk, err := crypto.UnmarshalEd25519PublicKeyProto(rk.MetadataPubKey); err == nil && pk != nil {
		out.Meta = true
	}
	out.Fields = rk.EncryptedMetadataPrivKey != nil && rk.EncryptedOldReadKey != nil
	for _, k := range rk.AccountKeys {
		out.Acc = append(out.Acc, w.IdNum(k.GetIdentity()))
	}
	for _, k := range rk.InviteKeys {
		out.Inv = append(out.Inv, w.IdNum(k.GetIdentity()))
	}
	return out
}

// Decode turns the contents of a record into content specs (same switch order as AclState.applyChangeContent).
// st is the state the record is offered to (only used to find invite keys quickly).
func Decode(w *World, data *aclrecordproto.AclData, st State) []C {
	out := []C{}
	if data == nil {
		return out
	}
	for _, ch := range data.GetAclContent() {
		out = append(out, w.decodeContent(ch, st))
	}
	return out
}

func (w *World) decodeContent(ch *aclrecordproto.AclContentValue, st State) C {
	switch {
	case ch.GetOwnershipChange() != nil:
		m := ch.GetOwnershipChange()
		return C{K: "owner", A: w.IdNum(m.NewOwnerIdentity), P: int(m.OldOwnerPermissions)}
	case ch.GetInviteChange() != nil:
		m := ch.GetInviteChange()
		return C{K: "ichange", R: w.RidNum(m.InviteRecordId), P: int(m.Permissions)}
	case ch.GetInviteJoin() != nil:
		m := ch.GetInviteJoin()
		c := C{K: "ijoin", A: w.IdNum(m.Identity), R: w.RidNum(m.InviteRecordId), P: int(m.Permissions),
			Meta: len(m.Metadata) <= list.MaxMetadataLen, Enc: m.EncryptedReadKey != nil}
		c.SK, c.SM = w.SigOf(m.InviteIdentitySignature, st, c.A)
		return c
	case ch.GetPermissionChange() != nil:
		m := ch.GetPermissionChange()
		return C{K: "perm", A: w.IdNum(m.Identity), P: int(m.Permissions)}
	case ch.GetInvite() != nil:
		m := ch.GetInvite()
		return C{K: "invite", A: w.IdNum(m.InviteKey), T: int(m.InviteType), P: int(m.Permissions), Enc: m.EncryptedReadKey != nil}
	case ch.GetInviteRevoke() != nil:
		return C{K: "revoke", R: w.RidNum(ch.GetInviteRevoke().InviteRecordId)}
	case ch.GetRequestJoin() != nil:
		m := ch.GetRequestJoin()
		c := C{K: "rjoin", A: w.IdNum(m.InviteIdentity), R: w.RidNum(m.InviteRecordId), Meta: len(m.Metadata) <= list.MaxMetadataLen}
		c.SK, c.SM = w.SigOf(m.InviteIdentitySignature, st, c.A)
		return c
	case ch.GetRequestAccept() != nil:
		m := ch.GetRequestAccept()
		return C{K: "accept", A: w.IdNum(m.Identity), R: w.RidNum(m.RequestRecordId), P: int(m.Permissions)}
	case ch.GetRequestDecline() != nil:
		return C{K: "decline", R: w.RidNum(ch.GetRequestDecline().RequestRecordId)}
	case ch.GetRequestCancel() != nil:
		return C{K: "cancel", R: w.RidNum(ch.GetRequestCancel().RecordId)}
	case ch.GetAccountRemove() != nil:
		m := ch.GetAccountRemove()
		c := C{K: "remove", Ids: []int{}, Rk: w.decodeRk(m.ReadKeyChange)}
		for _, id := range m.Identities {
			c.Ids = append(c.Ids, w.IdNum(id))
		}
		return c
	case ch.GetReadKeyChange() != nil:
		return C{K: "rk", Rk: w.decodeRk(ch.GetReadKeyChange())}
	case ch.GetAccountRequestRemove() != nil:
		return C{K: "rremove"}
	case ch.GetAccountsAdd() != nil:
		c := C{K: "add", L: []AP{}}
		for _, a := range ch.GetAccountsAdd().Additions {
			c.L = append(c.L, AP{A: w.IdNum(a.GetIdentity()), P: int(a.GetPermissions())})
		}
		return c
	case ch.GetPermissionChanges() != nil:
		c := C{K: "perms", L: []AP{}}
		for _, a := range ch.GetPermissionChanges().Changes {
			c.L = append(c.L, AP{A: w.IdNum(a.GetIdentity()), P: int(a.GetPermissions())})
		}
		return c
	case ch.GetSpaceOptionsChange() != nil:
		c := C{K: "options"}
		if o := ch.GetSpaceOptionsChange().Options; o != nil {
			c.Opt = 1
			if o.DeleteRestricted {
				c.Opt = 2
			}
		}
		return c
	}
	return C{K: "empty"}
}
