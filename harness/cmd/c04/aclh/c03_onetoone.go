package aclh

// C03 helper (one-to-one worlds): a private key the world did not generate itself (the shared owner key that both
// parties of a one-to-one space derive with crypto.GenerateSharedKey) becomes a first-class key of the world, so that
// RawRecord / IdBytes / KeyNum / Dump treat it like any account key.

import "github.com/anyproto/any-sync/util/crypto"

// SetKey registers k under the number n (n must not be in use).
func (w *World) SetKey(n int, k crypto.PrivKey) {
	if _, ok := w.keys[n]; ok {
		panic("aclh.SetKey: key number in use")
	}
	w.keys[n] = k
	w.byStore[string(k.GetPublic().Storage())] = n
}
