// Correspondence driver for C04: hand-assembled, hand-signed raw ACL records (every content kind x author x
// target x permission x invite/request id, single and batched — the client-side builder's pre-filtering is
// bypassed) are offered to a real AclList built with recordverifier.NewValidateFull() in representative
// reachable states.  For every record the harness observes: the state before, the state after every accepted
// content prefix (ValidateRawRecord on the prefix), accept/reject of the full record (ValidateRawRecord or
// AddRawRecord on a rebuilt list / on the live list of a random walk) and the state afterwards.
// Cases are checked by coqc against Model/Acl.v (model_ok) and spec_C04 (spec_ok), see Run/C04_run.v.
package main

import (
	"context"
	"encoding/json"
	"fmt"
	"sort"
	"strings"

	"github.com/anyproto/any-sync/commonspace/object/acl/list"
	"github.com/anyproto/any-sync/commonspace/object/acl/recordverifier"
	"github.com/anyproto/any-sync/consensus/consensusproto"

	"verifharness/cmd/c04/aclh"
	"verifharness/vlib"
)

type Env struct {
	W    *aclh.World
	L    list.AclList
	St   list.Storage
	Root *consensusproto.RawRecordWithId
}

const worldSeed = 4040

// index of the first scenario of scenarios() that was added for status/permission divergence
const firstDivergenceScenario = 12

// index of the first scenario whose state stores out-of-range enum values (invite types, permissions): "odd-*"
var firstOddScenario = func() int {
	for i, sc := range scenarios() {
		if strings.HasPrefix(sc.Name, "odd-") {
			return i
		}
	}
	return 1 << 30
}()

// refsOnly drops the literal enum values of the contents and keeps what they refer to
func refsOnly(cs []aclh.C) []aclh.C {
	var out []aclh.C
	for _, c := range cs {
		c.P, c.T = 0, 0
		if c.K == "unknown" {
			c.K = "empty"
		}
		var l []aclh.AP
		for _, ap := range c.L {
			l = append(l, aclh.AP{A: ap.A})
		}
		c.L = l
		out = append(out, c)
	}
	return out
}

func newEnv() *Env {
	w := aclh.NewWorld(worldSeed)
	root := w.NewRoot(1, "space-c04")
	w.Bind(1, root.Id)
	st, err := list.NewInMemoryStorage(root.Id, []*consensusproto.RawRecordWithId{root})
	if err != nil {
		panic(err)
	}
	l, err := list.BuildAclListWithIdentity(w.AccountKeys(aclh.Observer), st, recordverifier.NewValidateFull())
	if err != nil {
		panic(err)
	}
	return &Env{W: w, L: l, St: st, Root: root}
}

// fresh returns a second list over a copy of the storage (same state, independent).
func (e *Env) fresh() list.AclList {
	cp := e.St.(interface{ Copy() list.Storage }).Copy()
	l, err := list.BuildAclListWithIdentity(e.W.AccountKeys(aclh.Observer), cp, recordverifier.NewValidateFull())
	if err != nil {
		panic(fmt.Sprintf("rebuild from storage copy failed: %v", err))
	}
	return l
}

func (e *Env) add(l list.AclList, rec aclh.Rec) (err error, panicked interface{}) {
	raw := aclh.WithId(e.W.RawRecord(l.Head().Id, rec.Author, rec.Cs))
	e.W.Bind(rec.N, raw.Id)
	defer func() {
		if p := recover(); p != nil {
			panicked = p
		}
	}()
	err = l.AddRawRecord(raw)
	return
}

func (e *Env) validate(l list.AclList, author int, cs []aclh.C) (st *aclh.State, err error, panicked interface{}) {
	raw := e.W.RawRecord(l.Head().Id, author, cs)
	defer func() {
		if p := recover(); p != nil {
			panicked = p
		}
	}()
	err = l.ValidateRawRecord(raw, func(s *list.AclState) error {
		d := e.W.Dump(s)
		st = &d
		return nil
	})
	return
}

func buildEnv(setup []aclh.Rec) (*Env, error) {
	e := newEnv()
	for i, r := range setup {
		err, p := e.add(e.L, r)
		if p != nil {
			return nil, fmt.Errorf("setup record %d panicked: %v", i, p)
		}
		if err != nil {
			return nil, fmt.Errorf("setup record %d (%+v) rejected: %v", i, r, err)
		}
	}
	return e, nil
}

type desc struct {
	Scenario string     `json:"scenario"`
	Setup    []aclh.Rec `json:"setup"`
	Rec      aclh.Rec   `json:"rec"`
	Mode     string     `json:"mode"` // validate | add | walk
	Obs      string     `json:"observed,omitempty"`
	Tags     []string   `json:"tags,omitempty"`
}

// ---------------------------------------------------------------- scenarios

func rk(acc []int, inv []int) *aclh.Rk { return &aclh.Rk{Meta: true, Fields: true, Acc: acc, Inv: inv} }

func baseSetup() []aclh.Rec {
	return []aclh.Rec{
		{Author: 1, N: 2, Cs: []aclh.C{{K: "add", L: []aclh.AP{{2, 2}, {3, 2}, {4, 3}, {5, 4}, {6, 5}, {7, 3}, {11, 3}}}}},
		{Author: 1, N: 3, Cs: []aclh.C{{K: "invite", A: 101, T: 0}}},
		{Author: 1, N: 4, Cs: []aclh.C{{K: "invite", A: 102, T: 1, P: 3, Enc: true}}},
		{Author: 2, N: 5, Cs: []aclh.C{{K: "remove", Ids: []int{7}, Rk: rk([]int{1, 2, 3, 4, 5, 6, 11}, []int{102})}}},
		{Author: 8, N: 6, Cs: []aclh.C{{K: "rjoin", A: 8, R: 3, SK: 101, SM: 8, Meta: true}}},
		{Author: 11, N: 7, Cs: []aclh.C{{K: "rremove"}}},
		{Author: 12, N: 8, Cs: []aclh.C{{K: "rjoin", A: 12, R: 3, SK: 101, SM: 12, Meta: true}}},
		{Author: 3, N: 9, Cs: []aclh.C{{K: "decline", R: 8}}},
	}
}

type scenario struct {
	Name  string
	Setup []aclh.Rec
}

func scenarios() []scenario {
	b := baseSetup
	app := func(rs ...aclh.Rec) []aclh.Rec { return append(b(), rs...) }
	return []scenario{
		{"root", nil},
		{"base", b()},
		{"admin-invite", app(aclh.Rec{Author: 1, N: 10, Cs: []aclh.C{{K: "invite", A: 103, T: 1, P: 2, Enc: true}}})},
		{"transferred", app(aclh.Rec{Author: 1, N: 10, Cs: []aclh.C{{K: "owner", A: 2, P: 2}}})},
		{"stale-join-writer", app(aclh.Rec{Author: 2, N: 10, Cs: []aclh.C{{K: "add", L: []aclh.AP{{8, 3}}}}})},
		{"stale-join-guest", app(aclh.Rec{Author: 2, N: 10, Cs: []aclh.C{{K: "add", L: []aclh.AP{{8, 5}}}}})},
		{"stale-join-admin", app(aclh.Rec{Author: 1, N: 10, Cs: []aclh.C{{K: "add", L: []aclh.AP{{8, 2}}}}})},
		{"stale-join-owner", app(aclh.Rec{Author: 2, N: 10, Cs: []aclh.C{{K: "add", L: []aclh.AP{{8, 3}}}}},
			aclh.Rec{Author: 1, N: 11, Cs: []aclh.C{{K: "owner", A: 8, P: 2}}})},
		{"admin-removing", app(aclh.Rec{Author: 3, N: 10, Cs: []aclh.C{{K: "rremove"}}})},
		{"removing-promoted", app(aclh.Rec{Author: 1, N: 10, Cs: []aclh.C{{K: "perm", A: 11, P: 2}}})},
		{"options-rotated", app(aclh.Rec{Author: 1, N: 10, Cs: []aclh.C{{K: "options", Opt: 2}}},
			aclh.Rec{Author: 1, N: 11, Cs: []aclh.C{{K: "rk", Rk: rk([]int{1, 2, 3, 4, 5, 6, 11}, []int{102})}}})},
		{"two-open-invites", app(aclh.Rec{Author: 2, N: 10, Cs: []aclh.C{{K: "invite", A: 104, T: 1, P: 4, Enc: true}, {K: "invite", A: 105, T: 0}}},
			aclh.Rec{Author: 9, N: 11, Cs: []aclh.C{{K: "ijoin", A: 9, R: 4, P: 4, SK: 102, SM: 9, Meta: true, Enc: true}}})},
		// ---- states in which an account's STATUS and its PERMISSIONS diverge: a join request (record 6, account 8)
		// left pending across a direct AccountsAdd (and an ownership transfer) is declined by a manager / cancelled by
		// its author afterwards, so a member is Declined / Canceled; a permission change to None leaves an Active
		// account without permissions; a remove request (record 7, account 11) survives a re-admission.
		{"declined-member-writer", app(aclh.Rec{Author: 2, N: 10, Cs: []aclh.C{{K: "add", L: []aclh.AP{{8, 3}}}}},
			aclh.Rec{Author: 3, N: 11, Cs: []aclh.C{{K: "decline", R: 6}}})},
		{"declined-member-guest", app(aclh.Rec{Author: 2, N: 10, Cs: []aclh.C{{K: "add", L: []aclh.AP{{8, 5}}}}},
			aclh.Rec{Author: 2, N: 11, Cs: []aclh.C{{K: "decline", R: 6}}})},
		{"declined-member-admin", app(aclh.Rec{Author: 1, N: 10, Cs: []aclh.C{{K: "add", L: []aclh.AP{{8, 2}}}}},
			aclh.Rec{Author: 2, N: 11, Cs: []aclh.C{{K: "decline", R: 6}}})},
		{"canceled-member-admin", app(aclh.Rec{Author: 1, N: 10, Cs: []aclh.C{{K: "add", L: []aclh.AP{{8, 2}}}}},
			aclh.Rec{Author: 8, N: 11, Cs: []aclh.C{{K: "cancel", R: 6}}})},
		{"canceled-member-reader", app(aclh.Rec{Author: 3, N: 10, Cs: []aclh.C{{K: "add", L: []aclh.AP{{8, 4}}}}},
			aclh.Rec{Author: 8, N: 11, Cs: []aclh.C{{K: "cancel", R: 6}}})},
		{"declined-owner", app(aclh.Rec{Author: 2, N: 10, Cs: []aclh.C{{K: "add", L: []aclh.AP{{8, 3}}}}},
			aclh.Rec{Author: 1, N: 11, Cs: []aclh.C{{K: "owner", A: 8, P: 2}}},
			aclh.Rec{Author: 1, N: 12, Cs: []aclh.C{{K: "decline", R: 6}}})},
		{"canceled-owner", app(aclh.Rec{Author: 2, N: 10, Cs: []aclh.C{{K: "add", L: []aclh.AP{{8, 3}}}}},
			aclh.Rec{Author: 1, N: 11, Cs: []aclh.C{{K: "owner", A: 8, P: 3}}},
			aclh.Rec{Author: 8, N: 12, Cs: []aclh.C{{K: "cancel", R: 6}}})},
		{"active-no-perm", app(aclh.Rec{Author: 1, N: 10, Cs: []aclh.C{{K: "perm", A: 4, P: 0}}},
			aclh.Rec{Author: 2, N: 11, Cs: []aclh.C{{K: "perms", L: []aclh.AP{{5, 0}}}}})},
		{"stale-remove-readded", app(aclh.Rec{Author: 1, N: 10, Cs: []aclh.C{{K: "perm", A: 11, P: 0}}},
			aclh.Rec{Author: 2, N: 11, Cs: []aclh.C{{K: "add", L: []aclh.AP{{11, 3}}}}})},
		{"stale-remove-owner", app(aclh.Rec{Author: 1, N: 10, Cs: []aclh.C{{K: "perm", A: 11, P: 0}}},
			aclh.Rec{Author: 2, N: 11, Cs: []aclh.C{{K: "add", L: []aclh.AP{{11, 3}}}}},
			aclh.Rec{Author: 1, N: 12, Cs: []aclh.C{{K: "owner", A: 11, P: 2}}})},
		{"declined-then-removing", app(aclh.Rec{Author: 2, N: 10, Cs: []aclh.C{{K: "add", L: []aclh.AP{{8, 3}}}}},
			aclh.Rec{Author: 3, N: 11, Cs: []aclh.C{{K: "decline", R: 6}}},
			aclh.Rec{Author: 8, N: 12, Cs: []aclh.C{{K: "rremove"}}})},
		// ---- out-of-range values of the open proto3 enums, stored in the state: invites of undefined types carrying
		// Admin / Owner / None permissions (made by a non-owner admin: ValidateInvite limits permissions only for
		// AnyoneCanJoin), a request-to-join invite carrying Owner, an anyone-can-join invite with an undefined permission;
		// accounts holding undefined permission values.
		{"odd-invites", app(aclh.Rec{Author: 2, N: 10, Cs: []aclh.C{{K: "invite", A: 110, T: 2, P: 2, Enc: true}}},
			aclh.Rec{Author: 2, N: 11, Cs: []aclh.C{{K: "invite", A: 111, T: 2, P: 1, Enc: true}}},
			aclh.Rec{Author: 1, N: 12, Cs: []aclh.C{{K: "invite", A: 112, T: 7, P: 3, Enc: true}}},
			aclh.Rec{Author: 3, N: 13, Cs: []aclh.C{{K: "invite", A: 113, T: 2147483647, P: 0}}},
			aclh.Rec{Author: 2, N: 14, Cs: []aclh.C{{K: "invite", A: 114, T: 0, P: 1}}},
			aclh.Rec{Author: 2, N: 15, Cs: []aclh.C{{K: "invite", A: 115, T: 1, P: 7, Enc: true}}})},
		{"odd-perms", app(aclh.Rec{Author: 2, N: 10, Cs: []aclh.C{{K: "add", L: []aclh.AP{{13, 7}}}}},
			aclh.Rec{Author: 1, N: 11, Cs: []aclh.C{{K: "perm", A: 4, P: 6}}},
			aclh.Rec{Author: 2, N: 12, Cs: []aclh.C{{K: "invite", A: 115, T: 1, P: 100, Enc: true}}},
			aclh.Rec{Author: 9, N: 13, Cs: []aclh.C{{K: "ijoin", A: 9, R: 12, P: 0, SK: 115, SM: 9, Meta: true, Enc: true}}},
			aclh.Rec{Author: 2, N: 14, Cs: []aclh.C{{K: "invite", A: 116, T: 2, P: 2, Enc: true}}})},
	}
}

// ---------------------------------------------------------------- generator

var kinds = []string{"invite", "revoke", "rjoin", "accept", "perm", "remove", "rk", "decline", "rremove", "perms",
	"add", "cancel", "ijoin", "ichange", "owner", "options", "empty", "unknown"}

// values outside the defined range of the two open proto3 enums that hand-signed records can carry
var oddPerms = []int{6, 7, 9, 100, 2147483647}
var oddInviteTypes = []int{2, 3, 7, 100, 2147483647}

type gen struct {
	r *vlib.Rand
	s aclh.State
}

func (g gen) acct() int {
	if g.r.Chance(1, 40) {
		return 0
	}
	if len(g.s.Accs) > 0 && g.r.Chance(2, 3) {
		return g.s.Accs[g.r.Intn(len(g.s.Accs))].Id
	}
	return 1 + g.r.Intn(13)
}
func (g gen) perm() int {
	if g.r.Chance(1, 10) {
		return oddPerms[g.r.Intn(len(oddPerms))]
	}
	return g.r.Intn(6)
}
func (g gen) inv() aclh.Inv {
	if len(g.s.Invs) > 0 && !g.r.Chance(1, 8) {
		return g.s.Invs[g.r.Intn(len(g.s.Invs))]
	}
	if len(g.s.Reqs) > 0 && g.r.Bool() {
		return aclh.Inv{Rid: g.s.Reqs[0].Rid}
	}
	return aclh.Inv{Rid: 7777}
}
func (g gen) req() aclh.Req {
	if len(g.s.Reqs) > 0 && !g.r.Chance(1, 8) {
		return g.s.Reqs[g.r.Intn(len(g.s.Reqs))]
	}
	if len(g.s.Invs) > 0 && g.r.Bool() {
		return aclh.Req{Rid: g.s.Invs[0].Rid, Ident: g.acct()}
	}
	return aclh.Req{Rid: 7778, Ident: g.acct()}
}
func (g gen) key() int { return 101 + g.r.Intn(6) }

func perturb(r *vlib.Rand, l []int, pool func() int) []int {
	out := append([]int(nil), l...)
	switch r.Intn(4) {
	case 0:
		if len(out) > 0 {
			i := r.Intn(len(out))
			out = append(out[:i], out[i+1:]...)
		}
	case 1:
		out = append(out, pool())
	case 2:
		if len(out) > 0 {
			out[r.Intn(len(out))] = pool()
		}
	case 3:
		if len(out) > 1 {
			p := r.Perm(len(out))
			o2 := make([]int, len(out))
			for i, j := range p {
				o2[i] = out[j]
			}
			out = o2
		}
	}
	return out
}

func (g gen) rkFor(except []int) *aclh.Rk {
	k := &aclh.Rk{Meta: !g.r.Chance(1, 15), Fields: !g.r.Chance(1, 15), Acc: g.s.ActiveUsers(except), Inv: g.s.ActiveInviteKeys()}
	if g.r.Chance(1, 4) {
		k.Acc = perturb(g.r, k.Acc, g.acct)
	}
	if g.r.Chance(1, 6) {
		k.Inv = perturb(g.r, k.Inv, g.key)
	}
	return k
}

func (g gen) content(author int) aclh.C {
	k := kinds[g.r.Intn(len(kinds))]
	c := aclh.C{K: k}
	switch k {
	case "invite":
		c.A, c.T, c.P, c.Enc = g.key(), g.r.Intn(2), g.perm(), !g.r.Chance(1, 6)
		if g.r.Chance(1, 6) {
			c.T = oddInviteTypes[g.r.Intn(len(oddInviteTypes))]
		}
		if g.r.Chance(1, 30) {
			c.A = 0
		}
	case "revoke":
		c.R = g.inv().Rid
	case "rjoin", "ijoin":
		i := g.inv()
		c.R = i.Rid
		c.A = author
		if g.r.Chance(1, 6) {
			c.A = g.acct()
		}
		c.SK, c.SM = i.Key, c.A
		if g.r.Chance(1, 6) {
			c.SK = g.key()
		}
		if g.r.Chance(1, 12) {
			c.SK = 0
		}
		if g.r.Chance(1, 8) {
			c.SM = g.acct()
		}
		c.Meta = !g.r.Chance(1, 12)
		c.Enc = !g.r.Chance(1, 10)
		c.P = g.perm()
		if g.r.Chance(1, 3) {
			c.P = 0
		}
	case "accept":
		q := g.req()
		c.R, c.A, c.P = q.Rid, q.Ident, g.perm()
		if g.r.Chance(1, 5) {
			c.A = g.acct()
		}
	case "perm":
		c.A, c.P = g.acct(), g.perm()
	case "remove":
		nIds := 1 + g.r.Intn(2)
		for i := 0; i < nIds; i++ {
			c.Ids = append(c.Ids, g.acct())
		}
		if g.r.Chance(1, 8) && len(c.Ids) > 0 {
			c.Ids = append(c.Ids, c.Ids[0])
		}
		if !g.r.Chance(1, 25) {
			c.Rk = g.rkFor(c.Ids)
		}
	case "rk":
		c.Rk = g.rkFor(nil)
	case "decline", "cancel":
		c.R = g.req().Rid
	case "perms", "add":
		nn := 1 + g.r.Intn(3)
		if g.r.Chance(1, 15) {
			nn = 0
		}
		for i := 0; i < nn; i++ {
			c.L = append(c.L, aclh.AP{A: g.acct(), P: g.perm()})
		}
	case "ichange":
		c.R, c.P = g.inv().Rid, g.perm()
	case "owner":
		c.A, c.P = g.acct(), g.perm()
	case "options":
		c.Opt = g.r.Intn(3)
	}
	return c
}

func (g gen) record(n int) aclh.Rec {
	author := 1 + g.r.Intn(13)
	if len(g.s.Accs) > 0 && g.r.Chance(3, 5) {
		author = g.s.Accs[g.r.Intn(len(g.s.Accs))].Id
	}
	nc := 1
	if g.r.Chance(1, 4) {
		nc = 2 + g.r.Intn(3)
	}
	if g.r.Chance(1, 60) {
		nc = 0
	}
	rec := aclh.Rec{Author: author, N: n}
	for i := 0; i < nc; i++ {
		rec.Cs = append(rec.Cs, g.content(author))
	}
	return rec
}

// directed: a small hand-written list of privilege-escalation attempts, instantiated in every scenario
func directed(s aclh.State) []aclh.Rec {
	var out []aclh.Rec
	n := 5000
	add := func(author int, cs ...aclh.C) {
		n++
		out = append(out, aclh.Rec{Author: author, N: n, Cs: cs})
	}
	for _, q := range s.Reqs {
		for _, author := range []int{1, 2, 4, q.Ident} {
			for _, p := range []int{0, 2, 3, 4, 5} {
				add(author, aclh.C{K: "accept", A: q.Ident, R: q.Rid, P: p})
			}
			add(author, aclh.C{K: "decline", R: q.Rid})
			add(author, aclh.C{K: "cancel", R: q.Rid})
		}
	}
	for _, a := range s.Accs {
		for _, author := range []int{1, 2, 4, 9} {
			add(author, aclh.C{K: "perm", A: a.Id, P: 2})
			add(author, aclh.C{K: "perm", A: a.Id, P: 3})
			add(author, aclh.C{K: "owner", A: a.Id, P: 2})
			add(author, aclh.C{K: "remove", Ids: []int{a.Id}, Rk: rk(s.ActiveUsers([]int{a.Id}), s.ActiveInviteKeys())})
			add(author, aclh.C{K: "remove", Ids: []int{a.Id}})
		}
	}
	for _, i := range s.Invs {
		for _, author := range []int{1, 2, 4, 9, 10} {
			add(author, aclh.C{K: "ichange", R: i.Rid, P: 2})
			add(author, aclh.C{K: "revoke", R: i.Rid})
			for _, p := range []int{0, 2, 3, 4, 1, 5} {
				add(author, aclh.C{K: "ijoin", A: author, R: i.Rid, P: p, SK: i.Key, SM: author, Meta: true, Enc: true})
			}
			add(author, aclh.C{K: "ijoin", A: author, R: i.Rid, P: 0, SK: i.Key, SM: author, Meta: true, Enc: true},
				aclh.C{K: "perm", A: 4, P: 4})
		}
		// every invite, whatever its type, is offered to both consuming records and to every invite change
		for _, author := range []int{2, 9} {
			add(author, aclh.C{K: "ijoin", A: author, R: i.Rid, P: 7, SK: i.Key, SM: author, Meta: true, Enc: true})
			add(author, aclh.C{K: "rjoin", A: author, R: i.Rid, SK: i.Key, SM: author, Meta: true})
			for _, p := range []int{3, 4, 7} {
				add(author, aclh.C{K: "ichange", R: i.Rid, P: p})
			}
			add(author, aclh.C{K: "ichange", R: i.Rid, P: 3}, aclh.C{K: "ijoin", A: author, R: i.Rid, P: 0, SK: i.Key, SM: author, Meta: true, Enc: true})
		}
		add(1, aclh.C{K: "ichange", R: i.Rid, P: 3}, aclh.C{K: "ichange", R: i.Rid, P: 2})
	}
	// out-of-range values of the open enums (invite type, permissions) in creating records
	for _, author := range []int{1, 2, 4} {
		for _, t := range []int{2, 7} {
			for _, p := range []int{0, 1, 2, 5, 7} {
				add(author, aclh.C{K: "invite", A: 107, T: t, P: p, Enc: true})
			}
		}
		add(author, aclh.C{K: "invite", A: 107, T: 1, P: 7, Enc: true})
		add(author, aclh.C{K: "invite", A: 107, T: 0, P: 1})
		add(author, aclh.C{K: "add", L: []aclh.AP{{13, 7}}})
		add(author, aclh.C{K: "add", L: []aclh.AP{{13, 100}}})
		add(author, aclh.C{K: "perm", A: 4, P: 7})
		add(author, aclh.C{K: "perms", L: []aclh.AP{{5, 6}, {5, 4}}})
		add(author, aclh.C{K: "owner", A: 2, P: 7})
		add(author, aclh.C{K: "invite", A: 107, T: 2, P: 2, Enc: true}, aclh.C{K: "unknown"})
	}
	add(9, aclh.C{K: "unknown"})
	for _, author := range []int{1, 2, 4, 9} {
		add(author, aclh.C{K: "add", L: []aclh.AP{{13, 2}}})
		add(author, aclh.C{K: "add", L: []aclh.AP{{13, 3}, {13, 2}}})
		add(author, aclh.C{K: "invite", A: 106, T: 1, P: 2, Enc: true})
		add(author, aclh.C{K: "options", Opt: 2})
		add(author, aclh.C{K: "owner", A: 2, P: 2}, aclh.C{K: "perm", A: 3, P: 3})
		add(author, aclh.C{K: "rk", Rk: rk(s.ActiveUsers(nil), s.ActiveInviteKeys())})
	}
	return out
}

// divergent: accounts of s whose status and permissions (or pending request) do not tell the same story: a member
// that is not Active/Removing (Declined, Canceled, Joining, Removed, None), an Active/Removing account without
// permissions, a pending join request of a member, a pending remove request of an account that is not Removing.
func divergent(s aclh.State) []int {
	var out []int
	pend := map[int]int{}
	for _, q := range s.Reqs {
		pend[q.Ident] = q.Type
	}
	for _, a := range s.Accs {
		member := a.Perm != 0
		live := a.Status == 2 || a.Status == 5
		ty, has := pend[a.Id]
		switch {
		case member != live,
			has && ty == 1 && (member || a.Status != 1),
			has && ty == 0 && a.Status != 5,
			!has && (a.Status == 1 || a.Status == 5):
			out = append(out, a.Id)
		}
	}
	return out
}

// oddRec: the record carries an out-of-range enum value, or refers to an invite of an undefined type / with an
// undefined permission, or to an account holding an undefined permission.
func oddRec(rec aclh.Rec, s aclh.State) bool {
	oddInv := map[int]bool{}
	for _, i := range s.Invs {
		if i.Type > 1 || i.Perm > 5 {
			oddInv[i.Rid] = true
		}
	}
	oddAcc := map[int]bool{}
	for _, a := range s.Accs {
		if a.Perm > 5 {
			oddAcc[a.Id] = true
		}
	}
	if oddAcc[rec.Author] {
		return true
	}
	for _, c := range rec.Cs {
		if c.P > 5 || (c.K == "invite" && c.T > 1) || c.K == "unknown" || oddAcc[c.A] {
			return true
		}
		if (c.K == "ijoin" || c.K == "rjoin" || c.K == "ichange" || c.K == "revoke") && oddInv[c.R] {
			return true
		}
		for _, ap := range c.L {
			if ap.P > 5 || oddAcc[ap.A] {
				return true
			}
		}
	}
	return false
}

func firstWith(s aclh.State, perm int, not int) int {
	for _, a := range s.Accs {
		if a.Perm == perm && a.Id != not {
			return a.Id
		}
	}
	return 0
}

// alphabet: the systematic single-content alphabet around every account of the state (and one outsider), by an
// owner / admin / writer author and by the account itself, plus the two-content records that resolve a request
// and then touch its requester.  only != nil restricts the targets.
func alphabet(s aclh.State, only []int) []aclh.Rec {
	var out []aclh.Rec
	n := 6000
	add := func(author int, cs ...aclh.C) {
		if author == 0 {
			return
		}
		n++
		out = append(out, aclh.Rec{Author: author, N: n, Cs: cs})
	}
	owner := firstWith(s, 1, 0)
	admin := firstWith(s, 2, 0)
	writer := firstWith(s, 3, 0)
	targets := []int{13}
	for _, a := range s.Accs {
		targets = append(targets, a.Id)
	}
	if only != nil {
		targets = only
	}
	for _, t := range targets {
		adm := admin
		if adm == t {
			if o := firstWith(s, 2, t); o != 0 {
				adm = o
			}
		}
		for _, author := range []int{owner, adm, writer} {
			if author == t && author != adm {
				continue
			}
			for _, p := range []int{2, 3, 4, 5} {
				add(author, aclh.C{K: "add", L: []aclh.AP{{A: t, P: p}}})
			}
		}
		for _, author := range []int{owner, adm} {
			for _, p := range []int{0, 4, 5} {
				add(author, aclh.C{K: "perm", A: t, P: p})
			}
			add(author, aclh.C{K: "perms", L: []aclh.AP{{A: t, P: 3}, {A: t, P: 4}}})
			add(author, aclh.C{K: "owner", A: t, P: 3})
		}
		// the account acting for itself
		add(t, aclh.C{K: "rremove"})
		add(t, aclh.C{K: "add", L: []aclh.AP{{A: t, P: 3}}})
		add(t, aclh.C{K: "perm", A: t, P: 3})
		for _, i := range s.Invs {
			if i.Type == 0 {
				add(t, aclh.C{K: "rjoin", A: t, R: i.Rid, SK: i.Key, SM: t, Meta: true})
			} else {
				add(t, aclh.C{K: "ijoin", A: t, R: i.Rid, P: 0, SK: i.Key, SM: t, Meta: true, Enc: true})
			}
		}
		for _, q := range s.Reqs {
			if q.Ident != t {
				add(t, aclh.C{K: "cancel", R: q.Rid})
				add(t, aclh.C{K: "accept", A: q.Ident, R: q.Rid, P: 4})
				continue
			}
			// resolve the request of t, then touch t in the same record
			for _, author := range []int{owner, adm} {
				for _, p := range []int{2, 4} {
					add(author, aclh.C{K: "decline", R: q.Rid}, aclh.C{K: "add", L: []aclh.AP{{A: t, P: p}}})
				}
				add(author, aclh.C{K: "decline", R: q.Rid}, aclh.C{K: "perm", A: t, P: 4})
				add(author, aclh.C{K: "decline", R: q.Rid}, aclh.C{K: "accept", A: t, R: q.Rid, P: 4})
				add(author, aclh.C{K: "add", L: []aclh.AP{{A: t, P: 4}}}, aclh.C{K: "accept", A: t, R: q.Rid, P: 4})
				add(author, aclh.C{K: "add", L: []aclh.AP{{A: t, P: 4}}}, aclh.C{K: "decline", R: q.Rid}, aclh.C{K: "add", L: []aclh.AP{{A: t, P: 3}}})
			}
			add(t, aclh.C{K: "cancel", R: q.Rid}, aclh.C{K: "rremove"})
			add(t, aclh.C{K: "cancel", R: q.Rid}, aclh.C{K: "perm", A: t, P: 3})
			for _, i := range s.Invs {
				if i.Type == 0 {
					add(t, aclh.C{K: "cancel", R: q.Rid}, aclh.C{K: "rjoin", A: t, R: i.Rid, SK: i.Key, SM: t, Meta: true})
				} else {
					add(t, aclh.C{K: "cancel", R: q.Rid}, aclh.C{K: "ijoin", A: t, R: i.Rid, P: 0, SK: i.Key, SM: t, Meta: true, Enc: true})
				}
			}
		}
	}
	return out
}

// ---------------------------------------------------------------- one trial

type runner struct {
	w       *vlib.Writer
	samples []interface{}
}

func (rn *runner) trial(e *Env, sc string, setup []aclh.Rec, rec aclh.Rec, mode string) (accepted bool) {
	w := rn.w
	before := e.W.Dump(e.L.AclState())
	if before.Unreachable > 0 {
		w.Stat("state_with_unreachable_request_records")
	}
	var obs []aclh.State
	var panicked interface{}
	for k := 1; k <= len(rec.Cs); k++ {
		st, err, p := e.validate(e.L, rec.Author, rec.Cs[:k])
		if p != nil {
			panicked = p
			break
		}
		if err != nil || st == nil {
			break
		}
		obs = append(obs, *st)
	}
	var after aclh.State
	rid := 0
	var ferr error
	switch {
	case panicked != nil:
		after = before
	case mode == "validate":
		st, err, p := e.validate(e.L, rec.Author, rec.Cs)
		ferr, panicked = err, p
		if p == nil && err == nil && st != nil {
			accepted, after = true, *st
		} else {
			after = e.W.Dump(e.L.AclState())
		}
	default:
		l := e.L
		if mode == "add" {
			l = e.fresh()
		}
		stored := func() int {
			recs, _ := l.RecordsAfter(context.Background(), "")
			return len(recs)
		}
		cntBefore := stored()
		err, p := e.add(l, rec)
		ferr, panicked = err, p
		accepted = p == nil && err == nil
		rid = rec.N
		after = e.W.Dump(l.AclState())
		if !accepted && stored() != cntBefore {
			w.Violation(w.Count(), "storage-grew-on-reject", "rejected record changed storage", nil)
		}
	}
	term := vlib.App("CStep", vlib.N(aclh.Observer), before.Coq(), vlib.N(uint64(rec.Author)), vlib.N(uint64(rid)),
		aclh.CsCoq(rec.Cs), aclh.StatesCoq(obs), vlib.Bool(accepted), after.Coq())
	d := desc{Scenario: sc, Setup: setup, Rec: rec, Mode: mode}
	if accepted {
		d.Obs = "accepted"
	} else {
		d.Obs = fmt.Sprintf("rejected: %v", ferr)
	}
	if panicked != nil {
		d.Obs = fmt.Sprintf("PANIC: %v", panicked)
	}
	idx := w.Add(term, d, term, len(before.Accs) >= 3 && len(rec.Cs) >= 1)
	if panicked != nil {
		tag := "panic"
		for _, c := range rec.Cs {
			if c.K == "remove" && c.Rk == nil {
				tag = "F10-nil-readkeychange"
			}
		}
		w.Violation(idx, tag, fmt.Sprintf("applying a hand-made record panicked: %v", panicked), d)
		w.Stat("panic_" + tag)
	}
	res := "rejected"
	if accepted {
		res = "accepted"
	}
	w.Stat(res)
	w.Stat("mode_" + mode)
	for _, c := range rec.Cs {
		w.Stat("kind_" + c.K + "_" + res)
	}
	if len(rec.Cs) > 1 {
		w.Stat("batched_" + res)
		if !accepted && len(obs) > 0 {
			w.Stat("batched_rejected_after_accepted_prefix")
		}
	}
	if accepted && len(rn.samples) < 4 && len(rec.Cs) >= 1 && rec.Author != 1 {
		rn.samples = append(rn.samples, d)
	}
	return accepted
}

func kind0(rec aclh.Rec) string {
	if len(rec.Cs) == 0 {
		return "nocontent"
	}
	if len(rec.Cs) > 1 {
		return rec.Cs[0].K + "+"
	}
	return rec.Cs[0].K
}

// deepWalk: one history of 4-8 accepted records on a live list.
func (rn *runner) deepWalk(e *Env, sc scenario, r *vlib.Rand, n int, maxSweeps int) int {
	w := rn.w
	setup := append([]aclh.Rec(nil), sc.Setup...)
	depth := 4 + r.Intn(5)
	swept := map[string]bool{}
	accepted := 0
	for attempts := 0; accepted < depth && attempts < depth*3; attempts++ {
		s := e.W.Dump(e.L.AclState())
		// candidates by kind of their first content
		byKind := map[string][]aclh.Rec{}
		for _, rec := range append(directed(s), alphabet(s, nil)...) {
			k := rec.Cs[0].K
			if len(rec.Cs) > 1 {
				k += "+"
			}
			byKind[k] = append(byKind[k], rec)
		}
		var ks []string
		for k := range byKind {
			ks = append(ks, k)
		}
		sort.Strings(ks)
		var rec aclh.Rec
		found := false
		for try := 0; try < 10 && !found; try++ {
			if r.Chance(1, 3) {
				n++
				rec = gen{r: r.Fork(uint64(n)), s: s}.record(n)
			} else {
				c := byKind[ks[r.Intn(len(ks))]]
				rec = c[r.Intn(len(c))]
			}
			if r.Chance(1, 10) {
				break // a (probably) rejected record inside the history
			}
			if st, err, p := e.validate(e.L, rec.Author, rec.Cs); p == nil && err == nil && st != nil {
				found = true
			}
		}
		n++
		rec.N = n
		if rn.trial(e, sc.Name+"+deep", setup, rec, "walk") {
			setup = append(setup, rec)
			accepted++
			w.Stat("deep_accepted_" + kind0(rec))
		}
		w.Stat("gen_deep")
		// accounts whose divergence is new (or changed) with this record: the alphabet aimed at them
		s2 := e.W.Dump(e.L.AclState())
		was := map[int][2]int{}
		for _, a := range s.Accs {
			was[a.Id] = [2]int{a.Perm, a.Status}
		}
		wasDiv := map[int]bool{}
		for _, a := range divergent(s) {
			wasDiv[a] = true
		}
		var fresh []int
		for _, a := range divergent(s2) {
			for _, x := range s2.Accs {
				if x.Id == a && (!wasDiv[a] || was[a] != [2]int{x.Perm, x.Status}) {
					fresh = append(fresh, a)
				}
			}
		}
		if len(fresh) > 0 && len(swept) < maxSweeps {
			swept[s2.Key()] = true
			w.Stat("deep_state_with_new_status_permission_divergence")
			for _, arec := range alphabet(s2, fresh) {
				n++
				arec.N = n
				mode := "validate"
				if r.Chance(1, 8) {
					mode = "add"
				}
				rn.trial(e, sc.Name+"+deep", setup, arec, mode)
				w.Stat("gen_deep_sweep")
			}
		}
	}
	w.Stat(fmt.Sprintf("deep_history_len_%d", accepted))
	return n
}

// ---------------------------------------------------------------- main

func main() {
	o := vlib.ParseFlags()
	vlib.Quiet()
	w := vlib.NewWriter(o.Out, "C04_run", 250)
	rn := &runner{w: w}

	if o.Replay != "" {
		for _, raw := range vlib.ReadReplay(o.Replay) {
			var d desc
			if json.Unmarshal(raw, &d) != nil {
				continue
			}
			e, err := buildEnv(d.Setup)
			if err != nil {
				w.Stat("replay_setup_failed")
				fmt.Println("replay setup failed:", err)
				continue
			}
			mode := d.Mode
			if mode == "walk" {
				mode = "add"
			}
			rn.trial(e, d.Scenario, d.Setup, d.Rec, mode)
		}
		w.Finish("replay", rn.samples, nil)
		return
	}

	r := vlib.NewRand(o.Seed)
	perScenario := 50
	walks, walkLen := 20, 12
	deepPerScenario, maxSweeps := 3, 2
	if o.Tier == "thorough" {
		perScenario, walks, walkLen, deepPerScenario, maxSweeps = 2500, 400, 16, 40, 8
	}
	perScenario *= o.Budget
	walks *= o.Budget
	deepPerScenario *= o.Budget
	full := o.Tier == "thorough" || o.Budget > 1
	n := 10000
	scs := scenarios()
	for si, sc := range scs {
		e, err := buildEnv(sc.Setup)
		if err != nil {
			// a scenario that cannot be built is itself a deviation (the model accepts these setups)
			w.Violation(w.Count(), "scenario-setup", fmt.Sprintf("scenario %s: %v", sc.Name, err), nil)
			continue
		}
		s := e.W.Dump(e.L.AclState())
		div := divergent(s)
		if len(div) > 0 {
			w.Stat("scenario_with_status_permission_divergence")
		}
		isDiv := map[int]bool{}
		for _, a := range div {
			isDiv[a] = true
		}
		aimedAt := func(rec aclh.Rec) bool {
			aimed := isDiv[rec.Author]
			for _, c := range rec.Cs {
				aimed = aimed || isDiv[c.A]
				for _, ap := range c.L {
					aimed = aimed || isDiv[ap.A]
				}
				for _, id := range c.Ids {
					aimed = aimed || isDiv[id]
				}
			}
			return aimed
		}
		for di, rec := range directed(s) {
			// quick tier: every escalation attempt through accept / ownership change (in the scenarios added for
			// status/permission divergence, which differ from the earlier ones in the divergent accounts only: those
			// aimed at a divergent account), one fifth of the rest
			essential := len(rec.Cs) > 0 && (rec.Cs[0].K == "accept" || rec.Cs[0].K == "owner") && (si < firstDivergenceScenario || aimedAt(rec))
			// out-of-range enum values: everything in the first three scenarios and in the two scenarios that store such
			// values; elsewhere only what refers to a stored odd value
			if oddRec(rec, s) && (si < 3 || si >= firstOddScenario || oddRec(aclh.Rec{Author: rec.Author, Cs: refsOnly(rec.Cs)}, s)) {
				essential = true
				w.Stat("gen_directed_out_of_range_enum")
			}
			if !full && !essential && di%5 != si%5 {
				continue
			}
			mode := "validate"
			if r.Chance(1, 5) {
				mode = "add"
			}
			rn.trial(e, sc.Name, sc.Setup, rec, mode)
			w.Stat("gen_directed")
		}
		// the systematic alphabet: everything aimed at the divergent accounts, an eighth of the rest (quick tier)
		for ai, rec := range alphabet(s, nil) {
			aimed := aimedAt(rec)
			if !full && !aimed && ai%8 != si%8 {
				continue
			}
			mode := "validate"
			if r.Chance(1, 6) {
				mode = "add"
			}
			rn.trial(e, sc.Name, sc.Setup, rec, mode)
			w.Stat("gen_alphabet")
			if aimed {
				w.Stat("gen_alphabet_aimed_at_divergent_account")
			}
		}
		for k := 0; k < perScenario; k++ {
			n++
			g := gen{r: r.Fork(uint64(n)), s: s}
			rec := g.record(n)
			mode := "validate"
			if r.Chance(1, 4) {
				mode = "add"
			}
			rn.trial(e, sc.Name, sc.Setup, rec, mode)
			w.Stat("gen_random")
		}
	}
	// random walks on a live list (AddRawRecord path), biased towards accepted records
	for k := 0; k < walks; k++ {
		sc := scs[r.Intn(3)] // root, base, admin-invite
		e, err := buildEnv(sc.Setup)
		if err != nil {
			continue
		}
		setup := append([]aclh.Rec(nil), sc.Setup...)
		for step := 0; step < walkLen; step++ {
			s := e.W.Dump(e.L.AclState())
			var rec aclh.Rec
			for try := 0; try < 8; try++ {
				n++
				g := gen{r: r.Fork(uint64(n)), s: s}
				rec = g.record(n)
				if r.Chance(1, 4) {
					break
				}
				if st, err, p := e.validate(e.L, rec.Author, rec.Cs); p == nil && err == nil && st != nil {
					break
				}
			}
			if rn.trial(e, sc.Name+"+walk", setup, rec, "walk") {
				setup = append(setup, rec)
			}
			w.Stat("gen_walk")
		}
	}
	// deep histories: from EVERY scenario, sequences of 4-8 accepted records over the whole hand-signed alphabet
	// (kind first, then a candidate of that kind that the list accepts; every attempt is a case), and in every state
	// reached in which status and permissions diverge, the alphabet aimed at the divergent accounts.
	for _, sc := range scs {
		for k := 0; k < deepPerScenario; k++ {
			e, err := buildEnv(sc.Setup)
			if err != nil {
				continue
			}
			n = rn.deepWalk(e, sc, r.Fork(uint64(n)+77), n, maxSweeps)
		}
	}
	w.Finish("records hand-assembled over the alphabet {17 content kinds} x {13 authors incl. outsiders} x targets x permissions 0..5,7 x "+
		"(+ out-of-range values of the open enums: permissions 6, 7, 9, 100, 2^31-1, invite types 2, 3, 7, 100, 2^31-1, an unknown oneof member) x existing/bogus/wrong-kind invite and request ids, single and batched (2-4 contents), from 25 representative reachable states "+
		"(owner, 2 admins, writer, reader, guest, removed, pending join, pending remove, declined, open invites, transferred ownership, "+
		"stale requests, rotated key; 2 states storing out-of-range enum values: invites of undefined types carrying Admin / Owner / None, undefined permission values on invites and accounts; 11 states in which status and permissions diverge: members / the owner Declined or Canceled through a "+
		"stale join request, Active accounts without permissions, stale remove requests across re-admission and ownership transfer): directed "+
		"escalation attempts + the systematic alphabet around every account (add / perm / perms / owner by owner, admin, writer; self "+
		"rremove / add / perm / rjoin / ijoin / cancel / accept; request resolution followed by touching the requester in the same record) + "+
		"random records; random walks through AddRawRecord; deep histories of 4-8 accepted records from every scenario with the alphabet "+
		"re-applied in every reached state with a status/permission divergence; observed state = per-account permission, STATUS, key record, "+
		"history, invites, request records, pending requests, keys, options; a case is non-trivial if the "+
		"state has >= 3 accounts and the record >= 1 content; distinct by full case term",
		rn.samples, nil)
}
