// Correspondence driver for C11: feeds hostile / malformed / mutated input to the REAL network-facing entry points
// of any-sync and writes the observed outcome class (nil / error / recovered panic or crash / hang /
// over-allocation) as Coq cases. coqc then checks spec_C11 on the observed class and, for the entry points whose
// hand-written glue is modelled in Model/Decoders.v, that the model's outcome class equals the observed one.
//
// Every call runs under recover, a wall-clock guard and an allocation guard (runtime.MemStats.TotalAlloc delta
// bounded by c*len(input)+k). Calls that may crash fatally (panic in a goroutine started by the callee, stack
// overflow), hang or allocate wildly run in a child process (vlib.Child).
package main

import (
	"crypto/sha256"
	"encoding/hex"
	"encoding/json"
	"fmt"
	"os"
	"runtime"
	"sort"
	"strings"
	"sync"
	"time"

	"verifharness/vlib"
)

// Req is one call of one entry point; it is the replayable description of a case.
type Req struct {
	Kind string   `json:"kind"`
	Gen  string   `json:"gen"`
	B    [][]byte `json:"b,omitempty"` // byte-string inputs
	I    []int64  `json:"i,omitempty"` // integer inputs
	S    []string `json:"s,omitempty"` // string inputs
	F    []bool   `json:"f,omitempty"` // flags
	Tags []string `json:"tags,omitempty"`
	Obs  *Obs     `json:"obs,omitempty"` // what was observed when the case was generated (information only)
	// StatGen: coarser generator label for the input-distribution statistics (default: Gen)
	StatGen string `json:"-"`
}

// Obs is what one execution showed.
type Obs struct {
	Cls   string            `json:"cls"` // ok | err | panic | hang | alloc
	Err   string            `json:"err,omitempty"`
	Alloc uint64            `json:"alloc"`
	Ms    float64           `json:"ms"`
	X     map[string]string `json:"x,omitempty"` // entry-specific observations (oracle answers for the model)
}

type entry struct {
	name   string
	code   int  // number used in CObserved
	child  bool // run in the child process
	allocC uint64
	allocK uint64
	// run executes the real implementation; a panic propagates to the caller's recover.
	run func(r *Req, x map[string]string) error
	// term renders the Coq case; nil => CObserved.
	term func(r *Req, o *Obs) string
	// modelled reports whether model_ok is checked for this entry.
	modelled bool
	// findingTag: tag given to over-allocation / hang cases of this entry (known finding recogniser)
	findingTag string
	// ownGuards: the entry runs its own watchdogs around every call it makes and reports a hang itself; the
	// child-process time-out is then only a backstop against a wedged child (generous, one retry on a fresh
	// child: starting a child can take tens of seconds on a loaded machine)
	ownGuards bool
}

var entries = map[string]*entry{}

func register(e *entry) {
	if e.allocC == 0 {
		e.allocC = 256
	}
	if e.allocK == 0 {
		e.allocK = 4 << 20
	}
	entries[e.name] = e
}

func inputLen(r *Req) uint64 {
	n := 0
	for _, b := range r.B {
		n += len(b)
	}
	for _, s := range r.S {
		n += len(s)
	}
	n += 8 * len(r.I)
	return uint64(n)
}

// wall-clock guards are stretched on an overloaded machine (see loadFactor): a hang never returns, a starved call does
var hangLimit = scaled(5 * time.Second)

// execute runs one request in this process under recover and the guards.
func execute(r *Req) (o Obs) {
	e := entries[r.Kind]
	if e == nil {
		return Obs{Cls: "err", Err: "unknown kind " + r.Kind}
	}
	o.X = map[string]string{}
	var m0, m1 runtime.MemStats
	runtime.ReadMemStats(&m0)
	t0 := time.Now()
	func() {
		defer func() {
			if p := recover(); p != nil {
				o.Cls = "panic"
				o.Err = fmt.Sprint(p)
				if len(o.Err) > 300 {
					o.Err = o.Err[:300]
				}
			}
		}()
		err := e.run(r, o.X)
		if err != nil {
			o.Cls = "err"
			o.Err = err.Error()
			if len(o.Err) > 200 {
				o.Err = o.Err[:200]
			}
		} else {
			o.Cls = "ok"
		}
	}()
	el := time.Since(t0)
	runtime.ReadMemStats(&m1)
	o.Alloc = m1.TotalAlloc - m0.TotalAlloc
	o.Ms = float64(el.Microseconds()) / 1000
	// entries that run their own guards around several calls (synctree) report a hang / over-allocation /
	// panic of one of those calls here
	if fc := o.X["force_cls"]; fc != "" && o.Cls != "panic" {
		o.Cls, o.Err = fc, o.X["force_err"]
		delete(o.X, "force_cls")
		delete(o.X, "force_err")
		return
	}
	if o.Cls != "panic" {
		if o.Alloc > e.allocC*inputLen(r)+e.allocK {
			o.Cls = "alloc"
			o.Err = fmt.Sprintf("allocated %d bytes for %d input bytes (bound %d*len+%d), %s", o.Alloc, inputLen(r), e.allocC, e.allocK, el)
		} else if el > hangLimit {
			o.Cls = "hang"
			o.Err = fmt.Sprintf("took %s", el)
		}
	}
	return
}

var child = &vlib.Child{}

// observe runs the request in the right place (child for risky entries).
func observe(r *Req) Obs { return observeOn(child, r) }

func observeOn(child *vlib.Child, r *Req) Obs {
	e := entries[r.Kind]
	if e == nil || !e.child {
		return execute(r)
	}
	rr := *r
	rr.Obs = nil
	b, _ := json.Marshal(&rr)
	limit := scaled(20*time.Second) + 5*time.Second
	if e.ownGuards {
		limit = 90 * time.Second
	}
	resp, fail := child.Call(b, limit)
	if e.ownGuards && strings.HasPrefix(fail, "timeout") {
		resp, fail = child.Call(b, limit)
	}
	if fail != "" {
		if strings.HasPrefix(fail, "timeout") {
			return Obs{Cls: "hang", Err: fail}
		}
		msg := fail
		if len(msg) > 400 {
			msg = msg[:400]
		}
		return Obs{Cls: "panic", Err: "fatal " + msg}
	}
	var o Obs
	if err := json.Unmarshal(resp, &o); err != nil {
		return Obs{Cls: "panic", Err: "bad child response: " + string(resp)}
	}
	if o.Cls == "hang" {
		// a goroutine of the case may still be stuck (or spinning) in the child: start a fresh one
		child.Close()
	}
	return o
}

func clsTerm(c string) string {
	switch c {
	case "ok":
		return "COk"
	case "err":
		return "CErr"
	case "panic":
		return "CPanic"
	case "hang":
		return "CHang"
	case "alloc":
		return "CAlloc"
	}
	return "CPanic"
}

// bytesTerm renders a byte string as one hexadecimal numeral decoded by C11_run.B:
// sentinel 1, then the bytes from last to first.
func hexLit(b []byte) string {
	var sb strings.Builder
	sb.Grow(2*len(b) + 3)
	sb.WriteString("0x1")
	const hexd = "0123456789abcdef"
	for i := len(b) - 1; i >= 0; i-- {
		sb.WriteByte(hexd[b[i]>>4])
		sb.WriteByte(hexd[b[i]&15])
	}
	return sb.String()
}
func bytesTerm(b []byte) string { return "(B " + hexLit(b) + ")" }

// rleTerm renders a long byte string as chunks (literal, repeat count): runs of >= 64 equal bytes are folded.
func rleTerm(b []byte) string {
	var items []string
	lit := 0
	flush := func(end int) {
		if end > lit {
			items = append(items, fmt.Sprintf("(%s, 1)", hexLit(b[lit:end])))
		}
	}
	for i := 0; i < len(b); {
		j := i
		for j < len(b) && b[j] == b[i] {
			j++
		}
		if j-i >= 64 {
			flush(i)
			items = append(items, fmt.Sprintf("(%s, %d)", hexLit(b[i:i+1]), j-i))
			lit = j
		}
		i = j
	}
	flush(len(b))
	return vlib.List(items)
}

type harness struct {
	w       *vlib.Writer
	samples []interface{}
	perKind map[string]int
}

// emitMany observes independent child-process cases on a small pool of children in parallel (cases that mostly
// wait: a hang costs its watchdog once per pool slot, not once per case) and records them in the given order.
func (h *harness) emitMany(reqs []*Req) {
	const workers = 8
	if len(reqs) < 2 {
		for _, r := range reqs {
			h.emit(r)
		}
		return
	}
	obs := make([]Obs, len(reqs))
	next := make(chan int, len(reqs))
	for i := range reqs {
		next <- i
	}
	close(next)
	var wg sync.WaitGroup
	for w := 0; w < workers; w++ {
		wg.Add(1)
		go func() {
			defer wg.Done()
			c := &vlib.Child{}
			defer c.Close()
			for i := range next {
				obs[i] = observeOn(c, reqs[i])
			}
		}()
	}
	wg.Wait()
	for i, r := range reqs {
		h.emitObs(r, obs[i])
	}
}

func (h *harness) emit(r *Req) { h.emitObs(r, observe(r)) }

func (h *harness) emitObs(r *Req, o Obs) {
	e := entries[r.Kind]
	if e == nil {
		panic("unknown kind " + r.Kind)
	}
	r.Obs = &o
	if (o.Cls == "alloc" || o.Cls == "hang") && e.findingTag != "" {
		// a listed/listable finding is recognised by (entry point, violation class)
		r.Tags = []string{e.findingTag}
	}
	var term string
	if e.term != nil {
		term = e.term(r, &o)
	} else {
		term = vlib.App("CObserved", vlib.N(uint64(e.code)), vlib.N(inputLen(r)), clsTerm(o.Cls))
	}
	hsh := sha256.New()
	hsh.Write([]byte(r.Kind))
	for _, b := range r.B {
		hsh.Write([]byte{0})
		hsh.Write(b)
	}
	for _, s := range r.S {
		hsh.Write([]byte{1})
		hsh.Write([]byte(s))
	}
	fmt.Fprint(hsh, r.I, r.F)
	key := hex.EncodeToString(hsh.Sum(nil)[:12])
	idx := h.w.Add(term, r, key, true)
	h.w.Stat("entry/" + r.Kind)
	h.w.Stat("class/" + r.Kind + "/" + o.Cls)
	if r.StatGen != "" {
		h.w.Stat("gen/" + r.Kind + "/" + r.StatGen)
	} else {
		h.w.Stat("gen/" + r.Kind + "/" + r.Gen)
	}
	if o.Cls == "panic" || o.Cls == "hang" || o.Cls == "alloc" {
		// also visible to the Coq side as spec_ok = false (code 2); the direct record carries the message
		tag := "C11-" + o.Cls
		if len(r.Tags) > 0 {
			tag = r.Tags[0]
		}
		h.w.Violation(idx, tag, fmt.Sprintf("%s: %s on %s/%s: %s", r.Kind, o.Cls, r.Kind, r.Gen, o.Err), nil)
	}
	if h.perKind[r.Kind] < 1 && len(h.samples) < 5 && inputLen(r) < 400 {
		h.samples = append(h.samples, map[string]interface{}{"kind": r.Kind, "gen": r.Gen, "input_len": inputLen(r), "observed": o.Cls, "err": o.Err})
	}
	h.perKind[r.Kind]++
}

// generators are registered per entry group: they call emit for every case.
type generator func(h *harness, rng *vlib.Rand, n int)

var generators []struct {
	name string
	base int // cases at quick tier, budget 1
	fn   generator
}

func addGenerator(name string, base int, fn generator) {
	generators = append(generators, struct {
		name string
		base int
		fn   generator
	}{name, base, fn})
}

func main() {
	vlib.ServeChild(func(req []byte) []byte {
		var r Req
		if err := json.Unmarshal(req, &r); err != nil {
			b, _ := json.Marshal(Obs{Cls: "err", Err: "bad request"})
			return b
		}
		o := execute(&r)
		b, _ := json.Marshal(&o)
		return b
	})
	vlib.Quiet()
	opts := vlib.ParseFlags()
	h := &harness{w: vlib.NewWriter(opts.Out, "C11_run", 250), perKind: map[string]int{}}
	defer child.Close()
	defer stParentSetup()()

	if opts.Replay != "" {
		var batch []*Req
		for _, raw := range vlib.ReadReplay(opts.Replay) {
			var r Req
			if err := json.Unmarshal(raw, &r); err != nil || r.Kind == "" {
				continue
			}
			if entries[r.Kind] == nil {
				fmt.Fprintln(os.Stderr, "replay: unknown kind", r.Kind)
				continue
			}
			r.Obs = nil
			if r.Kind == stallKind {
				rc := r
				batch = append(batch, &rc)
				continue
			}
			h.emit(&r)
		}
		h.emitMany(batch)
	} else {
		mult := opts.Budget
		if opts.Tier == "thorough" {
			mult *= 10
		}
		rng := vlib.NewRand(opts.Seed)
		sort.SliceStable(generators, func(i, j int) bool { return generators[i].name < generators[j].name })
		for gi, g := range generators {
			g.fn(h, rng.Fork(uint64(gi)), g.base*mult)
		}
	}
	var modelled, harnessOnly []string
	for k, e := range entries {
		if e.modelled {
			modelled = append(modelled, k)
		} else {
			harnessOnly = append(harnessOnly, k)
		}
	}
	sort.Strings(modelled)
	sort.Strings(harnessOnly)
	h.w.Finish("distinct (entry point, input) pairs executed on the real code under recover + wall-clock + allocation guards; every case counts (pristine valid inputs anchor the Ok class, all others are hostile/mutated)",
		h.samples, map[string]interface{}{
			"modelled_entries":     modelled,
			"harness_only_entries": harnessOnly,
		})
}
