package main

// Entry point (2): the hand-written protobuf wire parser of commonspace/object/acl/list/keepidentity.go
// (fast path of unmarshalAclDataKeepIdentity; runs on ACL record payloads received from peers on
// non-validating clients). Driven through the verif hook list.VerifKeepIdentityFast.

import (
	"bytes"
	"fmt"

	"github.com/anyproto/any-sync/commonspace/object/acl/aclrecordproto"
	"github.com/anyproto/any-sync/commonspace/object/acl/list"

	"verifharness/vlib"
)

// ---- wire-level builder ----

func putVarint(b []byte, v uint64) []byte {
	for v >= 0x80 {
		b = append(b, byte(v)|0x80)
		v >>= 7
	}
	return append(b, byte(v))
}

// overlong / hostile varint encodings of v
func putVarintHostile(rng *vlib.Rand, b []byte, v uint64) []byte {
	switch rng.Intn(5) {
	case 0: // non-minimal: pad with continuation bytes
		pad := 1 + rng.Intn(4)
		for v >= 0x80 {
			b = append(b, byte(v)|0x80)
			v >>= 7
		}
		b = append(b, byte(v)|0x80)
		for i := 0; i < pad-1; i++ {
			b = append(b, 0x80)
		}
		return append(b, 0x00)
	case 1: // 10 bytes, last byte too large (overflow)
		for i := 0; i < 9; i++ {
			b = append(b, 0xff)
		}
		return append(b, byte(2+rng.Intn(126)))
	case 2: // 10 bytes, maximal legal
		for i := 0; i < 9; i++ {
			b = append(b, 0xff)
		}
		return append(b, 0x01)
	case 3: // never terminated
		n := 1 + rng.Intn(12)
		for i := 0; i < n; i++ {
			b = append(b, 0x80|byte(rng.U64()))
		}
		return b
	default:
		return putVarint(b, v)
	}
}

type wb struct {
	rng   *vlib.Rand
	anom  int // anomalies injected so far
	pAnom int // probability (per 1000) of an anomaly at each decision point
}

func (w *wb) hit() bool {
	if w.rng.Intn(1000) < w.pAnom {
		w.anom++
		return true
	}
	return false
}

// field renders tag + length + payload, possibly with a hostile tag / wire type / length
func (w *wb) field(out []byte, num uint64, payload []byte) []byte {
	wt := uint64(2)
	if w.hit() {
		switch w.rng.Intn(6) {
		case 0:
			wt = uint64(w.rng.Intn(8)) // wrong wire type (incl. groups 3/4 and illegal 6/7)
		case 1:
			num = uint64(w.rng.Intn(20)) // other / zero field number
		case 2:
			num = []uint64{0, 1 << 28, 1<<29 - 1, 1 << 29, 1<<32 + num, 1<<61 - 1}[w.rng.Intn(6)]
		case 3:
			out = putVarintHostile(w.rng, out, num<<3|wt)
			out = putVarint(out, uint64(len(payload)))
			return append(out, payload...)
		case 4: // length-field edit
			out = putVarint(out, num<<3|wt)
			l := uint64(len(payload))
			l = []uint64{0, l + 1, l - 1, l + 100, 1 << 31, 1<<63 - 1, 1 << 63, 1<<64 - 1, uint64(w.rng.Intn(300))}[w.rng.Intn(9)]
			out = putVarint(out, l)
			return append(out, payload...)
		case 5: // hostile length encoding
			out = putVarint(out, num<<3|wt)
			out = putVarintHostile(w.rng, out, uint64(len(payload)))
			return append(out, payload...)
		}
	}
	out = putVarint(out, num<<3|wt)
	switch wt {
	case 0:
		return putVarint(out, w.rng.U64()>>uint(w.rng.Intn(64)))
	case 1:
		return append(out, randBytes(w.rng, 8)...)
	case 5:
		return append(out, randBytes(w.rng, 4)...)
	case 3, 4, 6, 7:
		return append(out, payload...)
	}
	out = putVarint(out, uint64(len(payload)))
	return append(out, payload...)
}

func (w *wb) smallBytes(max int) []byte { return randBytes(w.rng, w.rng.Intn(max+1)) }

var oursIdentity = []byte("OURS-identity-0001")

func (w *wb) identity() []byte {
	switch w.rng.Intn(4) {
	case 0:
		return clone(oursIdentity)
	case 1:
		return nil
	default:
		return append([]byte("other-"), w.smallBytes(12)...)
	}
}

func (w *wb) encKey() []byte {
	var b []byte
	order := w.rng.Intn(3)
	if order != 2 {
		b = w.field(b, 1, w.identity())
	}
	b = w.field(b, 2, w.smallBytes(40))
	if order == 2 {
		b = w.field(b, 1, w.identity()) // key before identity: still canonical for the strict walk
	}
	if w.hit() {
		switch w.rng.Intn(3) {
		case 0:
			b = w.field(b, 1, w.identity()) // duplicate identity
		case 1:
			b = w.field(b, 3+uint64(w.rng.Intn(5)), w.smallBytes(5)) // unknown field
		case 2:
			b = append(b, w.smallBytes(3)...) // trailing bytes
		}
	}
	return b
}

func (w *wb) rkc() []byte {
	var b []byte
	n := w.rng.Intn(5)
	for i := 0; i < n; i++ {
		b = w.field(b, 1, w.encKey())
	}
	if w.rng.Chance(4, 5) {
		b = w.field(b, 2, w.smallBytes(36))
	}
	if w.rng.Chance(4, 5) {
		b = w.field(b, 3, w.smallBytes(60))
	}
	if w.rng.Chance(3, 5) {
		b = w.field(b, 4, w.smallBytes(60))
	}
	for i := w.rng.Intn(3); i > 0; i-- {
		b = w.field(b, 5, w.encKey())
	}
	if w.rng.Chance(1, 4) { // interleaved order is legal
		b = w.field(b, 1, w.encKey())
	}
	if w.hit() {
		switch w.rng.Intn(3) {
		case 0:
			b = w.field(b, 2+uint64(w.rng.Intn(3)), w.smallBytes(8)) // duplicate singular field
		case 1:
			b = w.field(b, 6+uint64(w.rng.Intn(4)), w.smallBytes(8)) // unknown field
		case 2:
			b = append(b, w.smallBytes(3)...)
		}
	}
	return b
}

func (w *wb) accountRemove() []byte {
	var b []byte
	for i := w.rng.Intn(4); i > 0; i-- {
		b = w.field(b, 1, w.identity())
	}
	if w.rng.Chance(5, 6) {
		b = w.field(b, 2, w.rkc())
	}
	if w.hit() {
		if w.rng.Bool() {
			b = w.field(b, 2, w.rkc()) // split sub-message
		} else {
			b = w.field(b, 3, w.smallBytes(4))
		}
	}
	return b
}

func (w *wb) contentValue() []byte {
	var b []byte
	switch w.rng.Intn(8) {
	case 0, 1, 2:
		b = w.field(b, 7, w.rkc())
	case 3, 4, 5:
		b = w.field(b, 6, w.accountRemove())
	case 6: // another variant of the oneof (always non-canonical for the fast path)
		w.anom++
		b = w.field(b, uint64(1+w.rng.Intn(16)), w.smallBytes(20))
	case 7: // empty content
		w.anom++
	}
	if w.hit() {
		b = w.field(b, 7, w.rkc()) // second member of the oneof
	}
	return b
}

func (w *wb) aclData() []byte {
	var b []byte
	n := 1 + w.rng.Intn(3)
	if w.rng.Chance(1, 30) {
		n = 0
	}
	for i := 0; i < n; i++ {
		b = w.field(b, 1, w.contentValue())
	}
	return b
}

// ---- a fully valid message from the generated encoder ----
func validAclData(rng *vlib.Rand) []byte {
	ek := func() *aclrecordproto.AclEncryptedReadKey {
		id := append([]byte("other-"), randBytes(rng, 8)...)
		if rng.Chance(1, 3) {
			id = clone(oursIdentity)
		}
		return &aclrecordproto.AclEncryptedReadKey{Identity: id, EncryptedReadKey: randBytes(rng, 1+rng.Intn(40))}
	}
	rkc := func() *aclrecordproto.AclReadKeyChange {
		r := &aclrecordproto.AclReadKeyChange{MetadataPubKey: randBytes(rng, 36), EncryptedMetadataPrivKey: randBytes(rng, 50), EncryptedOldReadKey: randBytes(rng, 50)}
		for i := rng.Intn(5); i > 0; i-- {
			r.AccountKeys = append(r.AccountKeys, ek())
		}
		for i := rng.Intn(3); i > 0; i-- {
			r.InviteKeys = append(r.InviteKeys, ek())
		}
		return r
	}
	d := &aclrecordproto.AclData{}
	for i := 1 + rng.Intn(2); i > 0; i-- {
		if rng.Bool() {
			d.AclContent = append(d.AclContent, &aclrecordproto.AclContentValue{Value: &aclrecordproto.AclContentValue_ReadKeyChange{ReadKeyChange: rkc()}})
		} else {
			ar := &aclrecordproto.AclAccountRemove{Identities: [][]byte{randBytes(rng, 10)}}
			if rng.Chance(4, 5) {
				ar.ReadKeyChange = rkc()
			}
			d.AclContent = append(d.AclContent, &aclrecordproto.AclContentValue{Value: &aclrecordproto.AclContentValue_AccountRemove{AccountRemove: ar}})
		}
	}
	b, err := d.MarshalVT()
	if err != nil {
		panic(err)
	}
	return b
}

func isOurs(id []byte) bool { return bytes.Equal(id, oursIdentity) }

func summary(d *aclrecordproto.AclData) string {
	var items []string
	for _, c := range d.AclContent {
		var kind, ak, ik, ids int
		if r := c.GetReadKeyChange(); r != nil {
			kind, ak, ik = 7, len(r.AccountKeys), len(r.InviteKeys)
		} else if a := c.GetAccountRemove(); a != nil {
			kind, ids = 6, len(a.Identities)
			if a.ReadKeyChange != nil {
				ak, ik = len(a.ReadKeyChange.AccountKeys), len(a.ReadKeyChange.InviteKeys)
			}
		}
		items = append(items, fmt.Sprintf("(%d, %d, %d, %d)", kind, ak, ik, ids))
	}
	return vlib.List(items)
}

func init() {
	// B[0] = AclData bytes; isOurs = equality with the fixed identity
	register(&entry{name: "keepid-fast", code: 20, modelled: true,
		run: func(r *Req, x map[string]string) error {
			d, err := list.VerifKeepIdentityFast(r.B[0], isOurs)
			if err == nil {
				x["summary"] = summary(d)
			}
			return err
		},
		term: func(r *Req, o *Obs) string {
			s := o.X["summary"]
			if s == "" {
				s = "[]"
			}
			return vlib.App("CKeepFast", bytesTerm(r.B[0]), bytesTerm(oursIdentity), clsTerm(o.Cls), s)
		}})
	// the whole function with the generated decoder as fallback (harness-only: class + agreement of the two paths)
	register(&entry{name: "keepid-full", code: 21,
		run: func(r *Req, x map[string]string) error {
			d1, e1 := list.VerifUnmarshalKeepIdentity(r.B[0], isOurs)
			d2, e2 := list.VerifFullDecodeFilter(r.B[0], isOurs)
			if (e1 == nil) != (e2 == nil) {
				panic(fmt.Sprintf("fast+fallback and full decode disagree: %v vs %v", e1, e2))
			}
			if e1 == nil && summary(d1) != summary(d2) {
				panic("fast+fallback and full decode produce different results: " + summary(d1) + " vs " + summary(d2))
			}
			return e1
		}})
	addGenerator("keepid", 1500, genKeepId)
}

func genKeepId(h *harness, rng *vlib.Rand, n int) {
	for i := 0; i < n; i++ {
		var data []byte
		gen := ""
		switch sel := rng.Intn(10); {
		case sel < 2:
			data, gen = validAclData(rng), "valid"
		case sel < 4:
			data, gen = mutateBytes(rng, validAclData(rng)), "valid-mutated"
		case sel < 9:
			w := &wb{rng: rng, pAnom: []int{0, 8, 30, 120}[rng.Intn(4)]}
			data = w.aclData()
			gen = fmt.Sprintf("structured-anom%d", minInt(w.anom, 3))
		default:
			data, gen = randBytes(rng, rng.Intn(48)), "random"
		}
		if len(data) > 700 {
			data = data[:700]
			gen += "-cut"
		}
		kind := "keepid-fast"
		if i%5 == 4 {
			kind = "keepid-full"
		}
		h.emit(&Req{Kind: kind, Gen: gen, B: [][]byte{data}})
	}
}
