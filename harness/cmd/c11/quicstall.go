package main

// Entry point (3c), harness-only: the same stalled peer against the REAL QUIC transport (net/transport/quic), the
// transport whose handshake connection is a quic-go Stream: Stream.Close closes the send direction only and does
// not interrupt a pending Read.
//
//   inbound  (I[0]=0): a real quic transport server with DialTimeoutSec = 1. Hostile peers complete QUIC/TLS with a
//            valid libp2p identity, open the handshake stream, send a prefix of a valid credentials conversation and
//            go silent, keeping the connection alive with keep-alive PINGs. The server must drop each of them
//            (accept() -> CloseWithError) within its handshake deadline + quicStallMargin.
//   outbound (I[0]=1): a hostile QUIC listener accepts the real transport's Dial(ctx with a 2 s deadline), answers
//            the handshake stream with a prefix of a valid conversation and goes silent. Dial must return within
//            the deadline + quicStallMargin.
//
// All stall points of a case run concurrently. Only "the connection was established, the prefix is on the wire, and
// the transport still has not let go quicStallMargin after its own deadline" counts as a hang; a scenario that could
// not be set up (QUIC handshake timed out on a loaded machine) is counted in the statistics and proves nothing.

import (
	"context"
	"crypto/tls"
	"errors"
	"fmt"
	"sync"
	"time"

	quicgo "github.com/quic-go/quic-go"

	"github.com/anyproto/any-sync/app"
	"github.com/anyproto/any-sync/net/secureservice"
	"github.com/anyproto/any-sync/net/secureservice/handshake/handshakeproto"
	"github.com/anyproto/any-sync/net/transport"
	anyquic "github.com/anyproto/any-sync/net/transport/quic"
	"github.com/anyproto/any-sync/nodeconf"
	"github.com/anyproto/any-sync/testutil/accounttest"

	"verifharness/vlib"
)

const (
	quicStallKind   = "quic-stall"
	quicStallMargin = 8 * time.Second
)

type qsConf struct{ dialTimeoutSec int }

func (c *qsConf) Init(*app.App) error { return nil }
func (c *qsConf) Name() string        { return "config" }
func (c *qsConf) GetQuic() anyquic.Config {
	return anyquic.Config{ListenAddrs: []string{"127.0.0.1:0"}, WriteTimeoutSec: 10, DialTimeoutSec: c.dialTimeoutSec}
}

// nodeconf stub: nobody is a node => the no-verify credential checker on both sides
type qsNodeConf struct{ nodeconf.Service }

func (n *qsNodeConf) Init(*app.App) error                  { return nil }
func (n *qsNodeConf) Name() string                         { return nodeconf.CName }
func (n *qsNodeConf) Run(context.Context) error            { return nil }
func (n *qsNodeConf) Close(context.Context) error          { return nil }
func (n *qsNodeConf) NodeTypes(string) []nodeconf.NodeType { return nil }

type qsAccepter struct {
	mu  sync.Mutex
	mcs []transport.MultiConn
}

func (t *qsAccepter) Accept(mc transport.MultiConn) error {
	t.mu.Lock()
	t.mcs = append(t.mcs, mc)
	t.mu.Unlock()
	return nil
}
func (t *qsAccepter) Init(a *app.App) error {
	a.MustComponent(anyquic.CName).(transport.Transport).SetAccepter(t)
	return nil
}
func (t *qsAccepter) Name() string { return "verif.c11.accepter" }

type qsNode struct {
	a      *app.App
	tr     anyquic.Quic
	secure secureservice.SecureService
	addr   string
}

// newQsNode starts a real secure service (+ the real quic transport when withTransport) in an app.
func newQsNode(withTransport bool, dialTimeoutSec int) (*qsNode, error) {
	n := &qsNode{a: new(app.App), secure: secureservice.New()}
	n.a.Register(&accounttest.AccountTestService{}).Register(&qsConf{dialTimeoutSec}).Register(&qsNodeConf{}).Register(n.secure)
	if withTransport {
		n.tr = anyquic.New()
		n.a.Register(n.tr).Register(&qsAccepter{})
	}
	if err := n.a.Start(context.Background()); err != nil {
		return nil, err
	}
	if withTransport {
		// the listener address: ask for one more (ListenAddrs returns the bound addresses)
		addrs, err := n.tr.ListenAddrs(context.Background(), "127.0.0.1:0")
		if err != nil || len(addrs) == 0 {
			_ = n.a.Close(context.Background())
			return nil, fmt.Errorf("listen: %v", err)
		}
		n.addr = addrs[0].String()
	}
	return n, nil
}

func (n *qsNode) close() {
	ctx, cancel := context.WithTimeout(context.Background(), 3*time.Second)
	defer cancel()
	_ = n.a.Close(ctx)
}

// what a well-behaved no-verify peer sends: credentials, then ack
func qsConversation() (stream []byte, firstFrame int) {
	cred, _ := (&handshakeproto.Credentials{Type: handshakeproto.CredentialsType_SkipVerify,
		Version: secureservice.ProtoVersion, ClientVersion: "verif-c11"}).MarshalVT()
	ack, _ := (&handshakeproto.Ack{Error: handshakeproto.Error_Null}).MarshalVT()
	f1 := frame(1, cred)
	return append(clone(f1), frame(2, ack)...), len(f1)
}

type qsPoint struct {
	k      int
	setup  bool // the scenario was established (prefix on the wire of a live connection)
	hung   bool
	detail string
	el     time.Duration
}

func qsInbound(prefixes []int, stream []byte) ([]qsPoint, error) {
	srv, err := newQsNode(true, 1)
	if err != nil {
		return nil, err
	}
	defer srv.close()
	idn, err := newQsNode(false, 1)
	if err != nil {
		return nil, err
	}
	defer idn.close()
	pts := make([]qsPoint, len(prefixes))
	var wg sync.WaitGroup
	for i, k := range prefixes {
		wg.Add(1)
		go func(i, k int) {
			defer wg.Done()
			p := &pts[i]
			p.k = k
			var qc *quicgo.Conn
			for attempt := 0; attempt < 2 && qc == nil; attempt++ {
				tlsConf, _, err := idn.secure.TlsConfig()
				if err != nil {
					p.detail = err.Error()
					return
				}
				dctx, cancel := context.WithTimeout(context.Background(), 3*time.Second)
				c, err := quicgo.DialAddr(dctx, srv.addr, tlsConf, &quicgo.Config{KeepAlivePeriod: 200 * time.Millisecond})
				cancel()
				if err != nil {
					p.detail = "dial: " + err.Error()
					continue
				}
				sctx, cancel2 := context.WithTimeout(context.Background(), 2*time.Second)
				st, err := c.OpenStreamSync(sctx)
				cancel2()
				if err == nil {
					_, err = st.Write(stream[:k])
				}
				if err != nil {
					p.detail = "stream: " + err.Error()
					_ = c.CloseWithError(0, "")
					continue
				}
				qc = c
			}
			if qc == nil {
				return
			}
			defer func() { _ = qc.CloseWithError(0, "") }()
			p.setup = true
			t0 := time.Now()
			select {
			case <-qc.Context().Done():
				p.el = time.Since(t0)
				p.detail = fmt.Sprintf("dropped after %s", p.el.Round(time.Millisecond))
			case <-time.After(time.Second + quicStallMargin):
				p.el = time.Since(t0)
				p.hung = true
				p.detail = fmt.Sprintf("quic transport accept(): peer completed QUIC/TLS, sent %d of %d handshake bytes on the handshake stream and went silent (keep-alives on); the server still holds the connection %s after the prefix was sent (DialTimeoutSec=1)", k, len(stream), p.el.Round(time.Millisecond))
			}
		}(i, k)
	}
	wg.Wait()
	return pts, nil
}

func qsOutbound(prefixes []int, stream []byte) ([]qsPoint, error) {
	const dialDeadline = 2 * time.Second
	cli, err := newQsNode(true, 2)
	if err != nil {
		return nil, err
	}
	defer cli.close()
	idn, err := newQsNode(false, 2)
	if err != nil {
		return nil, err
	}
	defer idn.close()
	pts := make([]qsPoint, len(prefixes))
	var wg sync.WaitGroup
	for i, k := range prefixes {
		wg.Add(1)
		go func(i, k int) {
			defer wg.Done()
			p := &pts[i]
			p.k = k
			tlsConf := &tls.Config{NextProtos: []string{"anysync"}}
			tlsConf.GetConfigForClient = func(*tls.ClientHelloInfo) (*tls.Config, error) {
				c, _, e := idn.secure.TlsConfig()
				return c, e
			}
			ln, err := quicgo.ListenAddr("127.0.0.1:0", tlsConf, &quicgo.Config{KeepAlivePeriod: 200 * time.Millisecond})
			if err != nil {
				p.detail = "listen: " + err.Error()
				return
			}
			defer ln.Close()
			stop := make(chan struct{})
			defer close(stop)
			reached := make(chan struct{})
			go func() { // the hostile listener
				actx, cancel := context.WithTimeout(context.Background(), dialDeadline+quicStallMargin)
				defer cancel()
				c, err := ln.Accept(actx)
				if err != nil {
					return
				}
				defer func() { _ = c.CloseWithError(0, "") }()
				st, err := c.AcceptStream(actx)
				if err != nil {
					return
				}
				buf := make([]byte, 5)
				if _, err = st.Read(buf[:1]); err != nil { // the dialer's credentials are arriving
					return
				}
				if _, err = st.Write(stream[:k]); err != nil {
					return
				}
				close(reached)
				<-stop
			}()
			ctx, cancel := context.WithTimeout(context.Background(), dialDeadline)
			defer cancel()
			done := make(chan error, 1)
			t0 := time.Now()
			go func() {
				mc, err := cli.tr.Dial(ctx, ln.Addr().String())
				if err == nil && mc != nil {
					_ = mc.Close()
					err = errors.New("dial succeeded")
				}
				done <- err
			}()
			select {
			case err := <-done:
				p.el = time.Since(t0)
				p.detail = fmt.Sprintf("Dial returned after %s: %v", p.el.Round(time.Millisecond), err)
			case <-time.After(dialDeadline + quicStallMargin):
				p.el = time.Since(t0)
				p.hung = true
				p.detail = fmt.Sprintf("quic transport Dial(ctx with a %s deadline): the listener answered the handshake stream with %d of %d bytes and went silent; Dial has not returned after %s", dialDeadline, k, len(stream), p.el.Round(time.Millisecond))
			}
			select {
			case <-reached:
				p.setup = true
			default:
			}
		}(i, k)
	}
	wg.Wait()
	return pts, nil
}

func init() {
	// I[0] = direction (0 inbound, 1 outbound), I[1:] = stall points (prefix lengths of the valid conversation)
	register(&entry{name: quicStallKind, code: 12, child: true, ownGuards: true,
		run: func(r *Req, x map[string]string) error {
			stream, _ := qsConversation()
			var ks []int
			for _, k := range r.I[1:] {
				if int(k) >= 0 && int(k) < len(stream) {
					ks = append(ks, int(k))
				}
			}
			var pts []qsPoint
			var err error
			if r.I[0] == 0 {
				pts, err = qsInbound(ks, stream)
			} else {
				pts, err = qsOutbound(ks, stream)
			}
			// the verdict of this entry is made here only (QUIC/TLS set-up allocates and takes its time)
			x["force_cls"], x["force_err"] = "ok", ""
			if err != nil {
				x["setup"] = "0"
				x["force_cls"], x["force_err"] = "err", "scenario not set up: "+err.Error()
				return nil
			}
			nsetup := 0
			var hangs []string
			var all []string
			for _, p := range pts {
				if p.setup {
					nsetup++
				}
				if p.hung {
					hangs = append(hangs, p.detail)
				}
				all = append(all, fmt.Sprintf("%d:%s", p.k, p.detail))
			}
			x["setup"] = fmt.Sprint(nsetup)
			x["points"] = fmt.Sprint(all)
			if len(hangs) > 0 {
				x["force_cls"], x["force_err"] = "hang", fmt.Sprintf("%d of %d stall points hang, first: %s", len(hangs), len(pts), hangs[0])
			}
			return nil
		}})
	addGenerator(quicStallKind, 2, genQuicStall)
}

func genQuicStall(h *harness, rng *vlib.Rand, n int) {
	stream, f1 := qsConversation()
	var reqs []*Req
	for i := 0; i < n && i < 6; i++ {
		dir := int64(i & 1)
		var ks []int64
		if dir == 0 {
			// inbound: the stream only exists for the server once a byte is sent
			ks = []int64{1, 5, int64(5 + (f1-5)/2), int64(f1), int64(f1 + 3)}
		} else {
			ks = []int64{0, 1, 5, int64(f1), int64(f1 + 3)}
		}
		if i >= 2 {
			ks = []int64{int64(1 + rng.Intn(len(stream)-1)), int64(1 + rng.Intn(len(stream)-1))}
		}
		gen := "inbound"
		if dir == 1 {
			gen = "outbound"
		}
		reqs = append(reqs, &Req{Kind: quicStallKind, Gen: gen, I: append([]int64{dir}, ks...)})
	}
	h.emitMany(reqs)
}
