package main

import (
	"os"
	"runtime"
	"strconv"
	"strings"
	"time"

	"verifharness/vlib"
)

// loadFactor: 1-minute load average per CPU at process start, clamped to [1, 4]. The wall-clock guards that decide
// "hang" for calls that do real work (tree handlers, whole cases) are multiplied by it: on a machine running 10x more
// runnable threads than cores an honest call can take many seconds. 1 on a machine that is not overloaded.
var loadFactor = func() float64 {
	b, err := os.ReadFile("/proc/loadavg")
	if err != nil {
		return 1
	}
	f := strings.Fields(string(b))
	if len(f) == 0 {
		return 1
	}
	l, err := strconv.ParseFloat(f[0], 64)
	if err != nil {
		return 1
	}
	x := l / float64(runtime.NumCPU())
	if x < 1 {
		return 1
	}
	if x > 4 {
		return 4
	}
	return x
}()

func scaled(d time.Duration) time.Duration { return time.Duration(float64(d) * loadFactor) }

func minInt(a, b int) int {
	if a < b {
		return a
	}
	return b
}

func randBytes(rng *vlib.Rand, n int) []byte {
	b := make([]byte, n)
	for i := range b {
		b[i] = byte(rng.U64())
	}
	return b
}

func clone(b []byte) []byte { return append([]byte(nil), b...) }

func flipBit(rng *vlib.Rand, b []byte) []byte {
	c := clone(b)
	if len(c) == 0 {
		return c
	}
	c[rng.Intn(len(c))] ^= 1 << uint(rng.Intn(8))
	return c
}

// interesting byte values for length / tag positions
var hotBytes = []byte{0x00, 0x01, 0x02, 0x07, 0x08, 0x0a, 0x12, 0x1a, 0x32, 0x3a, 0x7f, 0x80, 0x81, 0xfe, 0xff}

// mutateBytes applies 1..3 byte-level mutations: truncation, bit flip, byte overwrite with a hot value,
// insertion, deletion, duplication of a chunk, appending garbage.
func mutateBytes(rng *vlib.Rand, in []byte) []byte {
	b := clone(in)
	for k := 1 + rng.Intn(3); k > 0; k-- {
		switch rng.Intn(8) {
		case 0:
			if len(b) > 0 {
				b = b[:rng.Intn(len(b))]
			}
		case 1:
			b = flipBit(rng, b)
		case 2:
			if len(b) > 0 {
				b[rng.Intn(len(b))] = hotBytes[rng.Intn(len(hotBytes))]
			}
		case 3:
			p := rng.Intn(len(b) + 1)
			ins := randBytes(rng, 1+rng.Intn(4))
			if rng.Bool() {
				for i := range ins {
					ins[i] = hotBytes[rng.Intn(len(hotBytes))]
				}
			}
			b = append(b[:p:p], append(ins, b[p:]...)...)
		case 4:
			if len(b) > 0 {
				p := rng.Intn(len(b))
				q := p + 1 + rng.Intn(minInt(4, len(b)-p))
				b = append(b[:p:p], b[q:]...)
			}
		case 5:
			if len(b) > 1 {
				p := rng.Intn(len(b) - 1)
				q := p + 1 + rng.Intn(minInt(16, len(b)-p-1)+1)
				if q > len(b) {
					q = len(b)
				}
				chunk := clone(b[p:q])
				b = append(b[:q:q], append(chunk, b[q:]...)...)
			}
		case 6:
			b = append(b, randBytes(rng, 1+rng.Intn(6))...)
		case 7:
			if len(b) > 0 {
				// turn a byte into a varint continuation (length-field edits)
				b[rng.Intn(len(b))] |= 0x80
			}
		}
	}
	return b
}
