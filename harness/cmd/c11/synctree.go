package main

// (8) Tree-sync entry point: the REAL synctree handlers of a REAL SyncTree.
//
// One case = an honest two-replica world (victim + honest peer, each a synctree.SyncTree built by
// synctree.BuildSyncTreeOrGetRemote over objecttree.BuildTestableTree on its own any-store database, as the C01
// harness does), a hostile stream of 1..3 tree sync messages delivered to the victim's real handlers
//   kind 0: HandleHeadUpdate      kind 1: HandleStreamRequest
//   kind 2: HandleResponse        kind 3: ResponseCollector().CollectResponse
// and, after EVERY hostile delivery, an honest operation on the same tree (honest full-sync request of the other
// peer, honest head update of the other peer, local AddContent); at the end all three once more and Close.
// Every call (hostile or honest) runs under recover and a wall-clock guard: a handler that panics, crashes, does
// not return, or leaves the tree unusable for the next honest operation (e.g. returns with the tree mutex held) is
// observed as class panic / hang with the hostile message as the failing input.  The whole case runs in the child
// process (a stuck goroutine or a fatal crash does not take the harness down).  Allocation of the hostile deliveries
// and the follow-ups is measured separately from the construction of the world.
//
// Harness-owned: SyncClient.Broadcast / QueueRequest (the transport, captured), a no-op status updater, a
// SpaceStorage stub answering TreeStorage(id).  Honest history is made with objecttree.MockChangeCreator (unsigned
// changes with chosen ids, non-verifying change builder of BuildTestableTree), so the generator can craft hostile
// messages about real ids without building trees itself; honest follow-up changes are made by the real AddContent.

import (
	"context"
	"fmt"
	"os"
	"path/filepath"
	"runtime"
	"sort"
	"strings"
	"sync/atomic"
	"testing"
	"time"

	anystore "github.com/anyproto/any-store"
	"google.golang.org/protobuf/proto"

	"github.com/anyproto/any-sync/app"
	"github.com/anyproto/any-sync/commonspace/headsync/headstorage"
	"github.com/anyproto/any-sync/commonspace/object/accountdata"
	"github.com/anyproto/any-sync/commonspace/object/acl/list"
	"github.com/anyproto/any-sync/commonspace/object/tree/objecttree"
	"github.com/anyproto/any-sync/commonspace/object/tree/synctree"
	"github.com/anyproto/any-sync/commonspace/object/tree/synctree/response"
	"github.com/anyproto/any-sync/commonspace/object/tree/treechangeproto"
	"github.com/anyproto/any-sync/commonspace/spacestorage"
	"github.com/anyproto/any-sync/commonspace/spacesyncproto"
	"github.com/anyproto/any-sync/commonspace/sync/objectsync/objectmessages"
	"github.com/anyproto/any-sync/commonspace/sync/syncdeps"
	"github.com/anyproto/any-sync/net/peer"

	"verifharness/vlib"
)

const (
	stSpace     = "spaceId"
	stDirEnv    = "VERIF_C11_ST_DIR"
	stNReplicas = 2
)

var stCtx = context.Background()

// stAclHead is the id of the head of the (deterministic) derived ACL of the world; the generator needs it to craft
// changes that look like the honest ones.
var stAclHead = func() string {
	keys, acl := stAcl()
	_ = keys
	return acl.Head().Id
}()

func stAcl() (*accountdata.AccountKeys, list.AclList) {
	r := vlib.NewRand(0xC11)
	keys := accountdata.New(newDetKey(r), newDetKey(r))
	acl, err := list.NewInMemoryDerivedAcl(stSpace, keys)
	stMust(err)
	return keys, acl
}

// stParentSetup makes the directory under which the child process keeps its database files (the child is
// killed or exits without a chance to clean up); the returned function removes it.
func stParentSetup() func() {
	base := ""
	if st, err := os.Stat("/dev/shm"); err == nil && st.IsDir() {
		base = "/dev/shm"
	}
	dir, err := os.MkdirTemp(base, "verif_c11_")
	if err != nil {
		return func() {}
	}
	os.Setenv(stDirEnv, dir)
	return func() { _ = os.RemoveAll(dir) }
}

// ------------------------------------------------------------------------------------- honest history (symbolic)

type stChange struct {
	id    string
	prevs []string
	snap  bool
	base  string
}

type stGraph struct {
	root  string
	snap  map[string]bool
	base  map[string]string
	idx   map[string]int
	heads []string
	all   []stChange
}

func newStGraph(root string) *stGraph {
	return &stGraph{root: root, snap: map[string]bool{root: true}, base: map[string]string{root: ""}, idx: map[string]int{root: 0}, heads: []string{root}}
}

func (g *stGraph) clone() *stGraph {
	c := newStGraph(g.root)
	for k, v := range g.snap {
		c.snap[k] = v
	}
	for k, v := range g.base {
		c.base[k] = v
	}
	for k, v := range g.idx {
		c.idx[k] = v
	}
	c.heads = append([]string(nil), g.heads...)
	c.all = append([]stChange(nil), g.all...)
	return c
}

func (g *stGraph) baseOf(p string) string {
	if g.snap[p] {
		return p
	}
	return g.base[p]
}

func (g *stGraph) add(id string, prevs []string, wantSnap bool) stChange {
	base := g.baseOf(prevs[0])
	for _, p := range prevs[1:] {
		if b := g.baseOf(p); g.idx[b] < g.idx[base] {
			base = b
		}
	}
	c := stChange{id: id, prevs: append([]string(nil), prevs...), snap: wantSnap && len(prevs) == 1, base: base}
	g.snap[id] = c.snap
	g.base[id] = base
	g.idx[id] = len(g.idx)
	var nh []string
	for _, h := range g.heads {
		keep := true
		for _, p := range prevs {
			if p == h {
				keep = false
			}
		}
		if keep {
			nh = append(nh, h)
		}
	}
	g.heads = append(nh, id)
	sort.Strings(g.heads)
	g.all = append(g.all, c)
	return c
}

// path: snapshot path of the current heads, nearest snapshot first, root last (the shape SnapshotPath() returns)
func (g *stGraph) path() []string {
	cur := g.baseOf(g.heads[0])
	for _, h := range g.heads[1:] {
		if b := g.baseOf(h); g.idx[b] < g.idx[cur] {
			cur = b
		}
	}
	var p []string
	for cur != "" {
		p = append(p, cur)
		cur = g.base[cur]
	}
	return p
}

// stScenario is the honest world of a case, a pure function of (root id, I[0..4]).
type stScenario struct {
	root   string
	victim *stGraph // v1..vn
	peer   *stGraph // v1..v_shared, then p1..pk
	shared int
	extras []stChange // the peer's own changes
}

// I[0] victim changes, I[1] how many of them the honest peer has, I[2] the peer's own changes,
// I[3] snapshot mask, I[4] fork mask (bit i: change i is a sibling of change i-1 instead of its child)
func stBuild(root string, I []int64) *stScenario {
	n, shared, extra, snapMask, forkMask := int(I[0]), int(I[1]), int(I[2]), I[3], I[4]
	sc := &stScenario{root: root, shared: shared}
	g := newStGraph(root)
	var ids []string
	for i := 1; i <= n; i++ {
		id := fmt.Sprintf("%s-v%d", root, i)
		prevs := append([]string(nil), g.heads...)
		if forkMask>>uint(i)&1 == 1 && i >= 2 {
			// sibling of change i-1: same parents
			prevs = append([]string(nil), g.all[i-2].prevs...)
		}
		g.add(id, prevs, snapMask>>uint(i)&1 == 1)
		ids = append(ids, id)
		if i == shared {
			sc.peer = g.clone()
		}
	}
	if shared == 0 || sc.peer == nil {
		sc.peer = newStGraph(root)
		sc.shared = 0
	}
	sc.victim = g
	for i := 1; i <= extra; i++ {
		id := fmt.Sprintf("%s-p%d", root, i)
		c := sc.peer.add(id, append([]string(nil), sc.peer.heads...), false)
		sc.extras = append(sc.extras, c)
	}
	return sc
}

var stCreator = objecttree.NewMockChangeCreator(nil)

func stRaw(c stChange, aclHead string) *treechangeproto.RawTreeChangeWithId {
	return stCreator.CreateRawWithData(c.id, aclHead, c.base, c.snap, []byte("d:"+c.id), c.prevs...)
}

// ------------------------------------------------------------------------------------- real world (child process)

type stNoStatus struct{}

func (stNoStatus) Init(a *app.App) error                                             { return nil }
func (stNoStatus) Name() string                                                      { return "verif.nostatus" }
func (stNoStatus) HeadsChange(treeId string, heads []string)                         {}
func (stNoStatus) HeadsReceive(senderId, treeId string, heads []string)              {}
func (stNoStatus) ObjectReceive(senderId, treeId string, heads []string)             {}
func (stNoStatus) HeadsApply(senderId, treeId string, heads []string, allAdded bool) {}

type stNoQueue struct{}

func (stNoQueue) UpdateQueueSize(size uint64, msgType int, add bool) {}

type stStubSpaceStorage struct {
	spacestorage.SpaceStorage
	st objecttree.Storage
}

func (s stStubSpaceStorage) TreeStorage(ctx context.Context, id string) (objecttree.Storage, error) {
	return s.st, nil
}

type stStubPeer struct {
	peer.Peer
	id string
}

func (p stStubPeer) Id() string { return p.id }

type stWorld struct {
	dir     string
	dbs     [stNReplicas]anystore.DB
	heads   [stNReplicas]headstorage.HeadStorage
	acl     list.AclList
	aclHead string
	keys    *accountdata.AccountKeys
	trees   int
}

var stW *stWorld

func stMust(err error) {
	if err != nil {
		panic("synctree harness setup: " + err.Error())
	}
}

func stGetWorld() *stWorld {
	if stW != nil {
		if stW.trees > 200 {
			stW.openDBs()
		}
		return stW
	}
	w := &stWorld{}
	w.keys, w.acl = stAcl()
	w.aclHead = w.acl.Head().Id
	w.openDBs()
	// installs the non-verifying StorageChangeBuilder (package-level variable), as the repo's own tests do
	cr := objecttree.NewMockChangeCreator(func() anystore.DB { return w.dbs[0] })
	_ = cr.CreateNewTreeStorage(&testing.T{}, "warmup", w.aclHead, false)
	stW = w
	return w
}

func (w *stWorld) openDBs() {
	for i := range w.dbs {
		if w.dbs[i] != nil {
			_ = w.dbs[i].Close()
			w.dbs[i] = nil
		}
	}
	if w.dir != "" {
		_ = os.RemoveAll(w.dir)
	}
	base := os.Getenv(stDirEnv)
	if base == "" {
		if st, err := os.Stat("/dev/shm"); err == nil && st.IsDir() {
			base = "/dev/shm"
		}
	}
	dir, err := os.MkdirTemp(base, "w_")
	stMust(err)
	w.dir = dir
	for i := 0; i < stNReplicas; i++ {
		db, err := anystore.Open(stCtx, filepath.Join(dir, fmt.Sprintf("r%d.db", i)), nil)
		stMust(err)
		coll, err := db.Collection(stCtx, objecttree.CollName)
		stMust(err)
		stMust(coll.EnsureIndex(stCtx, anystore.IndexInfo{Fields: []string{objecttree.TreeKey, objecttree.OrderKey}, Unique: true}))
		w.dbs[i] = db
		w.heads[i], err = headstorage.New(stCtx, db)
		stMust(err)
	}
	w.trees = 0
}

type stOut struct {
	kind    int // 0 head update, 1 request
	to      string
	payload []byte
}

type stReplica struct {
	idx     int
	name    string
	tree    synctree.SyncTree
	treeId  string
	emitted []stOut
}

func stPeerName(i int) string { return fmt.Sprintf("peer%d", i) }

type stClient struct {
	synctree.RequestFactory
	rep *stReplica
}

func (c *stClient) Broadcast(ctx context.Context, hu *objectmessages.HeadUpdate) error {
	cp := hu.Copy().(*objectmessages.HeadUpdate)
	pm, err := cp.ProtoMessage()
	if err != nil {
		return err
	}
	c.rep.emitted = append(c.rep.emitted, stOut{kind: 0, payload: append([]byte(nil), pm.(*spacesyncproto.ObjectSyncMessage).Payload...)})
	return nil
}

func (c *stClient) SendTreeRequest(ctx context.Context, req syncdeps.Request, collector syncdeps.ResponseCollector) error {
	return fmt.Errorf("SendTreeRequest is not served by the harness")
}

func (c *stClient) QueueRequest(ctx context.Context, req syncdeps.Request) error {
	c.rep.emitRequest(req)
	return nil
}

func (r *stReplica) emitRequest(req syncdeps.Request) {
	rq, ok := req.(*objectmessages.Request)
	if !ok || rq == nil {
		return
	}
	pm, err := rq.Proto()
	if err != nil {
		return
	}
	r.emitted = append(r.emitted, stOut{kind: 1, to: rq.PeerId(), payload: append([]byte(nil), pm.(*spacesyncproto.ObjectSyncMessage).Payload...)})
}

type stAddSeqSetter interface{ SetAddSeq(seq *atomic.Uint64) }

func (w *stWorld) newReplicas(rootId string) ([]*stReplica, error) {
	w.trees++
	root := stCreator.CreateRoot(rootId, w.aclHead)
	var reps []*stReplica
	for i := 0; i < stNReplicas; i++ {
		st, err := objecttree.CreateStorage(stCtx, root, w.heads[i], w.dbs[i])
		if err != nil {
			return nil, err
		}
		st.(stAddSeqSetter).SetAddSeq(&atomic.Uint64{})
		rep := &stReplica{idx: i, name: stPeerName(i), treeId: rootId}
		client := &stClient{RequestFactory: synctree.NewRequestFactory(stSpace), rep: rep}
		deps := synctree.BuildDeps{
			SpaceId:         stSpace,
			SyncClient:      client,
			AclList:         w.acl,
			SpaceStorage:    stStubSpaceStorage{st: st},
			OnClose:         func(id string) {},
			SyncStatus:      stNoStatus{},
			BuildObjectTree: objecttree.BuildTestableTree,
		}
		t, err := synctree.BuildSyncTreeOrGetRemote(stCtx, rootId, deps)
		if err != nil {
			return nil, err
		}
		rep.tree = t
		reps = append(reps, rep)
	}
	return reps, nil
}

func (r *stReplica) seed(w *stWorld, g *stGraph) {
	if len(g.all) == 0 {
		return
	}
	var raws []*treechangeproto.RawTreeChangeWithId
	for _, c := range g.all {
		raws = append(raws, stRaw(c, w.aclHead))
	}
	r.tree.Lock()
	_, err := r.tree.AddRawChanges(stCtx, objecttree.RawChangesPayload{NewHeads: g.heads, RawChanges: raws})
	r.tree.Unlock()
	stMust(err)
	r.emitted = nil
}

// wall-clock guard of one handler call / honest follow-up (stretched on an overloaded machine, see loadFactor)
var stOpLimit = scaled(6 * time.Second)

// stGuard runs fn under recover and the wall-clock guard. cls: "" finished, "panic", "hang".
func stGuard(fn func() error) (err error, cls, msg string) {
	type res struct {
		err error
		pan string
	}
	done := make(chan res, 1)
	go func() {
		var r res
		defer func() {
			if p := recover(); p != nil {
				r.pan = fmt.Sprint(p)
				if r.pan == "" {
					r.pan = "panic"
				}
			}
			done <- r
		}()
		r.err = fn()
	}()
	select {
	case r := <-done:
		if r.pan != "" {
			return nil, "panic", r.pan
		}
		return r.err, "", ""
	case <-time.After(stOpLimit):
		return nil, "hang", fmt.Sprintf("no return within %s", stOpLimit)
	}
}

// deliver hands one wire message to the real handler of the replica.
func (r *stReplica) deliver(kind int, from, objectId string, payload []byte, onResp func([]byte)) error {
	pctx := peer.CtxWithPeerId(stCtx, from)
	payload = append([]byte(nil), payload...)
	switch kind {
	case 0:
		hu := &objectmessages.HeadUpdate{
			Meta:  objectmessages.ObjectMeta{PeerId: from, ObjectId: objectId, SpaceId: stSpace},
			Bytes: payload,
		}
		req, err := r.tree.HandleHeadUpdate(pctx, stNoStatus{}, hu)
		if req != nil {
			r.emitRequest(req)
		}
		return err
	case 1:
		rq := objectmessages.NewByteRequest(from, stSpace, objectId, payload)
		ret, err := r.tree.HandleStreamRequest(pctx, rq, stNoQueue{}, func(resp proto.Message) error {
			if om, ok := resp.(*spacesyncproto.ObjectSyncMessage); ok && onResp != nil {
				onResp(append([]byte(nil), om.Payload...))
			}
			return nil
		})
		if ret != nil {
			r.emitRequest(ret)
		}
		return err
	case 2, 3:
		resp := &response.Response{}
		if err := resp.SetProtoMessage(&spacesyncproto.ObjectSyncMessage{SpaceId: stSpace, ObjectId: objectId, Payload: payload}); err != nil {
			return err
		}
		if kind == 2 {
			return r.tree.HandleResponse(pctx, from, objectId, resp)
		}
		return r.tree.ResponseCollector().CollectResponse(pctx, from, objectId, resp)
	}
	return fmt.Errorf("unknown message kind %d", kind)
}

func (r *stReplica) addContent(w *stWorld, data string, ts int64) error {
	r.tree.Lock()
	defer r.tree.Unlock()
	_, err := r.tree.AddContent(stCtx, objecttree.SignableChangeContent{
		Data: []byte(data), Key: w.keys.SignKey, Timestamp: ts, DataType: "verif",
	})
	return err
}

func (r *stReplica) take() []stOut {
	e := r.emitted
	r.emitted = nil
	return e
}

var stFollowNames = []string{"honest-request", "honest-head-update", "local-add-content", "close"}

// honest operation on the victim's tree; returns the guard's verdict.
func stFollow(w *stWorld, victim, hp *stReplica, op int, step int) (err error, cls, msg string) {
	switch op {
	case 0: // the honest peer asks for a full sync; the victim's responses go back to the honest peer
		hp.take()
		if e := hp.tree.SyncWithPeer(stCtx, stStubPeer{id: victim.name}); e != nil {
			return e, "", ""
		}
		out := hp.take()
		var resps [][]byte
		for _, o := range out {
			if o.kind != 1 {
				continue
			}
			err, cls, msg = stGuard(func() error {
				return victim.deliver(1, hp.name, victim.treeId, o.payload, func(b []byte) { resps = append(resps, b) })
			})
			if cls != "" {
				return
			}
		}
		for _, b := range resps {
			_, _, _ = stGuard(func() error { return hp.deliver(3, victim.name, hp.treeId, b, nil) })
		}
		return
	case 1: // the honest peer adds a change and broadcasts a head update
		hp.take()
		if e := hp.addContent(w, fmt.Sprintf("peer-%d", step), int64(1000+step)); e != nil {
			return e, "", ""
		}
		for _, o := range hp.take() {
			if o.kind != 0 {
				continue
			}
			err, cls, msg = stGuard(func() error { return victim.deliver(0, hp.name, victim.treeId, o.payload, nil) })
			if cls != "" {
				return
			}
		}
		return
	case 2:
		return stGuard(func() error { return victim.addContent(w, fmt.Sprintf("local-%d", step), int64(2000+step)) })
	case 3:
		return stGuard(func() error { return victim.tree.Close() })
	}
	return nil, "", ""
}

func stShort(s string) string {
	if len(s) > 160 {
		return s[:160]
	}
	return s
}

// stRun: S[0] root id, S[1+j] object id announced with hostile message j, B[j] its payload,
// I[0..4] scenario, I[5+2j] handler kind, I[6+2j] honest follow-up after message j.
func stRun(r *Req, x map[string]string) error {
	if len(r.S) < 1 || len(r.I) < 5 {
		return fmt.Errorf("bad synctree request")
	}
	w := stGetWorld()
	sc := stBuild(r.S[0], r.I)
	reps, err := w.newReplicas(r.S[0])
	if err != nil {
		// the same root id was used before in these databases (replay of a duplicate): start fresh files
		w.openDBs()
		reps, err = w.newReplicas(r.S[0])
		stMust(err)
	}
	victim, hp := reps[0], reps[1]
	victim.seed(w, sc.victim)
	hp.seed(w, sc.peer)

	var m0, m1 runtime.MemStats
	runtime.ReadMemStats(&m0)
	force := func(cls, msg string) {
		x["force_cls"] = cls
		x["force_err"] = stShort(msg)
	}
	var firstErr error
	step := 0
	nMsg := len(r.B)
	for j := 0; j < nMsg; j++ {
		kind, follow := 0, 0
		if 6+2*j < len(r.I) {
			kind, follow = int(r.I[5+2*j]), int(r.I[6+2*j])
		}
		objectId := r.S[0]
		if 1+j < len(r.S) {
			objectId = r.S[1+j]
		}
		herr, cls, msg := stGuard(func() error { return victim.deliver(kind, "hostilePeer", objectId, r.B[j], nil) })
		victim.take()
		if cls == "panic" {
			panic(fmt.Sprintf("hostile message %d (handler %d): %s", j, kind, msg))
		}
		if cls == "hang" {
			force("hang", fmt.Sprintf("hostile message %d (handler %d) did not return: %s", j, kind, msg))
			return herr
		}
		if j == 0 {
			firstErr = herr
		}
		if herr != nil {
			x[fmt.Sprintf("err%d", j)] = stShort(herr.Error())
		}
		step++
		ferr, cls, msg := stFollow(w, victim, hp, follow%3, step)
		if cls != "" {
			force(map[string]string{"panic": "panic", "hang": "hang"}[cls],
				fmt.Sprintf("%s after hostile message %d (handler %d, rejected with %v): %s", stFollowNames[follow%3], j, kind, herr, msg))
			return firstErr
		}
		if ferr != nil {
			x[fmt.Sprintf("follow%d", j)] = stShort(ferr.Error())
		}
	}
	for op := 0; op < 4; op++ {
		step++
		ferr, cls, msg := stFollow(w, victim, hp, op, step)
		if cls != "" {
			force(cls, fmt.Sprintf("final %s after the hostile stream: %s", stFollowNames[op], msg))
			return firstErr
		}
		if ferr != nil {
			x["final-"+stFollowNames[op]] = stShort(ferr.Error())
		}
	}
	_ = hp.tree.Close()
	runtime.ReadMemStats(&m1)
	alloc := m1.TotalAlloc - m0.TotalAlloc
	x["st_alloc"] = fmt.Sprint(alloc)
	if bound := 256*inputLen(r) + 8<<20; alloc > bound {
		force("alloc", fmt.Sprintf("hostile stream and follow-ups allocated %d bytes for %d input bytes (bound %d)", alloc, inputLen(r), bound))
	}
	return firstErr
}

// ------------------------------------------------------------------------------------- generator (parent process)

type stMsg struct {
	kind    int // wire content: 0 head update, 1 full sync request, 2 full sync response
	heads   []string
	path    []string
	changes []*treechangeproto.RawTreeChangeWithId
	probe   bool
	root    *treechangeproto.RawTreeChangeWithId
	// message-level damage
	noContent bool
	noValue   bool
	errorResp bool
	raw       []byte
	useRaw    bool
}

func (m *stMsg) marshal() []byte {
	if m.useRaw {
		return m.raw
	}
	tm := &treechangeproto.TreeSyncMessage{RootChange: m.root}
	switch {
	case m.noContent:
	case m.noValue:
		tm.Content = &treechangeproto.TreeSyncContentValue{}
	case m.errorResp:
		tm.Content = &treechangeproto.TreeSyncContentValue{Value: &treechangeproto.TreeSyncContentValue_ErrorResponse{ErrorResponse: &treechangeproto.TreeErrorResponse{Error: "x", ErrCode: 1}}}
	case m.kind == 0:
		tm = treechangeproto.WrapHeadUpdate(&treechangeproto.TreeHeadUpdate{Heads: m.heads, Changes: m.changes, SnapshotPath: m.path}, m.root)
	case m.kind == 1:
		tm = treechangeproto.WrapFullRequest(&treechangeproto.TreeFullSyncRequest{Heads: m.heads, Changes: m.changes, SnapshotPath: m.path, Probe: m.probe}, m.root)
	default:
		tm = treechangeproto.WrapFullResponse(&treechangeproto.TreeFullSyncResponse{Heads: m.heads, Changes: m.changes, SnapshotPath: m.path}, m.root)
	}
	b, err := tm.MarshalVT()
	if err != nil {
		panic(err)
	}
	return b
}

func stForeign(rng *vlib.Rand, n int) []string {
	out := make([]string, n)
	for i := range out {
		out[i] = fmt.Sprintf("foreign%x", rng.U64()&0xffffff)
	}
	return out
}

func stRepeatIds(n int, pfx string) []string {
	out := make([]string, n)
	for i := range out {
		out[i] = fmt.Sprintf("%s%07d", pfx, i)
	}
	return out
}

type stMutation struct {
	name string
	fn   func(rng *vlib.Rand, sc *stScenario, m *stMsg)
}

// structure-aware mutations of an honest message; sc gives access to real ids of the victim's tree
var stPathMuts = []stMutation{
	{"path-foreign", func(rng *vlib.Rand, sc *stScenario, m *stMsg) { m.path = stForeign(rng, 1+rng.Intn(3)) }},
	{"path-empty", func(rng *vlib.Rand, sc *stScenario, m *stMsg) { m.path = nil }},
	{"path-huge-foreign", func(rng *vlib.Rand, sc *stScenario, m *stMsg) {
		m.path = stRepeatIds(2000+rng.Intn(8000), "hugeforeign")
	}},
	{"path-huge-ending-in-root", func(rng *vlib.Rand, sc *stScenario, m *stMsg) {
		m.path = append(stRepeatIds(2000+rng.Intn(8000), "hugeprefix"), sc.root)
	}},
	{"path-reversed", func(rng *vlib.Rand, sc *stScenario, m *stMsg) {
		p := append([]string(nil), sc.victim.path()...)
		for i, j := 0, len(p)-1; i < j; i, j = i+1, j-1 {
			p[i], p[j] = p[j], p[i]
		}
		m.path = p
	}},
	{"path-duplicated", func(rng *vlib.Rand, sc *stScenario, m *stMsg) {
		p := sc.victim.path()
		m.path = append(append([]string(nil), p...), p...)
	}},
	{"path-without-root", func(rng *vlib.Rand, sc *stScenario, m *stMsg) {
		p := sc.victim.path()
		m.path = append(stForeign(rng, 1), p[:len(p)-1]...)
	}},
	{"path-non-snapshot-ids", func(rng *vlib.Rand, sc *stScenario, m *stMsg) { m.path = append([]string(nil), sc.victim.heads...) }},
	{"path-empty-strings", func(rng *vlib.Rand, sc *stScenario, m *stMsg) { m.path = make([]string, 1+rng.Intn(3)) }},
	{"path-foreign-then-root", func(rng *vlib.Rand, sc *stScenario, m *stMsg) { m.path = append(stForeign(rng, 2), sc.root) }},
}

var stHeadMuts = []stMutation{
	{"heads-unknown", func(rng *vlib.Rand, sc *stScenario, m *stMsg) { m.heads = stForeign(rng, 1+rng.Intn(2)) }},
	{"heads-empty", func(rng *vlib.Rand, sc *stScenario, m *stMsg) { m.heads = nil }},
	{"heads-own", func(rng *vlib.Rand, sc *stScenario, m *stMsg) { m.heads = append([]string(nil), sc.victim.heads...) }},
	{"heads-own-plus-unknown", func(rng *vlib.Rand, sc *stScenario, m *stMsg) {
		m.heads = append(append([]string(nil), sc.victim.heads...), stForeign(rng, 1)...)
		sort.Strings(m.heads)
	}},
	{"heads-duplicate", func(rng *vlib.Rand, sc *stScenario, m *stMsg) {
		h := sc.victim.heads[0]
		if len(m.heads) > 0 && rng.Bool() {
			h = m.heads[0]
		}
		m.heads = []string{h, h, h}
	}},
	{"heads-root", func(rng *vlib.Rand, sc *stScenario, m *stMsg) { m.heads = []string{sc.root} }},
	{"heads-old-change", func(rng *vlib.Rand, sc *stScenario, m *stMsg) {
		if len(sc.victim.all) > 0 {
			m.heads = []string{sc.victim.all[rng.Intn(len(sc.victim.all))].id}
		}
	}},
	{"heads-empty-string", func(rng *vlib.Rand, sc *stScenario, m *stMsg) { m.heads = []string{""} }},
	{"heads-huge", func(rng *vlib.Rand, sc *stScenario, m *stMsg) { m.heads = stRepeatIds(2000+rng.Intn(6000), "hugehead") }},
	{"heads-unsorted-own-reversed", func(rng *vlib.Rand, sc *stScenario, m *stMsg) {
		h := append([]string(nil), sc.victim.heads...)
		sort.Sort(sort.Reverse(sort.StringSlice(h)))
		m.heads = append(h, sc.root)
	}},
}

var stChangeMuts = []stMutation{
	{"changes-empty", func(rng *vlib.Rand, sc *stScenario, m *stMsg) { m.changes = nil }},
	{"changes-empty-element", func(rng *vlib.Rand, sc *stScenario, m *stMsg) {
		m.changes = append(m.changes, &treechangeproto.RawTreeChangeWithId{})
	}},
	{"changes-empty-raw", func(rng *vlib.Rand, sc *stScenario, m *stMsg) {
		id := fmt.Sprintf("%s-e%x", sc.root, rng.U64()&0xffff)
		m.changes = append(m.changes, &treechangeproto.RawTreeChangeWithId{Id: id})
		m.heads = []string{id}
	}},
	{"changes-garbage-raw", func(rng *vlib.Rand, sc *stScenario, m *stMsg) {
		id := fmt.Sprintf("%s-g%x", sc.root, rng.U64()&0xffff)
		m.changes = append([]*treechangeproto.RawTreeChangeWithId{{Id: id, RawChange: randBytes(rng, 1+rng.Intn(60))}}, m.changes...)
		m.heads = []string{id}
	}},
	{"changes-mutated-raw", func(rng *vlib.Rand, sc *stScenario, m *stMsg) {
		if len(m.changes) == 0 {
			c := stChange{id: sc.root + "-m1", prevs: sc.victim.heads, base: sc.victim.path()[0]}
			m.changes = append(m.changes, stRaw(c, stAclHead))
			m.heads = []string{c.id}
		}
		i := rng.Intn(len(m.changes))
		m.changes[i] = &treechangeproto.RawTreeChangeWithId{Id: m.changes[i].Id, RawChange: mutateBytes(rng, m.changes[i].RawChange)}
	}},
	{"changes-duplicated", func(rng *vlib.Rand, sc *stScenario, m *stMsg) {
		if len(m.changes) == 0 {
			c := stChange{id: sc.root + "-d1", prevs: sc.victim.heads, base: sc.victim.path()[0]}
			m.changes = append(m.changes, stRaw(c, stAclHead))
			m.heads = []string{c.id}
		}
		m.changes = append(m.changes, m.changes...)
	}},
	{"changes-dangling-parent", func(rng *vlib.Rand, sc *stScenario, m *stMsg) {
		c := stChange{id: sc.root + "-dang", prevs: stForeign(rng, 1+rng.Intn(2)), base: sc.victim.path()[0]}
		m.changes = append(m.changes, stRaw(c, stAclHead))
		m.heads = []string{c.id}
	}},
	{"changes-self-parent", func(rng *vlib.Rand, sc *stScenario, m *stMsg) {
		c := stChange{id: sc.root + "-self", prevs: []string{sc.root + "-self"}, base: sc.victim.path()[0]}
		m.changes = append(m.changes, stRaw(c, stAclHead))
		m.heads = []string{c.id}
	}},
	{"changes-cycle", func(rng *vlib.Rand, sc *stScenario, m *stMsg) {
		a := stChange{id: sc.root + "-cyA", prevs: []string{sc.root + "-cyB"}, base: sc.victim.path()[0]}
		b := stChange{id: sc.root + "-cyB", prevs: []string{sc.root + "-cyA", sc.victim.heads[0]}, base: sc.victim.path()[0]}
		m.changes = append(m.changes, stRaw(a, stAclHead), stRaw(b, stAclHead))
		m.heads = []string{a.id}
	}},
	{"changes-claim-root-id", func(rng *vlib.Rand, sc *stScenario, m *stMsg) {
		c := stChange{id: sc.root, prevs: sc.victim.heads, base: sc.victim.path()[0]}
		m.changes = append(m.changes, stRaw(c, stAclHead))
		m.heads = []string{c.id}
	}},
	{"changes-claim-existing-id", func(rng *vlib.Rand, sc *stScenario, m *stMsg) {
		if len(sc.victim.all) == 0 {
			return
		}
		old := sc.victim.all[rng.Intn(len(sc.victim.all))]
		c := stChange{id: old.id, prevs: sc.victim.heads, base: sc.victim.path()[0], snap: !old.snap}
		m.changes = append(m.changes, stRaw(c, stAclHead))
		m.heads = []string{c.id}
	}},
	{"changes-foreign-snapshot-base", func(rng *vlib.Rand, sc *stScenario, m *stMsg) {
		c := stChange{id: sc.root + "-fsb", prevs: sc.victim.heads, base: stForeign(rng, 1)[0]}
		m.changes = append(m.changes, stRaw(c, stAclHead))
		m.heads = []string{c.id}
	}},
	{"changes-bogus-snapshot", func(rng *vlib.Rand, sc *stScenario, m *stMsg) {
		c := stChange{id: sc.root + "-bsn", prevs: append(append([]string(nil), sc.victim.heads...), sc.root), base: "", snap: true}
		m.changes = append(m.changes, stRaw(c, stAclHead))
		m.heads = []string{c.id}
	}},
	{"changes-many-tiny", func(rng *vlib.Rand, sc *stScenario, m *stMsg) {
		n := 200 + rng.Intn(600)
		prev := sc.victim.heads
		for i := 0; i < n; i++ {
			c := stChange{id: fmt.Sprintf("%s-t%d", sc.root, i), prevs: prev, base: sc.victim.path()[0]}
			m.changes = append(m.changes, stRaw(c, stAclHead))
			prev = []string{c.id}
		}
		m.heads = prev
	}},
	{"changes-dup-parent-child-first", func(rng *vlib.Rand, sc *stScenario, m *stMsg) {
		// a change citing the same parent twice (three times), delivered BEFORE that parent
		base := sc.victim.path()[0]
		p := stChange{id: sc.root + "-dpP", prevs: sc.victim.heads, base: base}
		prevs := []string{p.id, p.id}
		if rng.Chance(1, 3) {
			prevs = append(prevs, p.id)
		}
		c := stChange{id: sc.root + "-dpC", prevs: prevs, base: base}
		m.changes = append(m.changes, stRaw(c, stAclHead), stRaw(p, stAclHead))
		m.heads = []string{c.id}
	}},
	{"changes-reversed-order", func(rng *vlib.Rand, sc *stScenario, m *stMsg) {
		if len(m.changes) < 2 {
			base := sc.victim.path()[0]
			prev := sc.victim.heads
			for i := 0; i < 3; i++ {
				c := stChange{id: fmt.Sprintf("%s-rv%d", sc.root, i), prevs: prev, base: base}
				if i == 2 {
					c.prevs = append(c.prevs, c.prevs...)
				}
				m.changes = append(m.changes, stRaw(c, stAclHead))
				prev = []string{c.id}
			}
			m.heads = prev
		}
		for i, j := 0, len(m.changes)-1; i < j; i, j = i+1, j-1 {
			m.changes[i], m.changes[j] = m.changes[j], m.changes[i]
		}
	}},
	{"changes-heads-not-in-changes", func(rng *vlib.Rand, sc *stScenario, m *stMsg) {
		c := stChange{id: sc.root + "-hn", prevs: sc.victim.heads, base: sc.victim.path()[0]}
		m.changes = append(m.changes, stRaw(c, stAclHead))
		m.heads = stForeign(rng, 1)
	}},
}

var stMsgMuts = []stMutation{
	{"no-content", func(rng *vlib.Rand, sc *stScenario, m *stMsg) { m.noContent = true }},
	{"no-oneof-value", func(rng *vlib.Rand, sc *stScenario, m *stMsg) { m.noValue = true }},
	{"error-response-variant", func(rng *vlib.Rand, sc *stScenario, m *stMsg) { m.errorResp = true }},
	{"other-variant", func(rng *vlib.Rand, sc *stScenario, m *stMsg) { m.kind = (m.kind + 1 + rng.Intn(2)) % 3 }},
	{"probe-flag", func(rng *vlib.Rand, sc *stScenario, m *stMsg) { m.probe = !m.probe }},
	{"root-garbage", func(rng *vlib.Rand, sc *stScenario, m *stMsg) {
		m.root = &treechangeproto.RawTreeChangeWithId{Id: sc.root, RawChange: randBytes(rng, rng.Intn(40))}
	}},
	{"root-foreign", func(rng *vlib.Rand, sc *stScenario, m *stMsg) {
		m.root = stCreator.CreateRoot(stForeign(rng, 1)[0], stAclHead)
	}},
	{"root-empty", func(rng *vlib.Rand, sc *stScenario, m *stMsg) { m.root = &treechangeproto.RawTreeChangeWithId{} }},
	{"bytes-empty", func(rng *vlib.Rand, sc *stScenario, m *stMsg) { m.useRaw, m.raw = true, nil }},
	{"bytes-random", func(rng *vlib.Rand, sc *stScenario, m *stMsg) { m.useRaw, m.raw = true, randBytes(rng, 1+rng.Intn(80)) }},
	{"bytes-mutated", func(rng *vlib.Rand, sc *stScenario, m *stMsg) {
		b := m.marshal()
		m.useRaw, m.raw = true, mutateBytes(rng, b)
	}},
	{"bytes-truncated", func(rng *vlib.Rand, sc *stScenario, m *stMsg) {
		b := m.marshal()
		if len(b) > 0 {
			b = b[:rng.Intn(len(b))]
		}
		m.useRaw, m.raw = true, b
	}},
	{"bytes-nested-groups", func(rng *vlib.Rand, sc *stScenario, m *stMsg) {
		m.useRaw, m.raw = true, []byte(strings.Repeat("\x0b", 1+rng.Intn(400)))
	}},
}

var stMutGroups = [][]stMutation{stPathMuts, stHeadMuts, stChangeMuts, stMsgMuts}

// honest template of a message of the given wire content, as the honest peer would send it to the victim
func stTemplate(sc *stScenario, content int, aclHead string) *stMsg {
	m := &stMsg{kind: content}
	m.heads = append([]string(nil), sc.peer.heads...)
	m.path = append([]string(nil), sc.peer.path()...)
	if content != 1 {
		for _, c := range sc.extras {
			m.changes = append(m.changes, stRaw(c, aclHead))
		}
	}
	return m
}

func stRandScenario(rng *vlib.Rand) []int64 {
	n := rng.Intn(7)
	shared := 0
	if n > 0 {
		shared = rng.Intn(n + 1)
	}
	extra := rng.Intn(3)
	var snapMask, forkMask int64
	for i := 1; i <= n; i++ {
		if rng.Chance(1, 3) {
			snapMask |= 1 << uint(i)
		}
		if i >= 2 && rng.Chance(1, 4) {
			forkMask |= 1 << uint(i)
		}
	}
	return []int64{int64(n), int64(shared), int64(extra), snapMask, forkMask}
}

// handlers a wire content can be delivered to: matching handler mostly, sometimes a wrong one
func stHandlerFor(rng *vlib.Rand, content int) int {
	if rng.Chance(1, 8) {
		return rng.Intn(4)
	}
	switch content {
	case 0:
		return 0
	case 1:
		return 1
	}
	return 2 + rng.Intn(2)
}

func genSyncTree(h *harness, rng *vlib.Rand, n int) {
	type pick struct{ g, i int }
	var catalogue []pick
	for g, grp := range stMutGroups {
		for i := range grp {
			catalogue = append(catalogue, pick{g, i})
		}
	}
	hugeLeft := 6 + n/60 // bound the number of large inputs
	for ci := 0; ci < n; ci++ {
		root := fmt.Sprintf("t%x", rng.U64())
		I := stRandScenario(rng)
		sc := stBuild(root, I)
		nMsg := 1
		if ci >= 3*len(catalogue) && rng.Chance(1, 3) {
			nMsg = 2 + rng.Intn(2)
		}
		req := &Req{Kind: "synctree", S: []string{root}}
		var gens []string
		for j := 0; j < nMsg; j++ {
			content := rng.Intn(3)
			var names []string
			m := stTemplate(sc, content, stAclHead)
			switch {
			case ci < 3*len(catalogue):
				// systematic pass: every catalogued mutation once against each wire content
				content = ci / len(catalogue)
				m = stTemplate(sc, content, stAclHead)
				p := catalogue[ci%len(catalogue)]
				mu := stMutGroups[p.g][p.i]
				mu.fn(rng, sc, m)
				names = append(names, mu.name)
			case rng.Chance(1, 12):
				names = append(names, "honest")
			default:
				for k := 1 + rng.Intn(3); k > 0; k-- {
					p := catalogue[rng.Intn(len(catalogue))]
					mu := stMutGroups[p.g][p.i]
					mu.fn(rng, sc, m)
					names = append(names, mu.name)
				}
			}
			b := m.marshal()
			if len(b) > 20000 {
				if hugeLeft <= 0 {
					m = stTemplate(sc, content, stAclHead)
					m.path = stForeign(rng, 2)
					names = []string{"path-foreign"}
					b = m.marshal()
				} else {
					hugeLeft--
				}
			}
			objectId := root
			if rng.Chance(1, 10) {
				objectId = []string{"", "otherTree", root + "-v1"}[rng.Intn(3)]
				names = append(names, "other-object-id")
			}
			req.B = append(req.B, b)
			req.S = append(req.S, objectId)
			if j == 0 {
				req.I = append(req.I, I...)
			}
			req.I = append(req.I, int64(stHandlerFor(rng, m.kind)), int64(rng.Intn(3)))
			g := []string{"head-update", "request", "response"}[content] + ":" + names[0]
			if len(names) > 1 {
				g += "+more"
			}
			gens = append(gens, g)
		}
		req.Gen = gens[0]
		req.StatGen = strings.SplitN(strings.SplitN(gens[0], "+", 2)[0], "-", 2)[0]
		if len(gens) > 1 {
			req.Gen = "stream/" + gens[0]
			req.StatGen = "stream/" + req.StatGen
		}
		h.emit(req)
	}
}

func init() {
	register(&entry{name: "synctree", code: 80, child: true, allocC: 512, allocK: 96 << 20, run: stRun})
	addGenerator("synctree", 260, genSyncTree)
}
