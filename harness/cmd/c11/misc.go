package main

// Harness-only entry points (decoding is generated / third-party code; spec_ok only):
// snappy rpc encoding, key-value entries, tree change Unmarshall, ACL record Unmarshall(WithId), tree sync messages.

import (
	"bytes"
	"fmt"

	"github.com/anyproto/any-sync/commonspace/object/acl/list"
	"github.com/anyproto/any-sync/commonspace/object/acl/recordverifier"
	"github.com/anyproto/any-sync/commonspace/object/accountdata"
	"github.com/anyproto/any-sync/commonspace/object/keyvalue/keyvaluestorage/innerstorage"
	"github.com/anyproto/any-sync/commonspace/object/tree/objecttree"
	"github.com/anyproto/any-sync/commonspace/object/tree/treechangeproto"
	"github.com/anyproto/any-sync/commonspace/spacesyncproto"
	"github.com/anyproto/any-sync/consensus/consensusproto"
	"github.com/anyproto/any-sync/net/rpc/encoding"
	"github.com/anyproto/any-sync/util/crypto"

	"verifharness/vlib"
)

var (
	miscKeys     *accountdata.AccountKeys
	miscRoot     *treechangeproto.RawTreeChangeWithId
	miscChange   *treechangeproto.RawTreeChangeWithId
	miscBuilder  objecttree.ChangeBuilder
	miscAclRoot  *consensusproto.RawRecordWithId
	miscAclRec   *consensusproto.RawRecordWithId
	miscAclBuild list.AclRecordBuilder
	miscKV       *spacesyncproto.StoreKeyValue
)

func initMisc() {
	r := vlib.NewRand(9911)
	miscKeys = accountdata.New(newDetKey(r), newDetKey(r))
	// tree: a real signed root and a real signed change
	cb := objecttree.NewChangeBuilder(crypto.NewKeyStorage(), nil)
	_, root, err := cb.BuildRoot(objecttree.InitialContent{AclHeadId: "aclHead", PrivKey: miscKeys.SignKey, SpaceId: "space", Seed: []byte("seed"), ChangeType: "t", Timestamp: 1})
	if err != nil {
		panic(err)
	}
	miscRoot = root
	miscBuilder = objecttree.NewChangeBuilder(crypto.NewKeyStorage(), root)
	_, ch, err := miscBuilder.Build(objecttree.BuilderContent{TreeHeadIds: []string{root.Id}, AclHeadId: "aclHead", SnapshotBaseId: root.Id, PrivKey: miscKeys.SignKey, Content: []byte("data"), Timestamp: 2, DataType: "d", Unencrypted: true})
	if err != nil {
		panic(err)
	}
	miscChange = ch
	// acl: real root and one real record
	acl, err := list.NewInMemoryDerivedAcl("space", miscKeys)
	if err != nil {
		panic(err)
	}
	miscAclRoot = acl.Root()
	inv, err := acl.RecordBuilder().BuildInvite()
	if err != nil {
		panic(err)
	}
	miscAclRec = wrapRaw(inv.InviteRec)
	miscAclBuild = list.NewAclRecordBuilder(acl.Id(), crypto.NewKeyStorage(), miscKeys, recordverifier.NewValidateFull())
	// key-value entry
	inner := &spacesyncproto.StoreKeyInner{Key: "k"}
	inner.Peer, _ = miscKeys.PeerKey.GetPublic().Marshall()
	inner.Identity, _ = miscKeys.SignKey.GetPublic().Marshall()
	inner.Value = []byte("v")
	inner.TimestampMicro = 1700000000000000
	inner.AclHeadId = "acl"
	ib, _ := inner.MarshalVT()
	ps, _ := miscKeys.PeerKey.Sign(ib)
	is, _ := miscKeys.SignKey.Sign(ib)
	miscKV = &spacesyncproto.StoreKeyValue{KeyPeerId: "k-" + miscKeys.PeerId, Value: ib, PeerSignature: ps, IdentitySignature: is}
}

func wrapRaw(raw *consensusproto.RawRecord) *consensusproto.RawRecordWithId {
	payload, err := raw.MarshalVT()
	if err != nil {
		panic(err)
	}
	return &consensusproto.RawRecordWithId{Payload: payload, Id: "bafy-fake-id"}
}

// snappy block with a declared decoded length and an arbitrary body
func snappyDeclared(n uint64, body []byte) []byte {
	return append(putVarint(nil, n), body...)
}

func init() {
	initMisc()
	// B[0] = compressed message
	register(&entry{name: "snappy", code: 60, child: true, allocC: 256, allocK: 4 << 20, findingTag: "F19-snappy-alloc",
		run: func(r *Req, x map[string]string) error {
			return encoding.VerifSnappyUnmarshal(r.B[0], &spacesyncproto.HeadSyncRequest{})
		}})
	// B[0]=value, B[1]=peer sig, B[2]=identity sig, S[0]=keyPeerId, F[0]=nil proto
	register(&entry{name: "kv-from-proto", code: 61,
		run: func(r *Req, x map[string]string) error {
			p := &spacesyncproto.StoreKeyValue{KeyPeerId: r.S[0], Value: r.B[0], PeerSignature: r.B[1], IdentitySignature: r.B[2]}
			_, err := innerstorage.KeyValueFromProto(p, true)
			_, err2 := innerstorage.KeyValueFromProto(p, false)
			if err == nil {
				return err2
			}
			return err
		}})
	// B[0] = raw change bytes, S[0] = id, F[0] = nil wrapper, F[1] = nil RawChange
	register(&entry{name: "change-unmarshall", code: 62,
		run: func(r *Req, x map[string]string) error {
			var raw *treechangeproto.RawTreeChangeWithId
			if !r.F[0] {
				raw = &treechangeproto.RawTreeChangeWithId{Id: r.S[0]}
				if !r.F[1] {
					raw.RawChange = r.B[0]
				}
			}
			_, err := miscBuilder.Unmarshall(raw, true)
			_, err2 := miscBuilder.Unmarshall(raw, false)
			_, _ = miscBuilder.UnmarshallReduced(raw)
			if raw != nil {
				_, _ = objecttree.UnmarshallRoot(raw)
			}
			if err == nil {
				return err2
			}
			return err
		}})
	// B[0] = RawRecordWithId.Payload, S[0] = id
	register(&entry{name: "acl-unmarshall", code: 63,
		run: func(r *Req, x map[string]string) error {
			_, err := miscAclBuild.UnmarshallWithId(&consensusproto.RawRecordWithId{Payload: r.B[0], Id: r.S[0]})
			raw := &consensusproto.RawRecord{}
			if raw.UnmarshalVT(r.B[0]) == nil {
				_, _ = miscAclBuild.Unmarshall(raw)
			}
			return err
		}})
	// B[0] = TreeSyncMessage bytes: decode and walk the optional parts the sync handler reads
	register(&entry{name: "treesync-msg", code: 64,
		run: func(r *Req, x map[string]string) error {
			m := &treechangeproto.TreeSyncMessage{}
			if err := m.UnmarshalVT(r.B[0]); err != nil {
				return err
			}
			hu := m.GetContent().GetHeadUpdate()
			_ = hu.GetHeads()
			for _, c := range hu.GetChanges() {
				_, _ = miscBuilder.Unmarshall(c, true)
			}
			fr := m.GetContent().GetFullSyncRequest()
			for _, c := range fr.GetChanges() {
				_, _ = miscBuilder.Unmarshall(c, true)
			}
			if m.RootChange != nil {
				_, _ = objecttree.UnmarshallRoot(m.RootChange)
			}
			return nil
		}})
	addGenerator("misc", 800, genMisc)
}

func genMisc(h *harness, rng *vlib.Rand, n int) {
	snappyBig := 0
	valid, err := encoding.VerifSnappyMarshal(&spacesyncproto.HeadSyncRequest{SpaceId: "space", Ranges: []*spacesyncproto.HeadSyncRange{{From: 1, To: 2}}})
	if err != nil {
		panic(err)
	}
	hu := &treechangeproto.TreeSyncMessage{RootChange: miscRoot, Content: &treechangeproto.TreeSyncContentValue{Value: &treechangeproto.TreeSyncContentValue_HeadUpdate{
		HeadUpdate: &treechangeproto.TreeHeadUpdate{Heads: []string{miscChange.Id}, Changes: []*treechangeproto.RawTreeChangeWithId{miscChange}, SnapshotPath: []string{miscRoot.Id}}}}}
	huBytes, _ := hu.MarshalVT()
	for i := 0; i < n; i++ {
		switch i % 5 {
		case 0: // snappy
			b, gen := valid, "valid"
			switch rng.Intn(7) {
			case 0:
			case 1:
				b, gen = mutateBytes(rng, valid), "mutated"
			case 2:
				b, gen = randBytes(rng, rng.Intn(30)), "random"
			case 3:
				b, gen = nil, "empty"
			case 4: // declared length far beyond the body (F19)
				if snappyBig < 3 {
					snappyBig++
					sizes := []uint64{1 << 20, 64 << 20, 256 << 20}
					sz := sizes[snappyBig-1]
					b, gen = snappyDeclared(sz, []byte{0x00, 'x'}), fmt.Sprintf("declared-%dMiB", sz>>20)
				} else {
					b, gen = snappyDeclared(uint64(rng.Intn(4096)), randBytes(rng, rng.Intn(20))), "declared-small"
				}
			case 5:
				b, gen = snappyDeclared(1<<32+uint64(rng.Intn(100)), []byte{0}), "declared-over-4GiB" // rejected by DecodedLen
			case 6:
				b, gen = valid[:rng.Intn(len(valid))], "truncated"
			}
			h.emit(&Req{Kind: "snappy", Gen: gen, B: [][]byte{b}})
		case 1: // key-value
			v, ps, is, id, gen := miscKV.Value, miscKV.PeerSignature, miscKV.IdentitySignature, miscKV.KeyPeerId, "valid"
			switch rng.Intn(7) {
			case 0:
			case 1:
				v, gen = mutateBytes(rng, v), "mutated-value"
			case 2:
				ps, gen = randBytes(rng, rng.Intn(70)), "bad-peer-sig"
			case 3:
				is, gen = nil, "nil-identity-sig"
			case 4:
				v, gen = nil, "nil-value"
			case 5:
				v, gen = randBytes(rng, rng.Intn(60)), "random-value"
			case 6:
				id, gen = string(randBytes(rng, rng.Intn(20))), "random-keypeerid"
			}
			h.emit(&Req{Kind: "kv-from-proto", Gen: gen, B: [][]byte{v, ps, is}, S: []string{id}})
		case 2: // tree change
			src := miscChange
			if rng.Chance(1, 3) {
				src = miscRoot
			}
			b, id, gen := src.RawChange, src.Id, "valid"
			f := []bool{false, false}
			switch rng.Intn(8) {
			case 0:
			case 1:
				b, gen = mutateBytes(rng, b), "mutated"
			case 2:
				id, gen = miscRoot.Id, "claims-root-id" // decoded as a RootChange
			case 3:
				id, gen = string(randBytes(rng, rng.Intn(20))), "random-id"
			case 4:
				f[0], gen = true, "nil-wrapper"
			case 5:
				f[1], gen = true, "nil-raw-change"
			case 6:
				b, gen = randBytes(rng, rng.Intn(60)), "random"
			case 7: // valid envelope, hostile payload
				raw := &treechangeproto.RawTreeChange{Payload: mutateBytes(rng, []byte("\x0a\x03abc")), Signature: randBytes(rng, rng.Intn(70))}
				b, _ = raw.MarshalVT()
				gen = "hostile-payload"
			}
			h.emit(&Req{Kind: "change-unmarshall", Gen: gen, B: [][]byte{b}, S: []string{id}, F: f})
		case 3: // acl record
			src := miscAclRec
			if rng.Chance(1, 3) {
				src = miscAclRoot
			}
			b, id, gen := src.Payload, src.Id, "valid"
			switch rng.Intn(5) {
			case 0:
			case 1:
				b, gen = mutateBytes(rng, b), "mutated"
			case 2:
				id, gen = miscAclRoot.Id, "claims-root-id"
			case 3:
				b, gen = randBytes(rng, rng.Intn(60)), "random"
			case 4:
				rec := &consensusproto.Record{PrevId: "p", Identity: randBytes(rng, rng.Intn(40)), Data: mutateBytes(rng, validAclData(rng)), Timestamp: 1}
				pl, _ := rec.MarshalVT()
				raw := &consensusproto.RawRecord{Payload: pl, Signature: randBytes(rng, 64)}
				b, _ = raw.MarshalVT()
				gen = "hostile-record"
			}
			h.emit(&Req{Kind: "acl-unmarshall", Gen: gen, B: [][]byte{b}, S: []string{id}})
		case 4:
			b, gen := huBytes, "valid"
			switch rng.Intn(4) {
			case 0:
			case 1:
				b, gen = mutateBytes(rng, b), "mutated"
			case 2:
				b, gen = randBytes(rng, rng.Intn(60)), "random"
			case 3:
				b, gen = bytes.Repeat([]byte{0x0b}, 1+rng.Intn(300)), "nested-groups" // start-group tags
			}
			if len(b) > 900 {
				b = b[:900]
			}
			h.emit(&Req{Kind: "treesync-msg", Gen: gen, B: [][]byte{b}})
		}
	}
}
