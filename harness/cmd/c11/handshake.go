package main

// Entry point (3): handshake frames — handshake.IncomingHandshake / OutgoingHandshake / IncomingProtoHandshake /
// OutgoingProtoHandshake
// reading from a connection that delivers an attacker-chosen byte stream and then EOF. The callee runs the
// handshake in its own goroutine, so a panic there is fatal: these cases run in the child process.

import (
	"context"
	"encoding/binary"
	"errors"
	"fmt"
	"io"
	"net"
	"strings"
	"time"

	"github.com/anyproto/any-sync/net/secureservice/handshake"
	"github.com/anyproto/any-sync/net/secureservice/handshake/handshakeproto"

	"verifharness/vlib"
)

type memConn struct {
	in      []byte
	pos     int
	writeOK bool
	closed  bool
}

func (c *memConn) Read(p []byte) (int, error) {
	if c.pos >= len(c.in) {
		return 0, io.EOF
	}
	n := copy(p, c.in[c.pos:])
	c.pos += n
	return n, nil
}
func (c *memConn) Write(p []byte) (int, error) {
	if !c.writeOK {
		return 0, errors.New("write failed")
	}
	return len(p), nil
}
func (c *memConn) Close() error                       { c.closed = true; return nil }
func (c *memConn) LocalAddr() net.Addr                { return &net.TCPAddr{} }
func (c *memConn) RemoteAddr() net.Addr               { return &net.TCPAddr{} }
func (c *memConn) SetDeadline(t time.Time) error      { return nil }
func (c *memConn) SetReadDeadline(t time.Time) error  { return nil }
func (c *memConn) SetWriteDeadline(t time.Time) error { return nil }

// a credential checker that, like the real ones, reads the fields of the remote credentials
type testChecker struct{}

func (testChecker) MakeCredentials(remotePeerId string) *handshakeproto.Credentials {
	return &handshakeproto.Credentials{Type: handshakeproto.CredentialsType_SkipVerify, Payload: []byte("local"), Version: 5}
}
func (testChecker) CheckCredential(remotePeerId string, cred *handshakeproto.Credentials) (handshake.Result, error) {
	if cred.Type == handshakeproto.CredentialsType_SkipVerify && string(cred.Payload) == "good" {
		return handshake.Result{ProtoVersion: cred.Version}, nil
	}
	return handshake.Result{}, handshake.ErrInvalidCredentials
}

func frame(tp byte, body []byte) []byte {
	b := make([]byte, 5+len(body))
	b[0] = tp
	binary.LittleEndian.PutUint32(b[1:5], uint32(len(body)))
	copy(b[5:], body)
	return b
}

// frameRows parses the stream the way a frame reader would and asks the GENERATED decoders (black boxes of the
// model) about every complete frame: (type, body, decoder accepts, flag). Also returns cred_ok for the first
// credentials frame.
func frameRows(stream []byte) (rows []string, credOK bool) {
	credSeen := false
	for pos := 0; pos+5 <= len(stream) && len(rows) < 4; {
		tp := stream[pos]
		size := int(binary.LittleEndian.Uint32(stream[pos+1 : pos+5]))
		if size > 200*1024 || pos+5+size > len(stream) {
			break
		}
		body := stream[pos+5 : pos+5+size]
		vt, flag := false, false
		switch tp {
		case 1:
			var c handshakeproto.Credentials
			vt = c.UnmarshalVT(body) == nil
			if vt && !credSeen {
				credSeen = true
				_, err := testChecker{}.CheckCredential("", &c)
				credOK = err == nil
			}
		case 2:
			var a handshakeproto.Ack
			vt = a.UnmarshalVT(body) == nil
			flag = vt && a.Error == handshakeproto.Error_Null
		case 3:
			var p handshakeproto.Proto
			vt = p.UnmarshalVT(body) == nil
			flag = vt && p.Proto == handshakeproto.ProtoType_DRPC
		}
		rows = append(rows, fmt.Sprintf("(%d, %s, %s, %s)", tp, rleTerm(body), vlib.Bool(vt), vlib.Bool(flag)))
		pos += 5 + size
	}
	return
}

func init() {
	// I[0] = which (0 incoming cred, 1 outgoing cred, 2 incoming proto, 3 outgoing proto); B[0] = stream; F[0] = writes succeed
	register(&entry{name: "handshake", code: 10, child: true, modelled: true, allocK: 8 << 20,
		run: func(r *Req, x map[string]string) error {
			c := &memConn{in: r.B[0], writeOK: r.F[0]}
			var err error
			switch r.I[0] {
			case 0:
				_, err = handshake.IncomingHandshake(context.Background(), c, "peer", testChecker{})
			case 1:
				_, err = handshake.OutgoingHandshake(context.Background(), c, "peer", testChecker{})
			case 2:
				_, err = handshake.IncomingProtoHandshake(context.Background(), c, handshake.ProtoChecker{
					AllowedProtoTypes:  []handshakeproto.ProtoType{handshakeproto.ProtoType_DRPC},
					SupportedEncodings: []handshakeproto.Encoding{handshakeproto.Encoding_Snappy, handshakeproto.Encoding_None},
				})
			default:
				_, err = handshake.OutgoingProtoHandshake(context.Background(), c, &handshakeproto.Proto{
					Proto:     handshakeproto.ProtoType_DRPC,
					Encodings: []handshakeproto.Encoding{handshakeproto.Encoding_Snappy, handshakeproto.Encoding_None},
				})
			}
			return err
		},
		term: func(r *Req, o *Obs) string {
			rows, credOK := frameRows(r.B[0])
			return vlib.App("CHandshake", vlib.N(uint64(r.I[0])), rleTerm(r.B[0]), vlib.List(rows),
				vlib.Bool(credOK), vlib.Bool(r.F[0]), clsTerm(o.Cls))
		}})
	addGenerator("handshake", 700, genHandshake)
}

func genHandshake(h *harness, rng *vlib.Rand, n int) {
	big := 0
	for i := 0; i < n; i++ {
		which := int64(i % 4)
		payload := "good"
		if rng.Chance(1, 5) {
			payload = "bad"
		}
		cred, _ := (&handshakeproto.Credentials{Payload: []byte(payload), Version: 5, ClientVersion: "v"}).MarshalVT()
		ackErr := handshakeproto.Error_Null
		if rng.Chance(1, 5) {
			ackErr = handshakeproto.Error(1 + rng.Intn(7))
		}
		ack, _ := (&handshakeproto.Ack{Error: ackErr}).MarshalVT()
		encs := []handshakeproto.Encoding{}
		if rng.Bool() {
			encs = append(encs, handshakeproto.Encoding(rng.Intn(3)))
		}
		proto, _ := (&handshakeproto.Proto{Proto: handshakeproto.ProtoType(rng.Intn(5) / 4), Encodings: encs}).MarshalVT()
		var stream []byte
		switch which {
		case 0, 1:
			stream = append(frame(1, cred), frame(2, ack)...)
		case 2:
			stream = frame(3, proto)
		default: // the answer to our proto: a proto, or an ack from an old peer
			if rng.Chance(1, 3) {
				stream = frame(2, ack)
			} else {
				stream = frame(3, proto)
			}
		}
		gen := "valid"
		writeOK := !rng.Chance(1, 12)
		switch rng.Intn(14) {
		case 0:
		case 1:
			stream, gen = stream[:rng.Intn(len(stream)+1)], "truncated"
		case 2: // type byte edits, including types outside 1..3
			stream = clone(stream)
			stream[0] = byte(rng.Intn(6))
			gen = "type-edit"
		case 3: // size-field edits around the limit and the maximum
			stream = clone(stream)
			sizes := []uint32{0, 1, uint32(len(cred)) - 1, uint32(len(cred)) + 1, 200*1024 - 1, 200 * 1024, 200*1024 + 1, 1 << 20, 1 << 31, 1<<32 - 1, uint32(rng.U64())}
			binary.LittleEndian.PutUint32(stream[1:5], sizes[rng.Intn(len(sizes))])
			gen = "size-edit"
		case 4:
			stream, gen = mutateBytes(rng, stream), "mutated"
		case 5:
			stream, gen = randBytes(rng, rng.Intn(40)), "random"
		case 6:
			stream, gen = nil, "empty"
		case 7: // second frame replaced
			stream = append(frame(1, cred), frame(byte(rng.Intn(5)), mutateBytes(rng, ack))...)
			gen = "second-frame"
		case 8: // frames in the wrong order / wrong kind for this role
			stream = append(frame(2, ack), frame(1, cred)...)
			gen = "swapped"
		case 9: // body is garbage for the generated decoder
			stream = append(frame(byte(1+rng.Intn(3)), randBytes(rng, rng.Intn(30))), frame(2, ack)...)
			gen = "garbage-body"
		case 10: // a full-size body at / just over the limit, actually present on the wire
			if big < 2 {
				big++
				sz := 200*1024 - 1 + rng.Intn(3)
				body := make([]byte, sz) // zero bytes: field number 0 => the generated decoder rejects
				tp := byte(1)
				if which >= 2 {
					tp = 3
				}
				stream = frame(tp, body)
				gen = "limit-body"
			} else {
				stream = append(frame(3, proto), frame(3, proto)...)
				gen = "double-proto"
			}
		case 11: // header only
			stream, gen = stream[:5], "header-only"
		case 12: // ack first (outgoing: peer declined)
			stream, gen = frame(2, ack), "ack-first"
		case 13: // empty bodies
			stream, gen = append(frame(byte(1+rng.Intn(3)), nil), frame(2, nil)...), "empty-bodies"
		}
		if strings.HasPrefix(gen, "valid") && !writeOK {
			gen = "valid-writefail"
		}
		h.emit(&Req{Kind: "handshake", Gen: gen, I: []int64{which}, B: [][]byte{stream}, F: []bool{writeOK}})
	}
}
