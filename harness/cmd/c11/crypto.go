package main

// Entry points (1): encrypted key / metadata blobs — crypto.DecryptX25519, Ed25519PrivKey.Decrypt (ACL read-key
// ciphertexts, invite keys, metadata), AESKey.Decrypt / UnmarshallAESKey.

import (
	"bytes"
	"crypto/ed25519"

	"github.com/anyproto/any-sync/util/crypto"

	"verifharness/vlib"
)

type detReader struct{ r *vlib.Rand }

func (d detReader) Read(p []byte) (int, error) {
	for i := range p {
		p[i] = byte(d.r.U64())
	}
	return len(p), nil
}

// fixed test identity (deterministic, independent of the run seed so that replays reproduce)
var (
	testPriv  crypto.PrivKey
	testPub   crypto.PubKey
	testPrivC *[32]byte
	testPubC  *[32]byte
	testAES   []byte
)

func init() {
	seed := bytes.Repeat([]byte{0x11}, ed25519.SeedSize)
	sk := ed25519.NewKeyFromSeed(seed)
	testPriv = crypto.NewEd25519PrivKey(sk)
	testPub = testPriv.GetPublic()
	pc := crypto.Ed25519PrivateKeyToCurve25519(sk)
	testPrivC = (*[32]byte)(pc)
	pubC, err := crypto.Ed25519PublicKeyToCurve25519(sk.Public().(ed25519.PublicKey))
	if err != nil {
		panic(err)
	}
	testPubC = (*[32]byte)(pubC)
	testAES = bytes.Repeat([]byte{0x22}, 32)

	// B[0] = ciphertext, F[0] = the sealed box is the untouched output of EncryptX25519 for the test key
	register(&entry{name: "x25519", code: 1, modelled: true,
		run: func(r *Req, x map[string]string) error {
			_, err := crypto.DecryptX25519(testPrivC, testPubC, r.B[0])
			return err
		},
		term: func(r *Req, o *Obs) string {
			return vlib.App("CX25519", bytesTerm(r.B[0]), vlib.Bool(r.F[0]), clsTerm(o.Cls))
		}})
	register(&entry{name: "ed25519-decrypt", code: 2, modelled: true,
		run: func(r *Req, x map[string]string) error {
			_, err := testPriv.Decrypt(r.B[0])
			return err
		},
		term: func(r *Req, o *Obs) string {
			return vlib.App("CEdDecrypt", bytesTerm(r.B[0]), vlib.Bool(r.F[0]), clsTerm(o.Cls))
		}})
	// B[0] = key bytes, B[1] = ciphertext, F[0] = pristine
	register(&entry{name: "aes", code: 3, modelled: true,
		run: func(r *Req, x map[string]string) error {
			k, err := crypto.UnmarshallAESKey(r.B[0])
			if err != nil {
				return err
			}
			_, err = k.Decrypt(r.B[1])
			return err
		},
		term: func(r *Req, o *Obs) string {
			return vlib.App("CAes", bytesTerm(r.B[0]), bytesTerm(r.B[1]), vlib.Bool(r.F[0]), clsTerm(o.Cls))
		}})
	// generated key decoders (harness-only): B[0] = bytes
	register(&entry{name: "key-proto", code: 4,
		run: func(r *Req, x map[string]string) error {
			_, e1 := crypto.UnmarshalEd25519PublicKeyProto(r.B[0])
			_, e2 := crypto.UnmarshalEd25519PrivateKeyProto(r.B[0])
			_, e3 := crypto.UnmarshallAESKeyProto(r.B[0])
			_, e4 := crypto.UnmarshalEd25519PublicKey(r.B[0])
			if e1 != nil && e2 != nil && e3 != nil && e4 != nil {
				return e1
			}
			return nil
		}})
	// string decoders (harness-only): S[0]
	register(&entry{name: "key-string", code: 5,
		run: func(r *Req, x map[string]string) error {
			_, e1 := crypto.DecodeAccountAddress(r.S[0])
			_, e2 := crypto.DecodePeerId(r.S[0])
			_, e3 := crypto.DecodeNetworkId(r.S[0])
			_, e4 := crypto.DecodeBytesFromString(r.S[0])
			_, e5 := crypto.UnmarshallAESKeyString(r.S[0])
			if e1 != nil && e2 != nil && e3 != nil && e4 != nil && e5 != nil {
				return e1
			}
			return nil
		}})

	addGenerator("crypto", 900, genCrypto)
}

func genCrypto(h *harness, rng *vlib.Rand, n int) {
	dr := detReader{rng}
	_ = dr
	for i := 0; i < n; i++ {
		plain := randBytes(rng, rng.Intn(48))
		switch i % 5 {
		case 0, 1: // sealed boxes
			kind := "x25519"
			if i%5 == 1 {
				kind = "ed25519-decrypt"
			}
			ct := crypto.EncryptX25519(testPubC, plain)
			gen, pristine := "valid", true
			switch rng.Intn(8) {
			case 0:
			case 1: // every short length matters: 0..40
				ct, gen, pristine = ct[:minInt(len(ct), rng.Intn(41))], "truncated-short", false
			case 2:
				ct, gen, pristine = ct[:rng.Intn(len(ct))], "truncated", false
			case 3:
				// (bit 255 of the ephemeral key is excluded: X25519 masks it and the nonce is derived from the first
				// 24 bytes of the key only, so that flip still decrypts — generator "epk-highbit" below)
				ct = clone(ct)
				if rng.Chance(1, 6) {
					ct[31] ^= 0x80
					gen, pristine = "epk-highbit", true
				} else {
					p := rng.Intn(len(ct)*8 - 1)
					if p >= 255 {
						p++
					}
					ct[p/8] ^= 1 << uint(p%8)
					gen, pristine = "bitflip", false
				}
			case 4:
				ct, gen, pristine = randBytes(rng, rng.Intn(80)), "random", false
			case 5:
				ct, gen, pristine = nil, "empty", false
			case 6:
				ct, gen, pristine = append(ct, randBytes(rng, 1+rng.Intn(8))...), "extended", false
			case 7:
				// (an empty plaintext seals to exactly 48 bytes: cutting at 48 then leaves the box untouched)
				cut := 32 + rng.Intn(17)
				ct, gen, pristine = ct[:cut], "header-only", cut == len(ct)
			}
			h.emit(&Req{Kind: kind, Gen: gen, B: [][]byte{ct}, F: []bool{pristine}})
		case 2: // AES
			k, _ := crypto.UnmarshallAESKey(testAES)
			ct, _ := k.Encrypt(plain)
			key := testAES
			gen, pristine := "valid", true
			switch rng.Intn(8) {
			case 0:
			case 1:
				// (an empty plaintext encrypts to exactly 28 bytes: cutting at 28 or 29 then leaves it untouched)
				cut := minInt(len(ct), rng.Intn(30))
				ct, gen, pristine = ct[:cut], "truncated-short", cut == len(ct)
			case 2:
				ct, gen, pristine = flipBit(rng, ct), "bitflip", false
			case 3:
				ct, gen, pristine = randBytes(rng, rng.Intn(60)), "random", false
			case 4:
				key, gen, pristine = randBytes(rng, rng.Intn(66)), "bad-key-len", false
			case 5:
				ct, gen, pristine = nil, "empty", false
			case 6:
				key, gen, pristine = bytes.Repeat([]byte{0x23}, 32), "wrong-key", false
			case 7:
				ct, gen, pristine = ct[:12], "nonce-only", false
			}
			h.emit(&Req{Kind: "aes", Gen: gen, B: [][]byte{key, ct}, F: []bool{pristine}})
		case 3:
			var b []byte
			gen := "random"
			switch rng.Intn(4) {
			case 0:
				b, _ = testPub.Marshall()
				gen = "valid-pub"
			case 1:
				b, _ = testPub.Marshall()
				b = mutateBytes(rng, b)
				gen = "mutated-pub"
			case 2:
				b, _ = testPriv.Marshall()
				b = mutateBytes(rng, b)
				gen = "mutated-priv"
			default:
				b = randBytes(rng, rng.Intn(80))
			}
			h.emit(&Req{Kind: "key-proto", Gen: gen, B: [][]byte{b}})
		case 4:
			var s string
			gen := "random"
			switch rng.Intn(4) {
			case 0:
				s, gen = testPub.Account(), "valid-account"
			case 1:
				s, gen = string(mutateBytes(rng, []byte(testPub.Account()))), "mutated-account"
			case 2:
				s, gen = string(mutateBytes(rng, []byte(testPub.PeerId()))), "mutated-peerid"
			default:
				s = string(randBytes(rng, rng.Intn(70)))
			}
			h.emit(&Req{Kind: "key-string", Gen: gen, S: []string{s}})
		}
	}
}
