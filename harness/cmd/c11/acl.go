package main

// Entry point (6): ACL records with hand-made contents applied by a real AclList (AddRawRecord), on a validating
// list (recordverifier.NewValidateFull) and on a non-validating client list (recordverifier.New(networkKey),
// records carry a genuine acceptor signature). The list's own identity is the owner, so account keys addressed to
// the owner are decrypted (Ed25519PrivKey.Decrypt) while applying.

import (
	"fmt"
	"strings"

	"github.com/anyproto/any-sync/commonspace/object/accountdata"
	"github.com/anyproto/any-sync/commonspace/object/acl/aclrecordproto"
	"github.com/anyproto/any-sync/commonspace/object/acl/list"
	"github.com/anyproto/any-sync/commonspace/object/acl/recordverifier"
	"github.com/anyproto/any-sync/consensus/consensusproto"
	"github.com/anyproto/any-sync/util/cidutil"
	"github.com/anyproto/any-sync/util/crypto"

	"verifharness/vlib"
)

type aclEnv struct {
	owner   *accountdata.AccountKeys
	network crypto.PrivKey
	meta    crypto.PrivKey
	root    *consensusproto.RawRecordWithId
}

var aenv *aclEnv

func newAclEnv() *aclEnv {
	r := vlib.NewRand(6061)
	e := &aclEnv{owner: accountdata.New(newDetKey(r), newDetKey(r)), network: newDetKey(r), meta: newDetKey(r)}
	b := list.NewAclRecordBuilder("", crypto.NewKeyStorage(), e.owner, recordverifier.NewValidateFull())
	rk, _ := crypto.UnmarshallAESKey([]byte("0123456789abcdef0123456789abcdef"))
	root, err := b.BuildRoot(list.RootContent{PrivKey: e.owner.SignKey, MasterKey: newDetKey(r), SpaceId: "space-c11",
		Change: list.ReadKeyChangePayload{MetadataKey: e.meta, ReadKey: rk}, Metadata: []byte("owner")})
	if err != nil {
		panic(err)
	}
	e.root = root
	return e
}

func (e *aclEnv) list(validate bool) list.AclList {
	st, err := list.NewInMemoryStorage(e.root.Id, []*consensusproto.RawRecordWithId{e.root})
	if err != nil {
		panic(err)
	}
	var v recordverifier.RecordVerifier = recordverifier.NewValidateFull()
	if !validate {
		v = recordverifier.New(e.network.GetPublic())
	}
	l, err := list.BuildAclListWithIdentity(e.owner, st, v)
	if err != nil {
		panic(err)
	}
	return l
}

// record signs AclData bytes as the owner and as the network acceptor
func (e *aclEnv) record(prev string, data []byte) *consensusproto.RawRecordWithId {
	id, _ := e.owner.SignKey.GetPublic().Marshall()
	rec := &consensusproto.Record{PrevId: prev, Identity: id, Data: data, Timestamp: 1700000000}
	payload, _ := rec.MarshalVT()
	sig, _ := e.owner.SignKey.Sign(payload)
	raw := &consensusproto.RawRecord{Payload: payload, Signature: sig}
	raw.AcceptorIdentity, _ = e.network.GetPublic().Marshall()
	raw.AcceptorSignature, _ = e.network.Sign(payload)
	b, _ := raw.MarshalVT()
	cid, _ := cidutil.NewCidFromBytes(b)
	return &consensusproto.RawRecordWithId{Payload: b, Id: cid}
}

// content specs: "remove-nil" (AccountRemove without identities and without ReadKeyChange),
// "rk:<n>" (ReadKeyChange whose account key for the owner is an n-byte ciphertext; n<0: a genuine one),
// "rk-badmeta", "options-nil", "options", "unset"
func (e *aclEnv) content(spec string) (*aclrecordproto.AclContentValue, string) {
	ownerId, _ := e.owner.SignKey.GetPublic().Marshall()
	metaPub, _ := e.meta.GetPublic().Marshall()
	switch {
	case spec == "remove-nil":
		return &aclrecordproto.AclContentValue{Value: &aclrecordproto.AclContentValue_AccountRemove{AccountRemove: &aclrecordproto.AclAccountRemove{}}},
			"AC_account_remove true None"
	case strings.HasPrefix(spec, "rk:"):
		var n int
		fmt.Sscanf(spec[3:], "%d", &n)
		ct := make([]byte, 0)
		if n >= 0 {
			ct = make([]byte, n)
			for i := range ct {
				ct[i] = byte(i*7 + 1)
			}
		}
		rkc := &aclrecordproto.AclReadKeyChange{MetadataPubKey: metaPub, EncryptedMetadataPrivKey: []byte("encmeta"), EncryptedOldReadKey: []byte("old"),
			AccountKeys: []*aclrecordproto.AclEncryptedReadKey{{Identity: ownerId, EncryptedReadKey: ct}}}
		return &aclrecordproto.AclContentValue{Value: &aclrecordproto.AclContentValue_ReadKeyChange{ReadKeyChange: rkc}},
			fmt.Sprintf("AC_read_key_change (mkRkcIn true true [(%s, false)] true true)", bytesTerm(ct))
	case spec == "rk-badmeta":
		rkc := &aclrecordproto.AclReadKeyChange{MetadataPubKey: []byte{0xff, 1}}
		return &aclrecordproto.AclContentValue{Value: &aclrecordproto.AclContentValue_ReadKeyChange{ReadKeyChange: rkc}},
			"AC_read_key_change (mkRkcIn true false [] true true)"
	case spec == "options-nil":
		return &aclrecordproto.AclContentValue{Value: &aclrecordproto.AclContentValue_SpaceOptionsChange{SpaceOptionsChange: &aclrecordproto.AclSpaceOptionsChange{}}},
			"AC_space_options true None"
	case spec == "options":
		return &aclrecordproto.AclContentValue{Value: &aclrecordproto.AclContentValue_SpaceOptionsChange{SpaceOptionsChange: &aclrecordproto.AclSpaceOptionsChange{Options: &aclrecordproto.AclSpaceOptions{DeleteRestricted: true}}}},
			"AC_space_options true (Some true)"
	default:
		return &aclrecordproto.AclContentValue{}, "AC_unset"
	}
}

func init() {
	aenv = newAclEnv()
	// S = content specs; F[0] = validating list.  Modelled only on the NON-validating list (the validating
	// verdict of hand-made read-key changes depends on the full permission model, property C04).
	register(&entry{name: "acl-apply", code: 70, modelled: true,
		run: func(r *Req, x map[string]string) error {
			l := aenv.list(r.F[0])
			data := &aclrecordproto.AclData{}
			for _, s := range r.S {
				c, _ := aenv.content(s)
				data.AclContent = append(data.AclContent, c)
			}
			db, _ := data.MarshalVT()
			l.Lock()
			defer l.Unlock()
			return l.AddRawRecord(aenv.record(l.Head().Id, db))
		},
		term: func(r *Req, o *Obs) string {
			if r.F[0] {
				return vlib.App("CObserved", "70", vlib.N(inputLen(r)), clsTerm(o.Cls))
			}
			var cs []string
			for _, s := range r.S {
				_, t := aenv.content(s)
				cs = append(cs, "("+t+")")
			}
			return vlib.App("CAclApply", "false", vlib.List(cs), clsTerm(o.Cls))
		}})
	// B[0] = AclData bytes (arbitrary / mutated), F[0] = validating list: harness-only
	register(&entry{name: "acl-apply-bytes", code: 71,
		run: func(r *Req, x map[string]string) error {
			l := aenv.list(r.F[0])
			l.Lock()
			defer l.Unlock()
			return l.AddRawRecord(aenv.record(l.Head().Id, r.B[0]))
		}})
	addGenerator("acl", 240, genAcl)
}

func genAcl(h *harness, rng *vlib.Rand, n int) {
	specs := []string{"remove-nil", "rk:0", "rk:1", "rk:31", "rk:32", "rk:47", "rk:48", "rk:80", "rk-badmeta", "options-nil", "options", "unset"}
	for i := 0; i < n; i++ {
		validating := rng.Chance(1, 3)
		if i%3 == 2 {
			var data []byte
			gen := ""
			switch rng.Intn(3) {
			case 0:
				data, gen = validAclData(rng), "generated-valid-shape"
			case 1:
				data, gen = mutateBytes(rng, validAclData(rng)), "mutated"
			default:
				w := &wb{rng: rng, pAnom: 30}
				data, gen = w.aclData(), "structured"
			}
			if len(data) > 600 {
				data = data[:600]
			}
			h.emit(&Req{Kind: "acl-apply-bytes", Gen: gen, B: [][]byte{data}, F: []bool{validating}})
			continue
		}
		k := 1 + rng.Intn(2)
		var ss []string
		for j := 0; j < k; j++ {
			ss = append(ss, specs[rng.Intn(len(specs))])
		}
		if i < len(specs) {
			ss = []string{specs[i]}
		}
		gen := ss[0]
		if len(ss) > 1 {
			gen += "+more"
		}
		if validating {
			gen = "validating:" + gen
		}
		h.emit(&Req{Kind: "acl-apply", Gen: gen, S: ss, F: []bool{validating}})
	}
}
