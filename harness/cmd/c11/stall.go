package main

// Entry point (3b): "never hangs" for handshake frames. The four exported entry points
// handshake.IncomingHandshake / OutgoingHandshake / IncomingProtoHandshake / OutgoingProtoHandshake are called
// with a ctx that becomes done, over a connection whose peer sends a PREFIX of an attacker-chosen byte stream and
// then goes silent while keeping the connection open (no EOF). One real call per stall point; all stall points of
// a case run concurrently (they share the sync.Pool of handshake objects).
//
// Three kinds of connection (what Close does to a parked Read/Write is the only difference):
//   0 close-interrupts : net.Pipe / TCP / yamux-like, Close makes a pending Read/Write return an error
//   1 close-send-only  : quic-go Stream-like, Close closes the send direction only: a pending Read stays parked
//                        (a pending Write is released)
//   2 close-inert      : an io.ReadWriteCloser whose Close releases nothing
// Our own writes succeed, fail, or park (peer does not read; window full).
//
// Schedules are forced, not stressed: in ctx mode 0 the ctx is cancelled at the moment the connection reports
// that the callee is parked at the stall point (never, if the conversation ends on the bytes it got); in ctx mode 1
// a real context.WithTimeout is used, and a point whose ctx fired before the callee reached the stall point
// (slow machine) is repeated in mode 0. The only wall-clock judgement is the watchdog: a call that has not returned
// stallMargin after its ctx became done is a hang.
//
// Observed per point: class (ok / err / panic / hang) and whether the error is ctx.Err(). Coq runs the model
// (hs_entry over stall_at n stream) on every point and spec_C11_stall on the observed classes.

import (
	"context"
	"encoding/binary"
	"encoding/json"
	"errors"
	"fmt"
	"net"
	"sort"
	"strings"
	"sync"
	"time"

	"github.com/anyproto/any-sync/net/secureservice/handshake"
	"github.com/anyproto/any-sync/net/secureservice/handshake/handshakeproto"

	"verifharness/vlib"
)

const stallMargin = 4 * time.Second

var (
	errStallClosed   = errors.New("stall conn: closed")
	errStallReleased = errors.New("stall conn: released by the harness")
	errStallWrite    = errors.New("stall conn: write failed")
)

type stallConn struct {
	in    []byte
	kind  int
	wmode int

	mu          sync.Mutex
	pos         int
	closed      bool
	closes      int
	closedCh    chan struct{} // closed by the first Close
	releaseCh   chan struct{} // closed by the harness when the observation is over
	blockedCh   chan struct{} // closed when a Read/Write parks
	blockedOnce sync.Once
	parkedIn    string
}

func newStallConn(in []byte, kind, wmode int) *stallConn {
	return &stallConn{in: in, kind: kind, wmode: wmode,
		closedCh: make(chan struct{}), releaseCh: make(chan struct{}), blockedCh: make(chan struct{})}
}

func (c *stallConn) park(write bool) error {
	c.blockedOnce.Do(func() {
		c.mu.Lock()
		if write {
			c.parkedIn = "Write"
		} else {
			c.parkedIn = "Read"
		}
		c.mu.Unlock()
		close(c.blockedCh)
	})
	var closeCh <-chan struct{}
	if c.kind == 0 || (c.kind == 1 && write) {
		closeCh = c.closedCh
	}
	select {
	case <-closeCh:
		return errStallClosed
	case <-c.releaseCh:
		return errStallReleased
	}
}

func (c *stallConn) Read(p []byte) (int, error) {
	c.mu.Lock()
	if c.closed && c.kind == 0 {
		c.mu.Unlock()
		return 0, errStallClosed
	}
	if c.pos < len(c.in) {
		n := copy(p, c.in[c.pos:])
		c.pos += n
		c.mu.Unlock()
		return n, nil
	}
	c.mu.Unlock()
	if len(p) == 0 {
		return 0, nil
	}
	return 0, c.park(false)
}

func (c *stallConn) Write(p []byte) (int, error) {
	c.mu.Lock()
	closed := c.closed
	c.mu.Unlock()
	if closed && c.kind != 2 {
		return 0, errStallClosed
	}
	switch c.wmode {
	case 0:
		return len(p), nil
	case 1:
		return 0, errStallWrite
	}
	return 0, c.park(true)
}

func (c *stallConn) Close() error {
	c.mu.Lock()
	c.closes++
	if !c.closed {
		c.closed = true
		close(c.closedCh)
	}
	c.mu.Unlock()
	return nil
}
func (c *stallConn) release() { close(c.releaseCh) }
func (c *stallConn) blockedSeen() bool {
	select {
	case <-c.blockedCh:
		return true
	default:
		return false
	}
}
func (c *stallConn) state() (closes int, parkedIn string) {
	c.mu.Lock()
	defer c.mu.Unlock()
	return c.closes, c.parkedIn
}
func (c *stallConn) LocalAddr() net.Addr                { return &net.TCPAddr{} }
func (c *stallConn) RemoteAddr() net.Addr               { return &net.TCPAddr{} }
func (c *stallConn) SetDeadline(t time.Time) error      { return nil }
func (c *stallConn) SetReadDeadline(t time.Time) error  { return nil }
func (c *stallConn) SetWriteDeadline(t time.Time) error { return nil }

var hsEntryNames = []string{"IncomingHandshake", "OutgoingHandshake", "IncomingProtoHandshake", "OutgoingProtoHandshake"}
var connKindNames = []string{"close-interrupts", "close-send-only", "close-inert"}
var wmodeNames = []string{"writes-ok", "writes-fail", "writes-park"}

func callHandshakeEntry(ctx context.Context, which int, c net.Conn) error {
	var err error
	switch which {
	case 0:
		_, err = handshake.IncomingHandshake(ctx, c, "peer", testChecker{})
	case 1:
		_, err = handshake.OutgoingHandshake(ctx, c, "peer", testChecker{})
	case 2:
		_, err = handshake.IncomingProtoHandshake(ctx, c, handshake.ProtoChecker{
			AllowedProtoTypes:  []handshakeproto.ProtoType{handshakeproto.ProtoType_DRPC},
			SupportedEncodings: []handshakeproto.Encoding{handshakeproto.Encoding_Snappy, handshakeproto.Encoding_None},
		})
	default:
		_, err = handshake.OutgoingProtoHandshake(ctx, c, &handshakeproto.Proto{
			Proto:     handshakeproto.ProtoType_DRPC,
			Encodings: []handshakeproto.Encoding{handshakeproto.Encoding_Snappy, handshakeproto.Encoding_None},
		})
	}
	return err
}

// pointObs is what one call (one stall point) showed.
type pointObs struct {
	K       int     `json:"k"`
	Cls     string  `json:"cls"` // ok | err | panic | hang
	Ctx     bool    `json:"ctx"` // the returned error is ctx.Err()
	Err     string  `json:"err,omitempty"`
	Ms      float64 `json:"ms"`
	Blocked bool    `json:"blocked"` // the callee parked at the stall point
	Closes  int     `json:"closes"`  // conn.Close calls seen when the observation ended
	Mode    int     `json:"mode"`    // ctx mode the observation was made in
	Rerun   bool    `json:"rerun,omitempty"`
}

type callRes struct {
	err error
	pan interface{}
}

func runStallPoint(which, kind, wmode, ctxMode int, deadline time.Duration, stream []byte, k int) (o pointObs) {
	conn := newStallConn(stream[:k], kind, wmode)
	defer conn.release()
	var ctx context.Context
	var cancel context.CancelFunc
	if ctxMode == 1 {
		ctx, cancel = context.WithTimeout(context.Background(), deadline)
	} else {
		ctx, cancel = context.WithCancel(context.Background())
	}
	defer cancel()
	done := make(chan callRes, 1)
	t0 := time.Now()
	go func() {
		var r callRes
		defer func() {
			if p := recover(); p != nil {
				r.pan = p
			}
			done <- r
		}()
		r.err = callHandshakeEntry(ctx, which, conn)
	}()
	o.K, o.Mode = k, ctxMode
	finish := func(r callRes) pointObs {
		o.Ms = float64(time.Since(t0).Microseconds()) / 1000
		o.Blocked = conn.blockedSeen()
		o.Closes, _ = conn.state()
		switch {
		case r.pan != nil:
			o.Cls, o.Err = "panic", fmt.Sprint(r.pan)
		case r.err != nil:
			o.Cls, o.Err = "err", r.err.Error()
			o.Ctx = errors.Is(r.err, context.Canceled) || errors.Is(r.err, context.DeadlineExceeded)
		default:
			o.Cls = "ok"
		}
		if len(o.Err) > 160 {
			o.Err = o.Err[:160]
		}
		return o
	}
	hang := func(what string) pointObs {
		o.Ms = float64(time.Since(t0).Microseconds()) / 1000
		o.Blocked = conn.blockedSeen()
		closes, parked := conn.state()
		o.Closes = closes
		o.Cls = "hang"
		o.Err = fmt.Sprintf("%s over a %s conn (%s): peer sent %d of %d bytes and went silent; %s; callee parked in conn.%s=%v, conn.Close called %d time(s); no return %s later",
			hsEntryNames[which], connKindNames[kind], wmodeNames[wmode], k, len(stream), what, parked, o.Blocked, closes, stallMargin)
		return o
	}
	var ctxDoneWhat string
	if ctxMode == 1 {
		select {
		case r := <-done:
			return finish(r)
		case <-ctx.Done():
			ctxDoneWhat = fmt.Sprintf("ctx deadline of %s expired", deadline)
		}
	} else {
		select {
		case r := <-done:
			return finish(r)
		case <-conn.blockedCh:
			cancel()
			ctxDoneWhat = "ctx cancelled once the callee was parked"
		case <-time.After(stallMargin):
			return hang("the call neither returned nor reached the stall point")
		}
	}
	select {
	case r := <-done:
		return finish(r)
	case <-time.After(stallMargin):
		return hang(ctxDoneWhat)
	}
}

// Req layout: I = [which, kind, wmode, ctxMode, deadlineMs, k0, k1, ...]; B[0] = stream
func runStallCase(r *Req, x map[string]string) error {
	if len(r.I) < 6 || len(r.B) < 1 {
		return errors.New("bad stall request")
	}
	which, kind, wmode, ctxMode := int(r.I[0])&3, int(r.I[1])%3, int(r.I[2])%3, int(r.I[3])&1
	deadline := time.Duration(r.I[4]) * time.Millisecond
	stream := r.B[0]
	ks := r.I[5:]
	obs := make([]pointObs, len(ks))
	var wg sync.WaitGroup
	for i, k64 := range ks {
		k := int(k64)
		if k < 0 {
			k = 0
		}
		if k > len(stream) {
			k = len(stream)
		}
		wg.Add(1)
		go func(i, k int) {
			defer wg.Done()
			o := runStallPoint(which, kind, wmode, ctxMode, deadline, stream, k)
			if ctxMode == 1 && o.Cls == "err" && o.Ctx && !o.Blocked {
				// the deadline passed before the callee got to the stall point: observe this point under the
				// forced schedule instead
				o = runStallPoint(which, kind, wmode, 0, deadline, stream, k)
				o.Rerun = true
			}
			obs[i] = o
		}(i, k)
	}
	wg.Wait()
	b, _ := json.Marshal(obs)
	x["points"] = string(b)
	var hangs, panics []string
	for _, o := range obs {
		switch o.Cls {
		case "hang":
			hangs = append(hangs, o.Err)
		case "panic":
			panics = append(panics, fmt.Sprintf("stall point %d: %s", o.K, o.Err))
		}
	}
	if len(panics) > 0 {
		x["force_cls"], x["force_err"] = "panic", fmt.Sprintf("%d of %d stall points: %s", len(panics), len(obs), panics[0])
	} else if len(hangs) > 0 {
		x["force_cls"], x["force_err"] = "hang", fmt.Sprintf("%d of %d stall points hang, first: %s", len(hangs), len(obs), hangs[0])
	}
	return nil
}

func stallTerm(r *Req, o *Obs) string {
	rows, credOK := frameRows(r.B[0])
	var obs []pointObs
	if s := o.X["points"]; s != "" {
		_ = json.Unmarshal([]byte(s), &obs)
	}
	var pts []string
	for _, p := range obs {
		pts = append(pts, fmt.Sprintf("(%d, %s, %s)", p.K, clsTerm(p.Cls), vlib.Bool(p.Ctx)))
	}
	if len(pts) == 0 {
		// the child died or timed out as a whole: the case carries the class of that
		pts = []string{fmt.Sprintf("(0, %s, false)", clsTerm(o.Cls))}
	}
	return vlib.App("CStall", vlib.N(uint64(r.I[0]&3)), vlib.N(uint64(r.I[1]%3)), vlib.N(uint64(r.I[2]%3)),
		rleTerm(r.B[0]), vlib.List(rows), vlib.Bool(credOK), vlib.List(pts))
}

const stallKind = "handshake-stall"

func init() {
	register(&entry{name: stallKind, code: 11, child: true, modelled: true, allocK: 16 << 20, ownGuards: true,
		run: runStallCase, term: stallTerm})
	addGenerator(stallKind, 96, genStall)
}

// stallPoints: every prefix length for short streams; for long ones the first bytes, everything around the frame
// boundaries (header / body of each frame as a frame reader sees them), some random positions and the end.
func stallPoints(rng *vlib.Rand, stream []byte) []int64 {
	n := len(stream)
	set := map[int]bool{0: true, n: true}
	add := func(k int) {
		if k >= 0 && k <= n {
			set[k] = true
		}
	}
	if n <= 40 {
		for k := 0; k <= n; k++ {
			add(k)
		}
	} else {
		for k := 0; k <= 7; k++ {
			add(k)
		}
		for pos := 0; pos+5 <= n; {
			size := int(binary.LittleEndian.Uint32(stream[pos+1 : pos+5]))
			for d := -1; d <= 1; d++ {
				add(pos + d)
				add(pos + 5 + d)
			}
			if size > n {
				break
			}
			add(pos + 5 + size/2)
			pos += 5 + size
			add(pos - 1)
			add(pos)
			add(pos + 1)
		}
		for i := 0; i < 6; i++ {
			add(rng.Intn(n + 1))
		}
		add(n - 1)
	}
	ks := make([]int, 0, len(set))
	for k := range set {
		ks = append(ks, k)
	}
	sort.Ints(ks)
	if len(ks) > 48 {
		// keep the ends and thin out the middle
		keep := append([]int{}, ks[:16]...)
		mid := ks[16 : len(ks)-8]
		for i := 0; i < 24; i++ {
			keep = append(keep, mid[i*len(mid)/24])
		}
		keep = append(keep, ks[len(ks)-8:]...)
		ks = keep
	}
	out := make([]int64, 0, len(ks))
	last := -1
	for _, k := range ks {
		if k != last {
			out = append(out, int64(k))
		}
		last = k
	}
	return out
}

// peerStream builds what the other end of conversation [which] sends, with a hostile variation.
func peerStream(rng *vlib.Rand, which int, variant int) (stream []byte, gen string) {
	payload := "good"
	if variant == 1 {
		payload = "bad"
	}
	cred, _ := (&handshakeproto.Credentials{Payload: []byte(payload), Version: 5, ClientVersion: "v"}).MarshalVT()
	ackErr := handshakeproto.Error_Null
	if variant == 2 {
		ackErr = handshakeproto.Error(1 + rng.Intn(7))
	}
	ack, _ := (&handshakeproto.Ack{Error: ackErr}).MarshalVT()
	encs := []handshakeproto.Encoding{}
	if rng.Bool() {
		encs = append(encs, handshakeproto.Encoding(rng.Intn(3)))
	}
	pt := handshakeproto.ProtoType_DRPC
	if variant == 1 {
		pt = handshakeproto.ProtoType(1)
	}
	proto, _ := (&handshakeproto.Proto{Proto: pt, Encodings: encs}).MarshalVT()
	switch which {
	case 0, 1:
		stream = append(frame(1, cred), frame(2, ack)...)
	case 2:
		stream = frame(3, proto)
	default:
		if variant == 2 || rng.Chance(1, 3) {
			stream = frame(2, ack)
		} else {
			stream = frame(3, proto)
		}
	}
	switch variant {
	case 0:
		gen = "valid"
	case 1:
		gen = "refused"
	case 2:
		gen = "ack-error"
	case 3: // type byte edits, including types outside 1..3
		stream = clone(stream)
		stream[0] = byte(rng.Intn(6))
		gen = "type-edit"
	case 4: // the frame declares more than the peer will ever send: the stall is inside the body even at the end
		stream = clone(stream)
		sizes := []uint32{uint32(len(stream)), uint32(len(stream)) + 1, 4096, 200*1024 - 1, 200 * 1024, 200*1024 + 1, 1 << 31, 1<<32 - 1}
		binary.LittleEndian.PutUint32(stream[1:5], sizes[rng.Intn(len(sizes))])
		gen = "size-edit"
	case 5:
		stream, gen = mutateBytes(rng, stream), "mutated"
	case 6:
		stream, gen = randBytes(rng, 1+rng.Intn(24)), "random"
	case 7: // frames in the wrong order / wrong kind for this role
		stream = append(frame(2, ack), frame(1, cred)...)
		gen = "swapped"
	case 8: // body is garbage for the generated decoder
		stream = append(frame(byte(1+rng.Intn(3)), randBytes(rng, rng.Intn(30))), frame(2, ack)...)
		gen = "garbage-body"
	case 9: // empty bodies
		stream, gen = append(frame(byte(1+rng.Intn(3)), nil), frame(2, nil)...), "empty-bodies"
	case 10: // the second frame is wrong
		stream = append(frame(stream[0], stream[5:5+int(binary.LittleEndian.Uint32(stream[1:5]))]), frame(byte(rng.Intn(5)), mutateBytes(rng, ack))...)
		gen = "second-frame"
	case 11: // a long, valid first frame (several reads), then the rest
		big, _ := (&handshakeproto.Credentials{Payload: []byte(payload), Version: 5, ClientVersion: strings.Repeat("v", 300+rng.Intn(3000))}).MarshalVT()
		if which >= 2 {
			stream = append(frame(3, proto), frame(3, proto)...)
			gen = "double-proto"
		} else {
			stream = append(frame(1, big), frame(2, ack)...)
			gen = "long-cred"
		}
	}
	return
}

const stallVariants = 12

func stallReq(rng *vlib.Rand, which, kind, wmode, ctxMode, variant int) *Req {
	stream, gen := peerStream(rng, which, variant)
	ks := stallPoints(rng, stream)
	is := []int64{int64(which), int64(kind), int64(wmode), int64(ctxMode), int64(60 + rng.Intn(60))}
	is = append(is, ks...)
	g := fmt.Sprintf("%s/%s/%s", hsEntryNames[which], connKindNames[kind], gen)
	if wmode != 0 {
		g += "/" + wmodeNames[wmode]
	}
	if ctxMode == 1 {
		g += "/deadline"
	}
	return &Req{Kind: stallKind, Gen: g, StatGen: fmt.Sprintf("%s/%s/%s", connKindNames[kind], wmodeNames[wmode], gen),
		I: is, B: [][]byte{stream}}
}

func genStall(h *harness, rng *vlib.Rand, n int) {
	var reqs []*Req
	// systematic: every entry point x every kind of connection, valid conversation, every stall point;
	// forced schedule and real deadline alternate
	for which := 0; which < 4; which++ {
		for kind := 0; kind < 3; kind++ {
			reqs = append(reqs, stallReq(rng, which, kind, 0, (which+kind)&1, 0))
		}
	}
	// our writes fail / park, on the connection kinds where Close does not help
	for which := 0; which < 4; which++ {
		for wmode := 1; wmode <= 2; wmode++ {
			reqs = append(reqs, stallReq(rng, which, 1+(which+wmode)&1, wmode, 0, 0))
		}
	}
	for len(reqs) < n {
		which := rng.Intn(4)
		kind := rng.Intn(3)
		wmode := 0
		switch rng.Intn(8) {
		case 0:
			wmode = 1
		case 1, 2:
			wmode = 2
		}
		ctxMode := 0
		if rng.Chance(1, 4) {
			ctxMode = 1
		}
		reqs = append(reqs, stallReq(rng, which, kind, wmode, ctxMode, rng.Intn(stallVariants)))
	}
	h.emitMany(reqs)
}
