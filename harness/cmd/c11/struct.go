package main

// Entry points (4) pubsub topics / msg ids, (5) space payloads, (7) head-sync range requests.

import (
	"context"
	"fmt"
	"math"
	"sort"
	"strings"

	"github.com/cespare/xxhash"

	"github.com/anyproto/any-sync/app/ldiff"
	"github.com/anyproto/any-sync/commonspace/headsync"
	"github.com/anyproto/any-sync/commonspace/pubsub"
	"github.com/anyproto/any-sync/commonspace/spacepayloads"
	"github.com/anyproto/any-sync/commonspace/spacestorage"
	"github.com/anyproto/any-sync/commonspace/spacesyncproto"
	"github.com/anyproto/any-sync/util/crypto"

	"verifharness/vlib"
)

var dedup = pubsub.VerifNewDedup(64)

func newDetKey(r *vlib.Rand) crypto.PrivKey {
	k, _, err := crypto.GenerateEd25519Key(detReader{r})
	if err != nil {
		panic(err)
	}
	return k
}

// one valid create payload (deterministic keys; the read key is random but irrelevant to validation)
var basePayload spacestorage.SpaceStorageCreatePayload

func init() {
	// ---- (4) pubsub ----
	// S[0] = topic
	register(&entry{name: "topic", code: 30, modelled: true,
		run: func(r *Req, x map[string]string) error {
			segs := pubsub.VerifSplitTopic(r.S[0])
			x["nsegs"] = fmt.Sprint(len(segs))
			x["owner"] = bytesTerm([]byte(pubsub.TopicOwner(r.S[0])))
			_ = pubsub.ValidatePattern(r.S[0])
			return pubsub.ValidateTopic(r.S[0])
		},
		term: func(r *Req, o *Obs) string {
			ns, ow := o.X["nsegs"], o.X["owner"]
			if ns == "" {
				ns, ow = "0", "(B 0x1)"
			}
			return vlib.App("CTopic", bytesTerm([]byte(r.S[0])), clsTerm(o.Cls), ns, ow)
		}})
	// B[0] = msg id
	register(&entry{name: "dedup", code: 31, modelled: true,
		run: func(r *Req, x map[string]string) error {
			dedup.Seen(r.B[0])
			return nil
		},
		term: func(r *Req, o *Obs) string {
			return vlib.App("CDedup", bytesTerm(r.B[0]), clsTerm(o.Cls))
		}})

	// ---- (5) space payloads ----
	r0 := vlib.NewRand(771)
	var err error
	basePayload, err = spacepayloads.StoragePayloadForSpaceCreate(spacepayloads.SpaceCreatePayload{
		SigningKey: newDetKey(r0), MasterKey: newDetKey(r0), SpaceType: "t", ReplicationKey: 12345,
		SpacePayload: []byte("p"), ReadKey: crypto.NewAES(), MetadataKey: newDetKey(r0), Metadata: []byte("m")})
	if err != nil {
		panic(err)
	}
	// I[0] = mask of absent parts (1 header, 2 acl, 4 settings); S[0] = header id; F[0] = corrupt header signature;
	// F[1] = corrupt acl payload; F[2] = corrupt settings payload
	register(&entry{name: "create-payload", code: 40, modelled: true,
		run: func(r *Req, x map[string]string) error {
			p := spacestorage.SpaceStorageCreatePayload{}
			if r.I[0]&1 == 0 {
				h := *basePayload.SpaceHeaderWithId
				h.Id = r.S[0]
				if r.F[0] {
					h.RawHeader = flipLast(h.RawHeader)
				}
				p.SpaceHeaderWithId = &h
			}
			if r.I[0]&2 == 0 {
				a := *basePayload.AclWithId
				if r.F[1] {
					a.Payload = flipLast(a.Payload)
				}
				p.AclWithId = &a
			}
			if r.I[0]&4 == 0 {
				s := *basePayload.SpaceSettingsWithId
				if r.F[2] {
					s.RawChange = flipLast(s.RawChange)
				}
				p.SpaceSettingsWithId = &s
			}
			return spacepayloads.ValidateSpaceStorageCreatePayload(p)
		},
		term: func(r *Req, o *Obs) string {
			hdr := "None"
			if r.I[0]&1 == 0 {
				restOK := r.S[0] == basePayload.SpaceHeaderWithId.Id && !r.F[0]
				hdr = vlib.Some(vlib.Pair(bytesTerm([]byte(r.S[0])), vlib.Bool(restOK)))
			}
			part := func(bit int64, corrupt bool) string {
				if r.I[0]&bit != 0 {
					return "None"
				}
				return vlib.Some(vlib.Bool(!corrupt))
			}
			return vlib.App("CCreatePayload", hdr, part(2, r.F[1]), part(4, r.F[2]), "true", clsTerm(o.Cls))
		}})

	// ---- (7) head-sync range requests ----
	// S = element ids; I = flattened ranges (from, to, elements, limit)*  as int64 bit patterns
	register(&entry{name: "ranges", code: 50, modelled: true, child: true, allocC: 256, allocK: 8 << 20, findingTag: "C11-range-amplification",
		run: func(r *Req, x map[string]string) error {
			d := ldiff.New(16, 16)
			els := make([]ldiff.Element, len(r.S))
			for i, id := range r.S {
				els[i] = ldiff.Element{Id: id, Head: "h"}
			}
			d.Set(els...)
			req := &spacesyncproto.HeadSyncRequest{SpaceId: "s", DiffType: spacesyncproto.DiffType_V3}
			for i := 0; i+3 < len(r.I); i += 4 {
				req.Ranges = append(req.Ranges, &spacesyncproto.HeadSyncRange{From: uint64(r.I[i]), To: uint64(r.I[i+1]), Elements: r.I[i+2] != 0, Limit: uint32(r.I[i+3])})
			}
			// through the wire codec, as a peer would deliver it
			wire, err := req.MarshalVT()
			if err != nil {
				return err
			}
			req2 := &spacesyncproto.HeadSyncRequest{}
			if err = req2.UnmarshalVT(wire); err != nil {
				return err
			}
			resp, err := headsync.HandleRangeRequest(context.Background(), d, req2)
			if err != nil {
				return err
			}
			var sb strings.Builder
			sb.WriteString("[")
			for i, res := range resp.Results {
				if i > 0 {
					sb.WriteString("; ")
				}
				fmt.Fprintf(&sb, "(%d, %d)", res.Count, len(res.Elements))
			}
			sb.WriteString("]")
			x["res"] = sb.String()
			return nil
		},
		term: func(r *Req, o *Obs) string {
			hs := make([]uint64, len(r.S))
			for i, id := range r.S {
				hs[i] = xxhash.Sum64([]byte(id))
			}
			sort.Slice(hs, func(i, j int) bool { return hs[i] < hs[j] })
			var rs []string
			for i := 0; i+3 < len(r.I); i += 4 {
				rs = append(rs, fmt.Sprintf("(%d, %d, %s, %d)", uint64(r.I[i]), uint64(r.I[i+1]), vlib.Bool(r.I[i+2] != 0), uint32(r.I[i+3])))
			}
			res := o.X["res"]
			if res == "" {
				res = "[]"
			}
			return vlib.App("CRanges", vlib.NList(hs), vlib.List(rs), clsTerm(o.Cls), res)
		}})

	addGenerator("struct", 900, genStruct)
}

func flipLast(b []byte) []byte {
	c := clone(b)
	if len(c) > 0 {
		c[len(c)-1] ^= 1
	}
	return c
}

func genTopic(rng *vlib.Rand) (string, string) {
	seg := func() string {
		switch rng.Intn(10) {
		case 0:
			return ""
		case 1:
			return "*"
		case 2:
			return ">"
		case 3:
			return "acc"
		case 4:
			return "a*b"
		default:
			return string(rune('a'+rng.Intn(26))) + fmt.Sprint(rng.Intn(100))
		}
	}
	n := 1 + rng.Intn(5)
	gen := "short"
	switch rng.Intn(8) {
	case 0:
		n, gen = 14+rng.Intn(6), "around-16-segments" // 14..19
	case 1:
		n, gen = 20+rng.Intn(40), "many-segments"
	case 2:
		return strings.Repeat("/", rng.Intn(40)), "slashes"
	case 3:
		return string(randBytes(rng, rng.Intn(300))), "random-bytes"
	case 4:
		return "", "empty"
	}
	segs := make([]string, n)
	for i := range segs {
		segs[i] = seg()
	}
	if rng.Chance(1, 3) {
		segs[0] = "acc"
	}
	t := strings.Join(segs, "/")
	if rng.Chance(1, 10) {
		t += strings.Repeat("x", 250-minInt(250, len(t))+rng.Intn(12)) // around maxTopicLen
		gen += "-long"
	}
	return t, gen
}

func genStruct(h *harness, rng *vlib.Rand, n int) {
	baseId := basePayload.SpaceHeaderWithId.Id
	bigRanges := 0
	for i := 0; i < n; i++ {
		switch i % 9 {
		case 0, 1, 2, 3:
			t, gen := genTopic(rng)
			h.emit(&Req{Kind: "topic", Gen: gen, S: []string{t}})
		case 4:
			l := []int{0, 1, 15, 16, 17, 32, rng.Intn(40)}[rng.Intn(7)]
			h.emit(&Req{Kind: "dedup", Gen: fmt.Sprintf("len%d", minInt(l, 33)), B: [][]byte{randBytes(rng, l)}})
		case 5, 6:
			mask := int64(0)
			id := baseId
			gen := "valid"
			f := []bool{false, false, false}
			switch rng.Intn(9) {
			case 0:
			case 1:
				mask, gen = int64(1+rng.Intn(7)), "nil-parts"
			case 2:
				id, gen = strings.ReplaceAll(baseId, ".", ""), "id-without-dot"
			case 3:
				id, gen = "", "empty-id"
			case 4:
				id, gen = ".", "dot-only"
			case 5:
				id, gen = baseId[:strings.Index(baseId, ".")+1], "id-empty-replkey"
			case 6:
				id, gen = "."+baseId, "leading-dot"
			case 7:
				f[rng.Intn(3)] = true
				gen = "corrupt-part"
			case 8:
				id, gen = string(mutateBytes(rng, []byte(baseId))), "mutated-id"
			}
			h.emit(&Req{Kind: "create-payload", Gen: gen, I: []int64{mask}, S: []string{id}, F: f})
		default:
			// hostile HeadSyncRequests against a diff with m elements
			m := []int{0, 1, 5, 40, 200}[rng.Intn(5)]
			ids := make([]string, m)
			for j := range ids {
				ids[j] = fmt.Sprintf("id-%d-%d", i, j)
			}
			var rs []int64
			gen := ""
			add := func(from, to uint64, el bool, lim uint32) {
				e := int64(0)
				if el {
					e = 1
				}
				rs = append(rs, int64(from), int64(to), e, int64(lim))
			}
			k := 1 + rng.Intn(6)
			switch rng.Intn(7) {
			case 0:
				gen = "top-range"
				add(0, math.MaxUint64, rng.Bool(), uint32(rng.Intn(3)))
			case 1:
				gen = "inverted"
				for j := 0; j < k; j++ {
					a, b := rng.U64(), rng.U64()
					if a < b {
						a, b = b, a
					}
					add(a, b, rng.Bool(), 0)
				}
			case 2:
				gen = "zero-width"
				for j := 0; j < k; j++ {
					a := rng.U64()
					if m > 0 && rng.Bool() {
						a = xxhash.Sum64([]byte(ids[rng.Intn(m)]))
					}
					add(a, a, true, 1)
				}
			case 3:
				gen = "wrap"
				for j := 0; j < k; j++ {
					a := rng.U64()
					add(a, a-1, rng.Bool(), 0) // to - from wraps to 2^64-1
				}
			case 4:
				gen = "bucket-aligned"
				for j := 0; j < 16; j++ {
					per := uint64(1) << 60
					add(uint64(j)*per, uint64(j)*per+per-1, rng.Bool(), 0)
				}
			case 5:
				gen = "random"
				for j := 0; j < k; j++ {
					add(rng.U64(), rng.U64(), rng.Bool(), uint32(rng.U64()))
				}
			case 6:
				// thousands of full-window ranges with Elements=true: response = |ranges| * |elements|
				if bigRanges < 2 && m >= 40 {
					bigRanges++
					gen = "many-full-ranges"
					for j := 0; j < 3000; j++ {
						add(0, math.MaxUint64, true, 1)
					}
				} else {
					gen = "several-full-ranges"
					for j := 0; j < 8; j++ {
						add(0, math.MaxUint64, true, 1)
					}
				}
			}
			h.emit(&Req{Kind: "ranges", Gen: gen, S: ids, I: rs})
		}
	}
}
