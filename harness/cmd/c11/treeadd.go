package main

// (9) Tree-change entry point, batch level: objectTree.AddRawChanges on a REAL object tree over any-store receives
// streams of batches of structurally valid raw changes whose PARENT REFERENCES and DELIVERY ORDER are hostile:
// a parent cited twice or three times, parents that never arrive, a change delivered before / after / between its
// parents (every delivery order of small batches), the same change twice in a batch, a change whose parent arrives
// only in a later batch (stale wait-list entries), self references and cycles (mock ids only).
// Two tree configurations:
//   prod = objecttree.BuildObjectTree: real keys, cid + signature verification, the full validator; every change is
//          built by ChangeBuilder.Build and signed by a member with write permission (the ACL owner);
//   mock = objecttree.BuildTestableTree + MockChangeCreator (chosen ids, non-verifying builder, no-op validator).
// Modelled: Model/DecodersTree.v add_raw_run (Tree.Add of Model/Tree.v + createAddResult); compared per batch:
// class, set of Added ids, heads.  After the stream an honest change is made on top of the tree (AddContent) and the
// tree is rebuilt from its storage (heads must equal the in-memory heads).  Child process, every call under recover
// and the wall-clock guard of the synctree part.
//
// Request: F[0] prod; S[0] root name; I = n, then per change k=1..n: nprev, prev...; then nb, then per batch: len,
// members (change numbers).  Symbolic ids: 0 root, 1..n the changes, >= 900 ids that never arrive.

import (
	"errors"
	"fmt"
	"sort"
	"strconv"
	"strings"
	"sync/atomic"

	"github.com/anyproto/any-sync/commonspace/object/tree/objecttree"
	"github.com/anyproto/any-sync/commonspace/object/tree/treechangeproto"
	"github.com/anyproto/any-sync/util/crypto"

	"verifharness/vlib"
)

const taKind = "tree-add"

type taCase struct {
	prevs   [][]int // prevs[k-1] of change k
	batches [][]int
}

func taDecode(I []int64) (*taCase, error) {
	pos := 0
	next := func() (int, error) {
		if pos >= len(I) {
			return 0, fmt.Errorf("bad tree-add request")
		}
		v := int(I[pos])
		pos++
		return v, nil
	}
	c := &taCase{}
	n, err := next()
	if err != nil || n < 0 || n > 64 {
		return nil, fmt.Errorf("bad tree-add request")
	}
	for k := 0; k < n; k++ {
		np, err := next()
		if err != nil || np < 0 || np > 16 {
			return nil, fmt.Errorf("bad tree-add request")
		}
		var ps []int
		for j := 0; j < np; j++ {
			p, err := next()
			if err != nil {
				return nil, err
			}
			ps = append(ps, p)
		}
		c.prevs = append(c.prevs, ps)
	}
	nb, err := next()
	if err != nil || nb < 0 || nb > 16 {
		return nil, fmt.Errorf("bad tree-add request")
	}
	for b := 0; b < nb; b++ {
		l, err := next()
		if err != nil || l < 0 || l > 64 {
			return nil, fmt.Errorf("bad tree-add request")
		}
		var ms []int
		for j := 0; j < l; j++ {
			m, err := next()
			if err != nil || m < 1 || m > n {
				return nil, fmt.Errorf("bad tree-add request")
			}
			ms = append(ms, m)
		}
		c.batches = append(c.batches, ms)
	}
	return c, nil
}

func (c *taCase) encode() []int64 {
	I := []int64{int64(len(c.prevs))}
	for _, ps := range c.prevs {
		I = append(I, int64(len(ps)))
		for _, p := range ps {
			I = append(I, int64(p))
		}
	}
	I = append(I, int64(len(c.batches)))
	for _, b := range c.batches {
		I = append(I, int64(len(b)))
		for _, m := range b {
			I = append(I, int64(m))
		}
	}
	return I
}

// symbolic ids used by the case, sorted
func (c *taCase) syms() []int {
	seen := map[int]bool{0: true}
	for k, ps := range c.prevs {
		seen[k+1] = true
		for _, p := range ps {
			seen[p] = true
		}
	}
	var out []int
	for s := range seen {
		out = append(out, s)
	}
	sort.Ints(out)
	return out
}

func taIntList(l []int) string {
	s := make([]string, len(l))
	for i, v := range l {
		s[i] = strconv.Itoa(v)
	}
	return strings.Join(s, ",")
}

func taParseList(s string) []uint64 {
	var out []uint64
	for _, f := range strings.Split(s, ",") {
		if f == "" {
			continue
		}
		v, _ := strconv.ParseUint(f, 10, 64)
		out = append(out, v)
	}
	return out
}

// taRun (child process): builds the tree and the changes, delivers the batches, observes.
// X: "ids" sym:rank,...   "rows" number of delivered batches   "r<k>" cls|valid|added ranks|heads ranks
//    "follow" / "rebuilt" 0|1
func taRun(r *Req, x map[string]string) error {
	if len(r.S) < 1 || len(r.F) < 1 {
		return fmt.Errorf("bad tree-add request")
	}
	tc, err := taDecode(r.I)
	if err != nil {
		return err
	}
	prod := r.F[0]
	w := stGetWorld()
	rootName := r.S[0]
	n := len(tc.prevs)
	idOf := map[int]string{}
	raws := make([]*treechangeproto.RawTreeChangeWithId, n+1)

	var (
		root    *treechangeproto.RawTreeChangeWithId
		build   func(k int, prevs []string) *treechangeproto.RawTreeChangeWithId
		open    func(st objecttree.Storage) (objecttree.ObjectTree, error)
		foreign func(s int) string
	)
	if prod {
		saved := objecttree.StorageChangeBuilder
		objecttree.StorageChangeBuilder = objecttree.NewChangeBuilder
		defer func() { objecttree.StorageChangeBuilder = saved }()
		root, err = objecttree.CreateObjectTreeRoot(objecttree.ObjectTreeCreatePayload{
			PrivKey: w.keys.SignKey, ChangeType: "verif", SpaceId: stSpace, IsEncrypted: true,
			Seed: []byte("seed:" + rootName), Timestamp: 1700000000,
		}, w.acl)
		stMust(err)
		builder := objecttree.NewChangeBuilder(crypto.NewKeyStorage(), root)
		readKeyId := w.acl.AclState().CurrentReadKeyId()
		build = func(k int, prevs []string) *treechangeproto.RawTreeChangeWithId {
			_, raw, err := builder.Build(objecttree.BuilderContent{
				TreeHeadIds: prevs, AclHeadId: w.aclHead, SnapshotBaseId: root.Id, ReadKeyId: readKeyId,
				Unencrypted: true, PrivKey: w.keys.SignKey, Content: []byte(fmt.Sprintf("c%d", k)),
				Timestamp: int64(1700000000 + k), DataType: "verif",
			})
			stMust(err)
			return raw
		}
		open = func(st objecttree.Storage) (objecttree.ObjectTree, error) { return objecttree.BuildObjectTree(st, w.acl) }
		foreign = func(s int) string { return fmt.Sprintf("bafyreiforeign%s%06d", rootName, s) }
	} else {
		root = stCreator.CreateRoot(rootName, w.aclHead)
		build = func(k int, prevs []string) *treechangeproto.RawTreeChangeWithId {
			return stCreator.CreateRawWithData(idOf[k], w.aclHead, root.Id, false, []byte(fmt.Sprintf("c%d", k)), prevs...)
		}
		open = func(st objecttree.Storage) (objecttree.ObjectTree, error) { return objecttree.BuildTestableTree(st, w.acl) }
		foreign = func(s int) string { return fmt.Sprintf("%s-f%06d", rootName, s) }
		// chosen ids; the order of the id strings is varied by the case (change numbers are not in id order)
		for k := 1; k <= n; k++ {
			idOf[k] = fmt.Sprintf("%s-c%02d", rootName, (k*7)%(n+1+n%2))
		}
		// (k*7 mod m) may collide when gcd(7, m) > 1: fall back to the plain numbering
		seen := map[string]bool{}
		for k := 1; k <= n; k++ {
			if seen[idOf[k]] {
				for j := 1; j <= n; j++ {
					idOf[j] = fmt.Sprintf("%s-c%02d", rootName, j)
				}
				break
			}
			seen[idOf[k]] = true
		}
	}
	idOf[0] = root.Id
	resolve := func(k int, ps []int) []string {
		var out []string
		for _, p := range ps {
			id, ok := idOf[p]
			if !ok || (prod && p >= k && p <= n) {
				// never arrives (or, with content-addressed ids, cannot be cited before it exists)
				id = foreign(p)
				if p < 900 {
					id = foreign(1000 + p)
					idOf[1000+p] = id
				} else {
					idOf[p] = id
				}
			}
			out = append(out, id)
		}
		return out
	}
	for k := 1; k <= n; k++ {
		raws[k] = build(k, resolve(k, tc.prevs[k-1]))
		idOf[k] = raws[k].Id
	}
	// order-preserving ranks of all ids of the case (0 is "no id")
	type pair struct {
		sym int
		id  string
	}
	var ps []pair
	for s, id := range idOf {
		ps = append(ps, pair{s, id})
	}
	sort.Slice(ps, func(i, j int) bool {
		if ps[i].id != ps[j].id {
			return ps[i].id < ps[j].id
		}
		return ps[i].sym < ps[j].sym
	})
	rank := map[string]int{}
	var idsOut []string
	for i, p := range ps {
		if _, ok := rank[p.id]; !ok {
			rank[p.id] = i + 1
		}
		idsOut = append(idsOut, fmt.Sprintf("%d:%d", p.sym, rank[p.id]))
	}
	x["ids"] = strings.Join(idsOut, ",")
	ranks := func(ids []string) string {
		var out []int
		for _, id := range ids {
			out = append(out, rank[id]) // unknown id -> 0
		}
		return taIntList(out)
	}

	st, err := objecttree.CreateStorage(stCtx, root, w.heads[0], w.dbs[0])
	if err != nil {
		w.openDBs()
		st, err = objecttree.CreateStorage(stCtx, root, w.heads[0], w.dbs[0])
		stMust(err)
	}
	w.trees++
	st.(stAddSeqSetter).SetAddSeq(&atomic.Uint64{})
	tree, err := open(st)
	stMust(err)

	force := func(cls, msg string) {
		x["force_cls"] = cls
		x["force_err"] = stShort(msg)
	}
	describe := func(b []int) string {
		var parts []string
		for _, m := range b {
			parts = append(parts, fmt.Sprintf("c%d%v", m, tc.prevs[m-1]))
		}
		return strings.Join(parts, " ")
	}
	rows := 0
	var firstErr error
	for bi, b := range tc.batches {
		var batch []*treechangeproto.RawTreeChangeWithId
		for _, m := range b {
			batch = append(batch, raws[m])
		}
		var res objecttree.AddResult
		aerr, cls, msg := stGuard(func() error {
			tree.Lock()
			defer tree.Unlock()
			var e error
			res, e = tree.AddRawChanges(stCtx, objecttree.RawChangesPayload{NewHeads: []string{batch[len(batch)-1].Id}, RawChanges: batch})
			return e
		})
		rows++
		where := fmt.Sprintf("AddRawChanges(batch %d = [%s], change[parents], 0 = root; %s tree)", bi, describe(b), map[bool]string{true: "production", false: "testable"}[prod])
		if cls != "" {
			x[fmt.Sprintf("r%d", bi)] = cls + "|1||"
			x["rows"] = strconv.Itoa(rows)
			x["follow"], x["rebuilt"] = "0", "0"
			force(cls, where+": "+msg)
			return nil
		}
		if aerr != nil {
			valid := "1"
			if errors.Is(aerr, objecttree.ErrHasInvalidChanges) {
				valid = "0"
			}
			x[fmt.Sprintf("r%d", bi)] = "err|" + valid + "||"
			x[fmt.Sprintf("err%d", bi)] = stShort(aerr.Error())
			firstErr = aerr
			break
		}
		var added []string
		for _, a := range res.Added {
			added = append(added, a.Id)
		}
		x[fmt.Sprintf("r%d", bi)] = "ok|1|" + ranks(added) + "|" + ranks(res.Heads)
	}
	x["rows"] = strconv.Itoa(rows)

	// the tree stays usable: an honest change on top of it
	x["follow"] = "1"
	ferr, cls, msg := stGuard(func() error {
		tree.Lock()
		defer tree.Unlock()
		_, e := tree.AddContent(stCtx, objecttree.SignableChangeContent{Data: []byte("follow"), Key: w.keys.SignKey, Timestamp: 1700009999, DataType: "verif"})
		return e
	})
	if cls != "" {
		x["follow"], x["rebuilt"] = "0", "0"
		force(cls, "honest AddContent after the batches: "+msg)
		return firstErr
	}
	if ferr != nil {
		x["follow"] = "0"
		x["follow_err"] = stShort(ferr.Error())
	}
	// ... and consistent with its storage
	x["rebuilt"] = "1"
	var memHeads, stHeads []string
	rerr, cls, msg := stGuard(func() error {
		tree.Lock()
		memHeads = append([]string(nil), tree.Heads()...)
		tree.Unlock()
		t2, e := open(st)
		if e != nil {
			return e
		}
		stHeads = append([]string(nil), t2.Heads()...)
		return nil
	})
	if cls != "" {
		x["rebuilt"] = "0"
		force(cls, "rebuilding the tree from its storage after the batches: "+msg)
		return firstErr
	}
	sort.Strings(memHeads)
	sort.Strings(stHeads)
	if rerr != nil || strings.Join(memHeads, ",") != strings.Join(stHeads, ",") {
		x["rebuilt"] = "0"
		x["rebuilt_diff"] = stShort(fmt.Sprintf("err=%v memory=%v storage=%v", rerr, memHeads, stHeads))
	}
	_, _, _ = stGuard(func() error { return tree.Close() })
	return firstErr
}

func taTerm(r *Req, o *Obs) string {
	tc, err := taDecode(r.I)
	if err != nil || o.X["ids"] == "" {
		// the case could not be set up: nothing to compare
		return vlib.App("CObserved", vlib.N(81), vlib.N(inputLen(r)), clsTerm(o.Cls))
	}
	rank := map[int]uint64{}
	for _, f := range strings.Split(o.X["ids"], ",") {
		kv := strings.SplitN(f, ":", 2)
		if len(kv) != 2 {
			continue
		}
		s, _ := strconv.Atoi(kv[0])
		v, _ := strconv.ParseUint(kv[1], 10, 64)
		rank[s] = v
	}
	// ids that were re-mapped by the executor (content-addressed ids cited before they exist) have no rank of
	// their own: the executor lists them under 1000+p
	change := func(k int) string {
		var prevs []uint64
		for _, p := range tc.prevs[k-1] {
			if r.F[0] && p >= k && p <= len(tc.prevs) {
				prevs = append(prevs, rank[1000+p])
			} else {
				prevs = append(prevs, rank[p])
			}
		}
		return vlib.App("mkChange", vlib.N(rank[k]), vlib.NList(prevs), vlib.N(rank[0]), "false")
	}
	var batches, rows []string
	nrows, _ := strconv.Atoi(o.X["rows"])
	for bi, b := range tc.batches {
		var cs []string
		for _, m := range b {
			cs = append(cs, change(m))
		}
		valid := true
		if bi < nrows {
			f := strings.Split(o.X[fmt.Sprintf("r%d", bi)], "|")
			if len(f) == 4 {
				valid = f[1] != "0"
				rows = append(rows, vlib.Pair(vlib.Pair(clsTerm(f[0]), vlib.NList(taParseList(f[2]))), vlib.NList(taParseList(f[3]))))
			} else {
				rows = append(rows, vlib.Pair(vlib.Pair("CPanic", "[]"), "[]"))
			}
		}
		batches = append(batches, vlib.Pair(vlib.List(cs), vlib.Bool(valid)))
	}
	root := vlib.App("mkChange", vlib.N(rank[0]), "[]", "0", "true")
	return vlib.App("CTreeAdd", root, vlib.List(batches), vlib.List(rows), vlib.Bool(o.X["follow"] == "1"), vlib.Bool(o.X["rebuilt"] == "1"))
}

// ------------------------------------------------------------------------------------- generator

func taPerms(n int) [][]int {
	if n == 0 {
		return [][]int{{}}
	}
	var out [][]int
	for _, p := range taPerms(n - 1) {
		for i := 0; i <= len(p); i++ {
			q := append(append(append([]int(nil), p[:i]...), n-1), p[i:]...)
			out = append(out, q)
		}
	}
	return out
}

type taShape struct {
	name  string
	prevs [][]int
}

// honest shapes (change k cites earlier changes / the root)
var taShapes = []taShape{
	{"chain2", [][]int{{0}, {1}}},
	{"chain3", [][]int{{0}, {1}, {2}}},
	{"fork-merge", [][]int{{0}, {0}, {1, 2}}},
	{"chain-merge", [][]int{{0}, {1}, {1}, {2, 3}}},
	{"two-children", [][]int{{0}, {1}, {1}}},
}

// structure-aware mutations of the parent references of one change
var taRefMuts = []struct {
	name string
	mock bool // needs chosen ids
	fn   func(rng *vlib.Rand, k int, ps []int) []int
}{
	{"dup-parent", false, func(rng *vlib.Rand, k int, ps []int) []int { return append(append([]int(nil), ps...), ps[rng.Intn(len(ps))]) }},
	{"dup-parent-x3", false, func(rng *vlib.Rand, k int, ps []int) []int {
		p := ps[rng.Intn(len(ps))]
		return append(append([]int(nil), ps...), p, p)
	}},
	{"dup-all-parents", false, func(rng *vlib.Rand, k int, ps []int) []int { return append(append([]int(nil), ps...), ps...) }},
	{"dup-parent-first", false, func(rng *vlib.Rand, k int, ps []int) []int { return append([]int{ps[0]}, ps...) }},
	{"dangling-parent", false, func(rng *vlib.Rand, k int, ps []int) []int { return append(append([]int(nil), ps...), 900+k) }},
	{"dangling-dup", false, func(rng *vlib.Rand, k int, ps []int) []int { return append(append([]int(nil), ps...), 900+k, 900+k) }},
	{"root-and-parent", false, func(rng *vlib.Rand, k int, ps []int) []int { return append(append([]int(nil), ps...), 0) }},
	{"root-twice", false, func(rng *vlib.Rand, k int, ps []int) []int { return append(append([]int(nil), ps...), 0, 0) }},
	{"self-parent", true, func(rng *vlib.Rand, k int, ps []int) []int { return append(append([]int(nil), ps...), k) }},
	{"later-parent", true, func(rng *vlib.Rand, k int, ps []int) []int { return append(append([]int(nil), ps...), k+1) }},
}

func taEmit(h *harness, reqs *[]*Req, root string, prod bool, tc *taCase, gen, stat string) {
	*reqs = append(*reqs, &Req{Kind: taKind, Gen: gen, StatGen: stat, S: []string{root}, F: []bool{prod}, I: tc.encode()})
}

func genTreeAdd(h *harness, rng *vlib.Rand, n int) {
	var reqs []*Req
	cfgName := map[bool]string{true: "prod", false: "mock"}
	count := 0
	rootName := func() string { count++; return fmt.Sprintf("ta%x", rng.U64()) }
	// systematic pass: every shape x every duplicate-parent mutation of its LAST change (the one with the most
	// ancestors in the batch) x EVERY delivery order of the batch, on both configurations while the budget lasts
	type sys struct {
		prod bool
		sh   taShape
		mut  int
		perm []int
	}
	var all []sys
	for _, prod := range []bool{true, false} {
		for _, sh := range taShapes {
			for mi := 0; mi < 4; mi++ {
				for _, p := range taPerms(len(sh.prevs)) {
					all = append(all, sys{prod, sh, mi, p})
				}
			}
		}
	}
	// the pass is larger than the quick budget: the small shapes always run completely (both configurations), the
	// rest is sampled
	var must, rest []sys
	for _, s := range all {
		if len(s.sh.prevs) <= 3 && (s.mut == 0 || len(s.sh.prevs) == 2) {
			must = append(must, s)
		} else {
			rest = append(rest, s)
		}
	}
	budget := n
	run := func(s sys) {
		k := len(s.sh.prevs)
		prevs := make([][]int, k)
		for i := range prevs {
			prevs[i] = append([]int(nil), s.sh.prevs[i]...)
		}
		m := taRefMuts[s.mut]
		prevs[k-1] = m.fn(rng, k, prevs[k-1])
		var batch []int
		for _, i := range s.perm {
			batch = append(batch, i+1)
		}
		tc := &taCase{prevs: prevs, batches: [][]int{batch}}
		taEmit(h, &reqs, rootName(), s.prod, tc, fmt.Sprintf("%s/all-orders/%s/%s/%s", cfgName[s.prod], s.sh.name, m.name, taIntList(batch)), cfgName[s.prod]+"/all-orders/"+m.name)
		budget--
	}
	for _, s := range must {
		run(s)
	}
	for budget > n/3 && len(rest) > 0 {
		i := rng.Intn(len(rest))
		run(rest[i])
		rest = append(rest[:i], rest[i+1:]...)
	}
	// random: random DAG, 1-2 mutated changes, 1-3 batches (a random partition, random order inside each batch,
	// sometimes a change repeated inside a batch or re-delivered in a later batch)
	for budget > 0 {
		budget--
		prod := rng.Bool()
		k := 2 + rng.Intn(4)
		prevs := make([][]int, k)
		for i := 0; i < k; i++ {
			prevs[i] = []int{rng.Intn(i + 1)}
			if i >= 2 && rng.Chance(1, 3) {
				if q := rng.Intn(i + 1); q != prevs[i][0] {
					prevs[i] = append(prevs[i], q)
				}
			}
		}
		var names []string
		for m := 1 + rng.Intn(2); m > 0; m-- {
			mu := taRefMuts[rng.Intn(len(taRefMuts))]
			if mu.mock && prod {
				continue
			}
			i := rng.Intn(k)
			if mu.name == "later-parent" && i == k-1 {
				continue
			}
			prevs[i] = mu.fn(rng, i+1, prevs[i])
			names = append(names, mu.name)
		}
		if len(names) == 0 {
			names = []string{"honest-refs"}
		}
		nb := 1 + rng.Intn(3)
		batches := make([][]int, nb)
		for _, i := range rng.Perm(k) {
			b := rng.Intn(nb)
			batches[b] = append(batches[b], i+1)
		}
		extra := ""
		if rng.Chance(1, 4) {
			b := rng.Intn(nb)
			if len(batches[b]) > 0 {
				batches[b] = append(batches[b], batches[b][rng.Intn(len(batches[b]))])
				extra = "+repeat-in-batch"
			}
		}
		if nb > 1 && rng.Chance(1, 3) {
			src := rng.Intn(nb - 1)
			if len(batches[src]) > 0 {
				c := batches[src][rng.Intn(len(batches[src]))]
				dst := src + 1 + rng.Intn(nb-1-src)
				pos := rng.Intn(len(batches[dst]) + 1)
				batches[dst] = append(append(append([]int(nil), batches[dst][:pos]...), c), batches[dst][pos:]...)
				extra += "+redeliver"
			}
		}
		var nonEmpty [][]int
		for _, b := range batches {
			if len(b) > 0 {
				nonEmpty = append(nonEmpty, b)
			}
		}
		tc := &taCase{prevs: prevs, batches: nonEmpty}
		taEmit(h, &reqs, rootName(), prod, tc, fmt.Sprintf("%s/random/%s%s", cfgName[prod], strings.Join(names, "+"), extra), cfgName[prod]+"/random/"+names[0])
	}
	h.emitMany(reqs)
}

func init() {
	register(&entry{name: taKind, code: 81, child: true, modelled: true, allocC: 512, allocK: 96 << 20, run: taRun, term: taTerm})
	addGenerator(taKind, 200, genTreeAdd)
}
