package main

import (
	"fmt"
	"strings"

	"github.com/anyproto/any-sync/commonspace/pubsub"

	"verifharness/vlib"
)

// ------------------------------------------------------------------ validators

func (g *gen) validCase(s string) {
	var segs []string
	var tok, pok bool
	var owner string
	func() {
		defer func() {
			if r := recover(); r != nil {
				g.w.Violation(g.w.Count(), "C17-validator-panic", fmt.Sprintf("panic in validators/splitTopic: %v", r), hx(s))
			}
		}()
		segs = pubsub.VerifSplitTopic(s)
		tok = pubsub.ValidateTopic(s) == nil
		pok = pubsub.ValidatePattern(s) == nil
		owner = pubsub.TopicOwner(s)
	}()
	term := vlib.App("CValid", strTerm(s), strsTerm(segs), vlib.Bool(tok), vlib.Bool(pok), strTerm(owner))
	info := s
	if len(info) > 60 {
		info = fmt.Sprintf("%s…(%d bytes)", info[:40], len(s))
	}
	d := desc{Kind: "valid", Info: fmt.Sprintf("%q topic_ok=%v pattern_ok=%v owner=%q", info, tok, pok, owner),
		Data: mustJSON(map[string]string{"s": hx(s)})}
	g.w.Add(term, d, "v:"+s, s != "")
	g.w.Stat("valid.total")
	switch {
	case tok:
		g.w.Stat("valid.topic_ok")
	case pok:
		g.w.Stat("valid.pattern_only")
	default:
		g.w.Stat("valid.rejected")
	}
	if owner != "" {
		g.w.Stat("valid.has_owner")
	}
	g.sample("valid", d)
}

// all strings over alphabet of length exactly n
func allStrings(alpha []string, n int, f func(string)) {
	if n == 0 {
		f("")
		return
	}
	var rec func(prefix string, k int)
	rec = func(prefix string, k int) {
		if k == 0 {
			f(prefix)
			return
		}
		for _, a := range alpha {
			rec(prefix+a, k-1)
		}
	}
	rec("", n)
}

func (g *gen) genValidators(r *vlib.Rand, thorough bool, budget int) {
	// (1) exhaustive: every string over the character alphabet {a,/,*,>} up to length L
	L := 5
	if thorough {
		L = 7
	}
	for n := 0; n <= L; n++ {
		allStrings([]string{"a", "/", "*", ">"}, n, g.validCase)
	}
	// (2) exhaustive over the segment alphabet {acc, a, b, "", *} joined by '/', up to 4 segments (owner namespace)
	for n := 1; n <= 4; n++ {
		var rec func(parts []string)
		rec = func(parts []string) {
			if len(parts) == n {
				g.validCase(strings.Join(parts, "/"))
				return
			}
			for _, s := range []string{"acc", "a", "b", "", "*"} {
				rec(append(append([]string(nil), parts...), s))
			}
		}
		rec(nil)
	}
	// (3) the limits: 14..19 segments, total length around 256, wildcard placements
	for n := 14; n <= 19; n++ {
		for _, seg := range []string{"a", "bc", "*"} {
			parts := make([]string, n)
			for i := range parts {
				parts[i] = seg
			}
			g.validCase(strings.Join(parts, "/"))
			parts[n-1] = ">"
			g.validCase(strings.Join(parts, "/"))
			parts[n-1] = ""
			g.validCase(strings.Join(parts, "/"))
			parts[0], parts[n-1] = "acc", "owner"
			g.validCase(strings.Join(parts, "/"))
		}
	}
	for total := 250; total <= 260; total++ {
		g.validCase(strings.Repeat("x", total))
		g.validCase("acc/" + strings.Repeat("y", total-4))
		// k segments filling exactly `total` bytes
		for _, k := range []int{2, 8, 16, 17} {
			segLen := (total - (k - 1)) / k
			if segLen < 1 {
				continue
			}
			parts := make([]string, k)
			used := 0
			for i := range parts {
				parts[i] = strings.Repeat("z", segLen)
				used += segLen
			}
			parts[k-1] += strings.Repeat("z", total-(k-1)-used)
			g.validCase(strings.Join(parts, "/"))
			parts[k-1] = ">" // shorter, but a tail wildcard at the segment limit
			g.validCase(strings.Join(parts, "/"))
		}
	}
	// (4) random byte strings (hostile stream): arbitrary bytes, biased to the special characters
	nRand := 300 * budget
	if thorough {
		nRand = 5000 * budget
	}
	special := []byte{'/', '*', '>', 'a', 'c', 0, 0xff, ' '}
	for i := 0; i < nRand; i++ {
		n := r.Intn(24)
		if r.Chance(1, 20) {
			n = 240 + r.Intn(40)
		}
		b := make([]byte, n)
		for j := range b {
			if r.Chance(3, 4) {
				b[j] = special[r.Intn(len(special))]
			} else {
				b[j] = byte(r.Intn(256))
			}
		}
		g.validCase(string(b))
	}
}

// ------------------------------------------------------------------ trie histories

type trieOp struct {
	Op string `json:"op"` // add remove match len empty
	S  string `json:"s,omitempty"`
}

func (g *gen) trieCase(ops []trieOp) {
	t := pubsub.VerifNewTrie()
	opT := make([]string, 0, len(ops))
	obT := make([]string, 0, len(ops))
	hasAdd, hit := false, false
	var key strings.Builder
	panicked := false
	for _, o := range ops {
		if panicked {
			break
		}
		s := unhx(o.S)
		func() {
			defer func() {
				if r := recover(); r != nil {
					panicked = true
					g.w.Violation(g.w.Count(), "C17-trie-panic", fmt.Sprintf("panic in patternTrie.%s: %v", o.Op, r), ops)
				}
			}()
			switch o.Op {
			case "add":
				b := t.Add(s)
				opT = append(opT, vlib.App("TAdd", strTerm(s)))
				obT = append(obT, vlib.App("OBool", vlib.Bool(b)))
				hasAdd = true
				g.w.Stat("trie.op.add")
			case "remove":
				b := t.Remove(s)
				opT = append(opT, vlib.App("TRemove", strTerm(s)))
				obT = append(obT, vlib.App("OBool", vlib.Bool(b)))
				if b {
					hit = true
					g.w.Stat("trie.op.remove.last_ref")
				} else {
					g.w.Stat("trie.op.remove.other")
				}
			case "match":
				res := t.Match(s)
				opT = append(opT, vlib.App("TMatch", strTerm(s)))
				obT = append(obT, vlib.App("OPats", strsTerm(res)))
				switch {
				case len(res) == 0:
					g.w.Stat("trie.op.match.none")
				case len(res) == 1:
					g.w.Stat("trie.op.match.one")
					hit = true
				default:
					g.w.Stat("trie.op.match.many")
					hit = true
				}
			case "len":
				opT = append(opT, "TLen")
				obT = append(obT, vlib.App("ONum", vlib.N(uint64(t.Len()))))
			case "empty":
				opT = append(opT, "TEmpty")
				obT = append(obT, vlib.App("OBool", vlib.Bool(t.Empty())))
			default:
				panic("unknown trie op " + o.Op)
			}
		}()
		key.WriteString(o.Op)
		key.WriteByte(':')
		key.WriteString(o.S)
		key.WriteByte(';')
	}
	term := vlib.App("CTrie", vlib.List(opT), vlib.List(obT))
	d := desc{Kind: "trie", Info: trieInfo(ops), Data: mustJSON(ops)}
	g.w.Add(term, d, "t:"+key.String(), hasAdd && hit)
	g.w.Stat("trie.histories")
	g.sample("trie", d)
}

func trieInfo(ops []trieOp) string {
	var b strings.Builder
	for i, o := range ops {
		if i >= 12 {
			fmt.Fprintf(&b, " …(%d ops)", len(ops))
			break
		}
		if i > 0 {
			b.WriteByte(' ')
		}
		if o.S != "" || o.Op == "add" || o.Op == "remove" || o.Op == "match" {
			fmt.Fprintf(&b, "%s(%q)", o.Op, unhx(o.S))
		} else {
			b.WriteString(o.Op)
		}
	}
	return b.String()
}

func segSeqs(alpha []string, minN, maxN int) []string {
	var out []string
	for n := minN; n <= maxN; n++ {
		var rec func(parts []string)
		rec = func(parts []string) {
			if len(parts) == n {
				out = append(out, strings.Join(parts, "/"))
				return
			}
			for _, s := range alpha {
				rec(append(append([]string(nil), parts...), s))
			}
		}
		rec(nil)
	}
	return out
}

func op(kind, s string) trieOp { return trieOp{Op: kind, S: hx(s)} }

var opLen = trieOp{Op: "len"}
var opEmpty = trieOp{Op: "empty"}

func (g *gen) genTrie(r *vlib.Rand, thorough bool, budget int) {
	patterns := segSeqs([]string{"a", "b", "*", ">"}, 1, 3) // 84, valid and invalid ('>' not last)
	topics := segSeqs([]string{"a", "b"}, 1, 4)             // 30
	topics = append(topics, "", "a/", "/a", "a//b", "*", "a/*", ">", "a/>", "a/b/c/a/b", "c", "a/c")
	var validPats []string
	for _, p := range patterns {
		if pubsub.ValidatePattern(p) == nil {
			validPats = append(validPats, p)
		}
	}
	// (1) every single pattern against every topic
	for _, p := range patterns {
		ops := []trieOp{op("add", p), opLen}
		for _, t := range topics {
			ops = append(ops, op("match", t))
		}
		ops = append(ops, op("remove", p), opLen, opEmpty, op("match", "a/b"))
		g.trieCase(ops)
	}
	// (2) pairs of valid patterns (shared prefixes, refcounts, pruning): all in thorough, a sample in quick
	pairTopics := segSeqs([]string{"a", "b"}, 1, 3)
	for i, p := range validPats {
		for j, q := range validPats {
			if !thorough && !r.Chance(1, 8) {
				continue
			}
			_ = i
			_ = j
			ops := []trieOp{op("add", p), op("add", q), opLen}
			for _, t := range pairTopics {
				ops = append(ops, op("match", t))
			}
			ops = append(ops, op("remove", p), opLen, opEmpty)
			for _, t := range pairTopics {
				ops = append(ops, op("match", t))
			}
			ops = append(ops, op("remove", q), opLen, opEmpty, op("remove", q), op("remove", p), opEmpty)
			g.trieCase(ops)
		}
	}
	// (3) random histories over a small pool, with full teardown at the end
	n := 800 * budget
	if thorough {
		n = 25000 * budget
	}
	deep := segSeqs([]string{"a", "b", "*"}, 4, 4)
	for i := 0; i < n; i++ {
		rr := r.Fork(uint64(i))
		hostile := rr.Chance(1, 10)
		poolSize := 2 + rr.Intn(8)
		pool := make([]string, poolSize)
		for k := range pool {
			switch {
			case hostile && rr.Chance(1, 3):
				pool[k] = patterns[rr.Intn(len(patterns))] // may be invalid
				if rr.Chance(1, 3) {
					pool[k] = []string{"", "a/", "/", "a//b", "a/>/b", ">/>", "*a", "a*/b"}[rr.Intn(8)]
				}
			case rr.Chance(1, 6):
				pool[k] = deep[rr.Intn(len(deep))]
				if rr.Chance(1, 2) {
					pool[k] += "/>"
				}
			default:
				pool[k] = validPats[rr.Intn(len(validPats))]
			}
		}
		if hostile {
			g.w.Stat("trie.random.hostile")
		} else {
			g.w.Stat("trie.random.valid")
		}
		nOps := 6 + rr.Intn(40)
		live := map[string]int{}
		var ops []trieOp
		for k := 0; k < nOps; k++ {
			switch x := rr.Intn(10); {
			case x < 4:
				p := pool[rr.Intn(poolSize)]
				ops = append(ops, op("add", p))
				live[p]++
			case x < 7:
				p := pool[rr.Intn(poolSize)]
				ops = append(ops, op("remove", p)) // also removes of absent patterns
				if live[p] > 0 {
					live[p]--
				}
			case x < 9:
				var t string
				switch y := rr.Intn(8); {
				case y == 0:
					t = topics[rr.Intn(len(topics))]
				case y < 5:
					t = instantiate(rr, pool[rr.Intn(poolSize)])
				default:
					t = randTopic(rr)
				}
				ops = append(ops, op("match", t))
			default:
				ops = append(ops, opLen, opEmpty)
			}
		}
		// teardown: withdraw every outstanding reference in a random order, then nothing may be left
		var rest []string
		for p, c := range live {
			for ; c > 0; c-- {
				rest = append(rest, p)
			}
		}
		sortStrings(rest)
		for _, idx := range rr.Perm(len(rest)) {
			ops = append(ops, op("remove", rest[idx]))
		}
		ops = append(ops, opLen, opEmpty, op("match", "a/b"), op("match", "a"))
		g.trieCase(ops)
	}
}

// instantiate turns a pattern into a topic it matches (wildcards replaced by literal segments)
func instantiate(r *vlib.Rand, p string) string {
	var out []string
	lit := func() string { return []string{"a", "b", "c"}[r.Intn(3)] }
	for _, s := range strings.Split(p, "/") {
		switch s {
		case "*":
			out = append(out, lit())
		case ">":
			for k := 1 + r.Intn(3); k > 0; k-- {
				out = append(out, lit())
			}
		default:
			out = append(out, s)
		}
	}
	return strings.Join(out, "/")
}

func randTopic(r *vlib.Rand) string {
	n := 1 + r.Intn(5)
	parts := make([]string, n)
	for i := range parts {
		parts[i] = []string{"a", "b", "a", "b", "c"}[r.Intn(5)]
	}
	return strings.Join(parts, "/")
}

func sortStrings(l []string) {
	for i := 1; i < len(l); i++ {
		for j := i; j > 0 && l[j] < l[j-1]; j-- {
			l[j], l[j-1] = l[j-1], l[j]
		}
	}
}
