// Correspondence driver for C17: drives the REAL commonspace/pubsub code (pattern trie, validators,
// serving-side bookkeeping, client receive filters) and writes what it observed as Coq cases, which
// coqc checks against Model/Trie.v + Model/PubSub.v (model_ok) and against spec_C17_* (spec_ok).
package main

import (
	"encoding/hex"
	"encoding/json"
	"fmt"
	"os"
	"time"

	"verifharness/vlib"
)

type desc struct {
	Kind string          `json:"kind"`
	Info string          `json:"info,omitempty"` // human-readable summary, not used by replay
	Tags []string        `json:"tags,omitempty"`
	Data json.RawMessage `json:"data"`
}

func hx(s string) string { return hex.EncodeToString([]byte(s)) }
func unhx(s string) string {
	b, err := hex.DecodeString(s)
	if err != nil {
		panic(err)
	}
	return string(b)
}

func strTerm(s string) string { return vlib.Bytes([]byte(s)) }
func strsTerm(l []string) string {
	t := make([]string, len(l))
	for i, s := range l {
		t[i] = strTerm(s)
	}
	return vlib.List(t)
}

type gen struct {
	w       *vlib.Writer
	samples []interface{}
}

func (g *gen) sample(kind string, d interface{}) {
	for _, s := range g.samples {
		if s.(map[string]interface{})["kind"] == kind {
			return
		}
	}
	if len(g.samples) < 5 {
		g.samples = append(g.samples, map[string]interface{}{"kind": kind, "case": d})
	}
}

func mustJSON(v interface{}) json.RawMessage {
	b, err := json.Marshal(v)
	if err != nil {
		panic(err)
	}
	return b
}

const rule = "validator case: non-empty input string (distinct by string); trie history: at least one Add and " +
	"(a Match with a non-empty result or a Remove returning true), distinct by the operation list; " +
	"service history: at least one accepted Subscribe and one Publish delivered to at least one stream, distinct by event list; " +
	"client receive history: at least one message delivered to a handler and one not delivered, distinct by history; " +
	"sign-data case: at least one non-empty signed field, distinct by field values; " +
	"dedup case: at least one id reported as seen and more recorded ids than ring slots, distinct by id list"

func main() {
	vlib.Quiet()
	o := vlib.ParseFlags()
	g := &gen{w: vlib.NewWriter(o.Out, "C17_run", 400)}
	if o.Replay != "" {
		for _, raw := range vlib.ReadReplay(o.Replay) {
			var d desc
			if err := json.Unmarshal(raw, &d); err != nil {
				fmt.Fprintln(os.Stderr, "bad replay line:", err)
				continue
			}
			g.replay(d)
		}
	} else {
		rnd := vlib.NewRand(o.Seed)
		thorough := o.Tier == "thorough"
		// C17_ONLY=client restricts a development run to the client-side generators (never set by bin/check)
		// C17_TIMING=1 prints the wall time of every generator to stderr (development aid)
		timed := func(name string, f func()) {
			t0 := time.Now()
			f()
			if os.Getenv("C17_TIMING") != "" {
				fmt.Fprintf(os.Stderr, "c17: %-28s %6.1fs\n", name, time.Since(t0).Seconds())
			}
		}
		if os.Getenv("C17_ONLY") == "closerace" { // development run: only the subscribe/close race family
			timed("service-close-race", func() { g.genServiceCloseRace(rnd.Fork(10), thorough, o.Budget) })
			g.w.Finish(rule, g.samples, nil)
			return
		}
		if os.Getenv("C17_ONLY") == "pubgone" { // development run: only the publisher-goes-away family
			timed("service-publisher-gone", func() { g.genServicePublisherGone(rnd.Fork(11), thorough, o.Budget) })
			g.w.Finish(rule, g.samples, nil)
			return
		}
		if os.Getenv("C17_ONLY") != "client" {
			timed("validators", func() { g.genValidators(rnd.Fork(1), thorough, o.Budget) })
			timed("trie", func() { g.genTrie(rnd.Fork(2), thorough, o.Budget) })
			timed("service", func() { g.genService(rnd.Fork(3), thorough, o.Budget) })
			g.genReceive(rnd.Fork(4), thorough, o.Budget)
			timed("service-no-side-effects", func() { g.genServiceNoSideEffects(rnd.Fork(9), thorough, o.Budget) })
			timed("service-close-race", func() { g.genServiceCloseRace(rnd.Fork(10), thorough, o.Budget) })
			timed("service-publisher-gone", func() { g.genServicePublisherGone(rnd.Fork(11), thorough, o.Budget) })
		}
		timed("client", func() { g.genClient(rnd.Fork(5), thorough, o.Budget) })
		timed("client-no-side-effects", func() { g.genClientNoSideEffects(rnd.Fork(8), thorough, o.Budget) })
		timed("sign", func() { g.genSign(rnd.Fork(6), thorough, o.Budget) })
		timed("dedup", func() { g.genDedup(rnd.Fork(7), thorough, o.Budget) })
	}
	g.w.Finish(rule, g.samples, nil)
}

func (g *gen) replay(d desc) {
	switch d.Kind {
	case "valid":
		var v struct {
			S string `json:"s"`
		}
		_ = json.Unmarshal(d.Data, &v)
		g.validCase(unhx(v.S))
	case "trie":
		var ops []trieOp
		_ = json.Unmarshal(d.Data, &ops)
		g.trieCase(ops)
	default:
		if !g.replayClient(d) {
			g.replayMore(d)
		}
	}
}
