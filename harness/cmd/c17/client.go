package main

// Client receive chain (C17): drives a REAL pubsub service in client role (Deps.Relay == nil) through the
// same entry point the stream read loop uses (HandleStream on a harness-owned fake stream), with real
// ed25519 account keys (derived from a seed that is part of the case description), a table-driven
// MembershipChecker, local handlers registered with Subscribe, and own Publish calls whose frames are
// captured on the fake stream.  Also: CSign (publishSignData bytes) and CDedup (msgIdDedup history) cases.

import (
	"context"
	"crypto/sha256"
	"encoding/binary"
	"encoding/hex"
	"encoding/json"
	"fmt"
	"io"
	"strings"
	"sync"
	"time"

	"storj.io/drpc"

	"github.com/anyproto/any-sync/app"
	"github.com/anyproto/any-sync/commonspace/object/accountdata"
	"github.com/anyproto/any-sync/commonspace/pubsub"
	"github.com/anyproto/any-sync/commonspace/pubsub/pubsubproto"
	"github.com/anyproto/any-sync/net/peer"
	"github.com/anyproto/any-sync/testutil/accounttest"
	"github.com/anyproto/any-sync/util/crypto"

	"verifharness/vlib"
)

// ------------------------------------------------------------------ seeded accounts

type seedReader struct {
	seed uint64
	idx  uint64
	ctr  uint64
	buf  []byte
}

func (r *seedReader) Read(p []byte) (int, error) {
	for i := range p {
		if len(r.buf) == 0 {
			var b [24]byte
			binary.LittleEndian.PutUint64(b[0:], r.seed)
			binary.LittleEndian.PutUint64(b[8:], r.idx)
			binary.LittleEndian.PutUint64(b[16:], r.ctr)
			r.ctr++
			h := sha256.Sum256(b[:])
			r.buf = h[:]
		}
		p[i] = r.buf[0]
		r.buf = r.buf[1:]
	}
	return len(p), nil
}

var _ io.Reader = (*seedReader)(nil)

var cliAccCache = map[uint64][]*account{}

// cliAccounts returns n accounts derived deterministically from keySeed
func cliAccounts(keySeed uint64, n int) []*account {
	l := cliAccCache[keySeed]
	for len(l) < n {
		i := uint64(len(l))
		sk, _, err := crypto.GenerateEd25519Key(&seedReader{seed: keySeed, idx: 2 * i})
		if err != nil {
			panic(err)
		}
		pk, _, err := crypto.GenerateEd25519Key(&seedReader{seed: keySeed, idx: 2*i + 1})
		if err != nil {
			panic(err)
		}
		k := accountdata.New(pk, sk)
		id, err := sk.GetPublic().Marshall()
		if err != nil {
			panic(err)
		}
		l = append(l, &account{keys: k, identity: id, name: sk.GetPublic().Account()})
	}
	if len(cliAccCache) > 64 {
		cliAccCache = map[uint64][]*account{}
	}
	cliAccCache[keySeed] = l
	return l[:n]
}

// ------------------------------------------------------------------ fakes

// fakePeer stands for the remote end of the harness-owned stream: the pool finds the stream by Id().
type fakePeer struct{ id string }

func (p *fakePeer) Id() string               { return p.id }
func (p *fakePeer) Context() context.Context { return context.Background() }
func (p *fakePeer) AcquireDrpcConn(context.Context) (drpc.Conn, error) {
	return nil, fmt.Errorf("fake peer: no connection")
}
func (p *fakePeer) ReleaseDrpcConn(context.Context, drpc.Conn) {}
func (p *fakePeer) DoDrpc(context.Context, func(conn drpc.Conn) error) error {
	return fmt.Errorf("fake peer: no connection")
}
func (p *fakePeer) IsClosed() bool                       { return false }
func (p *fakePeer) CloseChan() <-chan struct{}           { return nil }
func (p *fakePeer) SetTTL(time.Duration)                 {}
func (p *fakePeer) TryClose(time.Duration) (bool, error) { return false, nil }
func (p *fakePeer) Close() error                         { return nil }

type fakePeers struct{ p peer.Peer }

func (f *fakePeers) SpacePeers(context.Context, string) ([]peer.Peer, error) {
	return []peer.Peer{f.p}, nil
}

// ------------------------------------------------------------------ history description

type cliCfg struct {
	Ring     int    `json:"ring"`
	SkewMs   int64  `json:"skew_ms"`
	MaxPat   int    `json:"max_pat"`
	MaxPay   int    `json:"max_pay"`
	Accounts int    `json:"accounts"` // account 0 is the service's own account
	KeySeed  uint64 `json:"key_seed"`
}

// fields of a Publish; strings may contain "@N" = name of account N; id/payload are hex
type cliFields struct {
	Space   string `json:"space"`
	Topic   string `json:"topic"`
	Id      string `json:"id"`
	Key     string `json:"key,omitempty"`
	Payload string `json:"payload,omitempty"`
	TsMode  string `json:"ts_mode"` // "zero" | "rel" (now+TsVal ms at build time) | "abs"
	TsVal   int64  `json:"ts_val,omitempty"`
	Ident   int    `json:"ident"` // account index; -1 empty, -2 junk bytes, -3 truncated key
}

type cliAlter struct {
	F string `json:"f"` // space topic id key payload ts ident relayed
	S string `json:"s,omitempty"`
	I int64  `json:"i,omitempty"`
}

type cliEv struct {
	K     string     `json:"k"` // sub unsub setmember recv replay pub echo
	Space string     `json:"space,omitempty"`
	Pat   string     `json:"pat,omitempty"`
	Acct  int        `json:"acct,omitempty"`
	B     bool       `json:"b,omitempty"`
	Msg   *cliFields `json:"msg,omitempty"`    // recv: the fields that are SIGNED
	Sign  int        `json:"signer,omitempty"` // recv: account whose key signs; -1 = junk signature bytes
	Alter []cliAlter `json:"alter,omitempty"`  // recv/replay: changes applied to the frame AFTER signing
	Ref   int        `json:"ref,omitempty"`    // replay/echo: index of the recv/pub event whose frame is re-sent
	Topic string     `json:"topic,omitempty"`  // pub
	PLen  int        `json:"plen,omitempty"`   // pub
}

type cliHist struct {
	Cfg cliCfg  `json:"cfg"`
	Evs []cliEv `json:"evs"`
}

const (
	markSpace = "~m"
	markTopic = "m"
)

// a frame that was sent, with the symbolic description of its signature
type sentFrame struct {
	p       *pubsubproto.Publish
	sigTerm string
}

type cliDriver struct {
	accs   []*account
	svc    pubsub.Service
	app    *app.App
	mem    *fakeMembership
	stream *fakeStream
	pingN  int
	sentN  int

	mu      sync.Mutex
	inv     []string // "space\x00pattern" per handler invocation
	markCnt int
	unsubs  map[string][]func()
	consumed int
}

func (d *cliDriver) expand(s string) string {
	for i, a := range d.accs {
		s = strings.ReplaceAll(s, fmt.Sprintf("@%d", i), a.name)
	}
	return s
}

func newCliDriver(c cliCfg) (*cliDriver, error) {
	d := &cliDriver{accs: cliAccounts(c.KeySeed, c.Accounts), mem: &fakeMembership{m: map[string]bool{}},
		unsubs: map[string][]func(){}}
	d.svc = pubsub.New(pubsub.Deps{
		Membership: d.mem,
		Peers:      &fakePeers{p: &fakePeer{id: "p1"}},
		Config: pubsub.Config{DedupSize: c.Ring, MaxTimestampSkew: time.Duration(c.SkewMs) * time.Millisecond,
			MaxPatternsPerSpace: c.MaxPat, MaxPayloadSize: c.MaxPay, ResyncInterval: time.Hour,
			DialQueueWorkers: 1, DialQueueSize: 1000, WriteQueueSize: 1000, DispatchQueueSize: 1000},
	})
	d.app = new(app.App)
	d.app.Register(accounttest.NewWithAcc(d.accs[0].keys)).Register(d.svc)
	if err := d.app.Start(context.Background()); err != nil {
		panic(err)
	}
	ctx := peer.CtxWithPeerId(peer.CtxWithIdentity(context.Background(), d.accs[0].identity), "p1")
	s := &fakeStream{ctx: ctx, in: make(chan *pubsubproto.PubSubMessage), ready: make(chan struct{}),
		closeCh: make(chan struct{}), done: make(chan struct{})}
	d.stream = s
	go func() {
		_ = d.svc.HandleStream(s)
		close(s.done)
	}()
	select {
	case <-s.ready:
	case <-time.After(waitLong):
		return d, errHang
	}
	return d, nil
}

func (d *cliDriver) shutdown() {
	close(d.stream.closeCh)
	select {
	case <-d.stream.done:
	case <-time.After(waitLong):
	}
	ctx, cancel := context.WithTimeout(context.Background(), waitLong)
	defer cancel()
	_ = d.app.Close(ctx)
}

func (d *cliDriver) feed(m *pubsubproto.PubSubMessage) error {
	s := d.stream
	select {
	case s.in <- m:
	case <-time.After(waitLong):
		return errHang
	}
	select {
	case <-s.ready:
	case <-time.After(waitLong):
		return errHang
	}
	return nil
}

// flushWrites: a marker frame is rejected by handlePublish with a Status carrying the marker; the
// per-stream write queue is FIFO, so every frame written before is visible once the marker came back.
func (d *cliDriver) flushWrites() error {
	d.pingN++
	marker := fmt.Sprintf("~ping~%d", d.pingN)
	if err := d.feed(badPublish(marker)); err != nil {
		return err
	}
	deadline := time.Now().Add(waitLong)
	for {
		found := false
		d.stream.mu.Lock()
		for _, m := range d.stream.sent[d.consumed:] {
			if st := m.GetStatus(); st != nil && len(st.Topics) == 1 && st.Topics[0] == marker {
				found = true
			}
		}
		d.stream.mu.Unlock()
		if found {
			return nil
		}
		if time.Now().After(deadline) {
			return errHang
		}
		time.Sleep(20 * time.Microsecond)
	}
}

// dialBarrier: everything handed to pool.Send before has been processed by the single dial worker
func (d *cliDriver) dialBarrier() error {
	ch := make(chan struct{})
	if err := pubsub.VerifPool(d.svc).Send(context.Background(), &pubsubproto.PubSubMessage{}, func(context.Context) ([]peer.Peer, error) {
		close(ch)
		return nil, nil
	}); err != nil {
		return err
	}
	select {
	case <-ch:
	case <-time.After(waitLong):
		return errHang
	}
	return nil
}

// collect returns the frames written to the stream since the last call (markers dropped)
func (d *cliDriver) collect() []*pubsubproto.PubSubMessage {
	var res []*pubsubproto.PubSubMessage
	s := d.stream
	s.mu.Lock()
	for _, m := range s.sent[d.consumed:] {
		if st := m.GetStatus(); st != nil && len(st.Topics) == 1 && strings.HasPrefix(st.Topics[0], "~ping~") {
			continue
		}
		res = append(res, m)
	}
	d.consumed = len(s.sent)
	s.mu.Unlock()
	return res
}

func (d *cliDriver) handler(space, pat string) pubsub.Handler {
	return func(spaceId, topic string, _ crypto.PubKey, _ []byte) {
		d.mu.Lock()
		if space == markSpace {
			d.markCnt++
		} else {
			d.inv = append(d.inv, pat)
		}
		d.mu.Unlock()
	}
}

func (d *cliDriver) takeInv() []string {
	d.mu.Lock()
	defer d.mu.Unlock()
	r := d.inv
	d.inv = nil
	return r
}

func (d *cliDriver) identBytes(i int) []byte {
	switch {
	case i >= 0 && i < len(d.accs):
		return d.accs[i].identity
	case i == -2:
		return []byte{9, 1, 2, 3, 250}
	case i == -3:
		id := d.accs[0].identity
		return append([]byte(nil), id[:len(id)-1]...)
	}
	return nil
}

func identTerm(i, n int) string {
	if i >= 0 && i < n {
		return vlib.Some(vlib.N(uint64(i)))
	}
	return "None"
}

func zTerm(v int64) string { return vlib.Z(v) }

// bsTerm prints a byte string as (bstr "...") (decoded by Run/C17_run.v): printable characters stand for
// themselves, '^' for the byte 0, "~hh" for any other byte. One string literal per byte string keeps the
// case files fast to parse (numerals are slow to parse).
func bsTerm(b []byte) string {
	if len(b) == 0 {
		return "[]"
	}
	var sb strings.Builder
	sb.WriteString(`(bstr "`)
	for _, x := range b {
		switch {
		case x == 0:
			sb.WriteByte('^')
		case x >= 0x20 && x < 0x7f && x != '"' && x != '~' && x != '^':
			sb.WriteByte(x)
		default:
			fmt.Fprintf(&sb, "~%02x", x)
		}
	}
	sb.WriteString(`"%bstr)`)
	return sb.String()
}
func sTerm(s string) string { return bsTerm([]byte(s)) }
func bssTerm(l []string) string {
	t := make([]string, len(l))
	for i, s := range l {
		t[i] = bsTerm([]byte(s))
	}
	return vlib.List(t)
}

func msgTerm(p *pubsubproto.Publish, ident int, nAcc int, sigTerm string) string {
	return vlib.App("mkMsg", sTerm(p.SpaceId), sTerm(p.Topic), bsTerm(p.MsgId), sTerm(p.KeyId),
		zTerm(p.TimestampMilli), bsTerm(p.Payload), identTerm(ident, nAcc), sigTerm)
}

// sentinel: a genuine message on the private marker space; when its handler has run, everything that
// was enqueued to the dispatch queue before it has been handed to the handlers.
func (d *cliDriver) sentinel() (ev, ob string, err error) {
	d.sentN++
	id := []byte(fmt.Sprintf("SENTINEL...%05d", d.sentN%100000))
	p := &pubsubproto.Publish{SpaceId: markSpace, Topic: markTopic, MsgId: id, Identity: d.accs[0].identity}
	data := pubsub.VerifSignData(p)
	if p.Signature, err = d.accs[0].keys.SignKey.Sign(data); err != nil {
		panic(err)
	}
	d.mu.Lock()
	before := d.markCnt
	d.mu.Unlock()
	now := time.Now().UnixMilli()
	if err = d.feed(&pubsubproto.PubSubMessage{Content: &pubsubproto.PubSubMessage_Publish{Publish: p}}); err != nil {
		return
	}
	ev = vlib.App("CRecv", zTerm(now), msgTerm(p, 0, len(d.accs), vlib.App("SigOf", "0", bsTerm(data))))
	deadline := time.Now().Add(waitLong)
	for {
		d.mu.Lock()
		got := d.markCnt - before
		d.mu.Unlock()
		if got > 0 {
			ob = vlib.App("ORecv", "None", bssTerm([]string{markTopic}))
			return
		}
		if time.Now().After(deadline) {
			ob = vlib.App("ORecv", "None", "[]")
			err = errHang
			return
		}
		time.Sleep(20 * time.Microsecond)
	}
}

func clonePublish(p *pubsubproto.Publish) *pubsubproto.Publish {
	b, err := p.MarshalVT()
	if err != nil {
		panic(err)
	}
	cp := &pubsubproto.Publish{}
	if err = cp.UnmarshalVT(b); err != nil {
		panic(err)
	}
	return cp
}

func (g *gen) clientCase(h cliHist) {
	d, err := newCliDriver(h.Cfg)
	defer d.shutdown()
	caseIdx := g.w.Count()
	if err != nil {
		g.w.Violation(caseIdx, "C17-client-hang", "client service did not start reading the stream", h)
		return
	}
	nAcc := len(d.accs)
	var evT, obT []string
	add := func(e, o string) { evT = append(evT, e); obT = append(obT, o) }
	hang := func(what string) {
		g.w.Violation(caseIdx, "C17-client-hang", "real pubsub client did not respond within 5s during "+what, h)
	}
	// the marker subscription the sentinel uses is part of the history the model sees
	d.mem.set(markSpace, d.accs[0].name, true)
	add(vlib.App("CSetMember", sTerm(markSpace), "0", "true"), "ONoneC")
	if _, err := d.svc.Subscribe(markSpace, markTopic, d.handler(markSpace, markTopic)); err != nil {
		panic(err)
	}
	add(vlib.App("CSub", sTerm(markSpace), sTerm(markTopic)), vlib.App("OSubR", "true"))

	frames := map[int]sentFrame{} // event index -> frame sent / captured
	identOf := map[int]int{}
	delivered, dropped := 0, 0

	// sends p, waits for handlers and writes, returns the observation term
	doRecv := func(p *pubsubproto.Publish, ident int, sigTerm string, kind string) bool {
		_ = d.takeInv()
		now := time.Now().UnixMilli()
		if d.feed(&pubsubproto.PubSubMessage{Content: &pubsubproto.PubSubMessage_Publish{Publish: p}}) != nil {
			hang(kind)
			return false
		}
		sev, sob, serr := d.sentinel()
		if d.flushWrites() != nil {
			hang(kind + " (flush)")
			return false
		}
		status := "None"
		for _, m := range d.collect() {
			if st := m.GetStatus(); st != nil {
				status = vlib.Some(vlib.N(uint64(st.Code)))
				g.w.Stat("cli.recv.status." + st.Code.String())
			}
		}
		inv := d.takeInv()
		add(vlib.App("CRecv", zTerm(now), msgTerm(p, ident, nAcc, sigTerm)), vlib.App("ORecv", status, bssTerm(inv)))
		add(sev, sob)
		if len(inv) > 0 {
			delivered++
			g.w.Stat("cli." + kind + ".delivered")
		} else {
			dropped++
			g.w.Stat("cli." + kind + ".not_delivered")
		}
		if serr != nil {
			g.w.Violation(caseIdx, "C17-client-sentinel-lost", "a genuine marker message did not reach its handler within 5s", h)
			return false
		}
		return true
	}

	applyAlter := func(p *pubsubproto.Publish, ident int, alts []cliAlter) int {
		for _, a := range alts {
			switch a.F {
			case "space":
				p.SpaceId = d.expand(a.S)
			case "topic":
				p.Topic = d.expand(a.S)
			case "id":
				p.MsgId = []byte(unhx(a.S))
			case "key":
				p.KeyId = a.S
			case "payload":
				p.Payload = []byte(unhx(a.S))
			case "ts":
				p.TimestampMilli += a.I
			case "ident":
				ident = int(a.I)
				p.Identity = d.identBytes(ident)
			case "relayed":
				p.Relayed = true
			default:
				panic("unknown alter " + a.F)
			}
			g.w.Stat("cli.alter." + a.F)
		}
		return ident
	}

	for i, e := range h.Evs {
		g.w.Stat("cli.ev." + e.K)
		switch e.K {
		case "sub":
			space, pat := d.expand(e.Space), d.expand(e.Pat)
			un, err := d.svc.Subscribe(space, pat, d.handler(space, pat))
			if err == nil {
				k := space + "\x00" + pat
				d.unsubs[k] = append(d.unsubs[k], un)
			}
			add(vlib.App("CSub", sTerm(space), sTerm(pat)), vlib.App("OSubR", vlib.Bool(err == nil)))
		case "unsub":
			space, pat := d.expand(e.Space), d.expand(e.Pat)
			k := space + "\x00" + pat
			if l := d.unsubs[k]; len(l) > 0 {
				l[len(l)-1]()
				d.unsubs[k] = l[:len(l)-1]
			}
			add(vlib.App("CUnsub", sTerm(space), sTerm(pat)), "ONoneC")
		case "setmember":
			space := d.expand(e.Space)
			d.mem.set(space, d.accs[e.Acct].name, e.B)
			add(vlib.App("CSetMember", sTerm(space), vlib.N(uint64(e.Acct)), vlib.Bool(e.B)), "ONoneC")
		case "recv":
			f := e.Msg
			p := &pubsubproto.Publish{SpaceId: d.expand(f.Space), Topic: d.expand(f.Topic), MsgId: []byte(unhx(f.Id)),
				KeyId: f.Key, Payload: []byte(unhx(f.Payload)), Identity: d.identBytes(f.Ident)}
			switch f.TsMode {
			case "rel":
				p.TimestampMilli = time.Now().UnixMilli() + f.TsVal
			case "abs":
				p.TimestampMilli = f.TsVal
			}
			sigTerm := ""
			if e.Sign >= 0 && e.Sign < nAcc {
				data := pubsub.VerifSignData(p)
				sig, err := d.accs[e.Sign].keys.SignKey.Sign(data)
				if err != nil {
					panic(err)
				}
				p.Signature = sig
				sigTerm = vlib.App("SigOf", vlib.N(uint64(e.Sign)), bsTerm(data))
			} else {
				js := sha256.Sum256([]byte(fmt.Sprintf("junk-sig-%d-%d", h.Cfg.KeySeed, i)))
				p.Signature = append(js[:], js[:]...)
				sigTerm = vlib.App("SigJunk", vlib.N(uint64(i)))
			}
			ident := applyAlter(p, f.Ident, e.Alter)
			frames[i] = sentFrame{p: p, sigTerm: sigTerm}
			identOf[i] = ident
			kind := "recv"
			if len(e.Alter) > 0 || e.Sign != f.Ident {
				kind = "recv_tampered"
			}
			if !doRecv(p, ident, sigTerm, kind) {
				return
			}
		case "replay", "echo":
			fr, ok := frames[e.Ref]
			if !ok {
				// the referenced event sent nothing (a rejected own Publish): nothing to re-send
				continue
			}
			p := clonePublish(fr.p)
			ident := applyAlter(p, identOf[e.Ref], e.Alter)
			if !doRecv(p, ident, fr.sigTerm, e.K) {
				return
			}
		case "pub":
			space, topic := d.expand(e.Space), d.expand(e.Topic)
			_ = d.takeInv()
			payload := make([]byte, e.PLen)
			perr := d.svc.Publish(context.Background(), space, topic, payload)
			if d.dialBarrier() != nil {
				hang("pub (dial barrier)")
				return
			}
			sev, sob, serr := d.sentinel()
			if d.flushWrites() != nil {
				hang("pub (flush)")
				return
			}
			var own *pubsubproto.Publish
			for _, m := range d.collect() {
				if pp := m.GetPublish(); pp != nil {
					own = pp
				}
			}
			id := []byte{}
			if perr == nil && own == nil {
				g.w.Violation(caseIdx, "C17-client-publish-not-sent", "Publish returned nil but no frame reached the peer stream", h)
				return
			}
			if own != nil {
				id = own.MsgId
				// the frame the real code produced: is its signature the account's over publishSignData?
				data := pubsub.VerifSignData(own)
				okSig, _ := d.accs[0].keys.SignKey.GetPublic().Verify(data, own.Signature)
				st := vlib.App("SigJunk", "0")
				if okSig {
					st = vlib.App("SigOf", "0", bsTerm(data))
				}
				frames[i] = sentFrame{p: own, sigTerm: st}
				identOf[i] = -1
				if string(own.Identity) == string(d.accs[0].identity) {
					identOf[i] = 0
				}
			}
			inv := d.takeInv()
			add(vlib.App("CPub", sTerm(space), sTerm(topic), bsTerm(id), vlib.N(uint64(e.PLen))),
				vlib.App("OPubR", vlib.Bool(perr == nil), bssTerm(inv)))
			add(sev, sob)
			if perr == nil {
				g.w.Stat("cli.pub.ok")
			} else {
				g.w.Stat("cli.pub.rejected")
			}
			if serr != nil {
				g.w.Violation(caseIdx, "C17-client-sentinel-lost", "a genuine marker message did not reach its handler within 5s", h)
				return
			}
		default:
			panic("unknown client event " + e.K)
		}
	}
	names := make([]string, nAcc)
	for i := range names {
		names[i] = sTerm(d.accs[i].name)
	}
	cfgT := vlib.App("mkCC", vlib.N(uint64(h.Cfg.Ring)), zTerm(h.Cfg.SkewMs), vlib.N(uint64(h.Cfg.MaxPat)),
		vlib.N(uint64(h.Cfg.MaxPay)), "0", vlib.List(names))
	term := vlib.App("CClient", cfgT, vlib.List(evT), vlib.List(obT))
	var info strings.Builder
	for i, e := range h.Evs {
		if i >= 16 {
			fmt.Fprintf(&info, " …(%d events)", len(h.Evs))
			break
		}
		fmt.Fprintf(&info, "%s ", e.K)
	}
	dsc := desc{Kind: "client", Info: info.String(), Data: mustJSON(h)}
	key, _ := json.Marshal(h)
	g.w.Add(term, dsc, "c:"+string(key), delivered > 0 && dropped > 0)
	g.w.Stat("cli.histories")
	g.sample("client", dsc)
}

// ------------------------------------------------------------------ sign-data and dedup cases

type signCase struct {
	Space   string `json:"space"` // hex
	Topic   string `json:"topic"`
	Id      string `json:"id"`
	Key     string `json:"key"`
	Ts      int64  `json:"ts"`
	Payload string `json:"payload"`
	Relayed bool   `json:"relayed,omitempty"`
}

func (g *gen) signCase(c signCase) {
	p := &pubsubproto.Publish{SpaceId: unhx(c.Space), Topic: unhx(c.Topic), MsgId: []byte(unhx(c.Id)), KeyId: unhx(c.Key),
		TimestampMilli: c.Ts, Payload: []byte(unhx(c.Payload)), Relayed: c.Relayed,
		Identity: []byte("ignored"), Signature: []byte("ignored")}
	data := pubsub.VerifSignData(p)
	term := vlib.App("CSign", sTerm(p.SpaceId), sTerm(p.Topic), bsTerm(p.MsgId), sTerm(p.KeyId), zTerm(c.Ts),
		bsTerm(p.Payload), bsTerm(data))
	dsc := desc{Kind: "sign", Data: mustJSON(c)}
	key, _ := json.Marshal(c)
	g.w.Add(term, dsc, "g:"+string(key), len(p.SpaceId)+len(p.Topic)+len(p.MsgId)+len(p.KeyId)+len(p.Payload) > 0)
	g.w.Stat("sign.cases")
	g.sample("sign", dsc)
}

type dedupCase struct {
	Size int      `json:"size"`
	Ids  []string `json:"ids"` // hex
}

func (g *gen) dedupCase(c dedupCase) {
	dd := pubsub.VerifNewDedup(c.Size)
	ids := make([]string, len(c.Ids))
	res := make([]string, len(c.Ids))
	anyTrue, recorded := false, 0
	for i, h := range c.Ids {
		id := []byte(unhx(h))
		b := dd.Seen(id)
		ids[i] = bsTerm(id)
		res[i] = vlib.Bool(b)
		if b {
			anyTrue = true
		} else if len(id) == 16 {
			recorded++
		}
	}
	term := vlib.App("CDedup", vlib.N(uint64(c.Size)), vlib.List(ids), vlib.List(res))
	dsc := desc{Kind: "dedup", Data: mustJSON(c)}
	key, _ := json.Marshal(c)
	g.w.Add(term, dsc, "d:"+string(key), anyTrue && recorded > c.Size)
	g.w.Stat("dedup.cases")
	g.sample("dedup", dsc)
}

// ------------------------------------------------------------------ generators

func randBytes(r *vlib.Rand, n int) []byte {
	b := make([]byte, n)
	for i := range b {
		switch r.Intn(4) {
		case 0:
			b[i] = byte(128 + r.Intn(128))
		case 1:
			b[i] = byte(r.Intn(4))
		default:
			b[i] = byte(r.Intn(256))
		}
	}
	return b
}

// hexId: a printable 16-byte message id (hex-encoded for the JSON description)
func hexId(tag string, n int) string {
	return hex.EncodeToString([]byte(fmt.Sprintf("%-11.11s%05d", tag, n%100000)))
}

func (g *gen) genClient(r *vlib.Rand, thorough bool, budget int) {
	n := 70 * budget
	if thorough {
		n = 1500 * budget
	}
	pats := []string{">", "a/*", "a/b", "b", "ab", "*/b", "acc/>", "acc/x/@1", "acc/*/@0", "a/>", "bad//p", "*"}
	topics := []string{"a/b", "a/c", "b", "ab", "c/d/e", "acc/x/@1", "acc/x/@2", "acc/x/@0", "acc/y/@1"}
	badTopics := []string{"a//b", "a/*", "", ">"}
	spaces := []string{"s", "sa"}
	for i := 0; i < n; i++ {
		rr := r.Fork(uint64(i))
		c := cliCfg{Ring: []int{2, 3, 4, 6, 8}[rr.Intn(5)], SkewMs: 60000, MaxPat: []int{2, 100, 100}[rr.Intn(3)],
			MaxPay: 64, Accounts: 3, KeySeed: rr.U64() % 4}
		var evs []cliEv
		for a := 0; a < 3; a++ {
			for _, sp := range spaces {
				if rr.Chance(5, 6) {
					evs = append(evs, cliEv{K: "setmember", Space: sp, Acct: a, B: true})
				}
			}
		}
		pick := func(l []string) string { return l[rr.Intn(len(l))] }
		// most histories listen to everything in both spaces, so that the boundary-shift pairs are plausible
		if rr.Chance(3, 4) {
			evs = append(evs, cliEv{K: "sub", Space: "s", Pat: ">"}, cliEv{K: "sub", Space: "sa", Pat: ">"})
		}
		for k := rr.Intn(4); k > 0; k-- {
			evs = append(evs, cliEv{K: "sub", Space: pick(spaces), Pat: pick(pats)})
		}
		idN := 0
		newMsg := func() *cliFields {
			idN++
			f := &cliFields{Space: pick(spaces), Topic: pick(topics), Id: hexId("id", idN), Ident: rr.Intn(3),
				Payload: hex.EncodeToString(randBytes(rr, rr.Intn(6)))}
			switch rr.Intn(6) {
			case 0, 1:
				f.TsMode = "zero"
			case 2:
				f.TsMode, f.TsVal = "rel", int64(-5000-rr.Intn(30000))
			case 3:
				f.TsMode, f.TsVal = "rel", int64(5000+rr.Intn(30000))
			default:
				f.TsMode, f.TsVal = "rel", 0
			}
			if rr.Chance(1, 5) {
				f.Topic = fmt.Sprintf("acc/x/@%d", f.Ident) // own namespace of the sender
			}
			return f
		}
		var sentIdx []int // indices of recv/pub events
		var usedIds []string
		nEv := 5 + rr.Intn(12)
		for k := 0; k < nEv; k++ {
			idx := len(evs)
			switch x := rr.Intn(100); {
			case x < 30: // genuine, sometimes preceded by a frame with the SAME msg id that must be dropped
				f := newMsg()
				if rr.Chance(1, 3) {
					evs = append(evs, dropFrame(rr, rr.Intn(nDropKinds), *f))
					sentIdx = append(sentIdx, idx)
					idx = len(evs)
					g.w.Stat("cli.shadow_before_genuine")
				}
				usedIds = append(usedIds, f.Id)
				evs = append(evs, cliEv{K: "recv", Msg: f, Sign: f.Ident})
				sentIdx = append(sentIdx, idx)
			case x >= 95 && x < 98: // burst of >= ring frames that must all be dropped without touching the ring
				kind := rr.Intn(nDropKinds)
				for b := c.Ring + rr.Intn(2); b > 0; b-- {
					f := newMsg()
					f.TsMode, f.TsVal = "rel", 0
					evs = append(evs, dropFrame(rr, kind, *f))
				}
				g.w.Stat("cli.drop_burst")
			case x < 52: // forged / tampered
				f := newMsg()
				e := cliEv{K: "recv", Msg: f, Sign: f.Ident}
				switch y := rr.Intn(14); y {
				case 0:
					e.Sign = (f.Ident + 1 + rr.Intn(2)) % 3 // signed by another member's key
				case 1:
					e.Sign = -1
				case 2:
					other := "s"
					if f.Space == "s" {
						other = "sa"
					}
					e.Alter = []cliAlter{{F: "space", S: other}}
				case 3:
					e.Alter = []cliAlter{{F: "topic", S: pick(topics)}}
				case 4:
					idN++
					e.Alter = []cliAlter{{F: "id", S: hexId("idx", idN)}}
					if len(usedIds) > 0 && rr.Bool() { // re-use the id of a genuine message sent earlier
						e.Alter = []cliAlter{{F: "id", S: usedIds[rr.Intn(len(usedIds))]}}
						g.w.Stat("cli.forged_reuses_id")
					}
				case 5:
					e.Alter = []cliAlter{{F: "ts", I: []int64{1, -1, 1000}[rr.Intn(3)]}}
				case 6:
					e.Alter = []cliAlter{{F: "payload", S: f.Payload + "00"}}
				case 7:
					e.Alter = []cliAlter{{F: "ident", I: int64((f.Ident + 1) % 3)}}
				case 8:
					e.Alter = []cliAlter{{F: "key", S: "k1"}}
				case 9, 12: // field-boundary shift space|topic: same concatenated bytes, boundary moved
					rest := []string{"b", "b/c"}[rr.Intn(2)]
					if rr.Bool() { // signed ("sa", rest), sent as ("s", "a"+rest)
						f.Space, f.Topic = "sa", rest
						e.Alter = []cliAlter{{F: "space", S: "s"}, {F: "topic", S: "a" + rest}}
					} else { // signed ("s", "a"+rest), sent as ("sa", rest)
						f.Space, f.Topic = "s", "a"+rest
						e.Alter = []cliAlter{{F: "space", S: "sa"}, {F: "topic", S: rest}}
					}
					g.w.Stat("cli.boundary_shift")
				case 10:
					e.Alter = []cliAlter{{F: "ident", I: int64(-1 - rr.Intn(3))}}
				case 11:
					e.Alter = []cliAlter{{F: "relayed"}} // not signed: still genuine
				default:
					f.Key = "k7" // genuine but encrypted: recorded in the ring, never delivered (no Crypto)
				}
				evs = append(evs, e)
				sentIdx = append(sentIdx, idx)
			case x < 64: // replay of an earlier frame
				if len(sentIdx) == 0 {
					continue
				}
				ref := sentIdx[rr.Intn(len(sentIdx))]
				if rr.Chance(2, 3) {
					ref = sentIdx[len(sentIdx)-1-rr.Intn(min(len(sentIdx), 3))]
				}
				k := "replay"
				if evs[ref].K == "pub" {
					k = "echo"
				}
				e := cliEv{K: k, Ref: ref}
				if rr.Chance(1, 8) {
					e.Alter = []cliAlter{{F: "relayed"}}
				}
				evs = append(evs, e)
			case x < 70: // stale
				f := newMsg()
				switch rr.Intn(4) {
				case 0:
					f.TsMode, f.TsVal = "rel", int64(-120000-rr.Intn(100000))
				case 1:
					f.TsMode, f.TsVal = "rel", int64(120000+rr.Intn(100000))
				case 2:
					f.TsMode, f.TsVal = "abs", []int64{1, -1, 1 << 40, -(1 << 40)}[rr.Intn(4)]
				default:
					f.TsMode, f.TsVal = "rel", int64(-75000)
				}
				evs = append(evs, cliEv{K: "recv", Msg: f, Sign: f.Ident})
				sentIdx = append(sentIdx, idx)
			case x < 75: // malformed: pre-checks
				f := newMsg()
				switch rr.Intn(4) {
				case 0:
					f.Id = f.Id[:2*(15-rr.Intn(15))]
				case 1:
					f.Id = f.Id + "aa"
				case 2:
					f.Payload = hex.EncodeToString(make([]byte, 65+rr.Intn(4)))
				default:
					f.Topic = pick(badTopics)
				}
				evs = append(evs, cliEv{K: "recv", Msg: f, Sign: f.Ident})
				sentIdx = append(sentIdx, idx)
			case x < 82: // own publish
				e := cliEv{K: "pub", Space: pick(spaces), Topic: pick(topics), PLen: rr.Intn(8)}
				if rr.Chance(1, 8) {
					e.Topic = pick(badTopics)
				}
				if rr.Chance(1, 10) {
					e.PLen = 65
				}
				evs = append(evs, e)
				sentIdx = append(sentIdx, idx)
			case x < 88:
				evs = append(evs, cliEv{K: "sub", Space: pick(spaces), Pat: pick(pats)})
			case x < 94:
				evs = append(evs, cliEv{K: "unsub", Space: pick(spaces), Pat: pick(pats)})
			default:
				evs = append(evs, cliEv{K: "setmember", Space: pick(spaces), Acct: rr.Intn(3), B: rr.Chance(1, 2)})
			}
		}
		g.clientCase(cliHist{Cfg: c, Evs: evs})
	}
	// replay-window scenarios: G, then k other accepted messages, then G again (ts = 0 and ts = now)
	m := 2 * budget
	if thorough {
		m = 40 * budget
	}
	for i := 0; i < m; i++ {
		rr := r.Fork(uint64(1000000 + i))
		for _, ring := range []int{2, 3, 5} {
			for k := 0; k <= ring; k++ {
				c := cliCfg{Ring: ring, SkewMs: 60000, MaxPat: 100, MaxPay: 64, Accounts: 3, KeySeed: rr.U64() % 4}
				evs := []cliEv{{K: "setmember", Space: "s", Acct: 1, B: true}, {K: "setmember", Space: "s", Acct: 0, B: true},
					{K: "sub", Space: "s", Pat: "a/>"}}
				f := &cliFields{Space: "s", Topic: "a/b", Id: hexId("G", i), Ident: 1, TsMode: "zero",
					Payload: hex.EncodeToString(randBytes(rr, 3))}
				if rr.Bool() {
					f.TsMode = "rel"
				}
				first := len(evs)
				evs = append(evs, cliEv{K: "recv", Msg: f, Sign: 1})
				for j := 0; j < k; j++ {
					if rr.Chance(1, 4) {
						evs = append(evs, cliEv{K: "pub", Space: "s", Topic: "a/own", PLen: 1})
					} else {
						evs = append(evs, cliEv{K: "recv", Sign: 1, Msg: &cliFields{Space: "s", Topic: "a/c", Id: hexId("o", j), Ident: 1, TsMode: "zero"}})
					}
				}
				evs = append(evs, cliEv{K: "replay", Ref: first})
				g.w.Stat("cli.window_scenarios")
				g.clientCase(cliHist{Cfg: c, Evs: evs})
			}
		}
	}
}

// ------------------------------------------------------------------ frames that must be dropped WITHOUT side effects

// kinds of frames that fail exactly one filter of handlePublish/receivePublish and pass all earlier ones
// (in the scenario setup: accounts 0 and 1 are members of "s" and "sa", account 2 is not; only "s" has a
// subscription, to ">").  The last kind is the contrast: a genuine frame with a KeyId and no Crypto IS
// recorded in the ring by the real code (and by the model) although it is never delivered.
const (
	dropPayloadTooBig = iota
	dropInvalidTopic
	dropNoInterest
	dropJunkIdentity
	dropNonMember
	dropNotOwner
	dropStale
	dropJunkSig
	dropOtherKeySig
	dropTamperedAfterSigning
	nDropKinds
	recordedUndeliverable = nDropKinds // not a drop-without-side-effect: see above
)

var dropKindName = []string{"payload_too_big", "invalid_topic", "no_interest", "junk_identity", "non_member", "not_owner",
	"stale", "junk_sig", "other_key_sig", "tampered", "keyid_no_crypto"}

// dropFrame turns the fields of an otherwise genuine message into a recv event failing filter [kind]; the msg id
// (and everything the kind does not need to change) is kept.
func dropFrame(rr *vlib.Rand, kind int, f cliFields) cliEv {
	e := cliEv{K: "recv", Msg: &f, Sign: f.Ident}
	switch kind {
	case dropPayloadTooBig:
		f.Payload = hex.EncodeToString(make([]byte, 65+rr.Intn(3)))
	case dropInvalidTopic:
		f.Topic = []string{"a//b", "a/*", ">"}[rr.Intn(3)]
	case dropNoInterest:
		f.Space = "sa"
	case dropJunkIdentity:
		e.Alter = []cliAlter{{F: "ident", I: int64(-1 - rr.Intn(3))}}
	case dropNonMember:
		f.Ident, e.Sign = 2, 2
	case dropNotOwner:
		f.Topic = fmt.Sprintf("acc/x/@%d", (f.Ident+1)%2)
	case dropStale:
		f.TsMode, f.TsVal = "rel", []int64{-120000, 120000, -90000}[rr.Intn(3)]
	case dropJunkSig:
		e.Sign = -1
	case dropOtherKeySig:
		e.Sign = (f.Ident + 1 + rr.Intn(2)) % 3
	case dropTamperedAfterSigning:
		e.Alter = []cliAlter{{F: "payload", S: f.Payload + "00"}}
	case recordedUndeliverable:
		f.Key = "k7"
	default:
		panic("drop kind")
	}
	return e
}

// genClientNoSideEffects: (A) a dropped frame that carries msg id X, then the genuine message X: it must be delivered;
// (B) a genuine delivery, then a burst of dropped frames with fresh ids sized so that the genuine id stays in the ring
// iff the dropped frames were NOT recorded, then the replay: it must be suppressed; (C) the same with the dropped
// frames re-using ids of messages delivered earlier; (D) interest: a dropped frame between subscribe and a genuine
// message, and after an unsubscribe, changes nothing.  Every sent frame is followed by a sentinel that takes one ring
// slot (the model sees the sentinels), hence the burst sizes below.
func (g *gen) genClientNoSideEffects(r *vlib.Rand, thorough bool, budget int) {
	rounds := budget
	if thorough {
		rounds = 12 * budget
	}
	setup := func() []cliEv {
		return []cliEv{{K: "setmember", Space: "s", Acct: 0, B: true}, {K: "setmember", Space: "s", Acct: 1, B: true},
			{K: "setmember", Space: "sa", Acct: 0, B: true}, {K: "setmember", Space: "sa", Acct: 1, B: true},
			{K: "sub", Space: "s", Pat: ">"}}
	}
	for round := 0; round < rounds; round++ {
		rr := r.Fork(uint64(2000000 + round))
		for kind := 0; kind <= recordedUndeliverable; kind++ {
			genuine := func(n int) cliFields {
				f := cliFields{Space: "s", Topic: []string{"a/b", "b", "acc/x/@1"}[rr.Intn(3)], Id: hexId("N", 100*round+n), Ident: 1,
					TsMode: "rel", Payload: hex.EncodeToString(randBytes(rr, 1+rr.Intn(4)))}
				if rr.Chance(1, 3) {
					f.TsMode = "zero"
				}
				if kind == dropStale {
					f.TsMode = "rel" // a zero timestamp is never stale
				}
				return f
			}
			cfg := func(ring int) cliCfg {
				return cliCfg{Ring: ring, SkewMs: 60000, MaxPat: 100, MaxPay: 64, Accounts: 3, KeySeed: rr.U64() % 4}
			}
			// (A) shadow: dropped(X) [x1 or x2], genuine(X), replay(X)
			for _, ring := range []int{2, 5} {
				evs := setup()
				f := genuine(1)
				for n := 1 + rr.Intn(2); n > 0; n-- {
					evs = append(evs, dropFrame(rr, kind, f))
				}
				gi := len(evs)
				evs = append(evs, cliEv{K: "recv", Msg: &f, Sign: 1})
				if ring > 2 {
					evs = append(evs, cliEv{K: "replay", Ref: gi})
				}
				g.w.Stat("cli.noeffect.shadow." + dropKindName[kind])
				g.clientCase(cliHist{Cfg: cfg(ring), Evs: evs})
			}
			// (B) burst: genuine(X) takes 2 slots (X + sentinel); n dropped frames take n slots (their sentinels) if they are
			// not recorded and 2n if they are: with n = ring-2 the replay is suppressed iff nothing was recorded
			for _, ring := range []int{3, 4, 7} {
				evs := setup()
				f := genuine(2)
				gi := len(evs)
				evs = append(evs, cliEv{K: "recv", Msg: &f, Sign: 1})
				for n := 0; n < ring-2; n++ {
					d := genuine(10 + n)
					if rr.Chance(1, 4) {
						d.Id = f.Id // (C) re-using the id that is already in the ring
					}
					evs = append(evs, dropFrame(rr, kind, d))
				}
				evs = append(evs, cliEv{K: "replay", Ref: gi})
				g.w.Stat("cli.noeffect.burst." + dropKindName[kind])
				g.clientCase(cliHist{Cfg: cfg(ring), Evs: evs})
			}
			// (D) interest is untouched by a dropped frame: sub, dropped, genuine (delivered), unsub, dropped, genuine (not)
			{
				evs := setup()
				evs = append(evs, cliEv{K: "sub", Space: "s", Pat: "a/*"})
				f1, f2 := genuine(3), genuine(4)
				f1.Topic, f2.Topic = "a/b", "a/b"
				evs = append(evs, dropFrame(rr, kind, genuine(5)), cliEv{K: "recv", Msg: &f1, Sign: 1},
					cliEv{K: "unsub", Space: "s", Pat: ">"}, dropFrame(rr, kind, genuine(6)), cliEv{K: "recv", Msg: &f2, Sign: 1},
					cliEv{K: "unsub", Space: "s", Pat: "a/*"}, dropFrame(rr, kind, f2))
				f3 := genuine(7)
				evs = append(evs, cliEv{K: "recv", Msg: &f3, Sign: 1})
				g.w.Stat("cli.noeffect.interest." + dropKindName[kind])
				g.clientCase(cliHist{Cfg: cfg(16), Evs: evs})
			}
		}
	}
}

func (g *gen) genSign(r *vlib.Rand, thorough bool, budget int) {
	n := 200 * budget
	if thorough {
		n = 5000 * budget
	}
	field := func(rr *vlib.Rand, max int) string {
		if rr.Chance(1, 4) {
			return ""
		}
		return hex.EncodeToString(randBytes(rr, 1+rr.Intn(max)))
	}
	for i := 0; i < n; i++ {
		rr := r.Fork(uint64(i))
		c := signCase{Space: field(rr, 12), Topic: field(rr, 20), Id: field(rr, 20), Key: field(rr, 6), Payload: field(rr, 40),
			Relayed: rr.Chance(1, 5)}
		if rr.Chance(1, 2) {
			c.Id = hex.EncodeToString(randBytes(rr, 16))
		}
		switch rr.Intn(6) {
		case 0:
			c.Ts = 0
		case 1:
			c.Ts = -int64(rr.U64() >> 1)
		case 2:
			c.Ts = int64(rr.U64() >> 1)
		case 3:
			c.Ts = []int64{1, -1, 255, 256, 1<<63 - 1, -1 << 63, 1 << 32, 1<<32 - 1}[rr.Intn(8)]
		default:
			c.Ts = 1790000000000 + int64(rr.Intn(1000000))
		}
		if rr.Chance(1, 25) {
			c.Payload = hex.EncodeToString(randBytes(rr, 300+rr.Intn(400))) // length byte > 255: second length byte used
		}
		if rr.Chance(1, 40) {
			c.Topic = hex.EncodeToString(randBytes(rr, 256+rr.Intn(300)))
		}
		g.signCase(c)
	}
}

func (g *gen) genDedup(r *vlib.Rand, thorough bool, budget int) {
	n := 150 * budget
	if thorough {
		n = 4000 * budget
	}
	for i := 0; i < n; i++ {
		rr := r.Fork(uint64(i))
		c := dedupCase{Size: 1 + rr.Intn(5)}
		pool := 2 + rr.Intn(8)
		for k := 5 + rr.Intn(30); k > 0; k-- {
			switch {
			case rr.Chance(1, 15):
				c.Ids = append(c.Ids, hex.EncodeToString(randBytes(rr, []int{0, 1, 15, 17, 32}[rr.Intn(5)])))
			case rr.Chance(1, 20):
				c.Ids = append(c.Ids, hex.EncodeToString(make([]byte, 16))) // the all-zero id (initial slot content)
			default:
				c.Ids = append(c.Ids, hexId("d", rr.Intn(pool)))
			}
		}
		g.dedupCase(c)
	}
}

func (g *gen) replayClient(d desc) bool {
	switch d.Kind {
	case "client":
		var h cliHist
		if err := json.Unmarshal(d.Data, &h); err != nil {
			panic(err)
		}
		g.clientCase(h)
	case "sign":
		var c signCase
		if err := json.Unmarshal(d.Data, &c); err != nil {
			panic(err)
		}
		g.signCase(c)
	case "dedup":
		var c dedupCase
		if err := json.Unmarshal(d.Data, &c); err != nil {
			panic(err)
		}
		g.dedupCase(c)
	default:
		return false
	}
	return true
}
