package main

import (
	"context"
	"encoding/json"
	"errors"
	"fmt"
	"io"
	"os"
	"runtime"
	"sort"
	"strings"
	"sync"
	"sync/atomic"
	"time"

	"storj.io/drpc"

	"github.com/anyproto/any-sync/app"
	"github.com/anyproto/any-sync/commonspace/object/accountdata"
	"github.com/anyproto/any-sync/commonspace/pubsub"
	"github.com/anyproto/any-sync/commonspace/pubsub/pubsubproto"
	"github.com/anyproto/any-sync/net/peer"
	"github.com/anyproto/any-sync/net/streampool"
	"github.com/anyproto/any-sync/testutil/accounttest"
	"github.com/anyproto/any-sync/util/crypto"

	"verifharness/vlib"
)

// ------------------------------------------------------------------ accounts (generated once)

type account struct {
	keys     *accountdata.AccountKeys
	identity []byte
	name     string
}

var accounts []*account

func ensureAccounts(n int) {
	for len(accounts) < n {
		k, err := accountdata.NewRandom()
		if err != nil {
			panic(err)
		}
		id, err := k.SignKey.GetPublic().Marshall()
		if err != nil {
			panic(err)
		}
		accounts = append(accounts, &account{keys: k, identity: id, name: k.SignKey.GetPublic().Account()})
	}
}

// ------------------------------------------------------------------ fakes

type fakeMembership struct {
	mu   sync.Mutex
	m    map[string]bool // "space|account"
	trap *lookupTrap
}

// lookupTrap places an action at the first lookup the service makes on behalf of one stream while one frame of that
// stream is being handled (Membership.CheckMember carries the stream id in its ctx, Relay.IsResponsibleNode the peer
// id). The lookups themselves answer from the tables as always: no behaviour is injected other than the schedule.
type lookupTrap struct {
	mu    sync.Mutex
	armed bool
	sid   uint32
	act   func()
	fired bool
}

func (t *lookupTrap) hit(sid uint32) {
	var act func()
	t.mu.Lock()
	if t.armed && t.sid == sid {
		t.armed, t.fired, act = false, true, t.act
	}
	t.mu.Unlock()
	if act != nil {
		act()
	}
}

func (t *lookupTrap) arm(sid int, act func()) {
	t.mu.Lock()
	t.armed, t.fired, t.sid, t.act = true, false, uint32(sid), act
	t.mu.Unlock()
}

func (t *lookupTrap) disarm() (fired bool) {
	t.mu.Lock()
	fired = t.fired
	t.armed, t.fired, t.act = false, false, nil
	t.mu.Unlock()
	return
}

func (f *fakeMembership) set(space, acct string, b bool) {
	f.mu.Lock()
	defer f.mu.Unlock()
	f.m[space+"|"+acct] = b
}
func (f *fakeMembership) is(space, acct string) bool {
	f.mu.Lock()
	defer f.mu.Unlock()
	return f.m[space+"|"+acct]
}
func (f *fakeMembership) CheckMember(ctx context.Context, spaceId string, identity crypto.PubKey) error {
	if id, ok := streampool.CtxStreamId(ctx); ok && f.trap != nil {
		f.trap.hit(id)
	}
	if f.is(spaceId, identity.Account()) {
		return nil
	}
	return errors.New("not a member")
}

type fakeRelay struct {
	resp     map[string]bool
	nodes    map[string]bool
	forwards atomic.Int32
	trap     *lookupTrap
}

func (f *fakeRelay) IsResponsible(spaceId string) bool { return f.resp[spaceId] }
func (f *fakeRelay) IsResponsibleNode(_, peerId string) bool {
	var sid uint32
	if _, err := fmt.Sscanf(peerId, "p%d", &sid); err == nil && f.trap != nil {
		f.trap.hit(sid)
	}
	return f.nodes[peerId]
}
func (f *fakeRelay) OtherResponsiblePeers(_ context.Context, _ string) ([]peer.Peer, error) {
	f.forwards.Add(1)
	return nil, nil
}

type fakeStream struct {
	ctx      context.Context
	cancel   context.CancelFunc // ends the stream context (what drpc does when the remote side closes / the conn drops)
	in       chan *pubsubproto.PubSubMessage
	ready    chan struct{}
	closeCh  chan struct{}
	done     chan struct{}
	sendFail atomic.Bool
	mu       sync.Mutex
	sent     []*pubsubproto.PubSubMessage
	seen     int // how many of sent the harness has consumed
}

func (s *fakeStream) Context() context.Context { return s.ctx }
func (s *fakeStream) MsgSend(msg drpc.Message, _ drpc.Encoding) error {
	if s.sendFail.Load() {
		return errors.New("send failed")
	}
	m, ok := msg.(*pubsubproto.PubSubMessage)
	if !ok {
		return errors.New("unexpected message type")
	}
	b, err := m.MarshalVT()
	if err != nil {
		return err
	}
	cp := &pubsubproto.PubSubMessage{}
	if err = cp.UnmarshalVT(b); err != nil {
		return err
	}
	s.mu.Lock()
	s.sent = append(s.sent, cp)
	s.mu.Unlock()
	return nil
}
func (s *fakeStream) MsgRecv(msg drpc.Message, _ drpc.Encoding) error {
	select {
	case s.ready <- struct{}{}:
	case <-s.closeCh:
		return io.EOF
	}
	select {
	case m := <-s.in:
		b, err := m.MarshalVT()
		if err != nil {
			return err
		}
		return msg.(*pubsubproto.PubSubMessage).UnmarshalVT(b)
	case <-s.closeCh:
		return io.EOF
	}
}
func (s *fakeStream) CloseSend() error { return nil }
func (s *fakeStream) Close() error     { return nil }

// ------------------------------------------------------------------ history description

type svcCfg struct {
	MaxSpace  int   `json:"max_space"`
	MaxStream int   `json:"max_stream"`
	Burst     int   `json:"burst"`
	Resp      []int `json:"resp"`
	Nodes     []int `json:"nodes"`
	Accounts  int   `json:"accounts"`
}

type svcEv struct {
	K     string   `json:"k"` // open sub unsub pub close break evict revalidate closespace setmember snap submid pubmid
	Sid   int      `json:"sid,omitempty"`
	V     int      `json:"victim,omitempty"` // submid: the stream that leaves the pool while sid's Subscribe is being handled
	Space int      `json:"space,omitempty"`
	Acct  int      `json:"acct,omitempty"`
	Pats  []string `json:"pats,omitempty"`  // "@N" inside a string stands for the name of account N
	Topic string   `json:"topic,omitempty"` // same convention
	Claim int      `json:"claim,omitempty"` // 0 = empty identity, a+1 = account a
	Rel   bool     `json:"relayed,omitempty"`
	Bad   bool     `json:"malformed,omitempty"`
	B     bool     `json:"b,omitempty"`
	Ctx   bool     `json:"ctx,omitempty"` // break: the stream leaves the pool because its CONTEXT ends (not because a write fails)
}

type svcHist struct {
	Cfg svcCfg  `json:"cfg"`
	Evs []svcEv `json:"evs"`
}

func spaceName(i int) string { return fmt.Sprintf("s%d", i) }

func expandNames(s string) string {
	for i, a := range accounts {
		s = strings.ReplaceAll(s, fmt.Sprintf("@%d", i), a.name)
	}
	return s
}

// ------------------------------------------------------------------ driver

type driver struct {
	svc     pubsub.Service
	app     *app.App
	mem     *fakeMembership
	relay   *fakeRelay
	streams map[int]*fakeStream // by sid (= pool stream id, assigned sequentially from 1)
	pooled  map[int]bool
	nextSid int
	pingN   int
	tagsSeen map[string][2]string // tag -> (space, pattern)
	real    streampool.StreamPool // the service's own pool
	race    *racePool             // pass-through wrapper installed in its place
	trap    *lookupTrap           // places the end of a publisher's stream context at a lookup of its Publish handler
}

// racePool forwards everything to the service's real pool. When armed, the next AddTagsCtx call made on behalf
// of stream sid (i.e. by its Subscribe handler, after the interest was recorded) first runs act — which removes a
// stream from the real pool and gives its close hook the chance to run — and is then forwarded unchanged.
// No behaviour is injected other than the schedule.
type racePool struct {
	streampool.StreamPool
	mu    sync.Mutex
	armed bool
	sid   uint32
	act   func()
	fired bool
}

func (p *racePool) AddTagsCtx(ctx context.Context, tags ...string) error {
	var act func()
	p.mu.Lock()
	if id, ok := streampool.CtxStreamId(ctx); p.armed && ok && id == p.sid {
		p.armed, p.fired, act = false, true, p.act
	}
	p.mu.Unlock()
	if act != nil {
		act()
	}
	return p.StreamPool.AddTagsCtx(ctx, tags...)
}

func (p *racePool) arm(sid int, act func()) {
	p.mu.Lock()
	p.armed, p.fired, p.sid, p.act = true, false, uint32(sid), act
	p.mu.Unlock()
}

func (p *racePool) disarm() (fired bool) {
	p.mu.Lock()
	fired = p.fired
	p.armed, p.fired, p.act = false, false, nil
	p.mu.Unlock()
	return
}

const waitLong = 5 * time.Second

func newDriver(c svcCfg) *driver {
	trap := &lookupTrap{}
	d := &driver{mem: &fakeMembership{m: map[string]bool{}, trap: trap}, relay: &fakeRelay{resp: map[string]bool{}, nodes: map[string]bool{}, trap: trap},
		streams: map[int]*fakeStream{}, pooled: map[int]bool{}, nextSid: 1, tagsSeen: map[string][2]string{}, trap: trap}
	for _, r := range c.Resp {
		d.relay.resp[spaceName(r)] = true
	}
	for _, n := range c.Nodes {
		d.relay.nodes[fmt.Sprintf("p%d", n)] = true
	}
	d.svc = pubsub.New(pubsub.Deps{
		Membership: d.mem,
		Relay:      d.relay,
		Config: pubsub.Config{MaxPatternsPerSpace: c.MaxSpace, MaxPatternsPerStream: c.MaxStream,
			PublishRps: 1e-9, PublishBurst: c.Burst, DialQueueWorkers: 1, DialQueueSize: 1000, WriteQueueSize: 1000},
	})
	d.app = new(app.App)
	d.app.Register(accounttest.NewWithAcc(accounts[0].keys)).Register(d.svc)
	if err := d.app.Start(context.Background()); err != nil {
		panic(err)
	}
	d.real = pubsub.VerifPool(d.svc)
	d.race = &racePool{StreamPool: d.real}
	pubsub.VerifSetPool(d.svc, d.race)
	return d
}

// dropFromPool makes the write loop of a pooled stream fail, so that the pool removes the stream (its read loop
// stays alive), and waits until the pool has done so. It does NOT wait for the close hook.
func (d *driver) dropFromPool(s *fakeStream, sid int) error {
	s.sendFail.Store(true)
	deadline := time.Now().Add(waitLong)
	for streampool.VerifStreamHandle(d.real, uint32(sid)) != nil {
		_ = d.real.SendById(context.Background(), badPublish("~ping~x"), fmt.Sprintf("p%d", sid))
		if time.Now().After(deadline) {
			return errHang
		}
		time.Sleep(50 * time.Microsecond)
	}
	return nil
}

// cancelStream ends the context of stream sid — as drpc does when the remote Close packet / a connection drop is
// processed while a frame of that stream is still being handled. The pool's write loop of the stream wakes up on the
// finished context and removes the stream from the pool; wait until it has done so and the close hook has dropped the
// stream's record (letCloseHookRun: decided by the lock state, never by timing). The read loop stays alive (the frames
// already received are still handled), every later handler run of this stream gets an already-finished context.
func (d *driver) cancelStream(sid int) error {
	t0 := time.Now()
	defer slowWait("cancelStream", t0)
	s := d.streams[sid]
	if s == nil {
		return nil
	}
	s.cancel()
	if !d.pooled[sid] {
		return nil
	}
	deadline := time.Now().Add(waitLong)
	for streampool.VerifStreamHandle(d.real, uint32(sid)) != nil {
		if time.Now().After(deadline) {
			return errHang
		}
		time.Sleep(50 * time.Microsecond)
	}
	d.letCloseHookRun(sid)
	d.pooled[sid] = false
	return nil
}

// letCloseHookRun is called from inside a frame handler (at one of its pool calls) after stream sid left the pool.
// If remoteMu is held — by the handler we are inside of — the close hook cannot run before the handler returns and
// there is nothing to wait for; this is decided by the lock state alone, not by timing. If remoteMu is free, the
// hook is running or about to run: wait until it has dropped the stream's record.
func (d *driver) letCloseHookRun(sid int) {
	t0 := time.Now()
	defer slowWait("letCloseHookRun", t0)
	deadline := time.Now().Add(3 * time.Second)
	lockedRuns := 0
	for time.Now().Before(deadline) {
		locked, has := pubsub.VerifTryStreamRecord(d.svc, uint32(sid))
		switch {
		case locked:
			// held by the handler we are inside of (for its whole duration), or for a moment by the hook itself
			if lockedRuns++; lockedRuns >= 3 {
				return
			}
			runtime.Gosched()
			continue
		case !has:
			return
		}
		lockedRuns = 0
		time.Sleep(100 * time.Microsecond)
	}
}

// awaitNoRecord waits until the close hook of a removed stream has dropped its record
func (d *driver) awaitNoRecord(sid int) {
	t0 := time.Now()
	defer slowWait("awaitNoRecord", t0)
	deadline := time.Now().Add(waitLong)
	for time.Now().Before(deadline) {
		_, strs := pubsub.VerifServing(d.svc)
		still := false
		for _, v := range strs {
			if int(v.StreamId) == sid {
				still = true
			}
		}
		if !still {
			return
		}
		time.Sleep(50 * time.Microsecond)
	}
}

func (d *driver) shutdown() {
	for sid, s := range d.streams {
		select {
		case <-s.closeCh:
		default:
			close(s.closeCh)
		}
		select {
		case <-s.done:
		case <-time.After(waitLong):
		}
		s.cancel()
		delete(d.streams, sid)
	}
	ctx, cancel := context.WithTimeout(context.Background(), waitLong)
	defer cancel()
	_ = d.app.Close(ctx)
}

var errHang = errors.New("hang")

// slowWait reports (development aid, C17_TIMING=1 only) a wait of the driver that took unusually long
func slowWait(what string, t0 time.Time) {
	if dt := time.Since(t0); dt > 300*time.Millisecond && os.Getenv("C17_TIMING") != "" {
		fmt.Fprintf(os.Stderr, "c17: slow wait %s %.2fs\n", what, dt.Seconds())
	}
}

func (d *driver) open(acct int) (int, error) {
	sid := d.nextSid
	d.nextSid++
	ctx, cancel := context.WithCancel(peer.CtxWithPeerId(peer.CtxWithIdentity(context.Background(), accounts[acct].identity), fmt.Sprintf("p%d", sid)))
	s := &fakeStream{ctx: ctx, cancel: cancel, in: make(chan *pubsubproto.PubSubMessage), ready: make(chan struct{}),
		closeCh: make(chan struct{}), done: make(chan struct{})}
	d.streams[sid] = s
	d.pooled[sid] = true
	go func() {
		_ = d.svc.HandleStream(s)
		close(s.done)
	}()
	select {
	case <-s.ready:
	case <-time.After(waitLong):
		return sid, errHang
	}
	return sid, nil
}

// feed delivers one frame to the read loop of stream sid and waits until its handler has returned
func (d *driver) feed(sid int, m *pubsubproto.PubSubMessage) error {
	s := d.streams[sid]
	if s == nil {
		return nil
	}
	select {
	case s.in <- m:
	case <-time.After(waitLong):
		return errHang
	}
	select {
	case <-s.ready:
	case <-time.After(waitLong):
		return errHang
	}
	return nil
}

func badPublish(topic string) *pubsubproto.PubSubMessage {
	return &pubsubproto.PubSubMessage{Content: &pubsubproto.PubSubMessage_Publish{Publish: &pubsubproto.Publish{
		SpaceId: "ping", Topic: topic, MsgId: []byte{1}}}}
}

// flush makes every pooled stream echo a marker Status, so that everything written before is visible
func (d *driver) flush() error {
	for sid, s := range d.streams {
		if !d.pooled[sid] {
			continue
		}
		d.pingN++
		marker := fmt.Sprintf("~ping~%d", d.pingN)
		if err := d.feed(sid, badPublish(marker)); err != nil {
			return err
		}
		deadline := time.Now().Add(waitLong)
		for {
			found := false
			s.mu.Lock()
			for _, m := range s.sent {
				if st := m.GetStatus(); st != nil && len(st.Topics) == 1 && st.Topics[0] == marker {
					found = true
				}
			}
			s.mu.Unlock()
			if found {
				break
			}
			if time.Now().After(deadline) {
				return errHang
			}
			time.Sleep(20 * time.Microsecond)
		}
	}
	// barrier through the single-worker dial queue: all forwards enqueued before have run
	ch := make(chan struct{})
	if err := pubsub.VerifPool(d.svc).Send(context.Background(), &pubsubproto.PubSubMessage{}, func(context.Context) ([]peer.Peer, error) {
		close(ch)
		return nil, nil
	}); err != nil {
		return err
	}
	select {
	case <-ch:
	case <-time.After(waitLong):
		return errHang
	}
	return nil
}

// collect returns, per stream, the frames received since the last call (markers dropped)
func (d *driver) collect() map[int][]*pubsubproto.PubSubMessage {
	res := map[int][]*pubsubproto.PubSubMessage{}
	for sid, s := range d.streams {
		s.mu.Lock()
		for _, m := range s.sent[s.seen:] {
			if st := m.GetStatus(); st != nil && len(st.Topics) == 1 && strings.HasPrefix(st.Topics[0], "~ping~") {
				continue
			}
			res[sid] = append(res[sid], m)
		}
		s.seen = len(s.sent)
		s.mu.Unlock()
	}
	return res
}

func tagTerm(space int, p string) string { return vlib.Pair(vlib.N(uint64(space)), strTerm(p)) }

func (d *driver) snapshot(nSpaces int) string {
	spaces, streams := pubsub.VerifServing(d.svc)
	var rt, st, pt []string
	spIdx := func(name string) int {
		var i int
		if _, err := fmt.Sscanf(name, "s%d", &i); err != nil {
			return 999
		}
		return i
	}
	acctIdx := func(name string) int {
		for i, a := range accounts {
			if a.name == name {
				return i
			}
		}
		return 999
	}
	for _, sp := range spaces {
		rt = append(rt, vlib.Pair(vlib.N(uint64(spIdx(sp.SpaceId))), vlib.Pair(vlib.N(uint64(sp.TrieLen)), vlib.Bool(sp.TrieEmpty))))
	}
	for _, s := range streams {
		var by []string
		keys := make([]string, 0, len(s.BySpace))
		for k := range s.BySpace {
			keys = append(keys, k)
		}
		sort.Strings(keys)
		for _, k := range keys {
			by = append(by, vlib.Pair(vlib.N(uint64(spIdx(k))), strsTerm(s.BySpace[k])))
		}
		st = append(st, vlib.Pair(vlib.N(uint64(s.StreamId)),
			"("+vlib.N(uint64(acctIdx(s.Account)))+", "+vlib.N(uint64(s.Total))+", "+vlib.List(by)+")"))
	}
	// pool tags: for every tag ever requested in this history, which pooled streams carry it
	pool := pubsub.VerifPool(d.svc)
	perStream := map[int][]string{}
	tagKeys := make([]string, 0, len(d.tagsSeen))
	for t := range d.tagsSeen {
		tagKeys = append(tagKeys, t)
	}
	sort.Strings(tagKeys)
	for _, t := range tagKeys {
		sp := d.tagsSeen[t]
		for _, ds := range pool.Streams(t) {
			for sid, fs := range d.streams {
				if drpc.Stream(fs) == ds {
					perStream[sid] = append(perStream[sid], tagTerm(spIdx(sp[0]), sp[1]))
				}
			}
		}
	}
	sids := make([]int, 0)
	for sid := range d.streams {
		if d.pooled[sid] {
			sids = append(sids, sid)
		}
	}
	sort.Ints(sids)
	for _, sid := range sids {
		pt = append(pt, vlib.Pair(vlib.N(uint64(sid)), vlib.List(perStream[sid])))
	}
	return vlib.App("OSnap", vlib.List(rt), vlib.List(st), vlib.List(pt))
}

func (g *gen) svcCase(h svcHist) {
	ensureAccounts(h.Cfg.Accounts)
	d := newDriver(h.Cfg)
	defer d.shutdown()
	caseIdx := g.w.Count()
	var evT, obT []string
	subAccepted, delivered := false, false
	hang := func(what string) {
		g.w.Violation(caseIdx, "C17-service-hang", "real pubsub service did not respond within 5s during "+what, h)
	}
	for _, e := range h.Evs {
		space := spaceName(e.Space)
		pats := make([]string, len(e.Pats))
		for i, p := range e.Pats {
			pats[i] = expandNames(p)
		}
		topic := expandNames(e.Topic)
		g.w.Stat("svc.ev." + e.K)
		switch e.K {
		case "open":
			sid, err := d.open(e.Acct)
			if err != nil {
				hang("open")
				return
			}
			evT = append(evT, vlib.App("EOpen", vlib.N(uint64(sid)), vlib.N(uint64(e.Acct))))
			obT = append(obT, "ONone")
		case "sub", "unsub":
			for _, p := range pats {
				d.tagsSeen[pubsub.VerifInterestTag(space, p)] = [2]string{space, p}
			}
			var m *pubsubproto.PubSubMessage
			if e.K == "sub" {
				m = &pubsubproto.PubSubMessage{Content: &pubsubproto.PubSubMessage_Subscribe{Subscribe: &pubsubproto.Subscribe{SpaceId: space, Topics: pats}}}
			} else {
				m = &pubsubproto.PubSubMessage{Content: &pubsubproto.PubSubMessage_Unsubscribe{Unsubscribe: &pubsubproto.Unsubscribe{SpaceId: space, Topics: pats}}}
			}
			if d.feed(e.Sid, m) != nil || d.flush() != nil {
				hang(e.K)
				return
			}
			got := d.collect()
			ob := "ONone"
			for sid, ms := range got {
				for _, x := range ms {
					if st := x.GetStatus(); st != nil && sid == e.Sid {
						ob = vlib.App("OStatus", vlib.N(uint64(st.Code)), strsTerm(st.Topics))
						g.w.Stat(fmt.Sprintf("svc.sub.status.%s", st.Code.String()))
					} else {
						// anything else written on a (un)subscribe is unexpected
						ob = vlib.App("OStatus", "999", "[]")
					}
				}
			}
			if e.K == "sub" {
				evT = append(evT, vlib.App("ESub", vlib.N(uint64(e.Sid)), vlib.N(uint64(e.Space)), strsTerm(pats)))
				if ob == "ONone" && len(pats) > 0 {
					subAccepted = true
					g.w.Stat("svc.sub.accepted")
				}
			} else {
				evT = append(evT, vlib.App("EUnsub", vlib.N(uint64(e.Sid)), vlib.N(uint64(e.Space)), strsTerm(pats)))
			}
			obT = append(obT, ob)
		case "pub", "pubmid":
			// "pubmid": the publisher's stream context ends while this frame — already read — is being handled: at the
			// first lookup the handler makes on the publisher's behalf (CheckMember / IsResponsibleNode), or right after
			// the handler if it makes none. The stream leaves the pool (close hook included), its read loop stays.
			p := &pubsubproto.Publish{SpaceId: space, Topic: topic, MsgId: make([]byte, 16), Payload: []byte("x"),
				Signature: []byte("sig"), TimestampMilli: 1, Relayed: e.Rel}
			if e.Bad {
				p.MsgId = []byte{1, 2, 3}
			}
			if e.Claim > 0 && e.Claim-1 < len(accounts) {
				p.Identity = accounts[e.Claim-1].identity
			}
			before := d.relay.forwards.Load()
			var goneErr error
			if e.K == "pubmid" {
				sid := e.Sid
				d.trap.arm(sid, func() { goneErr = d.cancelStream(sid) })
			}
			ferr := d.feed(e.Sid, &pubsubproto.PubSubMessage{Content: &pubsubproto.PubSubMessage_Publish{Publish: p}})
			if e.K == "pubmid" {
				if d.trap.disarm() {
					g.w.Stat("svc.pubmid.at_lookup")
				} else if ferr == nil {
					g.w.Stat("svc.pubmid.after_handler")
					// a Status reply already queued for the publisher is written before its stream goes away
					if d.streams[e.Sid] != nil && d.pooled[e.Sid] && d.flush() != nil {
						hang("pubmid flush")
						return
					}
					goneErr = d.cancelStream(e.Sid)
				}
			}
			if ferr != nil || goneErr != nil || d.flush() != nil {
				hang(e.K)
				return
			}
			got := d.collect()
			var deliv []uint64
			status := "None"
			for sid, ms := range got {
				for _, x := range ms {
					switch {
					case x.GetPublish() != nil:
						deliv = append(deliv, uint64(sid))
					case x.GetStatus() != nil && sid == e.Sid:
						status = vlib.Some(vlib.N(uint64(x.GetStatus().Code)))
						g.w.Stat(fmt.Sprintf("svc.pub.status.%s", x.GetStatus().Code.String()))
					default:
						deliv = append(deliv, 999)
					}
				}
			}
			sort.Slice(deliv, func(i, j int) bool { return deliv[i] < deliv[j] })
			fw := d.relay.forwards.Load() - before
			if fw > 1 {
				g.w.Violation(caseIdx, "C17-forwarded-twice", fmt.Sprintf("one publish forwarded %d times", fw), h)
			}
			if _, alive := d.streams[e.Sid]; !alive {
				obT = append(obT, "ONone")
			} else {
				obT = append(obT, vlib.App("OPub", vlib.NList(deliv), status, vlib.Bool(fw > 0)))
			}
			if len(deliv) > 0 {
				delivered = true
				g.w.Stat("svc.pub.delivered")
				if e.K == "pubmid" {
					g.w.Stat("svc.pubmid.delivered")
				}
			} else {
				g.w.Stat("svc.pub.not_delivered")
			}
			ctor := "EPub"
			if e.K == "pubmid" {
				ctor = "EPubMid"
			}
			evT = append(evT, vlib.App(ctor, vlib.N(uint64(e.Sid)), vlib.N(uint64(e.Space)), strTerm(topic),
				vlib.N(uint64(e.Claim)), vlib.Bool(e.Rel), vlib.Bool(!e.Bad)))
		case "close":
			if s := d.streams[e.Sid]; s != nil {
				close(s.closeCh)
				select {
				case <-s.done:
				case <-time.After(waitLong):
					hang("close")
					return
				}
				delete(d.streams, e.Sid)
				delete(d.pooled, e.Sid)
			}
			evT = append(evT, vlib.App("EClose", vlib.N(uint64(e.Sid))))
			obT = append(obT, "ONone")
		case "break":
			if s := d.streams[e.Sid]; s != nil && e.Ctx {
				// the stream context ends: the write loop notices and removes the stream; later frames of this
				// stream are handled with a finished context
				g.w.Stat("svc.break.ctx")
				if d.cancelStream(e.Sid) != nil {
					hang("break (stream with a finished context never left the pool)")
					return
				}
				d.awaitNoRecord(e.Sid)
			} else if s != nil && d.pooled[e.Sid] {
				// wait until the pool has dropped the stream and the close hook has run
				if d.dropFromPool(s, e.Sid) != nil {
					hang("break (stream never left the pool)")
					return
				}
				d.awaitNoRecord(e.Sid)
				d.pooled[e.Sid] = false
			}
			evT = append(evT, vlib.App("EBreak", vlib.N(uint64(e.Sid))))
			obT = append(obT, "ONone")
		case "submid":
			// Subscribe on e.Sid; stream e.V leaves the pool when the handler calls AddTagsCtx (after the interest was
			// recorded), or right after the handler if it makes no such call
			for _, p := range pats {
				d.tagsSeen[pubsub.VerifInterestTag(space, p)] = [2]string{space, p}
			}
			victim := d.streams[e.V]
			victimPooled := victim != nil && d.pooled[e.V]
			var dropErr error
			d.race.arm(e.Sid, func() {
				if victimPooled {
					if dropErr = d.dropFromPool(victim, e.V); dropErr == nil {
						d.letCloseHookRun(e.V)
					}
				}
			})
			m := &pubsubproto.PubSubMessage{Content: &pubsubproto.PubSubMessage_Subscribe{Subscribe: &pubsubproto.Subscribe{SpaceId: space, Topics: pats}}}
			ferr := d.feed(e.Sid, m)
			fired := d.race.disarm()
			if ferr != nil || dropErr != nil {
				hang("submid")
				return
			}
			if fired {
				g.w.Stat("svc.submid.fired")
				if victimPooled {
					d.awaitNoRecord(e.V)
					d.pooled[e.V] = false
				}
			} else {
				g.w.Stat("svc.submid.not_fired")
			}
			if d.flush() != nil {
				hang("submid flush")
				return
			}
			ob := "ONone"
			for sid, ms := range d.collect() {
				for _, x := range ms {
					if st := x.GetStatus(); st != nil && sid == e.Sid {
						ob = vlib.App("OStatus", vlib.N(uint64(st.Code)), strsTerm(st.Topics))
					} else {
						ob = vlib.App("OStatus", "999", "[]")
					}
				}
			}
			if !fired && victimPooled {
				if d.dropFromPool(victim, e.V) != nil {
					hang("submid (stream never left the pool)")
					return
				}
				d.awaitNoRecord(e.V)
				d.pooled[e.V] = false
			}
			evT = append(evT, vlib.App("ESubMid", vlib.N(uint64(e.Sid)), vlib.N(uint64(e.V)), vlib.N(uint64(e.Space)), strsTerm(pats)))
			obT = append(obT, ob)
		case "evict":
			d.svc.EvictMember(space, accounts[e.Acct].keys.SignKey.GetPublic())
			evT = append(evT, vlib.App("EEvict", vlib.N(uint64(e.Space)), vlib.N(uint64(e.Acct))))
			obT = append(obT, "ONone")
		case "revalidate":
			d.svc.RevalidateMembers(space, func(a string) bool { return d.mem.is(space, a) })
			evT = append(evT, vlib.App("ERevalidate", vlib.N(uint64(e.Space))))
			obT = append(obT, "ONone")
		case "closespace":
			d.svc.CloseSpace(space)
			evT = append(evT, vlib.App("ECloseSpace", vlib.N(uint64(e.Space))))
			obT = append(obT, "ONone")
		case "setmember":
			d.mem.set(space, accounts[e.Acct].name, e.B)
			evT = append(evT, vlib.App("ESetMember", vlib.N(uint64(e.Space)), vlib.N(uint64(e.Acct)), vlib.Bool(e.B)))
			obT = append(obT, "ONone")
		case "snap":
			evT = append(evT, "ESnap")
			obT = append(obT, d.snapshot(3))
		default:
			panic("unknown service event " + e.K)
		}
	}
	names := make([]string, h.Cfg.Accounts)
	for i := range names {
		names[i] = strTerm(accounts[i].name)
	}
	toN := func(l []int) string {
		u := make([]uint64, len(l))
		for i, x := range l {
			u[i] = uint64(x)
		}
		return vlib.NList(u)
	}
	cfgT := vlib.App("mkCfg", vlib.N(uint64(h.Cfg.MaxSpace)), vlib.N(uint64(h.Cfg.MaxStream)), vlib.N(uint64(h.Cfg.Burst)),
		toN(h.Cfg.Resp), toN(h.Cfg.Nodes), vlib.List(names))
	term := vlib.App("CSvc", cfgT, vlib.List(evT), vlib.List(obT))
	var info strings.Builder
	for i, e := range h.Evs {
		if i >= 14 {
			fmt.Fprintf(&info, " …(%d events)", len(h.Evs))
			break
		}
		fmt.Fprintf(&info, "%s ", e.K)
	}
	dsc := desc{Kind: "svc", Info: info.String(), Data: mustJSON(h)}
	key, _ := json.Marshal(h.Evs)
	g.w.Add(term, dsc, "s:"+string(key), subAccepted && delivered)
	g.w.Stat("svc.histories")
	g.sample("svc", dsc)
}

// ------------------------------------------------------------------ generator

func (g *gen) genService(r *vlib.Rand, thorough bool, budget int) {
	n := 300 * budget
	if thorough {
		n = 8000 * budget
	}
	ensureAccounts(3)
	goodPats := []string{"a", "a/*", "a/>", "*", ">", "a/b", "*/b", "b/c", "acc/x/@0", "acc/>", "acc/*/@1"}
	badPats := []string{"a//b", ">/a", "", "a*"}
	topics := []string{"a", "a/b", "a/c", "b", "b/c", "a/b/c", "acc/x/@0", "acc/x/@1", "acc/y/@1", "acc/@2"}
	badTopics := []string{"a/*", "", "a//b", ">"}
	for i := 0; i < n; i++ {
		rr := r.Fork(uint64(i))
		c := svcCfg{MaxSpace: []int{2, 3, 100}[rr.Intn(3)], MaxStream: []int{3, 5, 1000}[rr.Intn(3)],
			Burst: []int{2, 1000, 1000}[rr.Intn(3)], Resp: []int{0, 1}, Accounts: 3}
		nStreams := 2 + rr.Intn(3)
		var evs []svcEv
		acctOf := map[int]int{}
		for s := 1; s <= nStreams; s++ {
			a := rr.Intn(3)
			acctOf[s] = a
			evs = append(evs, svcEv{K: "open", Acct: a})
		}
		if rr.Chance(1, 2) {
			c.Nodes = []int{nStreams}
		}
		for a := 0; a < 3; a++ {
			for sp := 0; sp < 2; sp++ {
				if rr.Chance(4, 5) {
					evs = append(evs, svcEv{K: "setmember", Space: sp, Acct: a, B: true})
				}
			}
		}
		pick := func(l []string) string { return l[rr.Intn(len(l))] }
		space := func() int {
			if rr.Chance(1, 12) {
				return 2 // not responsible
			}
			return rr.Intn(2)
		}
		live := map[int]bool{}
		for s := 1; s <= nStreams; s++ {
			live[s] = true
		}
		anySid := func() int { return 1 + rr.Intn(nStreams) }
		nEv := 8 + rr.Intn(28)
		for k := 0; k < nEv; k++ {
			switch x := rr.Intn(100); {
			case x < 30:
				np := rr.Intn(4) // 0 patterns included
				if rr.Chance(1, 6) {
					np = 3 + rr.Intn(4)
				}
				var ps []string
				for j := 0; j < np; j++ {
					if rr.Chance(1, 15) {
						ps = append(ps, pick(badPats))
					} else {
						ps = append(ps, pick(goodPats))
					}
				}
				evs = append(evs, svcEv{K: "sub", Sid: anySid(), Space: space(), Pats: ps})
			case x < 42:
				var ps []string
				for j := rr.Intn(3); j > 0; j-- {
					ps = append(ps, pick(goodPats))
				}
				evs = append(evs, svcEv{K: "unsub", Sid: anySid(), Space: space(), Pats: ps})
			case x < 75:
				sid := anySid()
				e := svcEv{K: "pub", Sid: sid, Space: space(), Topic: pick(topics), Claim: acctOf[sid] + 1}
				switch y := rr.Intn(20); {
				case y == 0:
					e.Topic = pick(badTopics)
				case y == 1:
					e.Claim = 0
				case y == 2:
					e.Claim = (acctOf[sid]+1)%3 + 1 // someone else's identity
				case y == 3:
					e.Bad = true
				case y < 7:
					e.Rel = true
					if len(c.Nodes) > 0 && rr.Chance(2, 3) {
						e.Sid = c.Nodes[0]
						e.Claim = acctOf[e.Sid] + 1
					}
				case y < 10:
					e.Topic = fmt.Sprintf("acc/x/@%d", acctOf[sid]) // own namespace
				}
				if rr.Chance(1, 8) {
					e.K = "pubmid" // the publisher's stream goes away while the frame is handled
				}
				evs = append(evs, e)
			case x < 79:
				evs = append(evs, svcEv{K: "close", Sid: anySid()})
			case x < 82:
				evs = append(evs, svcEv{K: "break", Sid: anySid(), Ctx: rr.Chance(1, 2)})
			case x < 86:
				a := rr.Intn(3)
				sp := rr.Intn(2)
				evs = append(evs, svcEv{K: "setmember", Space: sp, Acct: a, B: false}, svcEv{K: "evict", Space: sp, Acct: a})
			case x < 89:
				a := rr.Intn(3)
				sp := rr.Intn(2)
				evs = append(evs, svcEv{K: "setmember", Space: sp, Acct: a, B: rr.Chance(1, 2)}, svcEv{K: "revalidate", Space: sp})
			case x < 91:
				evs = append(evs, svcEv{K: "closespace", Space: rr.Intn(2)})
			case x < 94:
				evs = append(evs, svcEv{K: "setmember", Space: rr.Intn(2), Acct: rr.Intn(3), B: true})
			case x < 97:
				// a Subscribe during which a stream (mostly the subscribing one) leaves the pool
				sid := anySid()
				v := sid
				if rr.Chance(1, 3) {
					v = anySid()
				}
				var ps []string
				for j := 1 + rr.Intn(3); j > 0; j-- {
					ps = append(ps, pick(goodPats))
				}
				evs = append(evs, svcEv{K: "submid", Sid: sid, V: v, Space: space(), Pats: ps})
			default:
				evs = append(evs, svcEv{K: "snap"})
			}
		}
		// teardown: every stream's interest is withdrawn in one of the four ways, in random order
		evs = append(evs, svcEv{K: "snap"})
		for _, idx := range rr.Perm(nStreams) {
			sid := idx + 1
			switch rr.Intn(4) {
			case 0:
				for sp := 0; sp < 3; sp++ {
					evs = append(evs, svcEv{K: "unsub", Sid: sid, Space: sp})
				}
			case 1:
				evs = append(evs, svcEv{K: "close", Sid: sid})
			case 2:
				for sp := 0; sp < 3; sp++ {
					evs = append(evs, svcEv{K: "evict", Space: sp, Acct: acctOf[sid]})
				}
			default:
				for sp := 0; sp < 3; sp++ {
					evs = append(evs, svcEv{K: "closespace", Space: sp})
				}
			}
		}
		evs = append(evs, svcEv{K: "snap"}, svcEv{K: "pub", Sid: 1, Space: 0, Topic: "a/b", Claim: acctOf[1] + 1})
		g.svcCase(svcHist{Cfg: c, Evs: evs})
	}
}

func (g *gen) genReceive(r *vlib.Rand, thorough bool, budget int) {}

// genServiceNoSideEffects: a publish rejected by ingress check k must not use up a rate-limit token (PublishBurst = 2):
// k rejected frames of one kind from a peer, interleaved with its two accepted publishes (both must be delivered and
// forwarded), then a third accepted-looking one (rate limited); a rejected Subscribe in between must not register anything.
func (g *gen) genServiceNoSideEffects(r *vlib.Rand, thorough bool, budget int) {
	ensureAccounts(3)
	rounds := budget
	if thorough {
		rounds = 10 * budget
	}
	type rej struct {
		name string
		mk   func() svcEv
	}
	good := func() svcEv { return svcEv{K: "pub", Sid: 2, Space: 0, Topic: "a/b", Claim: 2} }
	kinds := []rej{
		{"bad_topic", func() svcEv { e := good(); e.Topic = "a//b"; return e }},
		{"empty_identity", func() svcEv { e := good(); e.Claim = 0; return e }},
		{"foreign_identity", func() svcEv { e := good(); e.Claim = 1; return e }},
		{"malformed", func() svcEv { e := good(); e.Bad = true; return e }},
		{"not_responsible", func() svcEv { e := good(); e.Space = 2; return e }},
		{"not_owner", func() svcEv { e := good(); e.Topic = "acc/x/@0"; return e }},
		{"not_member", func() svcEv { e := good(); e.Space = 1; return e }},
		{"relayed_by_non_node", func() svcEv { e := good(); e.Rel = true; return e }},
	}
	for round := 0; round < rounds; round++ {
		rr := r.Fork(uint64(round))
		for _, kd := range kinds {
			for variant := 0; variant < 2; variant++ {
				c := svcCfg{MaxSpace: 100, MaxStream: 1000, Burst: 2, Resp: []int{0, 1}, Nodes: []int{3}, Accounts: 3}
				evs := []svcEv{{K: "open", Acct: 0}, {K: "open", Acct: 1}, {K: "open", Acct: 2},
					{K: "setmember", Space: 0, Acct: 0, B: true}, {K: "setmember", Space: 0, Acct: 1, B: true},
					{K: "setmember", Space: 1, Acct: 0, B: true},
					{K: "sub", Sid: 1, Space: 0, Pats: []string{">"}}, {K: "sub", Sid: 1, Space: 1, Pats: []string{">"}}}
				nrej := func() {
					for k := 1 + rr.Intn(3); k > 0; k-- {
						evs = append(evs, kd.mk())
					}
				}
				nrej()
				evs = append(evs, good())
				if variant == 1 {
					nrej()
					evs = append(evs, svcEv{K: "sub", Sid: 2, Space: 1, Pats: []string{"a/>"}}, // not a member of space 1: rejected
						svcEv{K: "sub", Sid: 2, Space: 0, Pats: []string{"a//b"}}) // invalid pattern: rejected
				}
				evs = append(evs, good())
				nrej()
				evs = append(evs, good(), svcEv{K: "snap"})
				g.w.Stat("svc.noeffect." + kd.name)
				g.svcCase(svcHist{Cfg: c, Evs: evs})
			}
		}
	}
}

// genServiceCloseRace: a stream leaves the pool while a Subscribe handler sits between the recording of the interest and
// pool.AddTagsCtx (event "submid"), in situations where the bookkeeping of OTHER streams is at stake: other streams hold
// the same patterns (1-3 holders), the racing stream has earlier interest of its own (same space / other space / the same
// pattern already), the Subscribe mixes new, duplicate and over-the-cap patterns, the stream that leaves is the subscriber
// itself or one of the holders, the race is repeated on fresh streams. After every race: publishes on matching and
// non-matching topics and a snapshot (delivery and the three views must be those of "Subscribe, then removal"); the
// holders re-subscribe / unsubscribe; then the holders withdraw one at a time with the same probes after each (a wrong
// trie refcount only shows once the other holders are gone); the final snapshot must be empty.
func (g *gen) genServiceCloseRace(r *vlib.Rand, thorough bool, budget int) {
	ensureAccounts(3)
	n := 36 * budget
	if thorough {
		n = 600 * budget
	}
	patSets := [][]string{{"a/>"}, {"a/*"}, {">"}, {"a/b"}, {"a/>", "b/c"}, {"*/b", "a/*"}, {"a/>", "a/*", ">"}, {"b/c"}}
	topics := []string{"a/b", "a/c", "b/c", "a", "a/b/c"}
	for i := 0; i < n; i++ {
		rr := r.Fork(uint64(i))
		c := svcCfg{MaxSpace: []int{100, 100, 3, 2}[rr.Intn(4)], MaxStream: []int{1000, 1000, 4}[rr.Intn(3)], Burst: 1000,
			Resp: []int{0, 1}, Accounts: 3}
		var evs []svcEv
		nOpen := 0
		acctOf := map[int]int{}
		open := func() int {
			nOpen++
			acctOf[nOpen] = rr.Intn(3)
			evs = append(evs, svcEv{K: "open", Acct: acctOf[nOpen]})
			return nOpen
		}
		for a := 0; a < 3; a++ {
			for sp := 0; sp < 2; sp++ {
				evs = append(evs, svcEv{K: "setmember", Space: sp, Acct: a, B: true})
			}
		}
		publisher := open()
		nHold := 1 + rr.Intn(3)
		var holders []int
		for h := 0; h < nHold; h++ {
			holders = append(holders, open())
		}
		shared := patSets[rr.Intn(len(patSets))]
		for _, h := range holders {
			ps := shared
			if rr.Chance(1, 4) {
				ps = append(append([]string{}, shared...), patSets[rr.Intn(len(patSets))]...)
			}
			evs = append(evs, svcEv{K: "sub", Sid: h, Space: 0, Pats: ps})
			if rr.Chance(1, 3) {
				evs = append(evs, svcEv{K: "sub", Sid: h, Space: 1, Pats: shared})
			}
		}
		probe := func() {
			for _, tp := range topics {
				if rr.Chance(2, 3) {
					evs = append(evs, svcEv{K: "pub", Sid: publisher, Space: 0, Topic: tp, Claim: acctOf[publisher] + 1})
				}
			}
			if rr.Chance(1, 3) {
				evs = append(evs, svcEv{K: "pub", Sid: publisher, Space: 1, Topic: topics[rr.Intn(len(topics))], Claim: acctOf[publisher] + 1})
			}
			evs = append(evs, svcEv{K: "snap"})
		}
		probe()
		races := 1 + rr.Intn(3)
		for k := 0; k < races; k++ {
			racer := open()
			switch rr.Intn(4) { // earlier interest of the racing stream
			case 0:
				evs = append(evs, svcEv{K: "sub", Sid: racer, Space: 0, Pats: []string{"b/c"}})
			case 1:
				evs = append(evs, svcEv{K: "sub", Sid: racer, Space: 1, Pats: shared})
			case 2:
				evs = append(evs, svcEv{K: "sub", Sid: racer, Space: 0, Pats: shared[:1]})
			}
			ps := append([]string{}, shared...)
			if rr.Chance(1, 3) {
				ps = append(ps, "x/y", "x/*")
			}
			if rr.Chance(1, 4) {
				ps = append([]string{"b/c"}, ps...)
			}
			v := racer
			switch rr.Intn(6) {
			case 0:
				v = holders[rr.Intn(len(holders))] // a holder leaves while the racer subscribes
			case 1:
				evs = append(evs, svcEv{K: "break", Sid: racer}) // already out of the pool, read loop alive
			}
			evs = append(evs, svcEv{K: "submid", Sid: racer, V: v, Space: 0, Pats: ps})
			probe()
			switch rr.Intn(4) {
			case 0: // the periodic re-subscribe of a holder
				evs = append(evs, svcEv{K: "sub", Sid: holders[rr.Intn(len(holders))], Space: 0, Pats: shared})
				probe()
			case 1:
				evs = append(evs, svcEv{K: "unsub", Sid: holders[rr.Intn(len(holders))], Space: 0, Pats: shared[:1]})
				probe()
			case 2: // the racing stream tries again although it is out of the pool, then goes away
				evs = append(evs, svcEv{K: "sub", Sid: racer, Space: 0, Pats: shared}, svcEv{K: "close", Sid: racer})
				probe()
			}
		}
		// the holders withdraw one at a time, with publishes and a snapshot after each: a trie reference lost (or kept) in
		// a race shows as soon as the remaining holders are not served (or a withdrawn pattern still is)
		for _, idx := range rr.Perm(len(holders)) {
			h := holders[idx]
			switch rr.Intn(4) {
			case 0:
				evs = append(evs, svcEv{K: "unsub", Sid: h, Space: 0}, svcEv{K: "unsub", Sid: h, Space: 1})
			case 1:
				evs = append(evs, svcEv{K: "close", Sid: h})
			case 2:
				evs = append(evs, svcEv{K: "unsub", Sid: h, Space: 0, Pats: shared})
			default:
				evs = append(evs, svcEv{K: "break", Sid: h})
			}
			probe()
		}
		for s := 1; s <= nOpen; s++ {
			if rr.Chance(1, 2) {
				evs = append(evs, svcEv{K: "close", Sid: s})
			}
		}
		evs = append(evs, svcEv{K: "closespace", Space: 0}, svcEv{K: "closespace", Space: 1}, svcEv{K: "snap"},
			svcEv{K: "pub", Sid: publisher, Space: 0, Topic: "a/b", Claim: acctOf[publisher] + 1})
		g.w.Stat("svc.closerace.histories")
		g.svcCase(svcHist{Cfg: c, Evs: evs})
	}
}

// genServicePublisherGone: delivery must not depend on the PUBLISHER's stream staying alive once its frame was read.
// 2-4 streams hold patterns (shared sets, two spaces); a publisher — a member with no interest, a member holding the
// matching pattern itself, a responsible node relaying, a stream that already left the pool (write failure or finished
// context) — sends a Publish and goes away while it is handled ("pubmid": its context ends at the first lookup of the
// handler, else right after it); the frame is an accepted one or one rejected by an ingress check (then nobody may get
// it, no token is used, a Status sent before the loss still arrives). After each: publishes of a healthy publisher on
// matching / non-matching topics and a snapshot (the lost publisher is gone from all three views, everybody else is
// served as before); the lost stream publishes AGAIN (read loop alive, context finished, not pooled: still a valid member
// publish) and tries to subscribe (nothing may be registered); finally the holders withdraw, the last snapshot is empty.
func (g *gen) genServicePublisherGone(r *vlib.Rand, thorough bool, budget int) {
	ensureAccounts(3)
	n := 32 * budget
	if thorough {
		n = 600 * budget
	}
	patSets := [][]string{{"a/>"}, {"a/*"}, {">"}, {"a/b"}, {"a/>", "b/c"}, {"*/b", "a/*"}, {"a/>", "a/*", ">"}, {"acc/>"}}
	topics := []string{"a/b", "a/c", "b/c", "a", "a/b/c"}
	for i := 0; i < n; i++ {
		rr := r.Fork(uint64(i))
		c := svcCfg{MaxSpace: 100, MaxStream: 1000, Burst: []int{1000, 1000, 2}[rr.Intn(3)], Resp: []int{0, 1}, Accounts: 3}
		var evs []svcEv
		nOpen := 0
		acctOf := map[int]int{}
		open := func() int {
			nOpen++
			acctOf[nOpen] = rr.Intn(3)
			evs = append(evs, svcEv{K: "open", Acct: acctOf[nOpen]})
			return nOpen
		}
		for a := 0; a < 3; a++ {
			evs = append(evs, svcEv{K: "setmember", Space: 0, Acct: a, B: true})
			if a < 2 {
				evs = append(evs, svcEv{K: "setmember", Space: 1, Acct: a, B: true})
			}
		}
		healthy := open()
		node := open()
		c.Nodes = []int{node}
		nHold := 2 + rr.Intn(3)
		var holders []int
		shared := patSets[rr.Intn(len(patSets))]
		for h := 0; h < nHold; h++ {
			sid := open()
			holders = append(holders, sid)
			ps := shared
			if rr.Chance(1, 3) {
				ps = patSets[rr.Intn(len(patSets))]
			}
			evs = append(evs, svcEv{K: "sub", Sid: sid, Space: 0, Pats: ps})
			if rr.Chance(1, 3) {
				evs = append(evs, svcEv{K: "sub", Sid: sid, Space: 1, Pats: shared})
			}
		}
		probe := func() {
			for _, tp := range topics {
				if rr.Chance(1, 2) {
					evs = append(evs, svcEv{K: "pub", Sid: healthy, Space: 0, Topic: tp, Claim: acctOf[healthy] + 1})
				}
			}
			evs = append(evs, svcEv{K: "snap"})
		}
		pickTopic := func(a int) string {
			if rr.Chance(1, 6) {
				return fmt.Sprintf("acc/x/@%d", a) // own namespace
			}
			return topics[rr.Intn(len(topics))]
		}
		probe()
		rounds := 1 + rr.Intn(3)
		for k := 0; k < rounds; k++ {
			var pubSid int
			rel := false
			switch rr.Intn(6) {
			case 0: // a responsible node relays and its stream goes away
				if k == 0 {
					pubSid, rel = node, true
				} else {
					pubSid = open()
				}
			case 1: // one of the holders publishes (it matches its own publish) and goes away
				pubSid = holders[rr.Intn(len(holders))]
			case 2: // the publisher is subscribed to the pattern as well
				pubSid = open()
				evs = append(evs, svcEv{K: "sub", Sid: pubSid, Space: 0, Pats: shared})
			case 3: // the publisher already left the pool (read loop alive), by a write failure or a finished context
				pubSid = open()
				evs = append(evs, svcEv{K: "break", Sid: pubSid, Ctx: rr.Chance(1, 2)})
			default:
				pubSid = open()
			}
			a := acctOf[pubSid]
			e := svcEv{K: "pubmid", Sid: pubSid, Space: 0, Topic: pickTopic(a), Claim: a + 1, Rel: rel}
			switch rr.Intn(12) { // a frame rejected by one ingress check, with the same loss of the stream
			case 0:
				e.Topic = "a//b"
			case 1:
				e.Claim = (a+1)%3 + 1
			case 2:
				e.Bad = true
			case 3:
				e.Space = 2 // not responsible
			case 4:
				e.Topic = fmt.Sprintf("acc/x/@%d", (a+1)%3) // someone else's namespace
			case 5:
				e.Space = 1 // account 2 is not a member there
			case 6:
				if !rel {
					e.Rel = true // relayed by a stream that is not a node
				}
			}
			if rr.Chance(1, 4) { // an ordinary publish first (uses a token; both must be delivered)
				e0 := e
				e0.K = "pub"
				evs = append(evs, e0)
			}
			evs = append(evs, e)
			probe()
			// the lost stream's read loop is alive: what it sends now is handled with a finished context
			if rr.Chance(2, 3) {
				evs = append(evs, svcEv{K: "pub", Sid: pubSid, Space: 0, Topic: topics[rr.Intn(len(topics))], Claim: a + 1, Rel: rel})
			}
			if rr.Chance(1, 3) {
				evs = append(evs, svcEv{K: "sub", Sid: pubSid, Space: 0, Pats: shared}, svcEv{K: "snap"})
			}
			if rr.Chance(1, 3) {
				evs = append(evs, svcEv{K: "pubmid", Sid: pubSid, Space: 0, Topic: topics[rr.Intn(len(topics))], Claim: a + 1, Rel: rel})
			}
			if rr.Chance(1, 2) {
				evs = append(evs, svcEv{K: "close", Sid: pubSid})
			}
			live := holders[:0:0]
			for _, h := range holders {
				if h != pubSid {
					live = append(live, h)
				}
			}
			holders = live
			if len(holders) == 0 {
				break
			}
		}
		for _, idx := range rr.Perm(len(holders)) {
			h := holders[idx]
			switch rr.Intn(4) {
			case 0:
				evs = append(evs, svcEv{K: "unsub", Sid: h, Space: 0}, svcEv{K: "unsub", Sid: h, Space: 1})
			case 1:
				evs = append(evs, svcEv{K: "close", Sid: h})
			case 2:
				evs = append(evs, svcEv{K: "break", Sid: h, Ctx: true})
			default:
				evs = append(evs, svcEv{K: "pubmid", Sid: h, Space: 0, Topic: topics[rr.Intn(len(topics))], Claim: acctOf[h] + 1})
			}
			probe()
		}
		evs = append(evs, svcEv{K: "closespace", Space: 0}, svcEv{K: "closespace", Space: 1}, svcEv{K: "snap"},
			svcEv{K: "pub", Sid: healthy, Space: 0, Topic: "a/b", Claim: acctOf[healthy] + 1})
		g.w.Stat("svc.pubgone.histories")
		g.svcCase(svcHist{Cfg: c, Evs: evs})
	}
}

func (g *gen) replayMore(d desc) {
	switch d.Kind {
	case "svc":
		var h svcHist
		if err := json.Unmarshal(d.Data, &h); err != nil {
			panic(err)
		}
		g.svcCase(h)
	}
}
