package main

import (
	"encoding/json"
	"fmt"
	"os"
	"path/filepath"
	"sort"
	"strings"

	"github.com/anyproto/any-sync/commonspace/object/tree/objecttree"
	"github.com/anyproto/any-sync/commonspace/spacepayloads"
	"github.com/anyproto/any-sync/util/crypto"

	"verifharness/vlib"
)

func fixedWorkloads() []Workload {
	sc := OpSpec{Kind: "space_create"}
	tc := func(t int) OpSpec { return OpSpec{Kind: "tree_create", Tree: t} }
	df := func(t int) OpSpec { return OpSpec{Kind: "deferred_open", Tree: t} }
	la := func(t int) OpSpec { return OpSpec{Kind: "local_add", Tree: t} }
	sa := func(t int) OpSpec { return OpSpec{Kind: "snapshot_add", Tree: t} }
	ra := func(t, n int) OpSpec { return OpSpec{Kind: "remote_add", Tree: t, N: n} }
	aa := OpSpec{Kind: "acl_add"}
	fork := OpSpec{Kind: "fork"}
	return []Workload{
		{"local", []OpSpec{sc, tc(0), la(0), la(0), sa(0), la(0)}},
		{"remote", []OpSpec{sc, tc(0), la(0), ra(0, 2), {Kind: "remote_add", Tree: 0, N: 1, Two: true}, la(0), {Kind: "remote_add", Tree: 0, Dup: true}}},
		{"remote-snap", []OpSpec{sc, tc(0), la(0), {Kind: "remote_add", Tree: 0, N: 2, Snap: true}, la(0)}},
		{"rebuild", []OpSpec{sc, tc(0), la(0), fork, sa(0), la(0), {Kind: "remote_add", Tree: 0, N: 2, Fork: true}, la(0)}},
		{"deferred-remote", []OpSpec{sc, df(0), ra(0, 2), la(0)}},
		{"deferred-local", []OpSpec{sc, df(0), la(0), la(0)}},
		{"deferred-snap", []OpSpec{sc, df(0), sa(0), ra(0, 1)}},
		{"acl", []OpSpec{sc, aa, aa, tc(0), la(0), aa}},
		{"delete", []OpSpec{sc, tc(0), la(0), {Kind: "mark_deleted", Tree: 0}, {Kind: "delete_tree", Tree: 0}}},
		{"two-trees", []OpSpec{sc, tc(0), tc(1), la(0), la(1), df(2), ra(2, 1), aa, la(1)}},
		{"concurrent", []OpSpec{sc, tc(0), la(0), fork, la(0), {Kind: "remote_add", Tree: 0, N: 1, Fork: true}, la(0)}},
		{"snap-chain", []OpSpec{sc, tc(0), sa(0), sa(0), la(0), ra(0, 3)}},
	}
}

func randomWorkload(r *vlib.Rand, i int) Workload {
	w := Workload{Name: fmt.Sprintf("rand-%d", i), Ops: []OpSpec{{Kind: "space_create"}}}
	state := []int{}
	forked := false
	atFork := map[int]bool{} // trees that were stored when the fork image was taken
	n := 4 + r.Intn(6)
	for len(w.Ops) < n {
		var live, deferred []int
		for s, st := range state {
			if st == slotStored {
				live = append(live, s)
			}
			if st == slotDeferred {
				deferred = append(deferred, s)
			}
		}
		c := r.Intn(12)
		switch {
		case c == 0 || len(state) == 0:
			if len(state) < 3 {
				if r.Bool() {
					state = append(state, slotStored)
					w.Ops = append(w.Ops, OpSpec{Kind: "tree_create", Tree: len(state) - 1})
				} else {
					state = append(state, slotDeferred)
					w.Ops = append(w.Ops, OpSpec{Kind: "deferred_open", Tree: len(state) - 1})
				}
			}
		case c == 1:
			w.Ops = append(w.Ops, OpSpec{Kind: "acl_add"})
		case c == 2 && len(live) > 0 && !forked:
			w.Ops = append(w.Ops, OpSpec{Kind: "fork"})
			forked = true
			atFork = map[int]bool{}
			for _, t := range live {
				atFork[t] = true
			}
		case c == 3 && len(live) > 0:
			t := live[r.Intn(len(live))]
			w.Ops = append(w.Ops, OpSpec{Kind: "mark_deleted", Tree: t}, OpSpec{Kind: "delete_tree", Tree: t})
			state[t] = slotDeleted
			forked = false
		case c <= 6:
			all := append(append([]int{}, live...), deferred...)
			if len(all) > 0 {
				t := all[r.Intn(len(all))]
				k := "local_add"
				if r.Chance(1, 3) {
					k = "snapshot_add"
				}
				w.Ops = append(w.Ops, OpSpec{Kind: k, Tree: t})
				state[t] = slotStored
			}
		default:
			all := append(append([]int{}, live...), deferred...)
			if len(all) > 0 {
				t := all[r.Intn(len(all))]
				op := OpSpec{Kind: "remote_add", Tree: t, N: 1 + r.Intn(3), Snap: r.Chance(1, 4)}
				if state[t] == slotStored {
					op.Two = r.Chance(1, 4)
					if forked && atFork[t] && r.Chance(1, 2) {
						// a replica that stopped at the fork point: concurrent branch, possibly below a newer snapshot
						op.Fork, op.Two = true, false
					}
				}
				w.Ops = append(w.Ops, op)
				state[t] = slotStored
			}
		}
	}
	return w
}

func newWL(spec Workload, root string, idx int) *WL {
	wl := &WL{spec: spec, ids: map[string]int{}, work: filepath.Join(root, fmt.Sprintf("wl%d", idx))}
	must(os.MkdirAll(wl.work, 0o755))
	master, _, err := crypto.GenerateRandomEd25519KeyPair()
	must(err)
	meta, _, err := crypto.GenerateRandomEd25519KeyPair()
	must(err)
	readKey, err := crypto.NewRandomAES()
	must(err)
	wl.payload, err = spacepayloads.StoragePayloadForSpaceCreate(spacepayloads.SpaceCreatePayload{
		SigningKey: theKeys.SignKey, SpaceType: "c10.space", ReplicationKey: 10, SpacePayload: []byte("c10"),
		MasterKey: master, ReadKey: readKey, MetadataKey: meta, Metadata: []byte("meta")})
	must(err)
	wl.spaceId = wl.payload.SpaceHeaderWithId.Id
	wl.base = wl.newDir("base")
	must(os.MkdirAll(wl.base, 0o755))
	// ids 1.. in a fixed order: space, acl, settings
	wl.idn(wl.spaceId)
	wl.idn(wl.payload.AclWithId.Id)
	wl.idn(wl.payload.SpaceSettingsWithId.Id)
	return wl
}

type caseDesc struct {
	Workload Workload `json:"workload"`
	Op       int      `json:"op"`
	Kind     string   `json:"kind"`
	// fault kind explored by this case: "error" (crash images + call k returns an error on a live context) or
	// "cancel" (the operation's context is cancelled immediately before call k; the real store decides)
	FaultKind string      `json:"fault_kind"`
	Ok        bool        `json:"ok"`
	Err       string      `json:"err,omitempty"`
	Calls     []string    `json:"calls"`
	Faults    []faultDesc `json:"faults,omitempty"`
	Tags      []string    `json:"tags,omitempty"`
}

type faultDesc struct {
	Kind     string `json:"fault_kind"`
	K        int    `json:"k"`
	Call     string `json:"call"`
	Err      string `json:"err"`
	Done     bool   `json:"done,omitempty"`     // cancel: the operation completed (the store ignored the dead context)
	CtxDead  bool   `json:"ctx_dead,omitempty"` // cancel: call k was handed a context derived from the cancelled one
	CallErr  string `json:"call_err,omitempty"` // cancel: the real store's answer to call k
	Live     []int  `json:"live_heads"`
	Stored   []int  `json:"stored_heads"`
	RetryOk  bool   `json:"retry_ok"`
	RetryErr string `json:"retry_err,omitempty"`
}

func (wl *WL) nums(ss []string) []int {
	v := make([]int, len(ss))
	for i, s := range ss {
		v[i] = wl.idn(s)
	}
	sort.Ints(v)
	return v
}

func emit(w *vlib.Writer, wl *WL, idx int, op OpSpec, ob *Observation, samples *[]interface{}) {
	p := &printer{wl: wl}
	p.collectOrds(ob)
	// world
	trees := make([]string, len(ob.trees))
	for i, t := range ob.trees {
		d := "None"
		if t.deferred {
			d = "(Some " + p.ord(t.deferOrd) + ")"
		}
		trees[i] = fmt.Sprintf("(%s, mkTL %s %s %s)", p.n(t.id), p.ns(t.heads), p.n(t.root), d)
	}
	acl := make([]string, len(ob.acl))
	for i, a := range ob.acl {
		acl[i] = p.n(a)
	}
	world := fmt.Sprintf("(mkW %s %s %s)", p.table(ob.Pre), vlib.List(trees), vlib.List(acl))
	opT := p.opTerm(op, ob)
	calls := make([]string, len(ob.Calls))
	desc := caseDesc{Workload: wl.spec, Op: idx, Kind: op.Kind, FaultKind: faultError, Ok: ob.Ok, Err: ob.Err}
	var unmodelled []string
	for i, c := range ob.Calls {
		t, un := p.call(c)
		calls[i] = t
		if un != "" {
			unmodelled = append(unmodelled, un)
		}
		desc.Calls = append(desc.Calls, c.Kind)
	}
	images := make([]string, len(ob.Images))
	for i, im := range ob.Images {
		images[i] = p.image(im)
	}
	faults := make([]string, len(ob.Faults))
	for i, f := range ob.Faults {
		faults[i] = fmt.Sprintf("(mkF %s %s %s %s %s %s %s)", vlib.Bool(f.Err != ""), p.ns(f.Live), p.ns(f.Stored),
			p.table(f.Table), vlib.Bool(f.RetryOk), p.ns(f.Live2), p.image(f.Final))
		desc.Faults = append(desc.Faults, faultDesc{Kind: faultError, K: f.K, Call: ob.Calls[f.K-1].Kind, Err: f.Err, Live: wl.nums(f.Live),
			Stored: wl.nums(f.Stored), RetryOk: f.RetryOk, RetryErr: f.RetryErr})
	}
	obs := fmt.Sprintf("(mkObs %s %s %s %s %s %s %s %s)", p.n(ob.Obj), p.table(ob.Pre), vlib.Bool(ob.Ok), vlib.List(calls),
		vlib.List(images), p.table(ob.Post), p.ns(ob.Live), vlib.List(faults))
	term := fmt.Sprintf("(%s\n Case %s %s %s)", strings.Join(p.lets, "\n "), world, opT, obs)
	key := fmt.Sprintf("%s/%d", wl.spec.Name, idx)
	ci := w.Add(term, desc, key, len(ob.Calls) >= 3)
	w.Stat("op:" + op.Kind)
	w.Stat(fmt.Sprintf("calls:%d", len(ob.Calls)))
	w.Stats["images"] += len(ob.Images)
	w.Stats["images_distinct_bytes"] += ob.distinctImages
	w.Stats["faults"] += len(ob.Faults)
	if !ob.Ok {
		w.Stat("rejected:" + op.Kind)
	}
	if ob.add != nil {
		w.Stat("mode:" + map[objecttree.Mode]string{objecttree.Append: "Append", objecttree.Rebuild: "Rebuild", objecttree.Nothing: "Nothing"}[ob.add.Mode])
	}
	for _, un := range unmodelled {
		w.Violation(ci, "unmodelled-call", un, desc)
	}
	if ob.panic != "" {
		w.Violation(ci, "panic", "operation panicked: "+ob.panic, desc)
	}
	for _, f := range ob.Faults {
		if !f.Fired {
			w.Violation(ci, "fault-not-fired", fmt.Sprintf("call %d was not reached in the fault run (non-deterministic call sequence)", f.K), desc)
		}
		if f.Panic != "" {
			w.Violation(ci, "panic", fmt.Sprintf("panic after injected fault at call %d: %s", f.K, f.Panic), desc)
		}
	}
	if len(*samples) < 4 && len(ob.Calls) >= 3 && idx >= 2 {
		*samples = append(*samples, map[string]interface{}{"desc": desc, "op_term": opT})
	}
	if len(ob.Cancels) == 0 {
		return
	}

	// ---- second case of the operation: fault kind "cancel" (same world, same operation, same fault-free
	// observation without the crash images; one entry per boundary)
	cdesc := caseDesc{Workload: wl.spec, Op: idx, Kind: op.Kind, FaultKind: faultCancel, Ok: ob.Ok, Err: ob.Err, Calls: desc.Calls}
	cs := make([]string, len(ob.Cancels))
	for i, f := range ob.Cancels {
		call := ob.Calls[f.K-1].Kind
		if f.Done {
			cs[i] = fmt.Sprintf("(CDone %s %s)", p.ns(f.Live), p.image(f.Final))
		} else {
			cs[i] = fmt.Sprintf("(CErr (mkF %s %s %s %s %s %s %s))", vlib.Bool(f.Err != ""), p.ns(f.Live), p.ns(f.Stored),
				p.table(f.Table), vlib.Bool(f.RetryOk), p.ns(f.Live2), p.image(f.Final))
		}
		cdesc.Faults = append(cdesc.Faults, faultDesc{Kind: faultCancel, K: f.K, Call: call, Err: f.Err, Done: f.Done,
			CtxDead: f.CtxDead, CallErr: f.CallErr, Live: wl.nums(f.Live), Stored: wl.nums(f.Stored), RetryOk: f.RetryOk, RetryErr: f.RetryErr})
		w.Stats["cancels"]++
		switch {
		case f.Done:
			w.Stat("cancel-outcome:completed:" + call)
		default:
			w.Stat("cancel-outcome:failed:" + call)
		}
		if !f.CtxDead {
			w.Stat("cancel-ctx-not-propagated:" + op.Kind)
		}
	}
	cobs := fmt.Sprintf("(mkObs %s %s %s %s [] %s %s [])", p.n(ob.Obj), p.table(ob.Pre), vlib.Bool(ob.Ok), vlib.List(calls),
		p.table(ob.Post), p.ns(ob.Live))
	cterm := fmt.Sprintf("(%s\n CaseCancel %s %s %s %s)", strings.Join(p.lets, "\n "), world, opT, cobs, vlib.List(cs))
	cci := w.Add(cterm, cdesc, key+"/cancel", len(ob.Calls) >= 3)
	w.Stat("cancel-op:" + op.Kind)
	for _, f := range ob.Cancels {
		if !f.Fired {
			w.Violation(cci, "fault-not-fired", fmt.Sprintf("call %d was not reached in the cancel run (non-deterministic call sequence)", f.K), cdesc)
		}
		if f.Panic != "" {
			w.Violation(cci, "panic", fmt.Sprintf("panic after the context was cancelled at call %d: %s", f.K, f.Panic), cdesc)
		}
	}
}

type pending struct {
	wl  *WL
	idx int
	op  OpSpec
	ob  *Observation
	// or a harness-level failure
	fail      string
	setupOnly string
}

// runWorkload executes one workload (own directories, own databases) and returns what has to be emitted.
func runWorkload(spec Workload, root string, i int, tier string) (res []pending) {
	wl := newWL(spec, root, i)
	defer os.RemoveAll(wl.work)
	for idx, op := range spec.Ops {
		if op.Kind == "fork" {
			if wl.fork != "" {
				_ = os.RemoveAll(wl.fork)
			}
			wl.fork = wl.copyOf(wl.base, "fork")
			continue
		}
		var ob *Observation
		fail := ""
		// space creation is explored in full in the first workload only (quick tier): it is the same
		// operation with the same 16 calls everywhere
		explore := !(op.Kind == "space_create" && tier == "quick" && i > 0)
		func() {
			defer func() {
				if p := recover(); p != nil {
					fail = fmt.Sprintf("workload %s op %d (%s): %v", spec.Name, idx, op.Kind, p)
					ob = nil
				}
			}()
			ob = wl.runOp(idx, op, explore)
		}()
		if ob == nil {
			res = append(res, pending{wl: wl, idx: idx, op: op, fail: fail})
			return
		}
		if !explore && ob.Ok {
			res = append(res, pending{wl: wl, idx: idx, op: op, setupOnly: op.Kind})
			continue
		}
		res = append(res, pending{wl: wl, idx: idx, op: op, ob: ob})
		if !ob.Ok {
			return // the rest of the workload depends on this operation
		}
	}
	return
}

func runAll(w *vlib.Writer, wls []Workload, root, tier string, samples *[]interface{}) {
	results := make([][]pending, len(wls))
	workers := 6
	ch := make(chan int)
	done := make(chan bool)
	for k := 0; k < workers; k++ {
		go func() {
			for i := range ch {
				results[i] = runWorkload(wls[i], root, i, tier)
			}
			done <- true
		}()
	}
	for i := range wls {
		ch <- i
	}
	close(ch)
	for k := 0; k < workers; k++ {
		<-done
	}
	for _, rs := range results {
		for _, p := range rs {
			switch {
			case p.fail != "":
				w.Violation(w.Count(), "harness-panic", p.fail, p.wl.spec)
			case p.setupOnly != "":
				w.Stat("setup-only:" + p.setupOnly)
			default:
				emit(w, p.wl, p.idx, p.op, p.ob, samples)
			}
		}
	}
}

func run(o vlib.Opts) {
	root := filepath.Join("/verif/.work/C10", fmt.Sprintf("tmp_%d", os.Getpid()))
	must(os.MkdirAll(root, 0o755))
	defer os.RemoveAll(root)
	w := vlib.NewWriter(o.Out, "C10_run", 10)
	var samples []interface{}
	rule := "two cases per workload operation: fault kind \"error\" (every storage-call boundary as a crash image and as an injected error on a live context) and fault kind \"cancel\" (the operation's context is cancelled before every storage call in turn, the real any-store decides what fails); exhaustive per operation; a case is non-trivial if the operation performs >= 3 storage calls (a real transaction); distinct by (workload, operation index, fault kind)"
	if o.Replay != "" {
		seen := map[string]bool{}
		var replayed []Workload
		i := 0
		for _, raw := range vlib.ReadReplay(o.Replay) {
			var d caseDesc
			if json.Unmarshal(raw, &d) != nil || len(d.Workload.Ops) == 0 {
				continue
			}
			b, _ := json.Marshal(d.Workload)
			if seen[string(b)] {
				continue
			}
			seen[string(b)] = true
			replayed = append(replayed, d.Workload)
			i++
		}
		runAll(w, replayed, root, "quick", &samples)
		w.Finish("replay: "+rule, samples, nil)
		return
	}
	wls := fixedWorkloads()
	r := vlib.NewRand(o.Seed)
	nRand := 2
	if o.Tier == "thorough" {
		nRand = 60
	}
	nRand *= o.Budget
	for i := 0; i < nRand; i++ {
		wls = append(wls, randomWorkload(r.Fork(uint64(i)), i))
	}
	runAll(w, wls, root, o.Tier, &samples)
	w.Finish(rule, samples, map[string]interface{}{"workloads": len(wls), "exhaustive": "all call boundaries of every workload operation (crash image + injected error + context cancelled)"})
}
