// Correspondence driver for C10: runs workloads of space / tree / ACL operations of the REAL code on real
// any-store databases through the counting / fault-injecting wrapper (wrap.go).  For every operation of a
// workload: a fault-free run (storage calls recorded, database directory copied at every call boundary =
// crash images, each reopened with spacestorage.New / TreeStorage / BuildObjectTree / BuildAclListWithIdentity),
// then two runs per boundary — that call returns an injected error / the operation's context is cancelled right
// before that call (wrap.go) —, each followed by a retry of the same input on the same live objects under a fresh
// context.  Every operation becomes one Coq case (Run/C10_run.v): model world before, operation, observation.
package main

import (
	"context"
	"fmt"
	"os"
	"path/filepath"
	"sort"
	"strings"

	"github.com/anyproto/any-sync/commonspace/headsync/headstorage"
	"github.com/anyproto/any-sync/commonspace/object/accountdata"
	"github.com/anyproto/any-sync/commonspace/object/acl/list/listtest"
	"github.com/anyproto/any-sync/commonspace/object/tree/objecttree"
	"github.com/anyproto/any-sync/commonspace/object/tree/treechangeproto"
	"github.com/anyproto/any-sync/commonspace/object/tree/treestorage"
	"github.com/anyproto/any-sync/commonspace/spacestorage"
	"github.com/anyproto/any-sync/consensus/consensusproto"

	"verifharness/vlib"
)

var theKeys *accountdata.AccountKeys

// ---------------------------------------------------------------- workloads

type OpSpec struct {
	Kind string `json:"kind"` // space_create tree_create deferred_open local_add snapshot_add remote_add acl_add mark_deleted delete_tree fork
	Tree int    `json:"tree,omitempty"`
	N    int    `json:"n,omitempty"`    // remote_add: number of changes the donor authors
	Snap bool   `json:"snap,omitempty"` // remote_add: the donor's first change is a snapshot
	Fork bool   `json:"fork,omitempty"` // remote_add: the donor works on the state saved by the last "fork"
	Two  bool   `json:"two,omitempty"`  // remote_add: the donor authors two branches (two heads)
	Dup  bool   `json:"dup,omitempty"`  // remote_add: re-send the batch of the previous remote_add (nothing new)
}

type Workload struct {
	Name string   `json:"name"`
	Ops  []OpSpec `json:"ops"`
}

const (
	slotNone = iota
	slotStored
	slotDeferred
	slotDeleted
)

type WL struct {
	spec         Workload
	work         string
	base         string // database directory at the state before the current operation (closed)
	fork         string
	payload      spacestorage.SpaceStorageCreatePayload
	spaceId      string
	spaceCreated bool
	roots        []*treechangeproto.RawTreeChangeWithId
	state        []int
	ids          map[string]int
	ts           int64
	dirSeq       int
	lastRemote   *OpInput
	lenient      bool
}

func (wl *WL) idn(s string) int {
	if s == "" {
		return 0
	}
	if n, ok := wl.ids[s]; ok {
		return n
	}
	n := len(wl.ids) + 1
	wl.ids[s] = n
	return n
}

func (wl *WL) newDir(tag string) string {
	wl.dirSeq++
	return filepath.Join(wl.work, fmt.Sprintf("%s_%d", tag, wl.dirSeq))
}

func (wl *WL) copyOf(src, tag string) string {
	d := wl.newDir(tag)
	copyDir(src, d)
	return d
}

// OpInput: everything an operation needs besides the live objects; prepared once per operation, so that the
// fault-free run, every fault run and every retry submit the SAME input.
type OpInput struct {
	data  []byte
	ts    int64
	raws  []*treechangeproto.RawTreeChangeWithId
	heads []string
	rec   *consensusproto.RawRecordWithId
}

type OpResult struct {
	err   error
	add   *objecttree.AddResult
	panic string
}

func (wl *WL) objId(op OpSpec) string {
	switch op.Kind {
	case "space_create", "acl_add":
		return wl.payload.AclWithId.Id
	}
	if op.Tree < len(wl.roots) && wl.roots[op.Tree] != nil {
		return wl.roots[op.Tree].Id
	}
	return ""
}

// prepare builds the operation's input on a scratch copy of the current state (never on the victim).
func (wl *WL) prepare(op OpSpec) *OpInput {
	in := &OpInput{}
	wl.ts++
	in.ts = 1700000000 + wl.ts
	in.data = []byte(fmt.Sprintf("c10-%s-%d", wl.spec.Name, wl.ts))
	switch op.Kind {
	case "tree_create", "deferred_open":
		for len(wl.roots) <= op.Tree {
			wl.roots = append(wl.roots, nil)
			wl.state = append(wl.state, slotNone)
		}
		if wl.roots[op.Tree] == nil {
			e := wl.openEnv(wl.copyOf(wl.base, "prep"))
			root, err := objecttree.CreateObjectTreeRoot(objecttree.ObjectTreeCreatePayload{
				PrivKey: theKeys.SignKey, ChangeType: "c10.tree", SpaceId: wl.spaceId,
				Seed: []byte(fmt.Sprintf("seed-%s-%d", wl.spec.Name, op.Tree)), Timestamp: in.ts}, e.acl)
			must(err)
			wl.roots[op.Tree] = root
			e.close()
			_ = os.RemoveAll(e.dir)
		}
	case "remote_add":
		if op.Dup && wl.lastRemote != nil {
			in.raws, in.heads = wl.lastRemote.raws, wl.lastRemote.heads
			return in
		}
		defer func() { wl.lastRemote = in }()
		src := wl.base
		if op.Fork {
			src = wl.fork
		}
		// the donor is a replica of the victim (state now, or at the fork point) that authors changes locally
		saved := append([]int(nil), wl.state...)
		wl.lenient = op.Fork
		defer func() { wl.lenient = false }()
		e := wl.openEnv(wl.copyOf(src, "donor"))
		wl.state = saved
		tr := e.trees[op.Tree]
		if tr == nil {
			panic("donor has no tree for slot")
		}
		n := op.N
		if n <= 0 {
			n = 1
		}
		author := func(t objecttree.ObjectTree, i int, snap bool) {
			t.Lock()
			res, err := t.AddContent(ctx, objecttree.SignableChangeContent{
				Data: []byte(fmt.Sprintf("%s-r%d", in.data, i)), Key: theKeys.SignKey, IsSnapshot: snap,
				Timestamp: in.ts + int64(i), DataType: "c10"})
			t.Unlock()
			must(err)
			for _, c := range res.Added {
				in.raws = append(in.raws, rawOf(c))
			}
		}
		if op.Two {
			// second branch: another replica of the same state
			e2 := wl.openEnv(wl.copyOf(src, "donor2"))
			wl.state = saved
			author(e2.trees[op.Tree], 100, false)
			in.heads = append(in.heads, e2.trees[op.Tree].Heads()...)
			e2.close()
			_ = os.RemoveAll(e2.dir)
		}
		for i := 0; i < n; i++ {
			author(tr, i, op.Snap && i == 0)
		}
		in.heads = append(in.heads, tr.Heads()...)
		sort.Strings(in.heads)
		e.close()
		_ = os.RemoveAll(e.dir)
	case "acl_add":
		e := wl.openEnv(wl.copyOf(wl.base, "prep"))
		res, err := e.acl.RecordBuilder().BuildInvite()
		must(err)
		in.rec = listtest.WrapAclRecord(res.InviteRec)
		e.close()
		_ = os.RemoveAll(e.dir)
	}
	return in
}

// apply runs the operation on the live objects of e under the context ctx (the fault kind "cancel" cancels it at a
// storage-call boundary).  aclList.AddRawRecord and objectTree.Delete have no context parameter: they run their
// storage calls on context.Background(), so a caller's cancellation cannot reach the store there.
func (wl *WL) apply(e *Env, ctx context.Context, op OpSpec, in *OpInput) (r OpResult) {
	defer func() {
		if p := recover(); p != nil {
			r.panic = fmt.Sprint(p)
			r.err = fmt.Errorf("panic: %v", p)
		}
	}()
	switch op.Kind {
	case "space_create":
		ss, err := spacestorage.Create(ctx, e.db, wl.payload)
		if err != nil {
			return OpResult{err: err}
		}
		e.ss = ss
		e.buildAcl()
	case "tree_create":
		st, err := e.ss.CreateTreeStorage(ctx, treestorage.TreeStorageCreatePayload{
			RootRawChange: wl.roots[op.Tree], Heads: []string{wl.roots[op.Tree].Id}})
		if err != nil {
			return OpResult{err: err}
		}
		tr, err := objecttree.BuildObjectTree(st, e.acl)
		if err != nil {
			return OpResult{err: err}
		}
		e.trees[op.Tree] = tr
	case "deferred_open":
		return OpResult{err: e.openDeferred(ctx, wl, op.Tree)}
	case "local_add", "snapshot_add":
		tr := e.trees[op.Tree]
		tr.Lock()
		defer tr.Unlock()
		res, err := tr.AddContent(ctx, objecttree.SignableChangeContent{
			Data: in.data, Key: theKeys.SignKey, IsSnapshot: op.Kind == "snapshot_add", Timestamp: in.ts, DataType: "c10"})
		if err != nil {
			return OpResult{err: err}
		}
		return OpResult{add: &res}
	case "remote_add":
		tr := e.trees[op.Tree]
		tr.Lock()
		defer tr.Unlock()
		res, err := tr.AddRawChanges(ctx, objecttree.RawChangesPayload{NewHeads: in.heads, RawChanges: in.raws})
		if err != nil {
			return OpResult{err: err}
		}
		return OpResult{add: &res}
	case "acl_add":
		e.acl.Lock()
		defer e.acl.Unlock()
		return OpResult{err: e.acl.AddRawRecord(in.rec)}
	case "mark_deleted":
		st := headstorage.DeletedStatusQueued
		return OpResult{err: e.ss.HeadStorage().UpdateEntry(ctx, headstorage.HeadsUpdate{Id: wl.roots[op.Tree].Id, DeletedStatus: &st})}
	case "delete_tree":
		tr := e.trees[op.Tree]
		tr.Lock()
		defer tr.Unlock()
		return OpResult{err: tr.Delete()}
	default:
		panic("unknown op " + op.Kind)
	}
	return
}

func (wl *WL) liveHeads(e *Env, op OpSpec) []string {
	switch op.Kind {
	case "space_create", "acl_add":
		if e.acl == nil {
			return nil
		}
		return []string{e.acl.Head().Id}
	}
	tr := e.trees[op.Tree]
	if tr == nil {
		return nil
	}
	if _, err := tr.SnapshotPath(); err == objecttree.ErrDeleted {
		// the object answers ErrDeleted to everything: there is no live tree any more
		return nil
	}
	return append([]string(nil), tr.Heads()...)
}

func (wl *WL) storedHeads(e *Env, op OpSpec) []string {
	c, err := e.real.OpenCollection(ctx, "heads")
	if err != nil {
		return nil
	}
	d, err := c.FindId(ctx, wl.objId(op))
	if err != nil {
		return nil
	}
	return strArr(d.Value(), "h")
}

// ---------------------------------------------------------------- one operation -> one case

type liveTree struct {
	id, root string
	heads    []string
	deferOrd string
	deferred bool
}

type FaultObs struct {
	Kind     string // faultError | faultCancel
	K        int
	Done     bool   // kind "cancel" only: the operation completed although its context was cancelled at call K
	CtxDead  bool   // kind "cancel": the context handed to call K was dead (i.e. derived from the operation's context)
	CallErr  string // kind "cancel": what the real store answered to call K
	LaterErr int    // kind "cancel": number of later storage calls that failed
	Err      string
	Fired    bool
	Live     []string
	Stored   []string
	Table    []Ent
	RetryOk  bool
	RetryErr string
	Live2    []string
	Final    Image
	Panic    string
}

type Observation struct {
	Obj            string
	Pre            []Ent
	Ok             bool
	Err            string
	Calls          []CallRec
	Images         []Image
	Post           []Ent
	Live           []string
	Faults         []FaultObs // kind "error", one per boundary
	Cancels        []FaultObs // kind "cancel", one per boundary
	trees          []liveTree
	acl            []string
	add            *objecttree.AddResult
	rootAfter      string
	deferOrd       string
	recId          string
	panic          string
	distinctImages int
}

func (wl *WL) runOp(idx int, op OpSpec, explore bool) *Observation {
	in := wl.prepare(op)
	ob := &Observation{Obj: wl.objId(op)}

	// ---- fault-free run with crash images
	dir := wl.copyOf(wl.base, "run")
	e := wl.openEnv(dir)
	ob.Pre = dump(e.real)
	for slot, tr := range e.trees {
		lt := liveTree{id: wl.roots[slot].Id, root: tr.Root().Id, heads: append([]string(nil), tr.Heads()...)}
		if wl.state[slot] == slotDeferred {
			lt.deferred = true
			rc, _ := tr.Storage().Root(ctx)
			lt.deferOrd = rc.OrderId
		}
		ob.trees = append(ob.trees, lt)
	}
	sort.Slice(ob.trees, func(i, j int) bool { return ob.trees[i].id < ob.trees[j].id })
	if e.acl != nil {
		for _, r := range e.acl.Records() {
			ob.acl = append(ob.acl, r.Id)
		}
	}
	var imgDirs []string
	snap := func(k int) {
		if explore {
			imgDirs = append(imgDirs, wl.copyOf(dir, fmt.Sprintf("img%d", k)))
		}
	}
	e.ctl.start(0, snap)
	snap(0)
	res := wl.apply(e, ctx, op, in)
	ob.Calls = e.ctl.calls
	e.ctl.stop()
	ob.Ok, ob.Err, ob.add, ob.panic = res.err == nil, errStr(res.err), res.add, res.panic
	ob.Live = wl.liveHeads(e, op)
	if tr := e.trees[op.Tree]; tr != nil && (op.Kind == "remote_add" || op.Kind == "local_add" || op.Kind == "snapshot_add") {
		ob.rootAfter = tr.Root().Id
	}
	if op.Kind == "deferred_open" && e.trees[op.Tree] != nil {
		rc, _ := e.trees[op.Tree].Storage().Root(ctx)
		ob.deferOrd = rc.OrderId
	}
	if in.rec != nil {
		ob.recId = in.rec.Id
	}
	ob.Post = dump(e.real)
	e.close()
	// byte-identical image directories are inspected once
	seen := map[string]Image{}
	for _, d := range imgDirs {
		h := dirHash(d)
		im, ok := seen[h]
		if !ok {
			im = wl.inspect(d)
			seen[h] = im
		}
		ob.Images = append(ob.Images, im)
		_ = os.RemoveAll(d)
	}
	ob.distinctImages = len(seen)
	if !ob.Ok {
		// rejected: no images / faults to explore
		ob.Images = nil
		_ = os.RemoveAll(dir)
		return ob
	}

	// ---- one fault of each kind per boundary, then a retry of the same input under a fresh context
	n := len(ob.Calls)
	if !explore {
		n = 0
	}
	for k := 1; k <= n; k++ {
		ob.Faults = append(ob.Faults, wl.faultRun(op, in, faultError, k))
	}
	for k := 1; k <= n; k++ {
		ob.Cancels = append(ob.Cancels, wl.faultRun(op, in, faultCancel, k))
	}

	// ---- the fault-free result becomes the next base
	_ = os.RemoveAll(wl.base)
	wl.base = dir
	switch op.Kind {
	case "space_create":
		wl.spaceCreated = true
	case "tree_create":
		wl.state[op.Tree] = slotStored
	case "deferred_open":
		wl.state[op.Tree] = slotDeferred
	case "local_add", "snapshot_add", "remote_add":
		wl.state[op.Tree] = slotStored
	case "delete_tree":
		wl.state[op.Tree] = slotDeleted
	}
	return ob
}

// faultRun: a fresh copy of the pre-state, the operation with a fault of the given kind at call k, observation of
// the live object and the storage, then the SAME input again on the same live objects under a fresh context, and
// the final directory reopened.
func (wl *WL) faultRun(op OpSpec, in *OpInput, kind string, k int) FaultObs {
	fdir := wl.copyOf(wl.base, "fault")
	fe := wl.openEnv(fdir)
	opctx, cancel := context.WithCancel(context.Background())
	defer cancel()
	if kind == faultCancel {
		fe.ctl.startCancel(k, cancel)
	} else {
		fe.ctl.start(k, nil)
	}
	r1 := wl.apply(fe, opctx, op, in)
	f := FaultObs{Kind: kind, K: k, Err: errStr(r1.err), Fired: fe.ctl.injected, Panic: r1.panic,
		CtxDead: fe.ctl.ctxDead, CallErr: fe.ctl.callErr, LaterErr: fe.ctl.laterErr}
	fe.ctl.stop()
	if kind == faultCancel && r1.err == nil {
		// the store did not care about the dead context (any-store commits on context.Background()): the
		// operation has to be complete, exactly as in the fault-free run; there is nothing to retry
		f.Done = true
		f.Live = wl.liveHeads(fe, op)
		f.Stored = wl.storedHeads(fe, op)
		f.Table = dump(fe.real)
		f.Live2 = f.Live
		fe.close()
		f.Final = wl.inspect(fdir)
		_ = os.RemoveAll(fdir)
		return f
	}
	if op.Kind == "space_create" {
		// no live object exists yet; any-store keeps collection objects of the rolled-back transaction in
		// its cache, so the database handle is reopened (as the storage provider does) before the retry
		fe.close()
		fe = wl.openEnv(fdir)
	}
	f.Live = wl.liveHeads(fe, op)
	f.Stored = wl.storedHeads(fe, op)
	f.Table = dump(fe.real)
	r2 := wl.apply(fe, context.Background(), op, in) // fresh, live context
	f.RetryOk, f.RetryErr = r2.err == nil, errStr(r2.err)
	if r2.panic != "" {
		f.Panic += " retry: " + r2.panic
	}
	f.Live2 = wl.liveHeads(fe, op)
	fe.close()
	f.Final = wl.inspect(fdir)
	_ = os.RemoveAll(fdir)
	return f
}

// ---------------------------------------------------------------- printing

type printer struct {
	wl    *WL
	ranks map[string]int
	names map[string]string
	lets  []string
}

func (p *printer) n(s string) string { return fmt.Sprint(p.wl.idn(s)) }

func (p *printer) ns(ss []string) string {
	v := make([]int, len(ss))
	for i, s := range ss {
		v[i] = p.wl.idn(s)
	}
	sort.Ints(v)
	it := make([]string, len(v))
	for i, x := range v {
		it[i] = fmt.Sprint(x)
	}
	return vlib.List(it)
}

func (p *printer) ord(s string) string { return fmt.Sprint(p.ranks[s]) }

func (p *printer) doc(e Ent) (coll, id, doc string) {
	switch e.Coll {
	case "state":
		return "KState", p.n(e.Id), fmt.Sprintf("(DState %s %s)", p.n(e.A), p.n(e.S))
	case "heads":
		return "KHeads", p.n(e.Id), fmt.Sprintf("(DHeads %s %s %d)", p.ns(e.Heads), p.n(e.Snap), e.Del)
	case "changes":
		return "KChanges", p.n(e.Id), fmt.Sprintf("(DChange %s %s %s %s)", p.n(e.Tree), p.ns(e.Prevs), p.n(e.Snap), p.ord(e.Ord))
	default:
		return "KAcl", p.n(e.Id), fmt.Sprintf("(DRecord %s %d)", p.n(e.Prev), e.OrdN)
	}
}

// table prints a table once per case and refers to it by a let-bound name afterwards
// (most crash images and fault dumps of a case are one of two tables).
func (p *printer) table(t []Ent) string {
	it := make([]string, len(t))
	for i, e := range t {
		c, id, d := p.doc(e)
		it[i] = fmt.Sprintf("(%s, %s, %s)", c, id, d)
	}
	return p.bind("t", vlib.List(it)+" : table")
}

func (p *printer) bind(prefix, term string) string {
	if p.names == nil {
		p.names = map[string]string{}
	}
	if n, ok := p.names[term]; ok {
		return n
	}
	n := fmt.Sprintf("%s%d", prefix, len(p.names))
	p.names[term] = n
	p.lets = append(p.lets, fmt.Sprintf("let %s := (%s) in", n, term))
	return n
}

func (p *printer) image(im Image) string {
	it := make([]string, len(im.Reopen))
	for i, r := range im.Reopen {
		if r.Ok {
			it[i] = fmt.Sprintf("(%s, Some %s)", p.n(r.Id), p.ns(r.Heads))
		} else {
			it[i] = fmt.Sprintf("(%s, None)", p.n(r.Id))
		}
	}
	return p.bind("im", fmt.Sprintf("mkImg %s %s", p.table(im.Table), vlib.List(it)))
}

func (p *printer) collOf(name string) string {
	switch name {
	case "state":
		return "KState"
	case "heads":
		return "KHeads"
	case "changes":
		return "KChanges"
	}
	if name == p.wl.payload.AclWithId.Id {
		return "KAcl"
	}
	return ""
}

func (p *printer) call(c CallRec) (term string, unmodelled string) {
	switch c.Kind {
	case "begin":
		return "OCall CBegin", ""
	case "commit":
		return "OCall CCommit", ""
	case "rollback":
		return "OCall CRollback", ""
	case "meta":
		return "OMeta", ""
	case "insert":
		k := p.collOf(c.Coll)
		if k == "" || k == "KHeads" {
			return "OMeta", "insert into unmodelled collection " + c.Coll
		}
		it := make([]string, len(c.Docs))
		for i, d := range c.Docs {
			switch k {
			case "KChanges":
				it[i] = fmt.Sprintf("(%s, DChange %s %s %s %s)", p.n(d.Id), p.n(d.Tree), p.ns(d.Prevs), p.n(d.Snap), p.ord(d.Ord))
			case "KAcl":
				prev := ""
				if len(d.Prevs) > 0 {
					prev = d.Prevs[0]
				}
				it[i] = fmt.Sprintf("(%s, DRecord %s %d)", p.n(d.Id), p.n(prev), d.OrdN)
			case "KState":
				it[i] = fmt.Sprintf("(%s, DState %s %s)", p.n(d.Id), p.n(d.Acl), p.n(d.Sett))
			}
		}
		return fmt.Sprintf("OCall (CInsert %s %s)", k, vlib.List(it)), ""
	case "upsert":
		if p.collOf(c.Coll) != "KHeads" {
			return "OMeta", "upsert on unmodelled collection " + c.Coll
		}
		h, s, d := "None", "None", "None"
		if v, ok := c.Set["h"]; ok {
			h = "(Some " + p.ns(v.([]string)) + ")"
		}
		if v, ok := c.Set["s"]; ok {
			s = "(Some " + p.n(v.(string)) + ")"
		}
		if v, ok := c.Set["d"]; ok {
			d = fmt.Sprintf("(Some %d)", v.(int))
		}
		return fmt.Sprintf("OCall (CUpsertHeads %s %s %s %s)", p.n(c.Id), h, s, d), ""
	case "delete":
		if p.collOf(c.Coll) != "KChanges" {
			return "OMeta", "delete on unmodelled collection " + c.Coll
		}
		return fmt.Sprintf("OCall (CDeleteTree %s)", p.n(c.Tree)), ""
	}
	return "OMeta", "unmodelled write " + c.Kind + " " + c.What + " on " + c.Coll
}

func (p *printer) collectOrds(ob *Observation) {
	set := map[string]bool{}
	add := func(t []Ent) {
		for _, e := range t {
			if e.Coll == "changes" {
				set[e.Ord] = true
			}
		}
	}
	add(ob.Pre)
	add(ob.Post)
	for _, im := range ob.Images {
		add(im.Table)
	}
	for _, f := range ob.Faults {
		add(f.Table)
		add(f.Final.Table)
	}
	for _, f := range ob.Cancels {
		add(f.Table)
		add(f.Final.Table)
	}
	for _, c := range ob.Calls {
		for _, d := range c.Docs {
			if c.Coll == "changes" {
				set[d.Ord] = true
			}
		}
	}
	for _, t := range ob.trees {
		if t.deferred {
			set[t.deferOrd] = true
		}
	}
	if ob.add != nil {
		for _, c := range ob.add.Added {
			set[c.OrderId] = true
		}
	}
	if ob.deferOrd != "" {
		set[ob.deferOrd] = true
	}
	var all []string
	for s := range set {
		all = append(all, s)
	}
	sort.Strings(all)
	p.ranks = map[string]int{}
	for i, s := range all {
		p.ranks[s] = 10 * (i + 1)
	}
}

func findEnt(t []Ent, coll, id string) *Ent {
	for i := range t {
		if t[i].Coll == coll && t[i].Id == id {
			return &t[i]
		}
	}
	return nil
}

func (p *printer) opTerm(op OpSpec, ob *Observation) string {
	wl := p.wl
	tree := ""
	if op.Tree < len(wl.roots) && wl.roots[op.Tree] != nil {
		tree = wl.roots[op.Tree].Id
	}
	rootOrd := func(id string) string {
		if e := findEnt(ob.Post, "changes", id); e != nil {
			return p.ord(e.Ord)
		}
		for _, t := range ob.trees {
			if t.id == id && t.deferred {
				return p.ord(t.deferOrd)
			}
		}
		return "10"
	}
	switch op.Kind {
	case "space_create":
		return fmt.Sprintf("(OSpaceCreate %s %s %s %s)", p.n(wl.spaceId), p.n(wl.payload.AclWithId.Id),
			p.n(wl.payload.SpaceSettingsWithId.Id), rootOrd(wl.payload.SpaceSettingsWithId.Id))
	case "tree_create":
		return fmt.Sprintf("(OTreeCreate %s %s)", p.n(tree), rootOrd(tree))
	case "deferred_open":
		// the root's order id is fixed by CreateStorageWithDeferredCreation: read it from the live storage object
		return fmt.Sprintf("(ODeferredOpen %s %s)", p.n(tree), p.ord(ob.deferOrd))
	case "local_add", "snapshot_add":
		id, ord := "", "0"
		if ob.add != nil && len(ob.add.Added) == 1 {
			id, ord = ob.add.Added[0].Id, p.ord(ob.add.Added[0].OrderId)
		}
		return fmt.Sprintf("(OLocalAdd %s %s %s %s)", p.n(tree), p.n(id), ord, vlib.Bool(op.Kind == "snapshot_add"))
	case "remote_add":
		var it []string
		var heads []string
		if ob.add != nil {
			for _, c := range ob.add.Added {
				it = append(it, fmt.Sprintf("(mkChg %s %s %s %s)", p.n(c.Id), p.ns(c.PrevIds), p.n(c.SnapshotId), p.ord(c.OrderId)))
			}
			heads = ob.add.Heads
		}
		return fmt.Sprintf("(ORemoteAdd %s %s %s %s)", p.n(tree), vlib.List(it), p.ns(heads), p.n(ob.rootAfter))
	case "acl_add":
		return fmt.Sprintf("(OAclAdd %s)", p.n(ob.recId))
	case "mark_deleted":
		return fmt.Sprintf("(OMarkDeleted %s 1)", p.n(tree))
	case "delete_tree":
		return fmt.Sprintf("(ODeleteTree %s)", p.n(tree))
	}
	panic("op")
}

func main() {
	vlib.Quiet()
	o := vlib.ParseFlags()
	var err error
	theKeys, err = accountdata.NewRandom()
	must(err)
	run(o)
}

// strings helper used by descriptions
func kinds(ops []OpSpec) string {
	s := make([]string, len(ops))
	for i, o := range ops {
		s[i] = o.Kind
	}
	return strings.Join(s, ",")
}
