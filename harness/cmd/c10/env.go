// Environments (one opened database directory + the live objects built on it), dumps of the durable state,
// crash-image inspection with the real constructors.
package main

import (
	"context"
	"crypto/sha256"
	"fmt"
	"io"
	"os"
	"path/filepath"
	"sort"

	anystore "github.com/anyproto/any-store"

	"github.com/anyproto/any-sync/commonspace/object/accountdata"
	"github.com/anyproto/any-sync/commonspace/object/acl/list"
	"github.com/anyproto/any-sync/commonspace/object/acl/recordverifier"
	"github.com/anyproto/any-sync/commonspace/object/tree/objecttree"
	"github.com/anyproto/any-sync/commonspace/object/tree/treechangeproto"
	"github.com/anyproto/any-sync/commonspace/object/tree/treestorage"
	"github.com/anyproto/any-sync/commonspace/spacestorage"
)

var ctx = context.Background()

func must(err error) {
	if err != nil {
		panic(err)
	}
}

func dbConfig() *anystore.Config {
	return &anystore.Config{ReadConnections: 2, SQLiteConnectionOptions: map[string]string{"synchronous": "off"}}
}

func copyDir(src, dst string) {
	must(os.MkdirAll(dst, 0o755))
	ents, err := os.ReadDir(src)
	must(err)
	for _, e := range ents {
		if e.IsDir() {
			continue
		}
		in, err := os.Open(filepath.Join(src, e.Name()))
		if err != nil {
			continue // a journal file may vanish between ReadDir and Open
		}
		out, err := os.Create(filepath.Join(dst, e.Name()))
		must(err)
		_, err = io.Copy(out, in)
		must(err)
		in.Close()
		must(out.Close())
	}
}

// dirHash: hash of names and contents of the files of a directory.
func dirHash(dir string) string {
	h := sha256.New()
	ents, err := os.ReadDir(dir)
	must(err)
	for _, e := range ents {
		b, err := os.ReadFile(filepath.Join(dir, e.Name()))
		must(err)
		fmt.Fprintf(h, "%s:%d:", e.Name(), len(b))
		h.Write(b)
	}
	return string(h.Sum(nil))
}

// Ent is one durable document (ids and order ids still as strings).
type Ent struct {
	Coll  string   `json:"c"` // state heads changes acl
	Id    string   `json:"id"`
	A, S  string   `json:",omitempty"`
	Heads []string `json:"h,omitempty"`
	Snap  string   `json:"s,omitempty"`
	Del   int      `json:"d,omitempty"`
	Tree  string   `json:"t,omitempty"`
	Prevs []string `json:"p,omitempty"`
	Ord   string   `json:"o,omitempty"`
	Prev  string   `json:"pr,omitempty"`
	OrdN  int      `json:"on,omitempty"`
}

type Reo struct {
	Id    string
	Ok    bool
	Heads []string
}

type Image struct {
	Table  []Ent
	Reopen []Reo
}

func iterColl(db anystore.DB, name string, f func(d anystore.Doc)) {
	c, err := db.OpenCollection(ctx, name)
	if err != nil {
		return
	}
	it, err := c.Find(nil).Iter(ctx)
	if err != nil {
		// a collection object cached by any-store although its creation was rolled back: nothing is stored
		return
	}
	defer it.Close()
	for it.Next() {
		d, err := it.Doc()
		must(err)
		f(d)
	}
}

// dump reads the four modelled collections directly.
func dump(db anystore.DB) []Ent {
	var t []Ent
	aclId := ""
	iterColl(db, "state", func(d anystore.Doc) {
		v := d.Value()
		aclId = v.GetString("a")
		t = append(t, Ent{Coll: "state", Id: v.GetString("id"), A: aclId, S: v.GetString("s")})
	})
	iterColl(db, "heads", func(d anystore.Doc) {
		v := d.Value()
		t = append(t, Ent{Coll: "heads", Id: v.GetString("id"), Heads: strArr(v, "h"), Snap: v.GetString("s"), Del: v.GetInt("d")})
	})
	iterColl(db, "changes", func(d anystore.Doc) {
		v := d.Value()
		t = append(t, Ent{Coll: "changes", Id: v.GetString("id"), Tree: v.GetString("t"), Prevs: strArr(v, "p"),
			Snap: v.GetString("i"), Ord: v.GetString("o")})
	})
	if aclId != "" {
		iterColl(db, aclId, func(d anystore.Doc) {
			v := d.Value()
			t = append(t, Ent{Coll: "acl", Id: v.GetString("id"), Prev: v.GetString("p"), OrdN: v.GetInt("o")})
		})
	}
	return t
}

// Env: a database directory opened through the wrapper, and the live objects.
type Env struct {
	dir   string
	real  anystore.DB
	ctl   *Ctl
	db    *wdb
	ss    spacestorage.SpaceStorage
	acl   list.AclList
	trees map[int]objecttree.ObjectTree
}

type Keys struct {
	acc     *accountdata.AccountKeys
	spaceId string
}

func verifier() recordverifier.RecordVerifier { return recordverifier.NewValidateFull() }

// openEnv opens dir and builds the live objects: the ACL list and one object tree per slot that is stored
// (created[slot]) or pending deferred creation (deferred[slot] with its root).
func (wl *WL) openEnv(dir string) *Env {
	real, err := anystore.Open(ctx, filepath.Join(dir, "store.db"), dbConfig())
	must(err)
	e := &Env{dir: dir, real: real, ctl: &Ctl{}, trees: map[int]objecttree.ObjectTree{}}
	e.db = &wdb{DB: real, ctl: e.ctl}
	if wl.spaceCreated {
		e.ss, err = spacestorage.New(ctx, wl.spaceId, e.db)
		must(err)
		e.buildAcl()
		for slot := range wl.roots {
			switch wl.state[slot] {
			case slotStored:
				st, err := e.ss.TreeStorage(ctx, wl.roots[slot].Id)
				if err != nil && wl.lenient {
					continue // a donor opened at the fork point: the tree did not exist yet
				}
				must(err)
				tr, err := objecttree.BuildObjectTree(st, e.acl)
				must(err)
				e.trees[slot] = tr
			case slotDeferred:
				must(e.openDeferred(ctx, wl, slot))
			}
		}
	}
	return e
}

func (e *Env) buildAcl() {
	st, err := e.ss.AclStorage()
	must(err)
	e.acl, err = list.BuildAclListWithIdentity(theKeys, st, verifier())
	must(err)
}

func (e *Env) openDeferred(ctx context.Context, wl *WL, slot int) error {
	st, err := e.ss.CreateStorageWithDeferredCreation(ctx, treestorage.TreeStorageCreatePayload{
		RootRawChange: wl.roots[slot], Heads: []string{wl.roots[slot].Id}})
	if err != nil {
		return err
	}
	tr, err := objecttree.BuildObjectTree(st, e.acl)
	if err != nil {
		return err
	}
	e.trees[slot] = tr
	return nil
}

func (e *Env) close() {
	_ = e.real.Close()
}

// inspect opens a copied directory with the real constructors only (no wrapper): dump + reopen every object
// that has a live heads entry.
func (wl *WL) inspect(dir string) (img Image) {
	db, err := anystore.Open(ctx, filepath.Join(dir, "store.db"), dbConfig())
	if err != nil {
		return Image{Reopen: []Reo{{Id: "<database does not open: " + err.Error() + ">"}}}
	}
	defer db.Close()
	img.Table = dump(db)
	spaceId, aclId := "", ""
	for _, en := range img.Table {
		if en.Coll == "state" {
			spaceId, aclId = en.Id, en.A
		}
	}
	var ss spacestorage.SpaceStorage
	var acl list.AclList
	if spaceId != "" {
		func() {
			defer func() { _ = recover() }()
			var err error
			ss, err = spacestorage.New(ctx, spaceId, db)
			if err != nil {
				ss = nil
				return
			}
			ast, err := ss.AclStorage()
			if err != nil {
				return
			}
			acl, err = list.BuildAclListWithIdentity(theKeys, ast, verifier())
			if err != nil {
				acl = nil
			}
		}()
	}
	for _, en := range img.Table {
		if en.Coll != "heads" || en.Del != 0 {
			continue
		}
		r := Reo{Id: en.Id}
		func() {
			defer func() {
				if p := recover(); p != nil {
					r.Ok = false
				}
			}()
			if en.Id == aclId {
				if acl != nil {
					r.Ok, r.Heads = true, []string{acl.Head().Id}
				}
				return
			}
			if ss == nil || acl == nil {
				return
			}
			st, err := ss.TreeStorage(ctx, en.Id)
			if err != nil {
				return
			}
			tr, err := objecttree.BuildObjectTree(st, acl)
			if err != nil {
				return
			}
			r.Ok, r.Heads = true, append([]string(nil), tr.Heads()...)
			sort.Strings(r.Heads)
		}()
		img.Reopen = append(img.Reopen, r)
	}
	return img
}

func rawOf(c objecttree.StorageChange) *treechangeproto.RawTreeChangeWithId {
	return &treechangeproto.RawTreeChangeWithId{RawChange: append([]byte(nil), c.RawChange...), Id: c.Id}
}

func errStr(err error) string {
	if err == nil {
		return ""
	}
	return fmt.Sprint(err)
}
