// Counting / fault-injecting wrapper around the exported any-store interfaces (DB, Collection, WriteTx, Query).
// Every call that crosses the storage boundary AND writes (begin, insert, upsert, delete, DDL, commit) gets a
// number; the controller can make the k-th call fail and is told after every completed call (crash images).
//
// Two fault kinds:
//   - "error":  the k-th call is not executed and returns errInjected; the context of the operation stays alive;
//   - "cancel": immediately before the k-th call the context THE OPERATION WAS CALLED WITH is cancelled (the harness
//     runs the operation under context.WithCancel and hands the cancel func to the controller); the call is then
//     handed UNCHANGED to the real any-store with whatever context the code under test passes, and whatever any-store
//     answers is returned.  Nothing is simulated: any-store v0.4.7 itself decides what a dead context means
//     (db.WriteTx: connection manager select / BEGIN IMMEDIATE -> "context canceled" or SQLITE_INTERRUPT; savepoints,
//     Insert, UpsertId, Find().Delete, DDL: the statement is interrupted -> error; WriteTx.Commit / Rollback take no
//     context and run on context.Background() -> they SUCCEED).  All later calls of the operation see the dead context.
//
// The wrapped WriteTx embeds the real one, which satisfies the unexported methods of the interface; the
// context handed to collections is the real transaction's context, so reads and writes run inside the real
// SQLite transaction / savepoint.
package main

import (
	"context"
	"errors"
	"fmt"
	"strings"

	anystore "github.com/anyproto/any-store"
	"github.com/anyproto/any-store/anyenc"
	"github.com/anyproto/any-store/query"
)

var errInjected = errors.New("c10: injected storage fault")

// CallRec is one observed storage call.
type CallRec struct {
	Kind string                 `json:"k"` // begin commit rollback insert upsert delete meta other
	Coll string                 `json:"c,omitempty"`
	Docs []DocRec               `json:"docs,omitempty"` // insert
	Id   string                 `json:"id,omitempty"`   // upsert
	Set  map[string]interface{} `json:"set,omitempty"`  // upsert: the fields the modifier sets (h: []string, s: string, d: int)
	Tree string                 `json:"tree,omitempty"` // delete: the t == tree filter
	What string                 `json:"what,omitempty"`
}

type DocRec struct {
	Id    string   `json:"id"`
	Tree  string   `json:"t,omitempty"`
	Prevs []string `json:"p,omitempty"`
	Snap  string   `json:"i,omitempty"`
	Ord   string   `json:"o,omitempty"`
	OrdN  int      `json:"on,omitempty"`
	Acl   string   `json:"a,omitempty"`
	Sett  string   `json:"s,omitempty"`
}

// Ctl numbers the calls of one operation.
type Ctl struct {
	active   bool
	n        int
	calls    []CallRec
	failAt   int         // 1-based index of the call that fails; 0 = none
	injected bool        // the fault fired
	after    func(k int) // called after the k-th call completed (crash image hook)

	// fault kind "cancel"
	kind     string             // faultError (default) or faultCancel
	cancel   context.CancelFunc // cancels the context the operation was called with
	pending  bool               // the cancelled call has not returned yet
	ctxDead  bool               // the context handed to the cancelled call was dead (derived from the operation's)
	callErr  string             // what the real any-store answered to the cancelled call ("" = it succeeded)
	laterErr int                // number of later storage calls that failed
}

const (
	faultError  = "error"
	faultCancel = "cancel"
)

func (c *Ctl) start(failAt int, after func(k int)) {
	*c = Ctl{active: true, failAt: failAt, after: after, kind: faultError}
}

// startCancel: the k-th call is preceded by cancel().
func (c *Ctl) startCancel(failAt int, cancel context.CancelFunc) {
	*c = Ctl{active: true, failAt: failAt, kind: faultCancel, cancel: cancel}
}

func (c *Ctl) stop() { c.active = false; c.after = nil; c.failAt = 0; c.cancel = nil }

// enter registers the next call; true = this call must fail with errInjected (kind "error").
// Kind "cancel": the operation's context is cancelled here and the call goes through to the real store.
// cx is the context the real call will run under (the transaction's own context for commit / rollback).
func (c *Ctl) enter(rec CallRec, cx context.Context) bool {
	if !c.active {
		return false
	}
	c.n++
	c.calls = append(c.calls, rec)
	if c.failAt == c.n {
		c.injected = true
		if c.kind == faultCancel {
			if c.cancel != nil {
				c.cancel()
			}
			c.pending = true
			c.ctxDead = cx != nil && cx.Err() != nil
			return false
		}
		return true
	}
	return false
}

// leave reports the result of the real call that followed enter.
func (c *Ctl) leave(err error) {
	if !c.active {
		return
	}
	if c.pending {
		c.pending = false
		if err != nil {
			c.callErr = err.Error()
		}
	} else if err != nil && c.injected {
		c.laterErr++
	}
	if err == nil {
		c.done()
	}
}

func (c *Ctl) done() {
	if c.active && c.after != nil {
		c.after(c.n)
	}
}

// ---------------------------------------------------------------- DB

type wdb struct {
	anystore.DB
	ctl *Ctl
}

func (d *wdb) WriteTx(ctx context.Context) (anystore.WriteTx, error) {
	if d.ctl.enter(CallRec{Kind: "begin"}, ctx) {
		return nil, errInjected
	}
	tx, err := d.DB.WriteTx(ctx)
	d.ctl.leave(err)
	if err != nil {
		return nil, err
	}
	return &wtx{WriteTx: tx, ctl: d.ctl}, nil
}

func (d *wdb) wrapColl(c anystore.Collection, err error) (anystore.Collection, error) {
	if err != nil {
		return nil, err
	}
	return &wcoll{Collection: c, ctl: d.ctl}, nil
}

func (d *wdb) OpenCollection(ctx context.Context, name string) (anystore.Collection, error) {
	return d.wrapColl(d.DB.OpenCollection(ctx, name))
}

func (d *wdb) CreateCollection(ctx context.Context, name string) (anystore.Collection, error) {
	if d.ctl.enter(CallRec{Kind: "meta", What: "create collection " + name}, ctx) {
		return nil, errInjected
	}
	c, err := d.wrapColl(d.DB.CreateCollection(ctx, name))
	d.ctl.leave(err)
	return c, err
}

func (d *wdb) Collection(ctx context.Context, name string) (anystore.Collection, error) {
	c, err := d.DB.OpenCollection(ctx, name)
	if err == nil {
		return &wcoll{Collection: c, ctl: d.ctl}, nil
	}
	if !errors.Is(err, anystore.ErrCollectionNotFound) {
		return nil, err
	}
	return d.CreateCollection(ctx, name)
}

// ---------------------------------------------------------------- WriteTx

type wtx struct {
	anystore.WriteTx
	ctl *Ctl
}

func (t *wtx) Commit() error {
	if t.WriteTx.Done() {
		return t.WriteTx.Commit()
	}
	if t.ctl.enter(CallRec{Kind: "commit"}, t.WriteTx.Context()) {
		_ = t.WriteTx.Rollback()
		return errInjected
	}
	err := t.WriteTx.Commit()
	t.ctl.leave(err)
	return err
}

func (t *wtx) Rollback() error {
	if t.WriteTx.Done() {
		return t.WriteTx.Rollback()
	}
	t.ctl.enter(CallRec{Kind: "rollback"}, t.WriteTx.Context()) // never made to fail (kind "cancel": the context dies here)
	err := t.WriteTx.Rollback()
	t.ctl.leave(nil)
	return err
}

// ---------------------------------------------------------------- Collection

type wcoll struct {
	anystore.Collection
	ctl *Ctl
}

func strArr(v *anyenc.Value, key string) []string {
	arr := v.GetArray(key)
	res := make([]string, 0, len(arr))
	for _, x := range arr {
		b, _ := x.StringBytes()
		res = append(res, string(b))
	}
	return res
}

func docRec(v *anyenc.Value) DocRec {
	return DocRec{
		Id: v.GetString("id"), Tree: v.GetString("t"), Prevs: strArr(v, "p"), Snap: v.GetString("i"),
		Ord: v.GetString("o"), OrdN: v.GetInt("o"), Acl: v.GetString("a"), Sett: v.GetString("s"),
	}
}

func (c *wcoll) Insert(ctx context.Context, docs ...*anyenc.Value) error {
	rec := CallRec{Kind: "insert", Coll: c.Name()}
	for _, d := range docs {
		dr := docRec(d)
		if c.Name() != "changes" {
			// ACL records keep the previous id as a string under "p"
			dr.Prevs = nil
			if p := d.GetString("p"); p != "" {
				dr.Prevs = []string{p}
			}
		}
		rec.Docs = append(rec.Docs, dr)
	}
	if c.ctl.enter(rec, ctx) {
		return errInjected
	}
	err := c.Collection.Insert(ctx, docs...)
	c.ctl.leave(err)
	return err
}

func (c *wcoll) UpsertId(ctx context.Context, id any, mod query.Modifier) (anystore.ModifyResult, error) {
	rec := CallRec{Kind: "upsert", Coll: c.Name(), Id: fmt.Sprint(id), Set: map[string]interface{}{}}
	if c.ctl.active {
		// which fields does the modifier set?  apply it to an empty probe object
		a := &anyenc.Arena{}
		probe := a.NewObject()
		if res, _, err := mod.Modify(a, probe); err == nil && res != nil {
			if res.Get("h") != nil {
				rec.Set["h"] = strArr(res, "h")
			}
			if res.Get("s") != nil {
				rec.Set["s"] = res.GetString("s")
			}
			if res.Get("d") != nil {
				rec.Set["d"] = res.GetInt("d")
			}
		}
	}
	if c.ctl.enter(rec, ctx) {
		return anystore.ModifyResult{}, errInjected
	}
	r, err := c.Collection.UpsertId(ctx, id, mod)
	c.ctl.leave(err)
	return r, err
}

func (c *wcoll) other(ctx context.Context, what string, f func() error) error {
	if c.ctl.enter(CallRec{Kind: "other", Coll: c.Name(), What: what}, ctx) {
		return errInjected
	}
	err := f()
	c.ctl.leave(err)
	return err
}

func (c *wcoll) UpdateOne(ctx context.Context, doc *anyenc.Value) error {
	return c.other(ctx, "UpdateOne", func() error { return c.Collection.UpdateOne(ctx, doc) })
}
func (c *wcoll) UpsertOne(ctx context.Context, doc *anyenc.Value) error {
	return c.other(ctx, "UpsertOne", func() error { return c.Collection.UpsertOne(ctx, doc) })
}
func (c *wcoll) UpdateId(ctx context.Context, id any, mod query.Modifier) (r anystore.ModifyResult, err error) {
	err = c.other(ctx, "UpdateId", func() error { r, err = c.Collection.UpdateId(ctx, id, mod); return err })
	return
}
func (c *wcoll) DeleteId(ctx context.Context, id any) error {
	return c.other(ctx, "DeleteId", func() error { return c.Collection.DeleteId(ctx, id) })
}
func (c *wcoll) Drop(ctx context.Context) error {
	return c.other(ctx, "Drop", func() error { return c.Collection.Drop(ctx) })
}
func (c *wcoll) Rename(ctx context.Context, n string) error {
	return c.other(ctx, "Rename", func() error { return c.Collection.Rename(ctx, n) })
}

func idxName(i anystore.IndexInfo) string {
	if i.Name != "" {
		return i.Name
	}
	return strings.Join(i.Fields, ",")
}

func (c *wcoll) missingIndex(info []anystore.IndexInfo) bool {
	have := map[string]bool{}
	for _, ix := range c.Collection.GetIndexes() {
		have[idxName(ix.Info())] = true
	}
	for _, i := range info {
		if !have[idxName(i)] {
			return true
		}
	}
	return false
}

func (c *wcoll) EnsureIndex(ctx context.Context, info ...anystore.IndexInfo) error {
	if !c.missingIndex(info) {
		return c.Collection.EnsureIndex(ctx, info...)
	}
	if c.ctl.enter(CallRec{Kind: "meta", What: "create index on " + c.Name()}, ctx) {
		return errInjected
	}
	err := c.Collection.EnsureIndex(ctx, info...)
	c.ctl.leave(err)
	return err
}

func (c *wcoll) CreateIndex(ctx context.Context, info ...anystore.IndexInfo) error {
	if c.ctl.enter(CallRec{Kind: "meta", What: "create index on " + c.Name()}, ctx) {
		return errInjected
	}
	err := c.Collection.CreateIndex(ctx, info...)
	c.ctl.leave(err)
	return err
}

func (c *wcoll) WriteTx(ctx context.Context) (anystore.WriteTx, error) {
	if c.ctl.enter(CallRec{Kind: "begin"}, ctx) {
		return nil, errInjected
	}
	tx, err := c.Collection.WriteTx(ctx)
	c.ctl.leave(err)
	if err != nil {
		return nil, err
	}
	return &wtx{WriteTx: tx, ctl: c.ctl}, nil
}

// Find: a Query that was produced by this wrapper is unwrapped again when it is used as a filter
// (acl/list/storage.go getWithQuery passes a Query to Find).
func (c *wcoll) Find(filter any) anystore.Query {
	tree := ""
	if wq, ok := filter.(*wquery); ok {
		filter = wq.Query
	}
	if k, ok := filter.(query.Key); ok && len(k.Path) == 1 && k.Path[0] == "t" {
		// changes.Find(t == tree): remember the tree id for a following Delete
		tree = treeOfFilter(k)
	}
	return &wquery{Query: c.Collection.Find(filter), c: c, tree: tree}
}

func treeOfFilter(k query.Key) string {
	if cmp, ok := k.Filter.(*query.Comp); ok && cmp.CompOp == query.CompOpEq {
		if v, err := (&anyenc.Parser{}).Parse(cmp.EqValue); err == nil {
			b, _ := v.StringBytes()
			return string(b)
		}
	}
	return "?"
}

type wquery struct {
	anystore.Query
	c    *wcoll
	tree string
}

func (q *wquery) Limit(l uint) anystore.Query {
	return &wquery{Query: q.Query.Limit(l), c: q.c, tree: q.tree}
}
func (q *wquery) Offset(o uint) anystore.Query {
	return &wquery{Query: q.Query.Offset(o), c: q.c, tree: q.tree}
}
func (q *wquery) Sort(s ...any) anystore.Query {
	return &wquery{Query: q.Query.Sort(s...), c: q.c, tree: q.tree}
}
func (q *wquery) IndexHint(h ...anystore.IndexHint) anystore.Query {
	return &wquery{Query: q.Query.IndexHint(h...), c: q.c, tree: q.tree}
}

func (q *wquery) Delete(ctx context.Context) (anystore.ModifyResult, error) {
	if q.c.ctl.enter(CallRec{Kind: "delete", Coll: q.c.Name(), Tree: q.tree}, ctx) {
		return anystore.ModifyResult{}, errInjected
	}
	r, err := q.Query.Delete(ctx)
	q.c.ctl.leave(err)
	return r, err
}

func (q *wquery) Update(ctx context.Context, modifier any) (anystore.ModifyResult, error) {
	if q.c.ctl.enter(CallRec{Kind: "other", Coll: q.c.Name(), What: "Query.Update"}, ctx) {
		return anystore.ModifyResult{}, errInjected
	}
	r, err := q.Query.Update(ctx, modifier)
	q.c.ctl.leave(err)
	return r, err
}
