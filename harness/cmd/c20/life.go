// Lifecycle histories for C20: Register / Start / Close in any order on one live container, with a Register
// attempted from another goroutine WHILE Start executes (from inside the Init or the Run call of a component).
// Mirrors Model/App.v run_hops; checked against spec_C20_hops.
package main

import (
	"context"
	"fmt"
	"sync"
	"time"

	"github.com/anyproto/any-sync/app"

	"verifharness/vlib"
)

func (p *plain) hooks() *plain { return p }

type hooked interface{ hooks() *plain }

type lateSpec struct {
	Phase string   `json:"phase"` // "init" | "run": the call of component K during which Register is attempted
	K     int      `json:"k"`
	Comp  compSpec `json:"comp"`
}

type hop struct {
	Op   string    `json:"op"` // "reg" | "start" | "close"
	Comp *compSpec `json:"comp,omitempty"`
	Late *lateSpec `json:"late,omitempty"`
}

type lifeCase struct {
	Ops     []hop `json:"ops"`
	DoneCtx bool  `json:"done_ctx,omitempty"` // Start / Close are handed an already cancelled context
}

// how long a trigger waits for its concurrent Register before it lets Start go on. On the code as it is the
// Register cannot complete before Start returns (Start holds the read lock), so the wait always runs out; the
// wait only has to be long enough for a Register that CAN complete to do so.
const lateWait = 120 * time.Millisecond

type lifeResult struct {
	opTerms  []string
	obsTerms []string
	hang     string
	fired    int
	starts   int
}

func runLife(lc lifeCase) (res lifeResult) {
	a := new(app.App)
	l := &logT{}
	var cur []compSpec
	var comps []app.Component
	ctx := context.Background()
	if lc.DoneCtx {
		ctx = doneCtx()
	}
	for _, o := range lc.Ops {
		switch o.Op {
		case "reg":
			c := mkComp(*o.Comp, len(cur), l)
			cur = append(cur, *o.Comp)
			comps = append(comps, c)
			a.Register(c)
			l.take()
			res.opTerms = append(res.opTerms, vlib.App("HReg", compTerm(*o.Comp)))
			res.obsTerms = append(res.obsTerms, vlib.Pair("[]", "HRReg"))
		case "start":
			res.starts++
			var done chan struct{}
			var once sync.Once
			var lateComp app.Component
			lateTerm := "None"
			if o.Late != nil {
				ph := "PInit"
				if o.Late.Phase == "run" {
					ph = "PRun"
				}
				lateTerm = vlib.Some(vlib.Pair(vlib.Pair(ph, vlib.Nat(o.Late.K)), compTerm(o.Late.Comp)))
				if o.Late.K < len(comps) {
					lateComp = mkComp(o.Late.Comp, len(cur), l)
					trig := func() {
						once.Do(func() {
							done = make(chan struct{})
							d := done
							go func() {
								defer close(d)
								a.Register(lateComp)
							}()
							select {
							case <-d:
							case <-time.After(lateWait):
							}
						})
					}
					h := comps[o.Late.K].(hooked).hooks()
					if o.Late.Phase == "run" {
						h.onRun = trig
					} else {
						h.onInit = trig
					}
				}
			}
			err := a.Start(ctx)
			if o.Late != nil && o.Late.K < len(comps) {
				h := comps[o.Late.K].(hooked).hooks()
				h.onInit, h.onRun = nil, nil
			}
			if done != nil {
				// the attempted registration must land once Start has returned
				select {
				case <-done:
					res.fired++
					cur = append(cur, o.Late.Comp)
					comps = append(comps, lateComp)
				case <-time.After(10 * time.Second):
					res.hang = "Register attempted during Start did not return within 10s after Start returned"
					return
				}
			}
			ev := l.take()
			r := "StartOk"
			if err != nil {
				r, _ = startErrTerm(cur, err)
			}
			res.opTerms = append(res.opTerms, vlib.App("HStart", lateTerm))
			res.obsTerms = append(res.obsTerms, vlib.Pair(eventsTerm(ev), vlib.App("HRStart", r)))
		case "close":
			err := a.Close(ctx)
			ev := l.take()
			errs := closeErrIdx(cur, err)
			res.opTerms = append(res.opTerms, "HClose")
			res.obsTerms = append(res.obsTerms, vlib.Pair(eventsTerm(ev), vlib.App("HRClose", vlib.NatList(errs))))
		}
	}
	return
}

// directed family: every list up to length 3 over {plain, runnable}, a registration attempted from every Init /
// Run call, late component runnable; then Close.
func directedLife() []lifeCase {
	var out []lifeCase
	for n := 1; n <= 3; n++ {
		for mask := 0; mask < 1<<n; mask++ {
			for k := 0; k < n; k++ {
				for _, ph := range []string{"init", "run"} {
					if ph == "run" && mask&(1<<k) == 0 {
						continue
					}
					var lc lifeCase
					for i := 0; i < n; i++ {
						c := compSpec{Name: i, Runnable: mask&(1<<i) != 0}
						lc.Ops = append(lc.Ops, hop{Op: "reg", Comp: &c})
					}
					lc.Ops = append(lc.Ops, hop{Op: "start", Late: &lateSpec{Phase: ph, K: k, Comp: compSpec{Name: 100, Runnable: true}}})
					lc.Ops = append(lc.Ops, hop{Op: "close"})
					out = append(out, lc)
				}
			}
		}
	}
	return out
}

func genLife(r *vlib.Rand) lifeCase {
	var lc lifeCase
	next := 0
	n := 0
	reg := func() {
		c := compSpec{Name: next, Runnable: r.Chance(3, 5)}
		next++
		c.InitFails = r.Chance(1, 14)
		c.RunFails = c.Runnable && r.Chance(1, 10)
		c.CloseFails = c.Runnable && r.Chance(1, 5)
		lc.Ops = append(lc.Ops, hop{Op: "reg", Comp: &c})
		n++
	}
	for k := 0; k < 1+r.Intn(5); k++ {
		reg()
	}
	steps := 2 + r.Intn(5)
	for k := 0; k < steps; k++ {
		switch c := r.Intn(10); {
		case c < 2:
			reg()
		case c < 7:
			h := hop{Op: "start"}
			if r.Chance(3, 4) {
				ls := &lateSpec{Phase: "init", K: r.Intn(n + 1), Comp: compSpec{Name: next, Runnable: r.Chance(3, 4)}}
				next++
				if r.Chance(2, 5) {
					ls.Phase = "run"
				}
				ls.Comp.CloseFails = ls.Comp.Runnable && r.Chance(1, 5)
				ls.Comp.RunFails = ls.Comp.Runnable && r.Chance(1, 8)
				h.Late = ls
				n++ // if it does not fire the name is simply unused
			}
			lc.Ops = append(lc.Ops, h)
		default:
			lc.Ops = append(lc.Ops, hop{Op: "close"})
		}
	}
	if r.Chance(2, 3) {
		lc.Ops = append(lc.Ops, hop{Op: "close"})
	}
	lc.DoneCtx = r.Chance(1, 3)
	return lc
}

// runLifeAll executes the cases on a worker pool (every case has its own container) and hands the results
// over in order.
func runLifeAll(cases []lifeCase, each func(lc lifeCase, res lifeResult)) {
	results := make([]lifeResult, len(cases))
	var wg sync.WaitGroup
	sem := make(chan struct{}, 16)
	for i := range cases {
		wg.Add(1)
		sem <- struct{}{}
		go func(i int) {
			defer wg.Done()
			defer func() { <-sem }()
			defer func() {
				if p := recover(); p != nil {
					results[i].hang = fmt.Sprintf("panic: %v", p)
				}
			}()
			results[i] = runLife(cases[i])
		}(i)
	}
	wg.Wait()
	for i := range cases {
		each(cases[i], results[i])
	}
}
