// Correspondence driver for C20: runs the real app.App with logging components and writes what it
// observed as Coq cases (checked against Model/App.v and spec_C20 by coqc).
package main

import (
	"context"
	"encoding/json"
	"fmt"
	"regexp"
	"sync"

	"github.com/anyproto/any-sync/app"

	"verifharness/vlib"
)

// The failing component is identified by a token inside the error IT returned (Start wraps it, Close joins
// the texts), not by the container's own wording around it, so rewording the container's messages does not
// disturb the comparison.
var failRe = regexp.MustCompile(`(initfail|runfail)#c(\d+)#`)
var closeFailRe = regexp.MustCompile(`closefail#c(\d+)#`)

type compSpec struct {
	Name       int  `json:"name"`
	Kind       int  `json:"kind"`
	Runnable   bool `json:"runnable"`
	InitFails  bool `json:"init_fails"`
	RunFails   bool `json:"run_fails"`
	CloseFails bool `json:"close_fails"`
}

type event struct {
	Kind string
	Idx  int
}

type logT struct {
	mu sync.Mutex
	ev []event
}

func (l *logT) add(k string, i int) {
	l.mu.Lock()
	l.ev = append(l.ev, event{k, i})
	l.mu.Unlock()
}
func (l *logT) take() []event {
	l.mu.Lock()
	ev := l.ev
	l.ev = nil
	l.mu.Unlock()
	return ev
}

// plain component
type plain struct {
	spec   compSpec
	idx    int
	log    *logT
	onInit func() // lifecycle histories: called inside Init / Run (after logging the call)
	onRun  func()
}

func (p *plain) Init(a *app.App) error {
	p.log.add("EInit", p.idx)
	if p.onInit != nil {
		p.onInit()
	}
	if p.spec.InitFails {
		return fmt.Errorf("initfail#c%d#", p.spec.Name)
	}
	return nil
}
func (p *plain) Name() string { return fmt.Sprintf("c%d", p.spec.Name) }

type runnable struct{ plain }

func (r *runnable) Run(ctx context.Context) error {
	r.log.add("ERun", r.idx)
	if r.onRun != nil {
		r.onRun()
	}
	if r.spec.RunFails {
		return fmt.Errorf("runfail#c%d#", r.spec.Name)
	}
	return nil
}
func (r *runnable) Close(ctx context.Context) error {
	r.log.add("EClose", r.idx)
	if r.spec.CloseFails {
		return fmt.Errorf("closefail#c%d#", r.spec.Name)
	}
	return nil
}

// interfaces for GetComponent[T]; kind bit k set <=> implements Kk
type K0 interface{ IsK0() }
type K1 interface{ IsK1() }
type K2 interface{ IsK2() }

type plainK0 struct{ plain }
type plainK1 struct{ plain }
type plainK2 struct{ plain }
type plainK01 struct{ plain }
type plainK02 struct{ plain }
type plainK12 struct{ plain }
type plainK012 struct{ plain }

func (plainK0) IsK0()   {}
func (plainK1) IsK1()   {}
func (plainK2) IsK2()   {}
func (plainK01) IsK0()  {}
func (plainK01) IsK1()  {}
func (plainK02) IsK0()  {}
func (plainK02) IsK2()  {}
func (plainK12) IsK1()  {}
func (plainK12) IsK2()  {}
func (plainK012) IsK0() {}
func (plainK012) IsK1() {}
func (plainK012) IsK2() {}

type located interface{ loc() (int, *logT) }

func (p *plain) loc() (int, *logT) { return p.idx, p.log }

func mkComp(s compSpec, idx int, l *logT) app.Component {
	p := plain{spec: s, idx: idx, log: l}
	if s.Runnable {
		return &runnable{p}
	}
	switch s.Kind {
	case 1:
		return &plainK0{p}
	case 2:
		return &plainK1{p}
	case 4:
		return &plainK2{p}
	case 3:
		return &plainK01{p}
	case 5:
		return &plainK02{p}
	case 6:
		return &plainK12{p}
	case 7:
		return &plainK012{p}
	}
	return &p
}

func compTerm(s compSpec) string {
	return vlib.App("mkComp", vlib.N(uint64(s.Name)), vlib.N(uint64(s.Kind)), vlib.Bool(s.Runnable),
		vlib.Bool(s.InitFails), vlib.Bool(s.RunFails), vlib.Bool(s.CloseFails))
}
func compsTerm(cs []compSpec) string {
	s := make([]string, len(cs))
	for i, c := range cs {
		s[i] = compTerm(c)
	}
	return vlib.List(s)
}
func eventsTerm(ev []event) string {
	s := make([]string, len(ev))
	for i, e := range ev {
		s[i] = vlib.App(e.Kind, vlib.Nat(e.Idx))
	}
	return vlib.List(s)
}

func nameIdx(cs []compSpec, name string) int {
	for i, c := range cs {
		if fmt.Sprintf("c%d", c.Name) == name {
			return i
		}
	}
	return -1
}

// runStart runs Start on a fresh app and returns events and the result term.
// doneCtx is a context that is already cancelled: the container's order and rollback rules do not depend on the
// state of the context it is handed (components see it; the container must not cut its loops short because of it)
func doneCtx() context.Context {
	ctx, cancel := context.WithCancel(context.Background())
	cancel()
	return ctx
}

func runStart(cs []compSpec, ctx context.Context) ([]event, string, string) {
	l := &logT{}
	a := new(app.App)
	for i, c := range cs {
		a.Register(mkComp(c, i, l))
	}
	err := a.Start(ctx)
	res := "StartOk"
	cls := "ok"
	if err != nil {
		res, cls = startErrTerm(cs, err)
	}
	return l.ev, res, cls
}

// startErrTerm: which component's error does Start report, and from which call
func startErrTerm(cs []compSpec, err error) (string, string) {
	if m := failRe.FindStringSubmatch(err.Error()); m != nil {
		if idx := nameIdx(cs, "c"+m[2]); idx >= 0 {
			if m[1] == "initfail" {
				return vlib.App("ErrInit", vlib.Nat(idx)), "init_err"
			}
			return vlib.App("ErrRun", vlib.Nat(idx)), "run_err"
		}
	}
	// an error that carries no component's error: report an impossible index so that it mismatches
	return vlib.App("ErrInit", vlib.Nat(9999)), "unknown_err"
}

func closeErrIdx(cs []compSpec, err error) (errs []int) {
	if err == nil {
		return nil
	}
	ms := closeFailRe.FindAllStringSubmatch(err.Error(), -1)
	for _, m := range ms {
		errs = append(errs, nameIdx(cs, "c"+m[1]))
	}
	if len(ms) == 0 {
		errs = append(errs, 9999)
	}
	return
}

func runClose(cs []compSpec, ctx context.Context) ([]event, []int) {
	l := &logT{}
	a := new(app.App)
	for i, c := range cs {
		a.Register(mkComp(c, i, l))
	}
	err := a.Close(ctx)
	errs := closeErrIdx(cs, err)
	return l.ev, errs
}

type lookupCase struct {
	Chain [][]compSpec `json:"chain"`
	Name  int          `json:"name"`
	Kind  int          `json:"kind"`
	By    string       `json:"by"`
}

func buildChain(chain [][]compSpec) (*app.App, map[app.Component][2]int) {
	// chain[0] is the child; build from the root down
	where := map[app.Component][2]int{}
	var cur *app.App
	for lvl := len(chain) - 1; lvl >= 0; lvl-- {
		if cur == nil {
			cur = new(app.App)
		} else {
			cur = cur.ChildApp()
		}
		l := &logT{}
		for i, c := range chain[lvl] {
			comp := mkComp(c, i, l)
			where[comp] = [2]int{lvl, i}
			cur.Register(comp)
		}
	}
	return cur, where
}

func resTerm(c app.Component, where map[app.Component][2]int) string {
	if c == nil {
		return "None"
	}
	w, ok := where[c]
	if !ok {
		return vlib.Some(vlib.Pair(vlib.Nat(9999), vlib.Nat(9999)))
	}
	return vlib.Some(vlib.Pair(vlib.Nat(w[0]), vlib.Nat(w[1])))
}

func runLookup(lc lookupCase) string {
	a, where := buildChain(lc.Chain)
	if lc.By == "name" {
		return resTerm(a.Component(fmt.Sprintf("c%d", lc.Name)), where)
	}
	var c app.Component
	switch lc.Kind {
	case 0:
		if v, err := app.GetComponent[K0](a); err == nil {
			c = v.(app.Component)
		}
	case 1:
		if v, err := app.GetComponent[K1](a); err == nil {
			c = v.(app.Component)
		}
	default:
		if v, err := app.GetComponent[K2](a); err == nil {
			c = v.(app.Component)
		}
	}
	return resTerm(c, where)
}

func chainTerm(chain [][]compSpec) string {
	s := make([]string, len(chain))
	for i, cs := range chain {
		s[i] = compsTerm(cs)
	}
	return vlib.List(s)
}

// ---- histories of registrations and lookups on one nesting of live containers
type lop struct {
	Reg   *compSpec `json:"reg,omitempty"`
	Lvl   int       `json:"lvl"`
	By    string    `json:"by,omitempty"` // "name" | "kind" (lookups)
	Key   int       `json:"key"`
	Must  bool      `json:"must,omitempty"` // use MustComponent (name lookups that are known to succeed)
}

type lopCase struct {
	Depth int   `json:"depth"`
	Ops   []lop `json:"ops"`
}

func runLops(lc lopCase) (resTerms []string, opTerms []string) {
	// level 0 is the innermost child: build root first
	apps := make([]*app.App, lc.Depth)
	for l := lc.Depth - 1; l >= 0; l-- {
		if l == lc.Depth-1 {
			apps[l] = new(app.App)
		} else {
			apps[l] = apps[l+1].ChildApp()
		}
	}
	where := map[app.Component][2]int{}
	count := make([]int, lc.Depth)
	logs := &logT{}
	for _, o := range lc.Ops {
		if o.Reg != nil {
			c := mkComp(*o.Reg, count[o.Lvl], logs)
			where[c] = [2]int{o.Lvl, count[o.Lvl]}
			count[o.Lvl]++
			apps[o.Lvl].Register(c)
			opTerms = append(opTerms, vlib.App("LReg", vlib.Nat(o.Lvl), compTerm(*o.Reg)))
			continue
		}
		a := apps[o.Lvl]
		var got app.Component
		if o.By == "name" {
			got = a.Component(fmt.Sprintf("c%d", o.Key))
			if got != nil && o.Must {
				got = a.MustComponent(fmt.Sprintf("c%d", o.Key))
			}
		} else {
			switch o.Key {
			case 0:
				if v, err := app.GetComponent[K0](a); err == nil {
					got = v.(app.Component)
				}
			case 1:
				if v, err := app.GetComponent[K1](a); err == nil {
					got = v.(app.Component)
				}
			default:
				if v, err := app.GetComponent[K2](a); err == nil {
					got = v.(app.Component)
				}
			}
		}
		resTerms = append(resTerms, resTerm(got, where))
		opTerms = append(opTerms, vlib.App("LLook", vlib.Nat(o.Lvl), vlib.Bool(o.By == "kind"), vlib.N(uint64(o.Key))))
	}
	return
}

func genLops(r *vlib.Rand) lopCase {
	depth := 1 + r.Intn(4)
	lc := lopCase{Depth: depth}
	used := make([]map[int]bool, depth)
	for i := range used {
		used[i] = map[int]bool{}
	}
	reg := func(lvl, nm int) bool {
		if used[lvl][nm] {
			return false // Register panics on a duplicate name in one container
		}
		used[lvl][nm] = true
		c := compSpec{Name: nm}
		if r.Chance(1, 4) {
			c.Runnable = true
		} else {
			c.Kind = r.Intn(8)
		}
		lc.Ops = append(lc.Ops, lop{Reg: &c, Lvl: lvl})
		return true
	}
	// some components first, mostly in the outer containers
	for k := 0; k < 1+r.Intn(5); k++ {
		reg(depth-1-r.Intn(1+r.Intn(depth)), r.Intn(5))
	}
	lastLvl, lastKey := -1, -1
	n := 3 + r.Intn(14)
	for k := 0; k < n; k++ {
		lvl := r.Intn(depth)
		switch c := r.Intn(10); {
		case c < 2:
			reg(lvl, r.Intn(5))
		case c < 4 && lastLvl >= 0:
			// shadow (or pre-empt) the name that was just looked up, in the container that asked or an inner/outer one
			l := lastLvl
			if r.Chance(1, 3) {
				l = r.Intn(depth)
			}
			reg(l, lastKey)
		case c < 8:
			key := r.Intn(5)
			if lastLvl >= 0 && r.Chance(1, 2) {
				lvl, key = lastLvl, lastKey // ask again
			}
			lc.Ops = append(lc.Ops, lop{Lvl: lvl, By: "name", Key: key, Must: r.Bool()})
			lastLvl, lastKey = lvl, key
		default:
			lc.Ops = append(lc.Ops, lop{Lvl: lvl, By: "kind", Key: r.Intn(3)})
		}
	}
	return lc
}

type caseDesc struct {
	Life   *lifeCase    `json:"life,omitempty"`
	Lops   *lopCase     `json:"lops,omitempty"`
	Kind   string       `json:"kind"`
	Comps  []compSpec   `json:"comps,omitempty"`
	Lookup *lookupCase  `json:"lookup,omitempty"`
	Obs    string       `json:"observed"`
}

func main() {
	o := vlib.ParseFlags()
	vlib.Quiet()
	w := vlib.NewWriter(o.Out, "C20_run", 1500)
	var samples []interface{}

	doList := func(cs []compSpec) {
		ev, res, cls := runStart(cs, context.Background())
		// the same list under an already cancelled context must behave the same; if it does not, the deviating
		// observation is what gets checked
		if ev2, res2, cls2 := runStart(cs, doneCtx()); eventsTerm(ev2) != eventsTerm(ev) || res2 != res {
			ev, res, cls = ev2, res2, cls2
			w.Stat("start_differs_under_cancelled_ctx")
		}
		term := vlib.App("CStart", compsTerm(cs), eventsTerm(ev), res)
		nt := len(cs) >= 2
		d := caseDesc{Kind: "start", Comps: cs, Obs: eventsTerm(ev) + " " + res}
		w.Add(term, d, term, nt)
		w.Stat("start_" + cls)
		w.Stat(fmt.Sprintf("len_%d", len(cs)))
		if len(samples) < 3 && len(cs) >= 3 && cls != "ok" {
			samples = append(samples, d)
		}
		ev2, errs := runClose(cs, context.Background())
		if ev3, errs3 := runClose(cs, doneCtx()); eventsTerm(ev3) != eventsTerm(ev2) || vlib.NatList(errs3) != vlib.NatList(errs) {
			ev2, errs = ev3, errs3
			w.Stat("close_differs_under_cancelled_ctx")
		}
		term2 := vlib.App("CClose", compsTerm(cs), eventsTerm(ev2), vlib.NatList(errs))
		d2 := caseDesc{Kind: "close", Comps: cs, Obs: eventsTerm(ev2) + " " + vlib.NatList(errs)}
		w.Add(term2, d2, term2, nt)
		if len(errs) > 0 {
			w.Stat("close_with_errors")
		} else {
			w.Stat("close_ok")
		}
	}
	doLookup := func(lc lookupCase) {
		res := runLookup(lc)
		var term string
		if lc.By == "name" {
			term = vlib.App("CLookupName", chainTerm(lc.Chain), vlib.N(uint64(lc.Name)), res)
		} else {
			term = vlib.App("CLookupKind", chainTerm(lc.Chain), vlib.N(uint64(lc.Kind)), res)
		}
		d := caseDesc{Kind: "lookup", Lookup: &lc, Obs: res}
		w.Add(term, d, term, len(lc.Chain) >= 2)
		if res == "None" {
			w.Stat("lookup_none")
		} else {
			w.Stat("lookup_found")
		}
		if len(samples) < 5 && len(lc.Chain) == 3 && res != "None" {
			samples = append(samples, d)
		}
	}

	doLops := func(lc lopCase) {
		res, ops := runLops(lc)
		term := vlib.App("CLookupSeq", vlib.Nat(lc.Depth), vlib.List(ops), vlib.List(res))
		d := caseDesc{Kind: "lookup_history", Lops: &lc, Obs: vlib.List(res)}
		w.Add(term, d, term, len(res) >= 2)
		w.Stat("lookup_history")
		if len(samples) < 6 && lc.Depth >= 2 && len(res) >= 3 {
			samples = append(samples, d)
		}
	}

	doLifeAll := func(cases []lifeCase) {
		runLifeAll(cases, func(lc lifeCase, res lifeResult) {
			lcc := lc
			d := caseDesc{Kind: "lifecycle", Life: &lcc, Obs: vlib.List(res.obsTerms)}
			if res.hang != "" {
				idx := w.Add(vlib.App("CLife", "[]", "[]"), d, fmt.Sprintf("life-hang-%d", len(res.opTerms)), false)
				w.Violation(idx, "lifecycle-hang-or-panic", res.hang, d)
				return
			}
			term := vlib.App("CLife", vlib.List(res.opTerms), vlib.List(res.obsTerms))
			w.Add(term, d, term, len(res.opTerms) >= 3)
			w.Stat("lifecycle")
			w.Stat(fmt.Sprintf("lifecycle_late_registrations_landed_%d", res.fired))
			if len(samples) < 8 && res.fired > 0 && len(res.opTerms) >= 5 {
				samples = append(samples, d)
			}
		})
	}

	if o.Replay != "" {
		var lifes []lifeCase
		for _, raw := range vlib.ReadReplay(o.Replay) {
			var d caseDesc
			if json.Unmarshal(raw, &d) != nil {
				continue
			}
			if d.Life != nil {
				lifes = append(lifes, *d.Life)
				continue
			}
			if d.Lops != nil {
				doLops(*d.Lops)
				continue
			}
			if d.Lookup != nil {
				doLookup(*d.Lookup)
			} else {
				doList(d.Comps)
			}
		}
		doLifeAll(lifes)
		w.Finish("replay", samples, nil)
		return
	}

	// exhaustive: all lists up to maxLen over the alphabet
	// {plain, runnable} x at most one failure point in the list (init or run of one component) x close_fails mask sample
	maxLen := 4
	if o.Tier == "thorough" {
		maxLen = 6
	}
	if o.Budget > 1 && maxLen < 6 {
		maxLen++
	}
	exhaustive := 0
	for n := 0; n <= maxLen; n++ {
		for mask := 0; mask < 1<<n; mask++ {
			// failure points: none, init i, run i (only if runnable)
			for fp := -1; fp < 2*n; fp++ {
				if fp >= n && mask&(1<<(fp-n)) == 0 {
					continue
				}
				cs := make([]compSpec, n)
				for i := 0; i < n; i++ {
					cs[i] = compSpec{Name: i, Runnable: mask&(1<<i) != 0}
					if fp == i {
						cs[i].InitFails = true
					}
					if fp == n+i {
						cs[i].RunFails = true
					}
					cs[i].CloseFails = (mask>>i^fp^i)&1 == 1 && cs[i].Runnable
				}
				doList(cs)
				exhaustive++
			}
		}
	}
	// random: longer lists, several failure points at once
	r := vlib.NewRand(o.Seed)
	nRandom := 600
	if o.Tier == "thorough" {
		nRandom = 6000
	}
	nRandom *= o.Budget
	for k := 0; k < nRandom; k++ {
		n := 1 + r.Intn(12)
		cs := make([]compSpec, n)
		for i := range cs {
			cs[i] = compSpec{Name: i, Runnable: r.Chance(3, 5)}
			cs[i].InitFails = r.Chance(1, 12)
			cs[i].RunFails = cs[i].Runnable && r.Chance(1, 8)
			cs[i].CloseFails = cs[i].Runnable && r.Chance(1, 4)
		}
		doList(cs)
	}
	// lookups: nestings with shadowed names
	nLookup := 800
	if o.Tier == "thorough" {
		nLookup = 8000
	}
	nLookup *= o.Budget
	for k := 0; k < nLookup; k++ {
		depth := 1 + r.Intn(4)
		chain := make([][]compSpec, depth)
		for l := range chain {
			m := r.Intn(4)
			used := map[int]bool{}
			for i := 0; i < m; i++ {
				nm := r.Intn(5)
				if used[nm] {
					continue
				}
				used[nm] = true
				c := compSpec{Name: nm}
				if r.Chance(1, 4) {
					c.Runnable = true
				} else {
					c.Kind = r.Intn(8)
				}
				chain[l] = append(chain[l], c)
			}
		}
		lc := lookupCase{Chain: chain}
		if r.Bool() {
			lc.By, lc.Name = "name", r.Intn(6)
		} else {
			lc.By, lc.Kind = "kind", r.Intn(3)
		}
		doLookup(lc)
	}
	// histories interleaving Register and lookups on the same live containers
	nHist := 700
	if o.Tier == "thorough" {
		nHist = 7000
	}
	for k := 0; k < nHist*o.Budget; k++ {
		doLops(genLops(r))
	}
	// lifecycle histories: Register / Start / Close in any order, registrations attempted during Start
	lifes := directedLife()
	nLife := 160
	if o.Tier == "thorough" {
		nLife = 1600
	}
	for k := 0; k < nLife*o.Budget; k++ {
		lifes = append(lifes, genLife(r))
	}
	doLifeAll(lifes)
	w.Finish("exhaustive over lists of length <= maxLen x runnable mask x single failure point (init/run), "+
		"plus random lists up to 12 with multiple failure points, plus random nestings (depth<=4, shadowed names, 3 interfaces), "+
		"plus histories interleaving Register with Component / MustComponent / GetComponent[T] on the same live nesting, "+
		"plus lifecycle histories (Register / Start / Close in any order, a Register attempted from another goroutine inside every Init / Run call: directed over lists <= 3, and random); "+
		"a case is non-trivial if the list has >= 2 components / the chain has >= 2 levels; distinct by full case term",
		samples, map[string]interface{}{"exhaustive_lists": exhaustive, "max_len": maxLen})
}
