// Correspondence driver for C07: real ldiff Diff / CompareDiff, in process and through
// NewRemoteDiff -> (protobuf bytes) -> HandleRangeRequest, on generated pairs of head indexes with placed hashes.
package main

import (
	"context"
	"encoding/hex"
	"encoding/json"
	"fmt"
	"runtime"
	"sync"
	"time"

	"github.com/anyproto/any-sync/app/ldiff"
	"github.com/anyproto/any-sync/commonspace/headsync"
	"github.com/anyproto/any-sync/commonspace/spacesyncproto"

	"verifharness/ldiffh"
	"verifharness/vlib"
)

type hop struct {
	Set    []ldiffh.El `json:"set,omitempty"`
	Remove *ldiffh.El  `json:"remove,omitempty"`
}

type spec struct {
	Df      int         `json:"df"`
	Th      int         `json:"th"`
	ThR     int         `json:"thr,omitempty"`  // responder's threshold (0 = same as Th)
	Askers  [][]ldiffh.El `json:"askers,omitempty"` // concurrent mode: several askers diff against ONE shared responder (R) in parallel
	Iters   int         `json:"iters,omitempty"`
	OpsL    []hop       `json:"opsL,omitempty"` // when set, the indexes are reached by these histories
	OpsR    []hop       `json:"opsR,omitempty"`
	L       []ldiffh.El `json:"L"`
	R       []ldiffh.El `json:"R"`
	Variant string      `json:"variant"`
	Wire    bool        `json:"wire"`
	Shape   string      `json:"shape"`
	Tags    []string    `json:"tags,omitempty"`
}

type result struct {
	New, Changed, Theirs, Removed []string
	Err                           string
	Panic                         string
}

type wireClient struct{ d ldiff.Diff }

func (w wireClient) HeadSync(ctx context.Context, in *spacesyncproto.HeadSyncRequest) (*spacesyncproto.HeadSyncResponse, error) {
	b, err := in.MarshalVT()
	if err != nil {
		return nil, err
	}
	req := &spacesyncproto.HeadSyncRequest{}
	if err = req.UnmarshalVT(b); err != nil {
		return nil, err
	}
	resp, err := headsync.HandleRangeRequest(ctx, w.d, req)
	if err != nil {
		return nil, err
	}
	rb, err := resp.MarshalVT()
	if err != nil {
		return nil, err
	}
	out := &spacesyncproto.HeadSyncResponse{}
	if err = out.UnmarshalVT(rb); err != nil {
		return nil, err
	}
	return out, nil
}

func fill(d ldiff.Diff, es []ldiffh.El) {
	els := make([]ldiff.Element, len(es))
	for i, e := range es {
		els[i] = e.Element()
	}
	if len(els) > 0 {
		d.Set(els...)
	}
}

func play(d ldiff.Diff, ops []hop) {
	for _, o := range ops {
		if o.Remove != nil {
			_ = d.RemoveId(o.Remove.ID())
			continue
		}
		fill(d, o.Set)
	}
}

// history ending with exactly the given contents: the final elements arrive in 1-3 Set calls (some first with
// another head), interleaved with temporary elements (hashes of the same shape) that are removed again
func genHistory(r *vlib.Rand, g *ldiffh.HashGen, final []ldiffh.El, otherOnly []ldiffh.El) []hop {
	var ops []hop
	var temps []ldiffh.El
	perm := r.Perm(len(final))
	i := 0
	for i < len(perm) || len(temps) > 0 {
		switch c := r.Intn(7); {
		case c < 3 && i < len(perm):
			n := 1 + r.Intn(4)
			var es []ldiffh.El
			for ; n > 0 && i < len(perm); n-- {
				e := final[perm[i]]
				i++
				if r.Chance(1, 4) {
					e2 := e
					e2.Head = e.Head + 1000
					ops = append(ops, hop{Set: []ldiffh.El{e2}})
				}
				es = append(es, e)
			}
			ops = append(ops, hop{Set: es})
		case (c == 3 || c == 4) && len(temps) < 14 && i < len(perm):
			t := ldiffh.El{Salt: 500000 + uint64(r.Intn(100000)), Hash: g.Next(), Head: r.Intn(5)}
			if len(otherOnly) > 0 && r.Bool() {
				// an element the OTHER side still holds: this side had it once and removed it
				t = otherOnly[r.Intn(len(otherOnly))]
				dup := false
				for _, x := range temps {
					if x.Salt == t.Salt && x.Hash == t.Hash {
						dup = true
					}
				}
				if dup {
					continue
				}
			}
			temps = append(temps, t)
			ops = append(ops, hop{Set: []ldiffh.El{t}})
		case c >= 5 && len(temps) > 0 || i >= len(perm) && len(temps) > 0:
			k := r.Intn(len(temps))
			t := temps[k]
			temps = append(temps[:k], temps[k+1:]...)
			ops = append(ops, hop{Remove: &ldiffh.El{Salt: t.Salt, Hash: t.Hash}})
		}
	}
	return ops
}

// runConcurrent: all askers run Diff / CompareDiff against one shared responder at the same time, repeatedly; the
// first result that differs from the set difference is returned as Err (the property holds for every pair of
// indexes, whoever else is talking to the responder)
func runConcurrent(s spec) (res result) {
	r := ldiff.New(s.Df, s.Th)
	fill(r, s.R)
	var remote ldiff.Remote = r
	if s.Wire {
		remote = headsync.NewRemoteDiff("space", wireClient{r})
	}
	askers := make([]ldiff.Diff, len(s.Askers))
	for i, a := range s.Askers {
		askers[i] = ldiff.New(s.Df, s.Th)
		fill(askers[i], a)
	}
	deadline := time.Now().Add(6 * time.Second)
	var mu sync.Mutex
	var wg sync.WaitGroup
	failed := func() bool {
		mu.Lock()
		defer mu.Unlock()
		return res.Err != "" || res.Panic != ""
	}
	// every asker runs its diffs back to back, with no barrier between iterations, and looks at each report only
	// after yielding: the report belongs to the caller, whatever diffs (its own next one excluded) start, run or
	// finish in the meantime
	for i := range askers {
		wg.Add(1)
		go func(i int) {
			defer wg.Done()
			defer func() {
				if p := recover(); p != nil {
					mu.Lock()
					res.Panic = fmt.Sprint(p)
					mu.Unlock()
				}
			}()
			for it := 0; it < s.Iters && time.Now().Before(deadline) && !failed(); it++ {
				var one result
				var err error
				sp := spec{L: s.Askers[i], R: s.R, Variant: s.Variant}
				ctx, cancel := context.WithTimeout(context.Background(), 5*time.Second)
				if (i+it)%2 == 0 {
					sp.Variant = "compare"
					one.New, one.Changed, one.Theirs, one.Removed, err = askers[i].(ldiff.CompareDiff).CompareDiff(ctx, remote)
				} else {
					sp.Variant = "diff"
					one.New, one.Changed, one.Removed, err = askers[i].Diff(ctx, remote)
				}
				cancel()
				for y := 0; y < 1+(i+it)%4; y++ {
					runtime.Gosched()
				}
				if (i+it)%3 == 0 {
					time.Sleep(time.Duration(50*(1+i)) * time.Microsecond)
				}
				msg := ""
				if err != nil {
					msg = "error: " + err.Error()
				} else {
					one = result{New: hexCopy(one.New), Changed: hexCopy(one.Changed), Theirs: hexCopy(one.Theirs), Removed: hexCopy(one.Removed)}
					msg = oracle(sp, one)
				}
				if msg != "" {
					mu.Lock()
					if res.Err == "" {
						res.Err = fmt.Sprintf("asker %d, iteration %d, %s: %s", i, it, sp.Variant, msg)
					}
					mu.Unlock()
				}
			}
		}(i)
	}
	wg.Wait()
	return
}

// disturb runs two unrelated diffs (fresh indexes, ids of their own) — used between receiving a report and
// reading it: a report handed to the caller must not change when later diffs run
func disturb() {
	defer func() { _ = recover() }()
	a, b := ldiff.New(4, 2), ldiff.New(4, 2)
	var ea, eb []ldiff.Element
	for i := 0; i < 12; i++ {
		id := fmt.Sprintf("zz-disturb-%02d", i)
		if i < 8 {
			ea = append(ea, ldiff.Element{Id: id, Head: "a"})
		}
		if i >= 4 {
			h := "a"
			if i%2 == 0 {
				h = "b"
			}
			eb = append(eb, ldiff.Element{Id: id, Head: h})
		}
	}
	a.Set(ea...)
	b.Set(eb...)
	ctx, cancel := context.WithTimeout(context.Background(), 2*time.Second)
	defer cancel()
	_, _, _, _ = a.Diff(ctx, b)
	_, _, _, _, _ = a.(ldiff.CompareDiff).CompareDiff(ctx, b)
	_, _, _, _ = b.Diff(ctx, a)
}

func runCase(s spec) (res result) {
	if len(s.Askers) > 0 {
		return runConcurrent(s)
	}
	defer func() {
		if p := recover(); p != nil {
			res.Panic = fmt.Sprint(p)
		}
	}()
	thr := s.Th
	if s.ThR != 0 {
		thr = s.ThR
	}
	l := ldiff.New(s.Df, s.Th)
	r := ldiff.New(s.Df, thr)
	if s.OpsL != nil || s.OpsR != nil {
		play(l, s.OpsL)
		play(r, s.OpsR)
	} else {
		fill(l, s.L)
		fill(r, s.R)
	}
	var remote ldiff.Remote = r
	if s.Wire {
		remote = headsync.NewRemoteDiff("space", wireClient{r})
	}
	ctx, cancel := context.WithTimeout(context.Background(), 4*time.Second)
	defer cancel()
	var err error
	if s.Variant == "compare" {
		res.New, res.Changed, res.Theirs, res.Removed, err = l.(ldiff.CompareDiff).CompareDiff(ctx, remote)
	} else {
		res.New, res.Changed, res.Removed, err = l.Diff(ctx, remote)
	}
	if err != nil {
		res.Err = err.Error()
	}
	// the report is read only after other, unrelated diffs have run
	disturb()
	res.New, res.Changed, res.Theirs, res.Removed = hexCopy(res.New), hexCopy(res.Changed), hexCopy(res.Theirs), hexCopy(res.Removed)
	return
}

// ids are binary strings: they travel hex-encoded between child and parent
func hexAll(l []string) []string {
	for i, s := range l {
		l[i] = hex.EncodeToString([]byte(s))
	}
	return l
}
func hexCopy(l []string) []string {
	if l == nil {
		return nil
	}
	out := make([]string, len(l))
	for i, s := range l {
		out[i] = hex.EncodeToString([]byte(s))
	}
	return out
}
func unhexAll(l []string) []string {
	out := make([]string, len(l))
	for i, s := range l {
		b, _ := hex.DecodeString(s)
		out[i] = string(b)
	}
	return out
}

func childHandler(req []byte) []byte {
	var s spec
	if err := json.Unmarshal(req, &s); err != nil {
		return []byte(`{"Err":"bad request"}`)
	}
	b, _ := json.Marshal(runCase(s))
	return b
}

func genSets(r *vlib.Rand, df int, kind string, nmax int) (L, R []ldiffh.El) {
	g := ldiffh.NewHashGen(r, df, kind)
	n := r.Intn(nmax + 1)
	used := map[[2]uint64]bool{}
	salt := uint64(r.Intn(1000))
	for i := 0; i < n; i++ {
		h := g.Next()
		if kind != "collide" && r.Chance(9, 10) {
			// usually one id per hash value
		} else {
			salt++
		}
		k := [2]uint64{salt, h}
		if used[k] {
			salt++
			k = [2]uint64{salt, h}
		}
		used[k] = true
		e := ldiffh.El{Salt: salt, Hash: h, Head: r.Intn(50)}
		switch r.Intn(10) {
		case 0, 1: // only local
			L = append(L, e)
		case 2, 3: // only remote
			R = append(R, e)
		case 4: // changed, remote greater
			L = append(L, e)
			e2 := e
			e2.Head = e.Head + 1 + r.Intn(5)
			R = append(R, e2)
		case 5: // changed, ours greater
			e2 := e
			e2.Head = e.Head + 1 + r.Intn(5)
			L = append(L, e2)
			R = append(R, e)
		default: // equal
			L = append(L, e)
			R = append(R, e)
		}
	}
	switch r.Intn(12) {
	case 0:
		L = nil
	case 1:
		R = nil
	}
	return
}

// oracle compares a result (hex ids) with the set difference computed directly from the two element lists
func oracle(s spec, res result) string {
	lm, rm := map[string]int{}, map[string]int{}
	for _, e := range s.L {
		lm[hex.EncodeToString([]byte(e.ID()))] = e.Head
	}
	for _, e := range s.R {
		rm[hex.EncodeToString([]byte(e.ID()))] = e.Head
	}
	exp := map[string]map[string]bool{"new": {}, "changed": {}, "theirs": {}, "removed": {}}
	for id, h := range lm {
		if rh, ok := rm[id]; !ok {
			exp["removed"][id] = true
		} else if rh != h {
			if s.Variant == "compare" && rh > h {
				exp["theirs"][id] = true
			} else {
				exp["changed"][id] = true
			}
		}
	}
	for id := range rm {
		if _, ok := lm[id]; !ok {
			exp["new"][id] = true
		}
	}
	chk := func(name string, got []string) string {
		seen := map[string]bool{}
		for _, g := range got {
			if seen[g] {
				return name + ": id reported twice"
			}
			seen[g] = true
			if !exp[name][g] {
				return name + ": unexpected id " + g
			}
		}
		if len(seen) != len(exp[name]) {
			return fmt.Sprintf("%s: %d ids reported, %d expected", name, len(seen), len(exp[name]))
		}
		return ""
	}
	for _, p := range []struct {
		n string
		g []string
	}{{"new", res.New}, {"changed", res.Changed}, {"theirs", res.Theirs}, {"removed", res.Removed}} {
		if m := chk(p.n, p.g); m != "" {
			return m
		}
	}
	return ""
}

func main() {
	vlib.ServeChild(childHandler)
	o := vlib.ParseFlags()
	vlib.Quiet()
	w := vlib.NewWriter(o.Out, "C07_run", 80)
	child := &vlib.Child{}
	defer child.Close()
	var samples []interface{}

	fatal := 0
	do := func(s spec) {
		if fatal >= 8 {
			w.Stat("skipped_after_8_crashes_or_hangs")
			return
		}
		req, _ := json.Marshal(s)
		respB, fail := child.Call(req, 8*time.Second)
		var ids []string
		for _, e := range s.L {
			ids = append(ids, e.ID())
		}
		for _, e := range s.R {
			ids = append(ids, e.ID())
		}
		rk := ldiffh.NewRanker(ids)
		var res result
		if fail == "" {
			if err := json.Unmarshal(respB, &res); err != nil {
				fail = "crash: bad response"
			}
		}
		obsHex := res
		res.New, res.Changed, res.Theirs, res.Removed = unhexAll(res.New), unhexAll(res.Changed), unhexAll(res.Theirs), unhexAll(res.Removed)
		hk, _ := json.Marshal([]interface{}{s.OpsL, s.OpsR, s.ThR})
		key := fmt.Sprintf("%d/%d/%s/%v/%s/%s/%s", s.Df, s.Th, s.Variant, s.Wire, rk.ElemsTerm(s.L), rk.ElemsTerm(s.R), hk)
		nontrivial := len(s.L)+len(s.R) >= 2
		wr := vlib.Bool(s.Wire)
		var term string
		if s.OpsL != nil || s.OpsR != nil {
			for _, ops := range [][]hop{s.OpsL, s.OpsR} {
				for _, o := range ops {
					for _, e := range o.Set {
						ids = append(ids, e.ID())
					}
					if o.Remove != nil {
						ids = append(ids, o.Remove.ID())
					}
				}
			}
			rk = ldiffh.NewRanker(ids)
			opsTerm := func(ops []hop) string {
				t := make([]string, len(ops))
				for i, o := range ops {
					if o.Remove != nil {
						t[i] = vlib.App("IRemove", vlib.N(rk.Rank(o.Remove.ID())))
					} else {
						t[i] = vlib.App("ISet", rk.ElemsTerm(o.Set))
					}
				}
				return vlib.List(t)
			}
			thr := s.Th
			if s.ThR != 0 {
				thr = s.ThR
			}
			term = vlib.App("ICHistDiff", vlib.N(uint64(s.Df)), vlib.N(uint64(s.Th)), vlib.N(uint64(thr)), opsTerm(s.OpsL), opsTerm(s.OpsR),
				vlib.Bool(s.Variant == "compare"), wr,
				rk.IdsTerm(res.New), rk.IdsTerm(res.Changed), rk.IdsTerm(res.Theirs), rk.IdsTerm(res.Removed))
		} else if s.Variant == "compare" {
			term = vlib.App("ICCompare", vlib.N(uint64(s.Df)), vlib.N(uint64(s.Th)), rk.ElemsTerm(s.L), rk.ElemsTerm(s.R), wr,
				rk.IdsTerm(res.New), rk.IdsTerm(res.Changed), rk.IdsTerm(res.Theirs), rk.IdsTerm(res.Removed))
		} else {
			term = vlib.App("ICDiff", vlib.N(uint64(s.Df)), vlib.N(uint64(s.Th)), rk.ElemsTerm(s.L), rk.ElemsTerm(s.R), wr,
				rk.IdsTerm(res.New), rk.IdsTerm(res.Changed), rk.IdsTerm(res.Removed))
		}
		term += "%uint63"
		desc := map[string]interface{}{"spec": s, "observed": obsHex, "fail": fail, "tags": s.Tags}
		idx := w.Add(term, desc, key, nontrivial)
		w.Stat("shape_" + s.Shape)
		w.Stat(fmt.Sprintf("df_%d", s.Df))
		w.Stat("variant_" + s.Variant)
		if s.Wire {
			w.Stat("via_wire")
		}
		switch {
		case fail != "":
			fatal++
			w.Stat("outcome_crash_or_hang")
			w.Violation(idx, "c07-crash", "Diff crashed or hung: "+fail, s)
		case res.Panic != "":
			w.Stat("outcome_panic")
			w.Violation(idx, "c07-panic", "Diff panicked: "+res.Panic, s)
		case res.Err != "":
			w.Stat("outcome_error")
			w.Violation(idx, "c07-error", "Diff returned an error on honest input: "+res.Err, s)
		default:
			if len(res.New)+len(res.Changed)+len(res.Theirs)+len(res.Removed) == 0 {
				w.Stat("outcome_nodiff")
			} else {
				w.Stat("outcome_diff")
			}
		}
		if len(samples) < 3 && len(s.L) >= 3 && len(s.L) <= 6 && len(res.New)+len(res.Removed) > 0 {
			samples = append(samples, desc)
		}
	}

	if o.Replay != "" {
		for _, raw := range vlib.ReadReplay(o.Replay) {
			var d struct {
				Spec spec `json:"spec"`
			}
			if json.Unmarshal(raw, &d) == nil && d.Spec.Df != 0 {
				do(d.Spec)
			}
		}
		w.Finish("replay", samples, nil)
		return
	}

	r := vlib.NewRand(o.Seed)
	n := 900
	if o.Tier == "thorough" {
		n = 12000
	}
	n *= o.Budget
	for k := 0; k < n; k++ {
		df := ldiffh.Dfs[r.Intn(len(ldiffh.Dfs))]
		th := ldiffh.Ths[r.Intn(len(ldiffh.Ths))]
		kind := ldiffh.HashKinds[r.Intn(len(ldiffh.HashKinds))]
		nmax := 14
		if r.Chance(1, 10) {
			nmax = 60
		}
		L, R := genSets(r, df, kind, nmax)
		s := spec{Df: df, Th: th, L: L, R: R, Variant: "diff", Wire: r.Chance(1, 4), Shape: kind}
		if r.Chance(2, 5) {
			s.Variant = "compare"
		}
		if r.Chance(1, 3) {
			// indexes reached by histories (splits and merges on the way); the responder may be tuned differently
			g := ldiffh.NewHashGen(r, df, kind)
			only := func(a, b []ldiffh.El) (res []ldiffh.El) {
				in := map[[2]uint64]bool{}
				for _, e := range b {
					in[[2]uint64{e.Salt, e.Hash}] = true
				}
				for _, e := range a {
					if !in[[2]uint64{e.Salt, e.Hash}] {
						res = append(res, e)
					}
				}
				return
			}
			s.OpsL, s.OpsR = genHistory(r, g, L, only(R, L)), genHistory(r, g, R, only(L, R))
			if s.OpsL == nil {
				s.OpsL = []hop{}
			}
			if s.OpsR == nil {
				s.OpsR = []hop{}
			}
			if r.Bool() {
				s.ThR = ldiffh.Ths[r.Intn(len(ldiffh.Ths))]
			}
			s.Shape = "hist_" + kind
			w.Stat("built_by_history")
			if s.ThR != 0 && s.ThR != s.Th {
				w.Stat("responder_other_threshold")
			}
		}
		do(s)
	}
	// shrink-and-grow family: the responder once held a deep cluster of thR+1 elements, removed one of them (the
	// asker still has it), then grew again next to the cluster; the asker may use a smaller threshold
	nsg := n / 8
	for k := 0; k < nsg; k++ {
		df := ldiffh.Dfs[r.Intn(len(ldiffh.Dfs))]
		thr := 1 + r.Intn(3)
		thl := 1 + r.Intn(thr)
		base := r.U64()
		depthBits := uint(8 + r.Intn(48))
		base &^= (uint64(1) << depthBits) - 1
		win := uint64(1) << uint(r.Intn(int(depthBits)-2)+1) // the cluster lives in [base, base+win)
		var cluster []ldiffh.El
		salt := uint64(r.Intn(1000))
		for i := 0; i < thr+1+r.Intn(2); i++ {
			cluster = append(cluster, ldiffh.El{Salt: salt, Hash: base + r.U64()%win, Head: r.Intn(5)})
			salt++
		}
		gone := cluster[r.Intn(len(cluster))]
		var grow []ldiffh.El
		for i := 0; i < 1+r.Intn(3); i++ {
			span := win << uint(1+r.Intn(int(depthBits)-1))
			if span == 0 || span > (uint64(1)<<depthBits) {
				span = uint64(1) << depthBits
			}
			grow = append(grow, ldiffh.El{Salt: salt, Hash: base + r.U64()%span, Head: r.Intn(5)})
			salt++
		}
		opsR := []hop{{Set: cluster}, {Remove: &ldiffh.El{Salt: gone.Salt, Hash: gone.Hash}}}
		for _, g := range grow {
			opsR = append(opsR, hop{Set: []ldiffh.El{g}})
		}
		var L, R []ldiffh.El
		for _, e := range cluster {
			L = append(L, e)
			if e != gone {
				R = append(R, e)
			}
		}
		for _, g := range grow {
			R = append(R, g)
			if r.Bool() {
				L = append(L, g)
			}
		}
		s := spec{Df: df, Th: thl, ThR: thr, L: L, R: R, OpsL: []hop{{Set: L}}, OpsR: opsR, Variant: []string{"diff", "compare"}[r.Intn(2)],
			Wire: r.Chance(1, 4), Shape: "shrink_grow"}
		if len(L) == 0 {
			s.OpsL = []hop{}
		}
		do(s)
	}
	// batch-split-update family: ONE Set call adds ids that push a leaf over the threshold (the leaf is divided
	// while the batch is being applied) and, later in the same call, changes the head of an id that already lived in
	// that leaf; the peer holds the old head, so exactly that id must be reported as changed (both directions)
	nbs := n / 8
	for k := 0; k < nbs; k++ {
		df := ldiffh.Dfs[r.Intn(len(ldiffh.Dfs))]
		th := 1 + r.Intn(4)
		base := r.U64() &^ 0xffff
		salt := uint64(r.Intn(1000))
		var cluster []ldiffh.El // th elements close together: one full leaf after the first Set
		for i := 0; i < th; i++ {
			cluster = append(cluster, ldiffh.El{Salt: salt, Hash: base + uint64(i)*16, Head: r.Intn(5)})
			salt++
		}
		var far []ldiffh.El
		for i := 0; i < r.Intn(6); i++ {
			far = append(far, ldiffh.El{Salt: salt, Hash: r.U64(), Head: r.Intn(5)})
			salt++
		}
		var fresh []ldiffh.El
		for i := 0; i < 1+r.Intn(3); i++ {
			fresh = append(fresh, ldiffh.El{Salt: salt, Hash: base + uint64(i)*16 + 1 + uint64(r.Intn(14)), Head: r.Intn(5)})
			salt++
		}
		victim := cluster[r.Intn(len(cluster))]
		updated := victim
		updated.Head = victim.Head + 100
		baseSet := append(append([]ldiffh.El{}, cluster...), far...)
		batch := append(append([]ldiffh.El{}, fresh...), updated)
		if r.Chance(1, 4) { // the update first, then the additions (control: no split before the update)
			batch = append([]ldiffh.El{updated}, fresh...)
		}
		var L, R []ldiffh.El
		for _, e := range baseSet {
			if e == victim {
				L = append(L, updated)
			} else {
				L = append(L, e)
			}
			R = append(R, e)
		}
		L = append(L, fresh...)
		opsR := []hop{{Set: baseSet}}
		if r.Bool() { // the peer has the new ids too: the changed head is the only difference
			R = append(R, fresh...)
			opsR = append(opsR, hop{Set: fresh})
		}
		s := spec{Df: df, Th: th, L: L, R: R, OpsL: []hop{{Set: baseSet}, {Set: batch}}, OpsR: opsR,
			Variant: []string{"diff", "compare"}[r.Intn(2)], Wire: r.Chance(1, 4), Shape: "batch_split_update"}
		if r.Bool() { // the other direction: the index built by the mixed batch answers
			s.L, s.R, s.OpsL, s.OpsR = s.R, s.L, s.OpsR, s.OpsL
		}
		do(s)
	}
	// production parameters around the threshold
	np := 6
	if o.Tier == "thorough" {
		np = 60
	}
	for k := 0; k < np*o.Budget; k++ {
		kind := []string{"uniform", "deep"}[r.Intn(2)]
		L, R := genSets(r, 32, kind, 300+r.Intn(300))
		s := spec{Df: 32, Th: 256, L: L, R: R, Variant: []string{"diff", "compare"}[r.Intn(2)], Wire: r.Bool(), Shape: "prod_" + kind}
		do(s)
	}
	// large pairs: the implementation's result is compared with the set difference computed directly (no model run)
	nl := 2
	if o.Tier == "thorough" {
		nl = 16
	}
	for k := 0; k < nl*o.Budget; k++ {
		if fatal >= 8 {
			break
		}
		size := 2000 + r.Intn(3000)
		if o.Tier == "thorough" {
			size = 5000 + r.Intn(25000)
		}
		df, th := 32, 256
		if k%2 == 1 {
			df, th = ldiffh.Dfs[r.Intn(len(ldiffh.Dfs))], []int{8, 64, 256}[r.Intn(3)]
		}
		kind := []string{"uniform", "deep", "mixed"}[r.Intn(3)]
		L, R := genSets(r, df, kind, size)
		s := spec{Df: df, Th: th, L: L, R: R, Variant: []string{"diff", "compare"}[k%2], Wire: k%3 == 0, Shape: "large_" + kind}
		req, _ := json.Marshal(s)
		respB, fail := child.Call(req, 120*time.Second)
		var res result
		if fail == "" && json.Unmarshal(respB, &res) != nil {
			fail = "crash: bad response"
		}
		term := fmt.Sprintf("(ICLarge %d %d)%%uint63", len(L), len(R))
		desc := map[string]interface{}{"large": true, "df": df, "th": th, "nL": len(L), "nR": len(R), "variant": s.Variant, "wire": s.Wire, "shape": kind, "fail": fail}
		idx := w.Add(term, desc, fmt.Sprintf("large-%d-%d-%d", k, len(L), len(R)), true)
		w.Stat("large_oracle_only")
		if fail != "" || res.Panic != "" || res.Err != "" {
			fatal++
			w.Violation(idx, "c07-crash", "Diff on a large pair crashed, hung or failed: "+fail+res.Panic+res.Err, desc)
			continue
		}
		if msg := oracle(s, res); msg != "" {
			w.Violation(idx, "c07-large-wrong", msg, desc)
		}
	}
	// concurrent askers against one shared responder (results compared with the set difference directly)
	nc := 1
	if o.Tier == "thorough" {
		nc = 6
	}
	for k := 0; k < nc*o.Budget; k++ {
		if fatal >= 8 {
			break
		}
		df, th := 16, 16
		if k%2 == 1 {
			df, th = ldiffh.Dfs[r.Intn(len(ldiffh.Dfs))], []int{2, 8, 64}[r.Intn(3)]
		}
		_, R := genSets(r, df, "uniform", 2500+r.Intn(1500))
		s := spec{Df: df, Th: th, R: R, Variant: "diff", Wire: k%2 == 1, Shape: "concurrent", Iters: 40}
		for a := 0; a < 8; a++ {
			var L []ldiffh.El
			for _, e := range R { // each asker: R with some removed, some head changes, some own
				switch r.Intn(12) {
				case 0:
				case 1:
					e.Head += 1 + r.Intn(3)
					L = append(L, e)
				default:
					L = append(L, e)
				}
			}
			for j := 0; j < 50+r.Intn(100); j++ {
				L = append(L, ldiffh.El{Salt: uint64(900000 + a*1000 + j), Hash: r.U64(), Head: r.Intn(50)})
			}
			s.Askers = append(s.Askers, L)
		}
		req, _ := json.Marshal(s)
		respB, fail := child.Call(req, 60*time.Second)
		var res result
		if fail == "" && json.Unmarshal(respB, &res) != nil {
			fail = "crash: bad response"
		}
		term := fmt.Sprintf("(ICLarge %d %d)%%uint63", len(s.Askers), len(R))
		desc := map[string]interface{}{"concurrent": true, "df": df, "th": th, "askers": len(s.Askers), "nR": len(R), "wire": s.Wire, "fail": fail, "result": res.Err + res.Panic}
		idx := w.Add(term, desc, fmt.Sprintf("concurrent-%d-%d", k, len(R)), true)
		w.Stat("concurrent_oracle_only")
		if fail != "" || res.Panic != "" {
			fatal++
			w.Violation(idx, "c07-crash", "concurrent diffs crashed or hung: "+fail+res.Panic, desc)
		} else if res.Err != "" {
			w.Violation(idx, "c07-concurrent-wrong", "a diff run concurrently with others against one responder is not the exact difference: "+res.Err, desc)
		}
	}
	w.Finish("random pairs of head indexes: df in {2,3,4,5,7,16,32,33}, th in {1,2,3,8}, hash shapes uniform / deep bucket / narrow window / range boundaries / colliding hashes / mixed (ids placed through the xxhash64 inverse), "+
		"R derived from L by add / remove / head change; 1 in 3 pairs are reached by Set/RemoveId HISTORIES (temporary elements incl. ones the other side still holds, head rewrites) and half of those give the responder another threshold; plus a shrink-and-grow family (deep cluster of thR+1 elements, one removed, growth next to it, asker threshold <= responder threshold); both Diff and CompareDiff; 1 in 4 through NewRemoteDiff+protobuf+HandleRangeRequest; plus production parameters (32,256) with 300-600 elements; "+
		"plus concurrent runs (8 askers diffing against one shared 2500-4000-element responder in parallel, 40 iterations, oracle only: stat concurrent_oracle_only); "+
		"plus a few LARGE pairs (quick 2000-5000, thorough 5000-30000 elements) whose result is compared with the directly computed set difference only (no model run: stat large_oracle_only); "+
		"non-trivial = at least 2 elements overall; distinct by (params, variant, wire, both contents)",
		samples, nil)
}
