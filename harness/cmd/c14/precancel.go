// Cancellation BEFORE the first frame (oracle-only; the Coq model's cancellation points are "while frame k is in
// flight", k = 1..4): one side is handed an already cancelled context. It must return the context error, and the
// peer must end with an error instead of waiting — the handshake itself has to release the connection, because the
// accepting transport does not close a connection whose inbound handshake failed (net/transport/yamux accept()),
// while the dialling transport does (Dial closes on error); the harness mirrors exactly that.
package main

import (
	"context"
	"errors"
	"fmt"
	"time"

	"github.com/anyproto/any-sync/net/secureservice"
)

func runPreCancel(cs *caseSpec, cancelOut bool) string {
	so, si := getSvc(cs.Out, "out"), getSvc(cs.In, "in")
	h := newHub(cs.Chunk, false)
	epO, epI := &endpoint{h, 0}, &endpoint{h, 1}
	ctxO, cancelO := context.WithCancel(context.Background())
	ctxI, cancelI := context.WithCancel(context.Background())
	defer cancelO()
	defer cancelI()
	if cs.Out.Verify {
		if cs.Out.ViaNC {
			so.nc.nodes = map[string]bool{cs.Out.Remote: true}
		} else {
			ctxO = secureservice.CtxAllowAccountCheck(ctxO)
		}
	} else {
		so.nc.nodes = map[string]bool{}
	}
	if cancelOut {
		cancelO()
	} else {
		cancelI()
	}
	chO, chI := make(chan error, 1), make(chan error, 1)
	go func() {
		_, err := so.ss.HandshakeOutbound(ctxO, epO, cs.Out.Remote)
		if err != nil {
			_ = epO.Close() // Dial closes a connection whose handshake failed
		}
		chO <- err
	}()
	go func() {
		_, err := si.ss.HandshakeInbound(ctxI, epI, cs.In.Remote)
		chI <- err // accept() does not close
	}()
	var errO, errI error
	gotO, gotI := false, false
	timer := time.NewTimer(3 * guard)
	defer timer.Stop()
	msg := ""
	for (!gotO || !gotI) && msg == "" {
		select {
		case errO = <-chO:
			gotO = true
		case errI = <-chI:
			gotI = true
		case <-timer.C:
			msg = fmt.Sprintf("context of the %s side cancelled before the first frame: outgoing returned=%v, incoming returned=%v after %v — the peer is left waiting (the connection was not released)",
				map[bool]string{true: "outgoing", false: "incoming"}[cancelOut], gotO, gotI, 3*guard)
		}
	}
	cancelO()
	cancelI()
	_ = epO.Close()
	_ = epI.Close()
	if msg != "" {
		return msg
	}
	isCtx := func(e error) bool { return errors.Is(e, context.Canceled) || errors.Is(e, context.DeadlineExceeded) }
	if cancelOut && !isCtx(errO) || !cancelOut && !isCtx(errI) {
		return fmt.Sprintf("side with the cancelled context did not report the context error: out=%v in=%v", errO, errI)
	}
	if cancelOut && errI == nil || !cancelOut && errO == nil {
		return "peer of a side cancelled before the first frame reported success"
	}
	return ""
}
