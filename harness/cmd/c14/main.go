// Correspondence driver for C14: runs the real secureservice.HandshakeOutbound / HandshakeInbound
// (handshake.OutgoingHandshake / IncomingHandshake with the real noVerifyChecker / peerSignVerifier) on both
// ends of an in-memory connection with a man in the middle, and writes what both ends returned as Coq cases
// (checked against Model/Handshake.v and spec_C14 by coqc).
//
// Determinism of the sync.Pool of handshake objects: GOMAXPROCS(1), automatic GC off; before every case the pool
// is emptied (two explicit GC cycles), then an optional symmetric "seed" handshake leaves both pooled objects with
// the same remoteCred.Version/ClientVersion, then the case's handshake runs and re-uses exactly those objects.
//
// Sessions (case constructor SESS): several handshakes on the same service objects (same credential checker) for
// different accounts, accepted and rejected; every returned context is kept alive and the labels of all earlier
// connections are re-read after every later handshake and at the end (see doSession / genSession).
package main

import (
	"context"
	"crypto/sha256"
	"encoding/binary"
	"encoding/hex"
	"encoding/json"
	"errors"
	"fmt"
	"io"
	"os"
	"runtime"
	"runtime/debug"
	"sort"
	"strconv"
	"strings"
	"time"

	"github.com/anyproto/any-sync/accountservice"
	"github.com/anyproto/any-sync/app"
	"github.com/anyproto/any-sync/commonspace/object/accountdata"
	"github.com/anyproto/any-sync/net/peer"
	"github.com/anyproto/any-sync/net/secureservice"
	"github.com/anyproto/any-sync/net/secureservice/handshake"
	"github.com/anyproto/any-sync/net/secureservice/handshake/handshakeproto"
	"github.com/anyproto/any-sync/nodeconf"
	"github.com/anyproto/any-sync/util/crypto"

	"verifharness/vlib"
)

// ---------------------------------------------------------------- fixed accounts (deterministic keys)

type detReader struct {
	seed []byte
	ctr  uint64
	buf  []byte
}

func (d *detReader) Read(p []byte) (int, error) {
	for i := range p {
		if len(d.buf) == 0 {
			var c [8]byte
			binary.LittleEndian.PutUint64(c[:], d.ctr)
			d.ctr++
			s := sha256.Sum256(append(append([]byte{}, d.seed...), c[:]...))
			d.buf = s[:]
		}
		p[i] = d.buf[0]
		d.buf = d.buf[1:]
	}
	return len(p), nil
}

const nAccounts = 3

type account struct {
	sign   crypto.PrivKey
	peerK  crypto.PrivKey
	pubRaw []byte // raw ed25519 public key
	pubMsh []byte // marshalled identity
}

var accounts [nAccounts]account

func initAccounts() {
	for i := range accounts {
		r := &detReader{seed: []byte(fmt.Sprintf("c14-account-%d", i))}
		pk, _, err := crypto.GenerateEd25519Key(r)
		must(err)
		sk, pub, err := crypto.GenerateEd25519Key(r)
		must(err)
		raw, err := pub.Raw()
		must(err)
		m, err := pub.Marshall()
		must(err)
		accounts[i] = account{sign: sk, peerK: pk, pubRaw: raw, pubMsh: m}
	}
}

func must(err error) {
	if err != nil {
		panic(err)
	}
}

// peer-id universe; the first four have one fixed length, the rest are for the concatenation ambiguity
var peerIds = []string{"PAAA", "PBBB", "PCCC", "PDDD", "PA", "AAPBBB", "PAAAPB", "BB"}

// honest signature table: signature bytes -> (account, message)
type sigInfo struct {
	acc int
	msg string
}

var sigTable = map[string]sigInfo{}

func initSigs() {
	for a := range accounts {
		for _, p := range peerIds {
			for _, q := range peerIds {
				s, err := accounts[a].sign.Sign([]byte(p + q))
				must(err)
				sigTable[string(s)] = sigInfo{a, p + q}
			}
		}
	}
}

// ---------------------------------------------------------------- services (real secureservice through app.App)

type sideSpec struct {
	Acc    int      `json:"acc"`
	Peer   string   `json:"peer"`
	Remote string   `json:"remote"`
	Ver    uint32   `json:"ver"`
	List   []uint32 `json:"list"` // empty = secureservice's default list
	Verify bool     `json:"verify"`
	CV     string   `json:"cv"`
	ViaNC  bool     `json:"via_nodeconf,omitempty"` // mode selected through nodeconf.NodeTypes instead of the flag
}

var defaultList = []uint32{12, 13, 14} // secureservice.defaultCompatibleVersions

func (s sideSpec) acc() []uint32 {
	if len(s.List) == 0 {
		return defaultList
	}
	return s.List
}

type accSvc struct{ keys *accountdata.AccountKeys }

func (a *accSvc) Init(*app.App) error                { return nil }
func (a *accSvc) Name() string                       { return accountservice.CName }
func (a *accSvc) Account() *accountdata.AccountKeys { return a.keys }

type confSvc struct{ c secureservice.Config }

func (c *confSvc) Init(*app.App) error                       { return nil }
func (c *confSvc) Name() string                              { return "config" }
func (c *confSvc) GetSecureService() secureservice.Config { return c.c }

// nodeconf stub: every id in [nodes] is a tree node
type ncSvc struct {
	nodeconf.Service
	nodes map[string]bool
}

func (n *ncSvc) Init(*app.App) error            { return nil }
func (n *ncSvc) Name() string                   { return nodeconf.CName }
func (n *ncSvc) Run(context.Context) error      { return nil }
func (n *ncSvc) Close(context.Context) error    { return nil }
func (n *ncSvc) NodeTypes(id string) []nodeconf.NodeType {
	if n.nodes[id] {
		return []nodeconf.NodeType{nodeconf.NodeTypeTree}
	}
	return nil
}

type svc struct {
	ss secureservice.SecureService
	nc *ncSvc
}

var svcCache = map[string]*svc{}

// role: "out" or "in" (the mode is selected differently for the two roles)
func getSvc(s sideSpec, role string) *svc {
	key := fmt.Sprintf("%s|%d|%s|%d|%v|%v|%q|%v", role, s.Acc, s.Peer, s.Ver, s.List, s.Verify, s.CV, s.ViaNC)
	if v, ok := svcCache[key]; ok {
		return v
	}
	a := new(app.App)
	a.SetVersionName(s.CV)
	keys := &accountdata.AccountKeys{PeerKey: accounts[s.Acc].peerK, SignKey: accounts[s.Acc].sign, PeerId: s.Peer}
	nc := &ncSvc{nodes: map[string]bool{}}
	conf := secureservice.Config{CompatibleVersions: s.List}
	if role == "in" && s.Verify {
		if s.ViaNC {
			nc.nodes[s.Peer] = true // "we are a node" => inbound requires identity
		} else {
			conf.RequireClientAuth = true
		}
	}
	secureservice.ProtoVersion = s.Ver
	ss := secureservice.New()
	a.Register(&accSvc{keys}).Register(&confSvc{conf}).Register(nc).Register(ss)
	if err := a.Start(context.Background()); err != nil {
		panic(fmt.Sprintf("secureservice does not start for %+v: %v", s, err))
	}
	v := &svc{ss: ss, nc: nc}
	svcCache[key] = v
	return v
}

// ---------------------------------------------------------------- symbol tables

var cvIds = map[string]int{"": 0}

func cvTerm(s string) string {
	id, ok := cvIds[s]
	if !ok {
		id = len(cvIds)
		cvIds[s] = id
	}
	return vlib.App("mkCv", vlib.N(uint64(id)), vlib.Bool(strings.Contains(s, "middle:v0.36.6")))
}

func bytesTerm(s string) string { return vlib.Bytes([]byte(s)) }

// identity bytes -> symbolic id: Some account index, Some 900+ for an unknown but well-formed key, None otherwise
var unknownKeys = map[string]int{}

func identId(b []byte) (int, bool) {
	pk, err := crypto.UnmarshalEd25519PublicKeyProto(b)
	if err != nil {
		return 0, false
	}
	raw, err := pk.Raw()
	if err != nil {
		return 0, false
	}
	for i := range accounts {
		if string(raw) == string(accounts[i].pubRaw) {
			return i, true
		}
	}
	id, ok := unknownKeys[string(raw)]
	if !ok {
		id = 900 + len(unknownKeys)
		unknownKeys[string(raw)] = id
	}
	return id, true
}

func optIdentTerm(b []byte) string {
	if id, ok := identId(b); ok {
		return vlib.Some(vlib.N(uint64(id)))
	}
	return "None"
}

func sideTerm(s sideSpec) string {
	l := make([]uint64, len(s.acc()))
	for i, v := range s.acc() {
		l[i] = uint64(v)
	}
	return vlib.App("mkSide", bytesTerm(s.Peer), bytesTerm(s.Remote), vlib.N(uint64(s.Ver)), vlib.NList(l),
		vlib.Bool(s.Verify), cvTerm(s.CV), vlib.N(uint64(s.Acc)))
}

// ---------------------------------------------------------------- decoding arriving bytes into model frames

const sizeLimit = 200 * 1024

func credTerm(p []byte) (string, bool) {
	var z handshakeproto.Credentials
	if err := z.UnmarshalVT(p); err != nil {
		return "", false
	}
	// presence of the scalar fields: decode into two pre-filled structs (UnmarshalVT leaves absent fields alone)
	a := handshakeproto.Credentials{Version: 0xfffffff1, ClientVersion: "\x00absent-1"}
	b := handshakeproto.Credentials{Version: 0xfffffff2, ClientVersion: "\x00absent-2"}
	_ = a.UnmarshalVT(p)
	_ = b.UnmarshalVT(p)
	ver := "None"
	if a.Version == b.Version {
		ver = vlib.Some(vlib.N(uint64(a.Version)))
	}
	cv := "None"
	if a.ClientVersion == b.ClientVersion {
		cv = vlib.Some(cvTerm(a.ClientVersion))
	}
	payload := "PBad"
	var m handshakeproto.PayloadSignedPeerIds
	if err := m.UnmarshalVT(z.Payload); err == nil {
		sg := "SigJunk"
		if si, ok := sigTable[string(m.Sign)]; ok {
			sg = vlib.App("SigOf", vlib.N(uint64(si.acc)), bytesTerm(si.msg))
		}
		payload = vlib.App("PSigned", optIdentTerm(m.Identity), sg)
	}
	return vlib.App("mkCred", vlib.N(uint64(uint32(z.Type))), payload, ver, cv), true
}

// itemsOf parses a byte string the way a reader would meet it, frame after frame.
// A trailing partial header is dropped (the reader sees an unexpected EOF = end of stream).
func itemsOf(data []byte) []string {
	var items []string
	for len(data) >= 5 {
		tp := data[0]
		size := int(binary.LittleEndian.Uint32(data[1:5]))
		rest := data[5:]
		avail := size
		if avail > len(rest) {
			avail = len(rest)
		}
		body := "BUndecodable"
		if size <= sizeLimit && avail == size {
			pl := rest[:size]
			switch tp {
			case 1:
				if t, ok := credTerm(pl); ok {
					body = vlib.App("BCred", t)
				}
			case 2:
				var a handshakeproto.Ack
				if a.UnmarshalVT(pl) == nil {
					body = vlib.App("BAck", vlib.N(uint64(uint32(a.Error))))
				}
			default:
				body = "BOther"
			}
		}
		items = append(items, vlib.App("mkItem", vlib.N(uint64(tp)), vlib.N(uint64(size)), vlib.N(uint64(avail)), body))
		if size > sizeLimit || avail < size {
			break // the reader stops here
		}
		data = rest[size:]
	}
	return items
}

// ---------------------------------------------------------------- case description

type actSpec struct {
	Replace bool   `json:"replace,omitempty"`
	Hex     string `json:"hex,omitempty"`
	Cut     bool   `json:"cut,omitempty"`
	How     string `json:"how,omitempty"`
}

type cancelSpec struct {
	Out bool `json:"out"`
	K   int  `json:"k"`
}

type seedSpec struct {
	Ver    uint32 `json:"ver"`
	CV     string `json:"cv"`
	Verify bool   `json:"verify"`
}

type caseSpec struct {
	Out    sideSpec    `json:"out"`
	In     sideSpec    `json:"in"`
	Acts   [4]actSpec  `json:"acts"`
	Cancel *cancelSpec `json:"cancel,omitempty"`
	WFail  bool        `json:"wfail"`
	Seed   *seedSpec   `json:"pool_seed,omitempty"`
	Chunk  uint64      `json:"chunk"`
	Gen    string      `json:"gen"`
	Obs    string      `json:"observed,omitempty"`
}

// ---------------------------------------------------------------- running one handshake

type sideRes struct {
	term string
	ok   bool
	cls  string
}

// labelsTerm reads what the handshake attached to the connection (the returned context): identity, proto version,
// client version.  The identity bytes are read from the context every time - never copied - so that a later read
// of the same context shows what the connection is attributed to NOW.
func labelsTerm(cctx context.Context) string {
	idn, _ := peer.CtxIdentity(cctx)
	pv, perr := peer.CtxProtoVersion(cctx)
	if perr != nil {
		pv = 0xffffffff
	}
	cv := peer.CtxPeerClientVersion(cctx)
	id := "None"
	if len(idn) > 0 {
		if i, ok := identId(idn); ok {
			id = vlib.Some(vlib.N(uint64(i)))
		} else {
			id = vlib.Some(vlib.N(999999))
		}
	}
	return vlib.App("mkRes", id, vlib.N(uint64(pv)), cvTerm(cv))
}

func classify(cctx context.Context, err error) sideRes {
	if err == nil {
		return sideRes{vlib.App("Ok", labelsTerm(cctx)), true, "ok"}
	}
	if errors.Is(err, context.Canceled) || errors.Is(err, context.DeadlineExceeded) {
		return sideRes{"(Err ECtx)", false, "ctx"}
	}
	var he handshake.HandshakeError
	if errors.As(err, &he) {
		if he.Err != nil {
			if he == handshake.ErrPeerDeclinedCredentials {
				return sideRes{"(Err EDeclined)", false, "declined"}
			}
			return sideRes{"(Err EOther)", false, "other"}
		}
		name := he.Error()
		var code uint32
		if v, ok := handshakeproto.Error_value[name]; ok {
			code = uint32(v)
		} else if n, perr := strconv.ParseInt(name, 10, 64); perr == nil {
			code = uint32(int32(n))
		} else {
			return sideRes{"(Err EOther)", false, "other"}
		}
		return sideRes{vlib.App("Err", vlib.App("EProto", vlib.N(uint64(code)))), false, "proto_" + name}
	}
	return sideRes{"(Err EOther)", false, "other"}
}

type hsRun struct {
	out, in sideRes
	// the contexts returned by HandshakeOutbound / HandshakeInbound (nil unless that side succeeded)
	ctxOut, ctxIn context.Context
	hang    string
	frames  [5][]byte
}

const guard = 4 * time.Second

var preCancelHangs int

func runHandshake(cs *caseSpec) hsRun {
	so, si := getSvc(cs.Out, "out"), getSvc(cs.In, "in")
	h := newHub(cs.Chunk, cs.WFail)
	for i, a := range cs.Acts {
		if a.Replace {
			data, _ := hex.DecodeString(a.Hex)
			h.acts[i] = hubAct{replace: true, data: data, cut: a.Cut}
		}
	}
	if cs.Cancel != nil {
		h.cancelK = cs.Cancel.K
	}
	epO, epI := &endpoint{h, 0}, &endpoint{h, 1}
	ctxO, cancelO := context.WithCancel(context.Background())
	ctxI, cancelI := context.WithCancel(context.Background())
	defer cancelO()
	defer cancelI()
	if cs.Out.Verify {
		if cs.Out.ViaNC {
			so.nc.nodes = map[string]bool{cs.Out.Remote: true} // the remote is a known node => verify it
		} else {
			ctxO = secureservice.CtxAllowAccountCheck(ctxO)
		}
	} else {
		so.nc.nodes = map[string]bool{}
	}
	type r struct {
		ctx context.Context
		err error
	}
	chO, chI := make(chan r, 1), make(chan r, 1)
	base := runtime.NumGoroutine()
	go func() {
		c, err := so.ss.HandshakeOutbound(ctxO, epO, cs.Out.Remote)
		if err != nil {
			_ = epO.Close() // the caller (transport) closes a connection whose handshake failed
		}
		chO <- r{c, err}
	}()
	go func() {
		c, err := si.ss.HandshakeInbound(ctxI, epI, cs.In.Remote)
		if err != nil {
			_ = epI.Close()
		}
		chI <- r{c, err}
	}()
	var res hsRun
	timer := time.NewTimer(guard)
	defer timer.Stop()
	var ro, ri *r
	heldCh := h.heldCh
	if cs.Cancel == nil {
		heldCh = nil
	}
	for ro == nil || ri == nil {
		select {
		case x := <-chO:
			ro = &x
		case x := <-chI:
			ri = &x
		case <-heldCh:
			heldCh = nil
			// frame K is in flight: cancel the chosen side, wait until it has returned, then let the frame go on
			if cs.Cancel.Out {
				if ro == nil {
					cancelO()
					select {
					case x := <-chO:
						ro = &x
					case <-timer.C:
						res.hang = "cancelled outgoing side did not return"
					}
				}
			} else {
				if ri == nil {
					cancelI()
					select {
					case x := <-chI:
						ri = &x
					case <-timer.C:
						res.hang = "cancelled incoming side did not return"
					}
				}
			}
			h.release()
		case <-timer.C:
			res.hang = fmt.Sprintf("handshake did not finish within %v (out done=%v, in done=%v)", guard, ro != nil, ri != nil)
		}
		if res.hang != "" {
			cancelO()
			cancelI()
			_ = epO.Close()
			_ = epI.Close()
			break
		}
	}
	if ro != nil {
		res.out = classify(ro.ctx, ro.err)
		if ro.err == nil {
			res.ctxOut = ro.ctx
		}
	} else {
		res.out = sideRes{"(Err ECtx)", false, "hang"}
	}
	if ri != nil {
		res.in = classify(ri.ctx, ri.err)
		if ri.err == nil {
			res.ctxIn = ri.ctx
		}
	} else {
		res.in = sideRes{"(Err ECtx)", false, "hang"}
	}
	// let the handshake goroutines of cancelled sides finish (they put their object back into the pool)
	_ = epO.Close()
	_ = epI.Close()
	for i := 0; i < 100000 && runtime.NumGoroutine() > base; i++ {
		runtime.Gosched()
		if i > 1000 {
			time.Sleep(50 * time.Microsecond)
		}
	}
	h.mu.Lock()
	res.frames = h.frames
	h.mu.Unlock()
	return res
}

func emptyPool() {
	runtime.GC()
	runtime.GC()
}

// seedPool runs one honest symmetric handshake; afterwards both pooled objects carry (ver, cv).
func seedPool(s *seedSpec) bool {
	a := sideSpec{Acc: 2, Peer: "PCCC", Remote: "PDDD", Ver: s.Ver, List: []uint32{s.Ver}, Verify: s.Verify, CV: s.CV}
	b := sideSpec{Acc: 2, Peer: "PDDD", Remote: "PCCC", Ver: s.Ver, List: []uint32{s.Ver}, Verify: s.Verify, CV: s.CV}
	r := runHandshake(&caseSpec{Out: a, In: b, Chunk: 1000})
	return r.out.ok && r.in.ok
}

// ---------------------------------------------------------------- recording honest frames (for the middle man)

var recCache = map[string][5][]byte{}

func record(out, in sideSpec) [5][]byte {
	key := fmt.Sprintf("%+v|%+v", out, in)
	if f, ok := recCache[key]; ok {
		return f
	}
	emptyPool()
	r := runHandshake(&caseSpec{Out: out, In: in, Chunk: 1000})
	recCache[key] = r.frames
	return r.frames
}

// ---------------------------------------------------------------- main

type runner struct {
	w       *vlib.Writer
	samples []interface{}
	seedBad int
	sessSample bool
}

func poolTerm(s *seedSpec) string {
	if s == nil {
		return "pooled_zero"
	}
	return vlib.App("mkPooled", vlib.N(uint64(s.Ver)), cvTerm(s.CV))
}

func actTerm(a actSpec) string {
	if !a.Replace {
		return "APass"
	}
	data, _ := hex.DecodeString(a.Hex)
	return vlib.App("AReplace", vlib.List(itemsOf(data)), vlib.Bool(a.Cut))
}

func (rn *runner) do(cs caseSpec) {
	w := rn.w
	emptyPool()
	if cs.Seed != nil {
		if !seedPool(cs.Seed) {
			rn.seedBad++
			w.Stat("seed_handshake_failed")
		}
	}
	r := runHandshake(&cs)
	kc := caseTerm(&cs)
	term := vlib.App("HS", kc, r.out.term, r.in.term)
	cs.Obs = r.out.term + " / " + r.in.term
	mitm := false
	for _, a := range cs.Acts {
		mitm = mitm || a.Replace
	}
	nontrivial := (r.out.ok && r.in.ok) || mitm || cs.Cancel != nil || cs.Seed != nil ||
		cs.Out.Ver != cs.In.Ver || cs.Out.Verify != cs.In.Verify
	idx := w.Add(term, cs, term, nontrivial)
	if r.hang != "" {
		w.Violation(idx, "C14-hang", r.hang, nil)
	}
	w.Stat("gen_" + cs.Gen)
	w.Stat(fmt.Sprintf("verdict_out_%v_in_%v", r.out.ok, r.in.ok))
	w.Stat("out_" + r.out.cls)
	w.Stat("in_" + r.in.cls)
	if cs.Seed != nil {
		w.Stat("pool_seeded")
	} else {
		w.Stat("pool_fresh")
	}
	if cs.Cancel != nil {
		w.Stat(fmt.Sprintf("cancel_out_%v_k%d", cs.Cancel.Out, cs.Cancel.K))
		// the same pair, the same side, cancelled before the first frame (precancel.go)
		if !mitm && cs.Seed == nil && preCancelHangs < 3 {
			emptyPool()
			w.Stat("precancel_checked")
			if msg := runPreCancel(&cs, cs.Cancel.Out); msg != "" {
				preCancelHangs++ // a broken tree is reported three times, then the stage is skipped (each hang costs 12 s)
				w.Violation(idx, "C14-precancel", msg, nil)
			}
		}
	}
	for i, a := range cs.Acts {
		if a.Replace {
			w.Stat(fmt.Sprintf("mitm_frame%d_%s", i+1, a.How))
		}
	}
	if len(rn.samples) < 5 && (w.Count()%37 == 1) {
		rn.samples = append(rn.samples, cs)
	}
}

// ---------------------------------------------------------------- sessions
// A session = several handshakes one after the other on the SAME secureservice objects (getSvc caches them by
// configuration, so the same credential checker / verifier serves all handshakes of its service, as in production),
// for different accounts, accepted and rejected.  The context returned by every successful side is kept alive for the
// whole session; the labels of ALL earlier connections are read again after every later handshake and once more at the
// end.  The pool of handshake objects is emptied only at the start of the session.

type sessSpec struct {
	Kind  string     `json:"kind"` // "session"
	Steps []caseSpec `json:"steps"`
	Gen   string     `json:"gen"`
	Obs   string     `json:"observed,omitempty"`
}

func caseTerm(cs *caseSpec) string {
	cancel := "None"
	if cs.Cancel != nil {
		cancel = vlib.Some(vlib.Pair(vlib.Bool(cs.Cancel.Out), vlib.N(uint64(cs.Cancel.K))))
	}
	return vlib.App("mkCase", sideTerm(cs.Out), sideTerm(cs.In), actTerm(cs.Acts[0]), actTerm(cs.Acts[1]),
		actTerm(cs.Acts[2]), actTerm(cs.Acts[3]), cancel, vlib.Bool(cs.WFail), poolTerm(cs.Seed), poolTerm(cs.Seed))
}

func (rn *runner) doSession(ss sessSpec) {
	w := rn.w
	emptyPool()
	n := len(ss.Steps)
	runs := make([]hsRun, n)
	laterOut := make([][]string, n)
	laterIn := make([][]string, n)
	reread := func(upto int) {
		for j := 0; j <= upto; j++ {
			if runs[j].ctxOut != nil {
				laterOut[j] = append(laterOut[j], labelsTerm(runs[j].ctxOut))
			}
			if runs[j].ctxIn != nil {
				laterIn[j] = append(laterIn[j], labelsTerm(runs[j].ctxIn))
			}
		}
	}
	hang := ""
	okBoth, rejected := 0, 0
	for k := range ss.Steps {
		ss.Steps[k].Cancel, ss.Steps[k].Seed = nil, nil
		runs[k] = runHandshake(&ss.Steps[k])
		if runs[k].hang != "" && hang == "" {
			hang = fmt.Sprintf("handshake %d of the session: %s", k, runs[k].hang)
		}
		if runs[k].out.ok && runs[k].in.ok {
			okBoth++
		}
		if !runs[k].out.ok && !runs[k].in.ok {
			rejected++
		}
		reread(k - 1) // all earlier connections, after this handshake
	}
	reread(n - 1) // everything once more at the end of the session
	var items, obs []string
	changed := false
	for k := range ss.Steps {
		items = append(items, vlib.App("mkSessObs", caseTerm(&ss.Steps[k]), runs[k].out.term, runs[k].in.term,
			vlib.List(laterOut[k]), vlib.List(laterIn[k])))
		obs = append(obs, runs[k].out.term+" / "+runs[k].in.term)
		for _, t := range laterOut[k] {
			changed = changed || vlib.App("Ok", t) != runs[k].out.term
		}
		for _, t := range laterIn[k] {
			changed = changed || vlib.App("Ok", t) != runs[k].in.term
		}
	}
	term := vlib.App("SESS", vlib.List(items))
	ss.Kind = "session"
	ss.Obs = strings.Join(obs, " ; ")
	if changed {
		ss.Obs += " ; LABELS OF AN EARLIER CONNECTION CHANGED"
	}
	idx := w.Add(term, ss, term, n >= 2 && okBoth >= 1)
	if hang != "" {
		w.Violation(idx, "C14-hang", hang, nil)
	}
	w.Stat("gen_" + ss.Gen)
	w.Stat(fmt.Sprintf("session_len_%d", n))
	w.Stat(fmt.Sprintf("session_handshakes_ok_%d_rejected_%d", okBoth, rejected))
	if changed {
		w.Stat("session_labels_changed_later")
	}
	if len(rn.samples) < 6 && n >= 3 && okBoth >= 2 && rejected >= 1 && !rn.sessSample {
		rn.sessSample = true
		rn.samples = append(rn.samples, ss)
	}
}

// credentials naming [victim]'s identity, signed with [sign]
func forgedCredFrame(victim int, sign []byte, ver uint32, cv string) []byte {
	pl := handshakeproto.PayloadSignedPeerIds{Identity: accounts[victim].pubMsh, Sign: sign}
	p, _ := pl.MarshalVT()
	c := handshakeproto.Credentials{Type: handshakeproto.CredentialsType_SignedPeerIds, Payload: p, Version: ver, ClientVersion: cv}
	b, _ := c.MarshalVT()
	return frameOf(1, b)
}

var clientCVs = []string{"cvA", "cvB", "cvC", "cvD"}

// genSession: one service (the "hub" of the session: a server accepting many clients, or a client dialling many
// servers) takes part in every handshake; its peers change account / peer id / version / client version from step to
// step.  Steps: honest; a forger that presents somebody's identity (often an earlier connection's account, or the
// account of a connection established earlier) with a junk signature or a signature made for other endpoints;
// an incompatible version; a generic tampering of one frame.
func genSession(r *vlib.Rand) sessSpec {
	n := 2 + r.Intn(4)
	server := r.Chance(2, 3) // the hub is the incoming side
	hubAcc := 1
	hubPeer := "PBBB"
	hubVer := versions[r.Intn(len(versions))]
	hubVerify := r.Chance(7, 8)
	hubViaNC := hubVerify && r.Chance(1, 4)
	hubList := []uint32{0, 5, 6, 13}
	if r.Chance(1, 4) {
		hubList = []uint32{hubVer, versions[r.Intn(len(versions))]}
		if hubList[0] == hubList[1] {
			hubList = hubList[:1]
		}
	}
	hubCV := "cvHub"
	others := []struct {
		acc  int
		peer string
	}{{0, "PAAA"}, {2, "PCCC"}, {0, "PDDD"}, {2, "PAAA"}, {1, "PCCC"}}
	ss := sessSpec{Kind: "session", Gen: "session_server"}
	if !server {
		ss.Gen = "session_client"
	}
	var seenAcc []int
	for k := 0; k < n; k++ {
		o := others[r.Intn(len(others))]
		if k == 1 && r.Chance(1, 2) { // make sure the second peer is another account than the first
			for o.acc == ss.stepsAcc(server, 0) {
				o = others[r.Intn(len(others))]
			}
		}
		peerSide := sideSpec{Acc: o.acc, Peer: o.peer, Remote: hubPeer, Ver: versions[r.Intn(len(versions))],
			List: []uint32{0, 5, 6, 13}, Verify: hubVerify, CV: clientCVs[r.Intn(len(clientCVs))]}
		if r.Chance(3, 4) { // mostly a version the hub accepts, so that identities decide
			peerSide.Ver = hubList[r.Intn(len(hubList))]
		}
		if r.Chance(1, 8) {
			peerSide.Verify = r.Bool()
		}
		hubSide := sideSpec{Acc: hubAcc, Peer: hubPeer, Remote: o.peer, Ver: hubVer, List: hubList, Verify: hubVerify,
			CV: hubCV, ViaNC: hubViaNC}
		kind := r.Intn(10)
		if k == 0 && kind >= 6 {
			kind = 0 // the first handshake is mostly an honest one: there must be a connection to re-read
		}
		if kind == 8 { // incompatible version
			peerSide.Ver = 77
			peerSide.List = []uint32{0, 5, 6, 13, 77}
		}
		cs := caseSpec{WFail: false, Chunk: r.U64() % 1000, Gen: ss.Gen}
		if server {
			cs.Out, cs.In = peerSide, hubSide
		} else {
			cs.Out, cs.In = hubSide, peerSide
		}
		frame := 0 // the frame that carries the peer's credentials to the hub
		if !server {
			frame = 1
		}
		switch kind {
		case 6, 7: // forged identity
			victim := r.Intn(nAccounts)
			if len(seenAcc) > 0 && r.Chance(2, 3) {
				victim = seenAcc[r.Intn(len(seenAcc))]
			}
			var sign []byte
			how := "forged_identity_junk_signature"
			if r.Chance(1, 3) { // a real signature of the victim, but for other endpoints
				p, q := peerIds[r.Intn(4)], peerIds[r.Intn(4)]
				sg, err := accounts[victim].sign.Sign([]byte(p + q))
				must(err)
				sign = sg
				how = "forged_identity_signature_for_other_endpoints"
			} else {
				sign = make([]byte, 64)
				for i := range sign {
					sign[i] = byte(r.U64())
				}
			}
			cs.Acts[frame] = actSpec{Replace: true, Hex: hx(forgedCredFrame(victim, sign, peerSide.Ver, peerSide.CV)), How: how}
		case 9: // generic tampering of one of the first two frames
			honest := record(cs.Out, cs.In)
			f := 1 + r.Intn(2)
			cs.Acts[f-1] = genAct(r, f, honest, honest)
		}
		seenAcc = append(seenAcc, o.acc)
		ss.Steps = append(ss.Steps, cs)
	}
	return ss
}

// account of the peer (non-hub) side of step k
func (ss *sessSpec) stepsAcc(server bool, k int) int {
	if k >= len(ss.Steps) {
		return -1
	}
	if server {
		return ss.Steps[k].Out.Acc
	}
	return ss.Steps[k].In.Acc
}

var versions = []uint32{0, 5, 6, 13}

func genSide(r *vlib.Rand, acc int, peerId, remote string) sideSpec {
	s := sideSpec{Acc: acc, Peer: peerId, Remote: remote}
	s.Ver = versions[r.Intn(len(versions))]
	switch r.Intn(5) {
	case 0:
		s.List = nil // default 12,13,14
	case 1:
		s.List = []uint32{s.Ver}
	case 2:
		o := versions[r.Intn(len(versions))]
		if o == s.Ver {
			s.List = []uint32{s.Ver}
		} else if r.Bool() {
			s.List = []uint32{s.Ver, o}
		} else {
			s.List = []uint32{o, s.Ver}
		}
	default:
		s.List = []uint32{0, 5, 6, 13}
	}
	s.Verify = r.Bool()
	s.ViaNC = s.Verify && r.Chance(1, 4)
	switch r.Intn(8) {
	case 0:
		s.CV = "middle:v0.36.6/any-sync:v0.3.34"
	case 1, 2:
		s.CV = "cvB"
	default:
		s.CV = "cvA"
	}
	return s
}

func genSeed(r *vlib.Rand) *seedSpec {
	if r.Chance(1, 3) {
		return nil
	}
	return &seedSpec{Ver: versions[r.Intn(len(versions))], CV: []string{"seed-x", "seed-y"}[r.Intn(2)], Verify: r.Bool()}
}

func hx(b []byte) string { return hex.EncodeToString(b) }

func frameOf(tp byte, payload []byte) []byte {
	b := make([]byte, 5+len(payload))
	b[0] = tp
	binary.LittleEndian.PutUint32(b[1:5], uint32(len(payload)))
	copy(b[5:], payload)
	return b
}

// genAct builds a hostile replacement for frame k, given the honest frames of this pair and of another connection.
func genAct(r *vlib.Rand, k int, honest, other [5][]byte) actSpec {
	a := genAct0(r, k, honest, other)
	data, _ := hex.DecodeString(a.Hex)
	if incomplete(data) {
		a.Cut = true // a reader would wait for the missing bytes: the middle man ends the stream instead
	}
	return a
}

// incomplete: the byte string does not end at a frame boundary a reader can get to
func incomplete(data []byte) bool {
	if len(data) == 0 {
		return true
	}
	for len(data) > 0 {
		if len(data) < 5 {
			return true
		}
		if !(data[0] == 1 || data[0] == 2) {
			return false // no reader of the credential handshake accepts this type: it stops here
		}
		size := int(binary.LittleEndian.Uint32(data[1:5]))
		if size > sizeLimit {
			return false
		}
		if len(data) < 5+size {
			return true
		}
		data = data[5+size:]
	}
	return false
}

func genAct0(r *vlib.Rand, k int, honest, other [5][]byte) actSpec {
	f := honest[k]
	if f == nil {
		f = frameOf(2, nil)
	}
	switch r.Intn(12) {
	case 0: // flip one bit anywhere
		g := append([]byte(nil), f...)
		p := r.Intn(len(g))
		g[p] ^= 1 << uint(r.Intn(8))
		return actSpec{Replace: true, Hex: hx(g), How: "bitflip"}
	case 1: // flip a bit in the payload
		g := append([]byte(nil), f...)
		if len(g) > 5 {
			p := 5 + r.Intn(len(g)-5)
			g[p] ^= 1 << uint(r.Intn(8))
		} else {
			g[0] ^= 3
		}
		return actSpec{Replace: true, Hex: hx(g), How: "payloadflip"}
	case 2: // truncation, then the connection is cut
		n := r.Intn(len(f))
		return actSpec{Replace: true, Hex: hx(f[:n]), Cut: true, How: "truncate"}
	case 3: // oversized declared length
		g := append([]byte(nil), f...)
		binary.LittleEndian.PutUint32(g[1:5], uint32(sizeLimit+1+r.Intn(1<<20)))
		return actSpec{Replace: true, Hex: hx(g), Cut: r.Bool(), How: "oversize"}
	case 4: // wrong type byte
		g := append([]byte(nil), f...)
		g[0] = []byte{0, 1, 2, 3, 77}[r.Intn(5)]
		return actSpec{Replace: true, Hex: hx(g), Cut: false, How: "type"}
	case 5: // the frame twice (replay inside the connection)
		g := append(append([]byte(nil), f...), f...)
		return actSpec{Replace: true, Hex: hx(g), How: "duplicate"}
	case 6: // a frame recorded on another connection
		o := other[1+r.Intn(4)]
		if o == nil {
			o = frameOf(2, nil)
		}
		return actSpec{Replace: true, Hex: hx(o), How: "replay_other_conn"}
	case 7: // an ack with some error code
		a := handshakeproto.Ack{Error: handshakeproto.Error(r.Intn(9))}
		p, _ := a.MarshalVT()
		return actSpec{Replace: true, Hex: hx(frameOf(2, p)), How: "forged_ack"}
	case 8: // nothing but a cut
		return actSpec{Replace: true, Hex: "", Cut: true, How: "cut"}
	case 9: // random garbage
		n := 1 + r.Intn(40)
		g := make([]byte, n)
		for i := range g {
			g[i] = byte(r.U64())
		}
		return actSpec{Replace: true, Hex: hx(g), Cut: true, How: "garbage"}
	case 10: // credentials re-encoded without version / client version (what an old or hostile peer sends)
		var c handshakeproto.Credentials
		src := honest[1+r.Intn(2)]
		if src != nil && len(src) > 5 && c.UnmarshalVT(src[5:]) == nil {
			if r.Bool() {
				c.Version = 0
			}
			if r.Bool() {
				c.ClientVersion = ""
			}
			if r.Chance(1, 4) {
				c.Type = handshakeproto.CredentialsType(r.Intn(3))
			}
			p, _ := c.MarshalVT()
			return actSpec{Replace: true, Hex: hx(frameOf(1, p)), How: "cred_fields_dropped"}
		}
		return actSpec{Replace: true, Hex: hx(frameOf(1, nil)), How: "cred_empty"}
	default: // an earlier/later frame of the same connection (out of order)
		o := honest[1+r.Intn(4)]
		if o == nil {
			o = frameOf(3, []byte{8, 1})
		}
		return actSpec{Replace: true, Hex: hx(o), How: "out_of_order"}
	}
}

// sizeEdit rewrites only the 4-byte size field of the honest frame f (everything else stays as the sender wrote it).
//   over1 / maxu32 / over: announced size above the 200 KiB limit (oversized)
//   atlimit / longer:       announced size within the limit but more than what follows (truncated: the reader waits, the
//                           middle man then ends the stream)
//   shorter / zero:         announced size smaller than the payload (the rest of the payload is met as the next frame)
var sizeEdits = []string{"over1", "maxu32", "over", "atlimit", "longer", "shorter", "zero"}

func sizeEdit(r *vlib.Rand, f []byte, how string, cut bool) actSpec {
	g := append([]byte(nil), f...)
	real := len(g) - 5
	var n uint32
	switch how {
	case "over1":
		n = sizeLimit + 1
	case "maxu32":
		n = 0xffffffff
	case "over":
		n = uint32(sizeLimit + 2 + r.Intn(1<<20))
	case "atlimit":
		n = sizeLimit
	case "longer":
		n = uint32(real + 1 + r.Intn(60))
	case "shorter":
		if real >= 2 {
			n = uint32(r.Intn(real-1) + 1)
		} else if real == 1 {
			n = 0
		} else {
			n = 1 // an empty payload cannot be announced shorter: announce one byte that never comes
		}
	default: // zero
		if real == 0 {
			n = 2
		} else {
			n = 0
		}
	}
	binary.LittleEndian.PutUint32(g[1:5], n)
	a := actSpec{Replace: true, Hex: hx(g), Cut: cut, How: "size_" + how}
	if incomplete(g) {
		a.Cut = true
	}
	return a
}

func main() {
	o := vlib.ParseFlags()
	vlib.Quiet()
	runtime.GOMAXPROCS(1)
	debug.SetGCPercent(-1)
	initAccounts()
	initSigs()
	w := vlib.NewWriter(o.Out, "C14_run", 250)
	rn := &runner{w: w}
	rule := "every case is one real two-sided handshake (secureservice.HandshakeOutbound against HandshakeInbound over the " +
		"harness connection); non-trivial = both ends succeed, or a frame was tampered with, or a context was cancelled, or the pool " +
		"was pre-seeded by a previous handshake, or the two ends differ in version or mode; a session case is a sequence of 2..5 such handshakes on the " +
		"same service objects (same credential checker) whose returned contexts are kept and re-read after every later handshake and at the end " +
		"(non-trivial = at least 2 handshakes, at least one succeeding on both ends); distinct by full case term"

	if o.Replay != "" {
		for _, raw := range vlib.ReadReplay(o.Replay) {
			var k struct {
				Kind string `json:"kind"`
			}
			if json.Unmarshal(raw, &k) == nil && k.Kind == "session" {
				var ss sessSpec
				if json.Unmarshal(raw, &ss) == nil && len(ss.Steps) > 0 {
					rn.doSession(ss)
				}
				continue
			}
			var cs caseSpec
			if json.Unmarshal(raw, &cs) != nil {
				continue
			}
			rn.do(cs)
		}
		w.Finish("replay", rn.samples, nil)
		return
	}

	r := vlib.NewRand(o.Seed)
	mult := o.Budget
	if o.Tier == "thorough" {
		mult *= 10
	}

	// 0. the pool scenario of DESIGN (F7) and close relatives: previous peer had version V, next peer omits it
	for _, sv := range []uint32{5, 13} {
		for _, verify := range []bool{false, true} {
			out := sideSpec{Acc: 0, Peer: "PAAA", Remote: "PBBB", Ver: 0, List: []uint32{0, sv}, Verify: verify, CV: "cvA"}
			in := sideSpec{Acc: 1, Peer: "PBBB", Remote: "PAAA", Ver: sv, List: []uint32{sv}, Verify: verify, CV: "cvB"}
			rn.do(caseSpec{Out: out, In: in, Seed: &seedSpec{Ver: sv, CV: "seed-x", Verify: verify}, Chunk: 7, Gen: "pool_scenario"})
			rn.do(caseSpec{Out: in, In: out, Seed: &seedSpec{Ver: sv, CV: "seed-x", Verify: verify}, Chunk: 7, Gen: "pool_scenario"})
			rn.do(caseSpec{Out: out, In: in, Chunk: 7, Gen: "pool_scenario"})
		}
	}

	// 1. honest grid: all pairs of (version, list, mode), fresh and seeded pools
	nGrid := 500 * mult
	for i := 0; i < nGrid; i++ {
		cr := r.Fork(uint64(i))
		pa, pb := "PAAA", "PBBB"
		ra, rb := pb, pa
		if cr.Chance(1, 10) { // the transport reports another peer id than the one the other end signs with
			ra = peerIds[cr.Intn(len(peerIds))]
		}
		if cr.Chance(1, 10) {
			rb = peerIds[cr.Intn(len(peerIds))]
		}
		if cr.Chance(1, 12) { // variable-length ids: concatenation ambiguity  PA|AAPBBB  vs  PAAA|PBBB
			pa, rb = "PA", "PAAA"
			pb, ra = "PBBB", "AAPBBB"
			if cr.Bool() {
				pb, ra = "AAPBBB", "AAPBBB"
				rb = "PAAA"
			}
		}
		cs := caseSpec{Out: genSide(cr, 0, pa, ra), In: genSide(cr, 1, pb, rb), WFail: cr.Bool(), Seed: genSeed(cr),
			Chunk: cr.U64() % 1000, Gen: "grid"}
		if cr.Chance(1, 2) { // bias towards compatible pairs
			cs.In.List = append([]uint32{cs.Out.Ver}, cs.In.Ver)
			if cs.In.List[0] == cs.In.List[1] {
				cs.In.List = cs.In.List[:1]
			}
			cs.Out.List = append([]uint32{cs.In.Ver}, cs.Out.Ver)
			if cs.Out.List[0] == cs.Out.List[1] {
				cs.Out.List = cs.Out.List[:1]
			}
			cs.In.Verify = cs.Out.Verify || cs.In.Verify
			cs.Out.Verify = cs.In.Verify
			cs.In.ViaNC, cs.Out.ViaNC = false, false
		}
		rn.do(cs)
	}

	// 2. man in the middle: one or two frames tampered with
	nMitm := 650 * mult
	for i := 0; i < nMitm; i++ {
		cr := r.Fork(uint64(1000000 + i))
		out := genSide(cr, 0, "PAAA", "PBBB")
		in := genSide(cr, 1, "PBBB", "PAAA")
		if cr.Chance(3, 4) { // mostly compatible pairs, so that the tampering decides
			in.List, out.List = []uint32{out.Ver, in.Ver, 77}, []uint32{in.Ver, out.Ver, 77}
			in.Verify = out.Verify || in.Verify
			out.Verify = in.Verify
			if cr.Chance(7, 8) {
				in.CV, out.CV = "cvB", "cvA"
			}
		}
		honest := record(out, in)
		// another connection: other endpoints, same or other accounts
		o2, i2 := out, in
		switch cr.Intn(3) {
		case 0:
			o2.Peer, i2.Remote = "PCCC", "PCCC"
		case 1:
			i2.Peer, o2.Remote = "PDDD", "PDDD"
		default:
			o2.Acc, i2.Acc = 2, 2
		}
		other := record(o2, i2)
		cs := caseSpec{Out: out, In: in, WFail: cr.Bool(), Seed: genSeed(cr), Chunk: cr.U64() % 1000, Gen: "mitm"}
		k := 1 + cr.Intn(4)
		cs.Acts[k-1] = genAct(cr, k, honest, other)
		if cr.Chance(1, 4) {
			k2 := 1 + cr.Intn(4)
			if k2 != k {
				cs.Acts[k2-1] = genAct(cr, k2, honest, other)
			}
		}
		for _, a := range cs.Acts {
			// several frames injected at once: both ends run concurrently, and whether a write meets an already
			// closed end depends on the scheduler; only the schedule-independent variant (writes vanish) is compared
			if data, _ := hex.DecodeString(a.Hex); a.Replace && len(itemsOf(data)) > 1 {
				cs.WFail = false
			}
		}
		rn.do(cs)
	}

	// 2b. size-field edits: for EVERY one of the four frames, over BOTH kinds of pipe (a write to an end that has
	// already hung up fails = net.Pipe-like / is accepted locally = buffered, TCP-like), every kind of wrong size
	// announcement; nothing else is touched.  Pairs are compatible, so that without the edit the handshake succeeds.
	for rep := 0; rep < 3*mult; rep++ {
		cr := r.Fork(uint64(1500000 + rep))
		for k := 1; k <= 4; k++ {
			for _, wfail := range []bool{false, true} {
				for _, how := range sizeEdits {
					out := genSide(cr, 0, "PAAA", "PBBB")
					in := genSide(cr, 1, "PBBB", "PAAA")
					in.List, out.List = []uint32{out.Ver, in.Ver, 77}, []uint32{in.Ver, out.Ver, 77}
					in.Verify = out.Verify || in.Verify
					out.Verify = in.Verify
					in.CV, out.CV = "cvB", "cvA"
					honest := record(out, in)
					f := honest[k]
					if f == nil {
						f = frameOf(2, nil)
					}
					cs := caseSpec{Out: out, In: in, WFail: wfail, Seed: genSeed(cr), Chunk: cr.U64() % 1000, Gen: "size_field"}
					cs.Acts[k-1] = sizeEdit(cr, f, how, cr.Chance(1, 3))
					if data, _ := hex.DecodeString(cs.Acts[k-1].Hex); len(itemsOf(data)) > 1 {
						cs.WFail = false // several frames injected at once: only the schedule-independent variant (see above)
					}
					w.Stat(fmt.Sprintf("size_field_frame%d_wfail_%v", k, cs.WFail))
					rn.do(cs)
				}
			}
		}
	}

	// 3. cancellation at every frame boundary
	nCancel := 250 * mult
	for i := 0; i < nCancel; i++ {
		cr := r.Fork(uint64(2000000 + i))
		out := genSide(cr, 0, "PAAA", "PBBB")
		in := genSide(cr, 1, "PBBB", "PAAA")
		if cr.Chance(3, 4) {
			in.List, out.List = []uint32{out.Ver, in.Ver}, []uint32{in.Ver, out.Ver}
			if in.Ver == out.Ver {
				in.List, out.List = []uint32{in.Ver}, []uint32{in.Ver}
			}
			in.Verify = out.Verify || in.Verify
			out.Verify = in.Verify
			in.CV, out.CV = "cvB", "cvA"
		}
		cs := caseSpec{Out: out, In: in, WFail: cr.Bool(), Seed: genSeed(cr), Chunk: cr.U64() % 1000, Gen: "cancel"}
		c := &cancelSpec{Out: cr.Bool(), K: 1 + cr.Intn(4)}
		if !c.Out && c.K == 4 {
			c.K = 3 // the responder has returned when frame 4 is in flight
		}
		cs.Cancel = c
		rn.do(cs)
	}

	// 4. sessions: the labels of every connection are read again after every later handshake on the same services
	nSess := 150 * mult
	for i := 0; i < nSess; i++ {
		rn.doSession(genSession(r.Fork(uint64(3000000 + i))))
	}

	keys := make([]string, 0, len(svcCache))
	for k := range svcCache {
		keys = append(keys, k)
	}
	sort.Strings(keys)
	w.Finish(rule, rn.samples, map[string]interface{}{"services_built": len(keys), "seed_handshakes_failed": rn.seedBad,
		"gomaxprocs": runtime.GOMAXPROCS(0)})
	_ = io.Discard
	_ = os.Stderr
}
