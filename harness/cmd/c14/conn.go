package main

import (
	"encoding/binary"
	"errors"
	"io"
	"sync"

	"verifharness/vlib"
)

// hub is an in-memory duplex connection between the outgoing end (side 0) and the incoming end (side 1)
// with a man in the middle: unbounded FIFO byte queues (writes never block), reads return arbitrary
// chunks, the bytes written by each end are re-assembled into frames (5-byte header) and the k-th frame of
// the exchange (1: out->in, 2: in->out, 3: out->in, 4: in->out) is passed / replaced / followed by a cut.
type hubAct struct {
	replace bool
	data    []byte
	cut     bool
}

type hub struct {
	mu      sync.Mutex
	cond    *sync.Cond
	raw     [2][]byte // bytes written by side s, not yet assembled into a frame
	nframes [2]int
	q       [2][]byte // bytes readable BY side s
	closed  [2]bool
	dead    bool
	wfail   bool
	acts    [4]hubAct
	// cancellation gate: frame cancelK is held until release()
	cancelK  int
	heldCh   chan struct{}
	held     []byte
	heldK    int
	heldOn   bool
	rnd      *vlib.Rand
	frames   [5][]byte // tap: the frames as written by the ends (index = k, 1..4)
	maxChunk int
}

func newHub(chunkSeed uint64, wfail bool) *hub {
	h := &hub{wfail: wfail, heldCh: make(chan struct{}), rnd: vlib.NewRand(chunkSeed), maxChunk: 1 + int(chunkSeed%97)}
	h.cond = sync.NewCond(&h.mu)
	return h
}

type endpoint struct {
	h    *hub
	side int
}

var errClosed = errors.New("c14 pipe: use of closed endpoint")
var errPeerGone = errors.New("c14 pipe: write to a closed connection")

func (e *endpoint) Read(p []byte) (int, error) {
	h := e.h
	h.mu.Lock()
	defer h.mu.Unlock()
	for {
		if h.closed[e.side] {
			return 0, errClosed
		}
		if len(p) == 0 {
			return 0, nil
		}
		if q := h.q[e.side]; len(q) > 0 {
			n := 1 + h.rnd.Intn(h.maxChunk)
			if n > len(q) {
				n = len(q)
			}
			if n > len(p) {
				n = len(p)
			}
			copy(p, q[:n])
			h.q[e.side] = q[n:]
			return n, nil
		}
		if h.dead || h.closed[1-e.side] {
			return 0, io.EOF
		}
		h.cond.Wait()
	}
}

func (e *endpoint) Write(p []byte) (int, error) {
	h := e.h
	h.mu.Lock()
	defer h.mu.Unlock()
	if h.closed[e.side] {
		return 0, errClosed
	}
	if h.dead || h.closed[1-e.side] {
		if h.wfail {
			return 0, errPeerGone
		}
		return len(p), nil
	}
	s := e.side
	h.raw[s] = append(h.raw[s], p...)
	for len(h.raw[s]) >= 5 {
		size := int(binary.LittleEndian.Uint32(h.raw[s][1:5]))
		if len(h.raw[s]) < 5+size {
			break
		}
		fb := append([]byte(nil), h.raw[s][:5+size]...)
		h.raw[s] = h.raw[s][5+size:]
		k := 1 + s + 2*h.nframes[s]
		h.nframes[s]++
		if k <= 4 {
			h.frames[k] = fb
		}
		if k == h.cancelK && !h.heldOn && h.held == nil {
			h.held, h.heldK, h.heldOn = fb, k, true
			close(h.heldCh)
			continue
		}
		h.deliver(k, fb)
	}
	h.cond.Broadcast()
	return len(p), nil
}

// deliver puts frame k (written by the sender of k) into the receiver's queue, through the middle man.
func (h *hub) deliver(k int, fb []byte) {
	if h.dead {
		return
	}
	to := k % 2 // frames 1,3 go to side 1 (incoming); 2,4 to side 0
	if k <= 4 && h.acts[k-1].replace {
		h.q[to] = append(h.q[to], h.acts[k-1].data...)
		if h.acts[k-1].cut {
			h.dead = true
		}
	} else {
		h.q[to] = append(h.q[to], fb...)
	}
}

func (h *hub) release() {
	h.mu.Lock()
	defer h.mu.Unlock()
	if h.heldOn {
		h.heldOn = false
		h.deliver(h.heldK, h.held)
		h.cond.Broadcast()
	}
}

func (e *endpoint) Close() error {
	h := e.h
	h.mu.Lock()
	h.closed[e.side] = true
	h.cond.Broadcast()
	h.mu.Unlock()
	return nil
}
