// Correspondence driver for C15 (deletion is permanent).  Histories over a small universe of object ids are
// generated from the op alphabet of Model/Deletion.v with one seeded PRNG, executed on the real implementation
// (see world.go) and written as Coq cases: after every op its output class and, per id, the durable
// DeletedStatus, membership in the advertised head index (ldiff Ids()), number of stored changes and
// deletionstate.Exists.  coqc compares with the model's trace and evaluates spec_C15 on the observed trace.
package main

import (
	"time"
	"runtime/debug"
	"encoding/json"
	"fmt"
	"os"
	"strings"

	"verifharness/vlib"
)

type Op struct {
	K       string `json:"k"` // put fetch race frace prace head stale settings sinit worker restart
	St      int    `json:"st,omitempty"`  // frace / prace: the stage at which the deletion is recorded (see Model/Deletion.v)
	Del     int    `json:"del,omitempty"` // frace / prace: 0 nothing, 1 settings change only (queued), 2 + one worker run
	I       int    `json:"i,omitempty"`
	P       int    `json:"p,omitempty"`
	Derived bool   `json:"d,omitempty"`
	H       int    `json:"h,omitempty"`
	Remote  bool   `json:"remote,omitempty"`
	N       int    `json:"n,omitempty"`
	Ids     []int  `json:"ids,omitempty"`
	Kc      int    `json:"kc,omitempty"` // worker: cancel after kc tree-manager calls; -1 = never
	Fail    []int  `json:"fail,omitempty"`
	Sfail   []int  `json:"sfail,omitempty"` // worker: ids whose tree-storage Delete fails (transient storage error) during this run
}

type Desc struct {
	Kind string   `json:"kind"`
	U    int      `json:"u"`
	Ops  []Op     `json:"ops"`
	Tags []string `json:"tags,omitempty"`
}

func oid(i int) string { return fmt.Sprintf("o%02d", i) }
func pid(i int) string {
	if i == 0 {
		return ""
	}
	return oid(i)
}
func cid(i, h int) string { return fmt.Sprintf("o%02d.c%04d", i, h) }
func unoid(s string) int {
	var i int
	if _, err := fmt.Sscanf(s, "o%02d", &i); err != nil || len(s) != 3 {
		return 9999
	}
	return i
}
func oids(v []int) []string {
	r := make([]string, len(v))
	for i, x := range v {
		r[i] = oid(x)
	}
	return r
}
func u64s(v []int) []uint64 {
	r := make([]uint64, len(v))
	for i, x := range v {
		r[i] = uint64(x)
	}
	return r
}

const maxU = 8

var curWorld *World
var famBound, famFault bool

var tNew, tClose, tRestart, tObs time.Duration

type stepRes struct {
	out   string
	order []int // worker / race: recorded GetQueued order
	obs   []Obs
	fired bool // frace / prace: the operation reached the stage and the deletion was recorded
	faults, retries, cacheHits int // worker: storage-delete faults that fired, DeleteTree calls for an id with an earlier fault, ... that found the sync tree cached
}

func universe(u int) []string {
	r := make([]string, u)
	for i := range r {
		r[i] = oid(i + 1)
	}
	return r
}

// runHistory executes ops on a fresh space and returns per op the output and the observation.
func runHistory(f *Fixtures, d Desc) (res []stepRes, panicked interface{}) {
	t0 := time.Now()
	univ := universe(d.U)
	var w *World
	failed := func(r interface{}) {
		panicked = fmt.Sprintf("%v\n%s", r, debug.Stack())
		func() {
			defer func() { _ = recover() }()
			if curWorld != nil {
				curWorld.Close()
			}
		}()
		curWorld = nil
	}
	defer func() {
		if r := recover(); r != nil {
			failed(r)
			return
		}
		defer func() { // the restart of the components for the next history can fail too
			if r := recover(); r != nil {
				failed(r)
			}
		}()
		t1 := time.Now()
		w.Reset(universe(maxU))
		tClose += time.Since(t1)
	}()
	if curWorld == nil || curWorld.uses > 150 {
		if curWorld != nil {
			curWorld.Close()
		}
		curWorld = nil
		curWorld = NewWorld(f)
	}
	w = curWorld
	tNew += time.Since(t0)
	for _, o := range d.Ops {
		var sr stepRes
		switch o.K {
		case "put":
			sr.out, _ = w.Put(oid(o.I), pid(o.P), o.Derived)
		case "fetch":
			sr.out, _ = w.Fetch(oid(o.I), pid(o.P), o.Derived, cid(o.I, o.H), o.Remote, nil)
		case "race":
			var order []string
			sr.out, _ = w.Fetch(oid(o.I), pid(o.P), o.Derived, cid(o.I, o.H), true, func() {
				w.Settings([]string{oid(o.I)})
				order = w.Worker(-1, nil)
			})
			for _, s := range order {
				sr.order = append(sr.order, unoid(s))
			}
		case "frace", "prace":
			var order []string
			pts := fetchPoints
			if o.K == "prace" {
				pts = putPoints
			}
			if o.St < 0 || o.St >= len(pts) {
				panic(fmt.Sprintf("stage %d out of range for %s", o.St, o.K))
			}
			hook := &stageHook{point: pts[o.St], fn: func() {
				if o.Del >= 1 {
					w.Settings([]string{oid(o.I)})
				}
				if o.Del >= 2 {
					order = w.Worker(-1, nil)
				}
			}}
			var opErr error
			if o.K == "frace" {
				sr.out, opErr = w.FetchHooked(oid(o.I), pid(o.P), o.Derived, cid(o.I, o.H), true, nil, hook)
			} else {
				sr.out, opErr = w.PutHooked(oid(o.I), pid(o.P), o.Derived, hook)
			}
			if opErr != nil && os.Getenv("VERIF_C15_DEBUG") != "" {
				fmt.Fprintf(os.Stderr, "%s st=%d del=%d: %s: %v\n", o.K, o.St, o.Del, sr.out, opErr)
			}
			sr.fired = hook.fired
			for _, s := range order {
				sr.order = append(sr.order, unoid(s))
			}
		case "head":
			sr.out, _ = w.Head(oid(o.I), cid(o.I, o.H))
		case "stale":
			sr.out = w.Stale(o.N)
		case "settings":
			w.Settings(oids(o.Ids))
			sr.out = "OOk"
		case "sinit":
			w.SettingsInit()
			sr.out = "OOk"
		case "worker":
			order := w.WorkerFaults(o.Kc, oids(o.Fail), oids(o.Sfail))
			for _, s := range order {
				sr.order = append(sr.order, unoid(s))
			}
			sr.faults, sr.retries, sr.cacheHits = w.tm.faultHits, w.tm.retries, w.tm.cacheHits
			sr.out = "OWorker"
		case "restart":
			t2 := time.Now()
			w.Restart()
			tRestart += time.Since(t2)
			sr.out = "OOk"
		default:
			panic("unknown op " + o.K)
		}
		t3 := time.Now()
		sr.obs = w.Observe(univ)
		tObs += time.Since(t3)
		res = append(res, sr)
	}
	return res, nil
}

// ---------------------------------------------------------------- Coq printing

const never = 1000000000

func opTerm(o Op, sr stepRes) string {
	switch o.K {
	case "put":
		return vlib.App("OpPut", vlib.N(uint64(o.I)), vlib.N(uint64(o.P)), vlib.Bool(o.Derived))
	case "fetch":
		return vlib.App("OpFetch", vlib.N(uint64(o.I)), vlib.N(uint64(o.P)), vlib.Bool(o.Derived), vlib.N(uint64(o.H)), vlib.Bool(o.Remote))
	case "race":
		return vlib.App("OpFetchRace", vlib.N(uint64(o.I)), vlib.N(uint64(o.P)), vlib.Bool(o.Derived), vlib.N(uint64(o.H)), vlib.NList(u64s(sr.order)))
	case "frace":
		return vlib.App("OpFetchStaged", vlib.N(uint64(o.I)), vlib.N(uint64(o.P)), vlib.Bool(o.Derived), vlib.N(uint64(o.H)),
			vlib.N(uint64(o.St)), vlib.N(uint64(o.Del)), vlib.NList(u64s(sr.order)))
	case "prace":
		return vlib.App("OpPutStaged", vlib.N(uint64(o.I)), vlib.N(uint64(o.P)), vlib.Bool(o.Derived),
			vlib.N(uint64(o.St)), vlib.N(uint64(o.Del)), vlib.NList(u64s(sr.order)))
	case "head":
		return vlib.App("OpHead", vlib.N(uint64(o.I)), vlib.N(uint64(o.H)))
	case "stale":
		return vlib.App("OpStale", vlib.Nat(o.N))
	case "settings":
		return vlib.App("OpSettings", vlib.NList(u64s(o.Ids)))
	case "sinit":
		return "OpSettingsInit"
	case "worker":
		k := uint64(never)
		if o.Kc >= 0 {
			k = uint64(o.Kc)
		}
		if len(o.Sfail) > 0 {
			return vlib.App("OpWorkerS", vlib.NList(u64s(sr.order)), vlib.N(k), vlib.NList(u64s(o.Fail)), vlib.NList(u64s(o.Sfail)))
		}
		return vlib.App("OpWorker", vlib.NList(u64s(sr.order)), vlib.N(k), vlib.NList(u64s(o.Fail)))
	case "restart":
		return "OpRestart"
	}
	panic("opTerm")
}

func sortInts(v []int) []int {
	c := append([]int(nil), v...)
	for i := 1; i < len(c); i++ {
		for j := i; j > 0 && c[j-1] > c[j]; j-- {
			c[j-1], c[j] = c[j], c[j-1]
		}
	}
	return c
}

func outTerm(sr stepRes) string {
	if sr.out == "OWorker" {
		return vlib.App("OWorker", vlib.NList(u64s(sortInts(sr.order))))
	}
	return sr.out
}

func obsTerm(o Obs) string {
	return vlib.App("mkO", vlib.N(uint64(o.St)), vlib.Bool(o.Idx), vlib.N(uint64(o.NChg)), vlib.Bool(o.Mem))
}

func caseTerm(d Desc, res []stepRes) string {
	univ := make([]uint64, d.U)
	for i := range univ {
		univ[i] = uint64(i + 1)
	}
	ops := make([]string, len(d.Ops))
	tr := make([]string, len(d.Ops))
	for i, o := range d.Ops {
		ops[i] = opTerm(o, res[i])
		ob := make([]string, len(res[i].obs))
		for j, x := range res[i].obs {
			ob[j] = obsTerm(x)
		}
		tr[i] = vlib.Pair(outTerm(res[i]), vlib.List(ob))
	}
	return vlib.App("CHist", vlib.NList(univ), vlib.List(ops), vlib.List(tr))
}

// ---------------------------------------------------------------- generator

// hgen is the generator state of one history
type hgen struct {
	r       *vlib.Rand
	hostile bool
	u       int
	h       int // change numbers are disjoint from object ids
	histLen int // rough upper bound of the notification history, for stale indexes
	created []int
	ops     []Op
}

func (g *hgen) pick() int { return 1 + g.r.Intn(g.u) }
func (g *hgen) pickCreated() int {
	if len(g.created) == 0 || g.r.Chance(1, 5) {
		return g.pick()
	}
	return g.created[g.r.Intn(len(g.created))]
}

// a target for the staged ops: mostly an id nothing has been created for yet (so that the stage is reached)
func (g *hgen) pickFresh() int {
	if g.r.Chance(1, 4) {
		return g.pick()
	}
	var free []int
	for i := 1; i <= g.u; i++ {
		used := false
		for _, c := range g.created {
			used = used || c == i
		}
		if !used {
			free = append(free, i)
		}
	}
	if len(free) == 0 {
		return g.pick()
	}
	return free[g.r.Intn(len(free))]
}
func (g *hgen) parent(i int) int {
	if g.r.Chance(3, 5) {
		return 0
	}
	p := g.pickCreated()
	if p == i && !g.hostile {
		return 0
	}
	return p
}
func (g *hgen) add(o Op) { g.ops = append(g.ops, o) }

// randomOp appends one op (sometimes two) drawn from the whole alphabet
func (g *hgen) randomOp() {
	r := g.r
	x := r.Intn(100)
	switch {
	case x < 16:
		i := g.pick()
		g.add(Op{K: "put", I: i, P: g.parent(i), Derived: r.Chance(1, 6)})
		g.created = append(g.created, i)
		g.histLen += 2
	case x < 26:
		i := g.pick()
		g.h++
		g.add(Op{K: "fetch", I: i, P: g.parent(i), Derived: r.Chance(1, 8), H: g.h, Remote: !r.Chance(1, 6)})
		g.created = append(g.created, i)
		g.histLen += 3
	case x < 28:
		i := g.pick()
		g.h++
		g.add(Op{K: "race", I: i, P: g.parent(i), Derived: r.Chance(1, 8), H: g.h})
		g.histLen += 5
	case x < 37: // the deletion is recorded at a generated stage of the fetch, as queued or as deleted
		i := g.pickFresh()
		g.h++
		o := Op{K: "frace", I: i, P: g.parent(i), Derived: r.Chance(1, 8), H: g.h, St: r.Intn(len(fetchPoints)), Del: 1 + r.Intn(2)}
		if r.Chance(1, 12) {
			o.Del = 0
		}
		g.add(o)
		if o.St == len(fetchPoints)-1 {
			g.created = append(g.created, i)
		}
		g.histLen += 6
	case x < 41: // the same for PutSyncTree
		i := g.pickFresh()
		o := Op{K: "prace", I: i, P: g.parent(i), Derived: r.Chance(1, 6), St: r.Intn(len(putPoints)), Del: 1 + r.Intn(2)}
		if r.Chance(1, 12) {
			o.Del = 0
		}
		g.add(o)
		if o.St == len(putPoints)-1 {
			g.created = append(g.created, i)
		}
		g.histLen += 5
	case x < 52:
		g.h++
		g.add(Op{K: "head", I: g.pickCreated(), H: g.h})
		g.histLen++
	case x < 59:
		g.add(Op{K: "stale", N: r.Intn(g.histLen + 2)})
	case x < 72:
		k := 1 + r.Intn(2)
		ids := make([]int, k)
		for j := range ids {
			ids[j] = g.pickCreated()
		}
		g.add(Op{K: "settings", Ids: ids})
		g.histLen += k
	case x < 76:
		g.add(Op{K: "sinit"})
	case x < 92:
		o := Op{K: "worker", Kc: -1}
		if r.Chance(1, 3) {
			o.Kc = r.Intn(4)
		}
		if r.Chance(1, 5) {
			o.Fail = []int{g.pick()}
		}
		if r.Chance(1, 5) { // transient storage errors at the tree's Delete during this run
			o.Sfail = []int{g.pickCreated()}
			if r.Chance(1, 4) {
				o.Sfail = append(o.Sfail, g.pick())
			}
		}
		g.add(o)
		g.histLen += 3
	case x < 96:
		g.add(Op{K: "stale", N: r.Intn(g.histLen + 2)})
	default:
		g.add(Op{K: "restart"})
		g.histLen = 0
		if r.Chance(2, 3) {
			g.add(Op{K: "sinit"})
		}
	}
}

func genHistory(r *vlib.Rand, hostile bool) Desc {
	u := 4 + r.Intn(4)
	n := 10 + r.Intn(26)
	g := &hgen{r: r, hostile: hostile, u: u, h: 1000}
	for len(g.ops) < n {
		g.randomOp()
	}
	return Desc{Kind: "hist", U: u, Ops: g.ops}
}

// genBound: histories around BOUND CHILDREN.  A parent and 1-3 children bound to it (roots with ParentId = parent,
// mostly derived) exist locally, most of them with changes besides the root (so they are advertised), next to
// unrelated objects; a deletion record arrives that lists the parent ONLY (what a peer writes that never saw the
// children), or the parent and some of the children, or - rarely - a child only; then the deletion worker runs
// (mostly to completion; sometimes cancelled after k tree-manager calls or with a tree manager failing for a child),
// so that the unlisted children go NotDeleted -> Deleted directly in deleter.deleteBoundChildren, and the history goes
// on with late re-deliveries, changes / fetches / puts for the deleted ids, late children, restarts, further worker
// runs and ops from the whole alphabet.  Same op alphabet, model and spec as the other histories.
func genBound(r *vlib.Rand) Desc {
	u := 4 + r.Intn(4)
	g := &hgen{r: r, u: u, h: 1000}
	perm := r.Perm(u)
	id := func(k int) int { return perm[k] + 1 }
	par := id(0)
	nch := 1 + r.Intn(3)
	if nch > u-2 {
		nch = u - 2
	}
	children := make([]int, nch)
	for k := range children {
		children[k] = id(1 + k)
	}
	others := []int{}
	for k := 1 + nch; k < u; k++ {
		others = append(others, id(k))
	}
	create := func(i, p int, derived bool) {
		if r.Chance(1, 2) {
			g.add(Op{K: "put", I: i, P: p, Derived: derived})
			g.histLen += 2
		} else {
			g.h++
			g.add(Op{K: "fetch", I: i, P: p, Derived: derived, H: g.h, Remote: true})
			g.histLen += 3
		}
		g.created = append(g.created, i)
	}
	heads := func(i, n int) {
		for k := 0; k < n; k++ {
			g.h++
			g.add(Op{K: "head", I: i, H: g.h})
			g.histLen++
		}
	}
	noise := func(p, q int) {
		for r.Chance(p, q) {
			g.randomOp()
		}
	}
	// the family
	create(par, 0, false)
	heads(par, r.Intn(3))
	nOthers := 0
	if len(others) > 0 {
		nOthers = 1 + r.Intn(len(others))
	}
	for k := 0; k < nOthers && r.Chance(1, 2); k++ {
		create(others[k], 0, r.Chance(1, 6))
		heads(others[k], r.Intn(2))
	}
	for _, c := range children {
		create(c, par, !r.Chance(1, 4))
		n := 1 + r.Intn(2)
		if r.Chance(1, 5) {
			n = 0 // an empty (derived) child: never advertised by live updates
		}
		heads(c, n)
		noise(1, 8)
	}
	for k := 0; k < nOthers; k++ {
		already := false
		for _, c := range g.created {
			already = already || c == others[k]
		}
		if !already {
			create(others[k], 0, r.Chance(1, 6))
			heads(others[k], 1+r.Intn(2))
		}
	}
	noise(1, 6)
	// the deletion record
	var ids []int
	switch x := r.Intn(10); {
	case x < 6:
		ids = []int{par}
	case x < 8:
		ids = []int{par}
		for _, c := range children {
			if r.Chance(1, 2) {
				ids = append(ids, c)
			}
		}
	case x < 9:
		ids = []int{children[r.Intn(nch)]}
	default:
		ids = []int{par}
		if nOthers > 0 {
			ids = append(ids, others[0])
		}
	}
	g.add(Op{K: "settings", Ids: ids})
	g.histLen += len(ids)
	// between the record and the worker: the children are still live
	if r.Chance(1, 3) {
		heads(children[r.Intn(nch)], 1)
	}
	if r.Chance(1, 5) && len(others) > nOthers { // a late child: queued in its creating transaction
		create(others[nOthers], par, r.Chance(1, 2))
	}
	if r.Chance(1, 6) {
		g.add(Op{K: "stale", N: r.Intn(g.histLen + 1)})
	}
	// the worker
	wk := Op{K: "worker", Kc: -1}
	switch x := r.Intn(10); {
	case x < 7:
	case x < 9:
		wk.Kc = r.Intn(2 + nch)
	default:
		wk.Fail = []int{children[r.Intn(nch)]}
	}
	g.add(wk)
	g.histLen += 2 + nch
	// afterwards
	n := 3 + r.Intn(8)
	for k := 0; k < n; k++ {
		tgt := par
		if r.Chance(2, 3) {
			tgt = children[r.Intn(nch)]
		}
		switch x := r.Intn(12); {
		case x < 2:
			g.add(Op{K: "stale", N: r.Intn(g.histLen + 1)})
		case x < 3:
			heads(tgt, 1)
		case x < 4:
			g.h++
			g.add(Op{K: "fetch", I: tgt, P: 0, H: g.h, Remote: true})
		case x < 5:
			g.add(Op{K: "put", I: tgt, P: par, Derived: r.Chance(1, 2)})
		case x < 6:
			g.add(Op{K: "restart"})
			g.histLen = 0
			if r.Chance(2, 3) {
				g.add(Op{K: "sinit"})
			}
		case x < 8:
			g.add(Op{K: "worker", Kc: -1})
			g.histLen += 2
		case x < 9:
			g.add(Op{K: "settings", Ids: []int{tgt}})
			g.histLen++
		default:
			g.randomOp()
		}
	}
	return Desc{Kind: "hist", U: u, Ops: g.ops}
}

// genFault: histories around TRANSIENT STORAGE ERRORS in the deletion worker.  One to three objects with content
// (sometimes a parent with a bound child) exist locally, their deletion is recorded, and the worker's run hits a
// storage error at the tree's Delete for one or more of them (objecttree.Storage.Delete fails; the sync tree the tree
// manager opened for the delete stays in its cache): the object must stay queued with everything stored.  Then -
// possibly after changes, re-deliveries, fetches of the still queued object, a restart (which empties the cache) or a
// further faulty run - the worker RETRIES without fault, through the cached sync tree, and the history goes on with
// restarts (cache gone: everything is rebuilt from the store), fetches / puts / changes for the deleted ids, further
// runs and ops from the whole alphabet.  Same op alphabet (worker ops carry "sfail"), model and spec.
func genFault(r *vlib.Rand) Desc {
	u := 4 + r.Intn(4)
	g := &hgen{r: r, u: u, h: 1000}
	perm := r.Perm(u)
	id := func(k int) int { return perm[k] + 1 }
	create := func(i, p int, derived bool) {
		if r.Chance(1, 2) {
			g.add(Op{K: "put", I: i, P: p, Derived: derived})
			g.histLen += 2
		} else {
			g.h++
			g.add(Op{K: "fetch", I: i, P: p, Derived: derived, H: g.h, Remote: true})
			g.histLen += 3
		}
		g.created = append(g.created, i)
	}
	heads := func(i, n int) {
		for k := 0; k < n; k++ {
			g.h++
			g.add(Op{K: "head", I: i, H: g.h})
			g.histLen++
		}
	}
	nobj := 1 + r.Intn(3)
	if nobj > u-1 {
		nobj = u - 1
	}
	objs := make([]int, nobj)
	withChild := nobj >= 2 && r.Chance(1, 3)
	for k := range objs {
		objs[k] = id(k)
		p := 0
		if withChild && k == 1 {
			p = objs[0]
		}
		create(objs[k], p, p != 0 && r.Chance(1, 2))
		heads(objs[k], r.Intn(3))
		if r.Chance(1, 8) {
			g.randomOp()
		}
	}
	// the deletion record
	var ids []int
	for k, x := range objs {
		if k == 0 || (r.Chance(2, 3) && !(withChild && k == 1 && r.Chance(1, 2))) {
			ids = append(ids, x)
		}
	}
	g.add(Op{K: "settings", Ids: ids})
	g.histLen += len(ids)
	if r.Chance(1, 6) {
		g.randomOp()
	}
	// the run that hits the storage error(s)
	tgt := objs[r.Intn(nobj)]
	sf := []int{tgt}
	for _, x := range objs {
		if x != tgt && r.Chance(1, 4) {
			sf = append(sf, x)
		}
	}
	wk := Op{K: "worker", Kc: -1, Sfail: sf}
	if r.Chance(1, 8) {
		wk.Kc = 1 + r.Intn(3)
	}
	g.add(wk)
	g.histLen += 2 + nobj
	// between the failed attempt and the retry
	for r.Chance(2, 5) {
		switch x := r.Intn(8); {
		case x < 2:
			heads(tgt, 1)
		case x < 3:
			g.add(Op{K: "stale", N: r.Intn(g.histLen + 1)})
		case x < 4:
			g.h++
			g.add(Op{K: "fetch", I: tgt, H: g.h, Remote: true})
		case x < 5:
			g.add(Op{K: "worker", Kc: -1, Sfail: []int{tgt}}) // the error is still there
			g.histLen += 2
		case x < 6:
			g.add(Op{K: "restart"})
			g.histLen = 0
			if r.Chance(2, 3) {
				g.add(Op{K: "sinit"})
			}
		case x < 7:
			g.add(Op{K: "settings", Ids: []int{objs[r.Intn(nobj)]}})
			g.histLen++
		default:
			g.randomOp()
		}
	}
	// the retry
	if !r.Chance(1, 10) {
		g.add(Op{K: "worker", Kc: -1})
		g.histLen += 2 + nobj
	}
	// afterwards
	n := 3 + r.Intn(6)
	restarted := false
	for k := 0; k < n; k++ {
		t := tgt
		if r.Chance(1, 3) {
			t = objs[r.Intn(nobj)]
		}
		switch x := r.Intn(12); {
		case x < 3 || (k == n-2 && !restarted):
			g.add(Op{K: "restart"})
			g.histLen = 0
			restarted = true
			if r.Chance(2, 3) {
				g.add(Op{K: "sinit"})
			}
		case x < 5:
			g.h++
			g.add(Op{K: "fetch", I: t, H: g.h, Remote: r.Chance(3, 4)})
		case x < 6:
			g.add(Op{K: "put", I: t, Derived: r.Chance(1, 4)})
		case x < 7:
			heads(t, 1)
		case x < 8:
			g.add(Op{K: "stale", N: r.Intn(g.histLen + 1)})
		case x < 10:
			g.add(Op{K: "worker", Kc: -1})
			g.histLen += 2
		default:
			g.randomOp()
		}
	}
	return Desc{Kind: "hist", U: u, Ops: g.ops}
}

// faultRetried: some worker run hit a storage-delete fault and a later run called DeleteTree again for such an id
func faultRetried(res []stepRes) bool {
	hit := false
	for _, sr := range res {
		if hit && sr.retries > 0 {
			return true
		}
		hit = hit || sr.faults > 0
	}
	return false
}

// non-triviality: some id is tombstoned and afterwards a put / fetch / race / head / stale op is issued for a
// tombstoned id, or a restart happens while something is tombstoned
func nontrivial(d Desc, res []stepRes) bool {
	tomb := map[int]bool{}
	any := false
	if faultRetried(res) {
		return true
	}
	for k, o := range d.Ops {
		if directDeletes(d, res, k) > 0 {
			return true
		}
		switch o.K {
		case "put", "fetch", "race", "head", "frace", "prace":
			if tomb[o.I] || (res[k].fired && o.Del > 0) {
				return true
			}
		case "restart", "stale":
			if any {
				return true
			}
		}
		for j, ob := range res[k].obs {
			if ob.St >= 2 {
				tomb[j+1] = true
				any = true
			}
		}
	}
	return false
}

// directDeletes: ids that op k (a worker run) took from not deleted to deleted in one step while they were advertised
// (bound children deleted with their parent without ever being queued)
func directDeletes(d Desc, res []stepRes, k int) int {
	if d.Ops[k].K != "worker" || k == 0 {
		return 0
	}
	n := 0
	for j, a := range res[k].obs {
		b := res[k-1].obs[j]
		if b.St == 1 && b.Idx && a.St == 3 {
			n++
		}
	}
	return n
}

func key(d Desc) string {
	b, _ := json.Marshal(d.Ops)
	return fmt.Sprintf("%d|%s", d.U, b)
}

func main() {
	vlib.Quiet()
	o := vlib.ParseFlags()
	f := NewFixtures("/verif/.work/C15")
	defer f.Cleanup()
	defer func() {
		if curWorld != nil {
			curWorld.Close()
		}
	}()
	w := vlib.NewWriter(o.Out, "C15_run", 250)
	var samples []interface{}

	hangs := 0
	emit := func(d Desc) {
		if hangs >= 2 { // every further history would wait for the watchdog again
			w.Stat("hist:skipped-after-two-hangs")
			return
		}
		for k := range d.Ops { // replayed descriptions: keep the staged ops inside their ranges
			op := &d.Ops[k]
			if op.K == "frace" || op.K == "prace" {
				n := len(fetchPoints)
				if op.K == "prace" {
					n = len(putPoints)
				}
				op.St = ((op.St % n) + n) % n
				op.Del = ((op.Del % 3) + 3) % 3
			}
		}
		res, p := runHistory(f, d)
		if p != nil {
			idx := w.Add("CHist [] [] []", d, key(d), false)
			tag := "panic"
			if strings.HasPrefix(fmt.Sprint(p), "head-storage notification") {
				tag = "hang"
				hangs++
			}
			w.Violation(idx, tag, fmt.Sprint(p), d)
			return
		}
		nt := nontrivial(d, res)
		for k, op := range d.Ops {
			w.Stat("op:" + op.K)
			if directDeletes(d, res, k) > 0 {
				w.Stat("worker:deleted-an-advertised-unqueued-bound-child")
			}
			if op.K == "worker" && len(op.Sfail) > 0 {
				w.Stat("worker:with-storage-faults")
				if res[k].faults > 0 {
					w.Stat("worker:storage-delete-fault-fired")
				}
			}
			if res[k].retries > 0 {
				w.Stat("worker:retry-after-storage-fault")
				if res[k].cacheHits > 0 {
					w.Stat("worker:retry-through-cached-sync-tree")
				}
			}
			if op.K == "frace" || op.K == "prace" {
				pts := fetchPoints
				if op.K == "prace" {
					pts = putPoints
				}
				how := []string{"none", "queued", "deleted"}[op.Del]
				if res[k].fired {
					w.Stat(fmt.Sprintf("staged:%s:%d-%s:%s:%s", op.K, op.St, pts[op.St], how, res[k].out))
				} else {
					w.Stat(fmt.Sprintf("staged:%s:stage-not-reached:%s", op.K, res[k].out))
				}
			}
		}
		for _, sr := range res {
			if sr.out != "OOk" {
				w.Stat("out:" + sr.out)
			}
		}
		if nt {
			w.Stat("hist:nontrivial")
		}
		if faultRetried(res) {
			w.Stat("hist:storage-fault-then-retry")
		}
		if famFault {
			w.Stat("hist:family-storage-faults")
			if nt {
				w.Stat("hist:family-storage-faults:nontrivial")
			}
		}
		if famBound {
			w.Stat("hist:family-bound-children")
			if nt {
				w.Stat("hist:family-bound-children:nontrivial")
			}
		}
		w.Add(caseTerm(d, res), d, key(d), nt)
		if len(samples) < 3 && nt {
			samples = append(samples, d)
		}
	}

	var sw *setWorld
	sobjSampled := false
	emitSettings := func(d SDesc) {
		if sw == nil {
			sw = newSetWorld(f)
		}
		var term string
		var stats []string
		var p interface{}
		func() {
			defer func() {
				if r := recover(); r != nil {
					p = fmt.Sprintf("%v\n%s", r, debug.Stack())
				}
			}()
			term, stats = runSettings(f, sw, d)
		}()
		b, _ := json.Marshal(d)
		if p != nil {
			idx := w.Add("CSettings [] []", d, string(b), false)
			w.Violation(idx, "panic", fmt.Sprint(p), d)
			return
		}
		for _, s := range stats {
			w.Stat(s)
		}
		hasSnap := false
		for _, c := range d.Chgs {
			hasSnap = hasSnap || c.Snap
		}
		w.Add(term, d, string(b), hasSnap && len(d.Batches) > 1)
	}

	emitSObj := func(d SODesc) {
		if sw == nil {
			sw = newSetWorld(f)
		}
		var term string
		var stats []string
		var nt, ok bool
		var p interface{}
		func() {
			defer func() {
				if r := recover(); r != nil {
					p = fmt.Sprintf("%v\n%s", r, debug.Stack())
				}
			}()
			term, stats, nt, ok = runSObj(f, sw, d)
		}()
		b, _ := json.Marshal(d)
		if p != nil {
			idx := w.Add("CSObj [] []", d, string(b), false)
			w.Violation(idx, "panic", fmt.Sprint(p), d)
			return
		}
		if !ok {
			w.Stat("sobj:invalid-description-skipped")
			return
		}
		for _, s := range stats {
			w.Stat(s)
		}
		w.Stat(fmt.Sprintf("sobj:replicas:%d", d.P))
		if nt {
			w.Stat("sobj:nontrivial")
		}
		w.Add(term, d, string(b), nt)
		if nt && !sobjSampled {
			sobjSampled = true
			samples = append(samples, d)
		}
	}

	if o.Replay != "" {
		for _, raw := range vlib.ReadReplay(o.Replay) {
			var d Desc
			if err := json.Unmarshal(raw, &d); err != nil {
				fmt.Fprintln(os.Stderr, "bad replay desc:", err)
				continue
			}
			switch d.Kind {
			case "hist":
				emit(d)
			case "settings":
				var sd SDesc
				if err := json.Unmarshal(raw, &sd); err == nil {
					emitSettings(sd)
				}
			case "sobj":
				var sd SODesc
				if err := json.Unmarshal(raw, &sd); err == nil {
					emitSObj(sd)
				}
			}
		}
	} else {
		r := vlib.NewRand(o.Seed)
		n := 300
		if o.Tier == "thorough" {
			n = 6000
		}
		n *= o.Budget
		for i := 0; i < n; i++ {
			emit(genHistory(r.Fork(uint64(i)), i%7 == 6))
		}
		for i := 0; i < n/3; i++ {
			famBound = true
			emit(genBound(r.Fork(uint64(3000000 + i))))
			famBound = false
		}
		for i := 0; i < n/5; i++ {
			famFault = true
			emit(genFault(r.Fork(uint64(4000000 + i))))
			famFault = false
		}
		for i := 0; i < n/2; i++ {
			emitSettings(genSettings(r.Fork(uint64(1000000 + i))))
		}
		for i := 0; i < n/2; i++ {
			emitSObj(genSObj(r.Fork(uint64(2000000 + i))))
		}
	}
	if os.Getenv("VERIF_C15_TIMING") != "" {
		fmt.Fprintln(os.Stderr, "timing new/close/restart/obs:", tNew, tClose, tRestart, tObs, "drain:", tDrain, nDrain)
	}
	w.Finish("history in which a worker run hits a transient storage error at a tree's Delete and a later run retries that id, or a worker run deletes an advertised bound child that was never queued (NotDeleted -> Deleted directly), or some id is tombstoned and afterwards put/fetch/race/head targets a tombstoned id, or a deletion is recorded at a generated stage of a fetch / put (frace: after the local lookup, before the request, response in flight, deferred storage handed out, entry of the first AddAll, after it; prace: before the tombstone check, before the creating transaction, after it; as queued or as deleted), or a stale re-delivery / restart happens while something is tombstoned; settings (linear log): has a snapshot and more than one arrival batch; sobj (branching settings log through real settings objects at 2-4 replicas): at least one listener call in Rebuild mode; distinct by op list / description",
		samples, map[string]interface{}{"generator": strings.TrimSpace("c15-v5-staged-sobj-headsync-bound-faults")})
}
