// The advertised head index of a World is kept by the REAL head sync component (headsync.New): Init builds its
// DiffManager and diffSyncer, Run registers the diffSyncer as observer of the head storage, starts the headUpdater
// goroutine and fills the diff.  Everything that reaches the index after the start therefore goes
//
//	headstorage.UpdateEntry -> observer (diffSyncer.OnUpdate) -> headUpdater queue -> DiffManager.UpdateHeads
//
// as in a running space; the advertised ids are read through HeadSync.AllIds().  The component gets the World's real
// space storage behind a thin wrapper (capSpace) that (a) hands observer registrations to the World, which is the one
// observer of the real head storage object and forwards every notification synchronously, in registration order,
// and (b) guards StateStorage.SetHash so that a write of the space hash cannot run into the closing of the database
// at a restart.  Its other dependencies (peers, credentials, tree syncer, key-value service, node configuration)
// are only used by diff rounds with remote peers, which the harness does not start (sync period 0, no peers).
//
// The queue is asynchronous.  drain() makes the pipeline quiescent without looking inside it: a notification for a
// fresh id outside the universe is handed to the registered observers after everything else, and the harness waits
// until that id is advertised - the queue is FIFO and has one consumer, so everything before it has been applied.
// A notification pipeline that does not deliver within the watchdog is reported as a violation (hang).
package main

import (
	"context"
	"errors"
	"fmt"
	"os"
	"sync"
	"time"

	"storj.io/drpc"

	"github.com/anyproto/any-sync/app"
	"github.com/anyproto/any-sync/commonspace/config"
	"github.com/anyproto/any-sync/commonspace/credentialprovider"
	"github.com/anyproto/any-sync/commonspace/headsync"
	"github.com/anyproto/any-sync/commonspace/headsync/headstorage"
	"github.com/anyproto/any-sync/commonspace/headsync/statestorage"
	"github.com/anyproto/any-sync/commonspace/object/acl/list"
	"github.com/anyproto/any-sync/commonspace/object/acl/syncacl"
	"github.com/anyproto/any-sync/commonspace/object/keyvalue/kvinterfaces"
	"github.com/anyproto/any-sync/commonspace/object/treesyncer"
	"github.com/anyproto/any-sync/commonspace/peermanager"
	"github.com/anyproto/any-sync/commonspace/spacestate"
	"github.com/anyproto/any-sync/commonspace/spacestorage"
	"github.com/anyproto/any-sync/net/peer"
	"github.com/anyproto/any-sync/nodeconf"
)

// drainWatchdog: how long a sentinel notification may take to show up in the advertised index.  The clean side
// needs a few hundred microseconds; the margin is for a heavily loaded machine.
var drainWatchdog = func() time.Duration {
	if v, err := time.ParseDuration(os.Getenv("VERIF_C15_WATCHDOG")); err == nil && v > 0 {
		return v // for trying out the hang path
	}
	return 120 * time.Second
}()

// stall is the panic value of a pipeline that does not deliver (reported as a hang, not as a panic).
var stalledOnce bool
var tDrain time.Duration
var nDrain int

type stall struct{ what string }

func (s stall) String() string { return s.what }

// ---------------------------------------------------------------- pipeline

type pipeline struct {
	mu        sync.Mutex
	observers []headstorage.Observer // registered by the running components, in registration order
	seq       *int                   // sentinel counter of the World (unique over restarts of the component)
	allIds    func() []string
	// guard of the state storage
	stMu   sync.Mutex
	closed bool
	dead   bool // a drain has timed out: do not wait again
}

func (p *pipeline) addObserver(o headstorage.Observer) {
	p.mu.Lock()
	defer p.mu.Unlock()
	p.observers = append(p.observers, o)
}

func (p *pipeline) deliver(e headstorage.HeadsEntry) {
	p.mu.Lock()
	obs := p.observers
	p.mu.Unlock()
	for _, o := range obs {
		o.OnUpdate(e)
	}
}

const sentinelPrefix = "zz.drain."

func (p *pipeline) drain() {
	if p == nil || p.dead {
		return
	}
	t0 := time.Now()
	defer func() { tDrain += time.Since(t0); nDrain++ }()
	*p.seq++
	id := fmt.Sprintf("%s%08d", sentinelPrefix, *p.seq)
	p.deliver(headstorage.HeadsEntry{Id: id, Heads: []string{id + ".h"}})
	wd := drainWatchdog
	if stalledOnce && wd > 15*time.Second {
		wd = 15 * time.Second // the generous margin has been spent once already
	}
	deadline := time.Now().Add(wd)
	for spin := 0; ; spin++ {
		for _, x := range p.allIds() {
			if x == id {
				return
			}
		}
		if time.Now().After(deadline) {
			p.dead = true
			stalledOnce = true
			panic(stall{fmt.Sprintf("head-storage notification for a live object not applied to the advertised index within %s (observer pipeline stalled or dropping live updates)", wd)})
		}
		if spin < 50 {
			time.Sleep(20 * time.Microsecond)
		} else {
			time.Sleep(500 * time.Microsecond)
		}
	}
}

// ---------------------------------------------------------------- the space storage the component sees

type capSpace struct {
	spacestorage.SpaceStorage
	p *pipeline
}

func (s *capSpace) HeadStorage() headstorage.HeadStorage {
	return &capHead{HeadStorage: s.SpaceStorage.HeadStorage(), p: s.p}
}

func (s *capSpace) StateStorage() statestorage.StateStorage {
	return &guardState{StateStorage: s.SpaceStorage.StateStorage(), p: s.p}
}

type capHead struct {
	headstorage.HeadStorage
	p *pipeline
}

func (h *capHead) AddObserver(o headstorage.Observer) { h.p.addObserver(o) }

type guardState struct {
	statestorage.StateStorage
	p *pipeline
}

func (g *guardState) SetHash(c context.Context, hash string) error {
	g.p.stMu.Lock()
	defer g.p.stMu.Unlock()
	if g.p.closed {
		return errors.New("verif: component stopped")
	}
	return g.StateStorage.SetHash(c, hash)
}

// ---------------------------------------------------------------- dependencies that only remote diff rounds use

type hsConfig struct{}

func (hsConfig) Init(a *app.App) error    { return nil }
func (hsConfig) Name() string             { return "config" }
func (hsConfig) GetSpace() config.Config { return config.Config{SyncPeriod: 0} }

type hsSyncAcl struct {
	syncacl.SyncAcl
	l list.AclList
}

func (f hsSyncAcl) Init(a *app.App) error  { return nil }
func (f hsSyncAcl) Name() string           { return syncacl.CName }
func (f hsSyncAcl) Id() string             { return f.l.Id() }
func (f hsSyncAcl) Head() *list.AclRecord  { return f.l.Head() }

type hsNodeConf struct{ nodeconf.NodeConf }

func (hsNodeConf) Init(a *app.App) error { return nil }
func (hsNodeConf) Name() string          { return nodeconf.CName }

type hsPeers struct{}

func (hsPeers) Init(a *app.App) error { return nil }
func (hsPeers) Name() string          { return peermanager.CName }
func (hsPeers) GetResponsiblePeers(ctx context.Context) ([]peer.Peer, error) {
	return nil, errors.New("verif: no peers")
}
func (hsPeers) GetNodePeers(ctx context.Context) ([]peer.Peer, error) {
	return nil, errors.New("verif: no peers")
}
func (hsPeers) BroadcastMessage(ctx context.Context, msg drpc.Message) error          { return nil }
func (hsPeers) SendMessage(ctx context.Context, peerId string, msg drpc.Message) error { return nil }
func (hsPeers) KeepAlive(ctx context.Context)                                          {}

type hsCreds struct{ credentialprovider.CredentialProvider }

func (hsCreds) Init(a *app.App) error { return nil }
func (hsCreds) Name() string          { return credentialprovider.CName }

type hsTreeSyncer struct{ treesyncer.TreeSyncer }

func (hsTreeSyncer) Init(a *app.App) error { return nil }
func (hsTreeSyncer) Name() string          { return treesyncer.CName }

type hsKeyValue struct{ kvinterfaces.KeyValueService }

func (hsKeyValue) Init(a *app.App) error { return nil }
func (hsKeyValue) Name() string          { return kvinterfaces.CName }

// ---------------------------------------------------------------- start / stop

// startHeadSync builds and runs the head sync component over w.sp and w.ds (called after deletionstate.Run, as the
// component order of a space has it).
func (w *World) startHeadSync() {
	p := &pipeline{seq: &w.drainSeq}
	a := new(app.App)
	a.Register(&capSpace{SpaceStorage: w.sp, p: p})
	a.Register(&spacestate.SpaceState{SpaceId: w.f.spaceId})
	a.Register(hsConfig{})
	a.Register(hsSyncAcl{l: w.f.acl})
	a.Register(hsNodeConf{})
	a.Register(hsPeers{})
	a.Register(hsCreds{})
	a.Register(hsTreeSyncer{})
	a.Register(hsKeyValue{})
	a.Register(w.ds)
	hs := headsync.New()
	must(hs.Init(a))
	must(hs.Run(ctx))
	p.allIds = hs.AllIds
	w.hs = hs
	w.pipe = p
	w.nobs = len(p.observers)
	w.flush()
}

// stopHeadSync makes the pipeline quiescent and closes the component; afterwards nothing of it touches the store.
func (w *World) stopHeadSync() {
	if w.hs == nil {
		return
	}
	p, hs := w.pipe, w.hs
	w.pipe, w.hs = nil, nil
	p.drain()
	_ = hs.Close(ctx)
	p.stMu.Lock()
	p.closed = true
	p.stMu.Unlock()
}
