// Settings-object part of the C15 harness: BRANCHING settings logs driven through the REAL settings object.
//
// P replicas (2..4) of one settings log.  Every replica is a real settings.NewSettingsObject + Init over a real
// sync tree (synctree.BuildSyncTreeOrGetRemote, non-verifying tree builder) on a real any-store tree storage with
// the real settingsstate.StateBuilder / ChangeFactory.  Fakes: the space storage wiring (StateStorage.GetState,
// TreeStorage), the sync client (broadcast = no-op) and the deletion manager (a recorder that, like the real
// deletion state, accumulates every id it is told about) - the same things the repository's own tests fake.
// Unsigned changes are made with objecttree.MockChangeCreator, so that change ids - which decide the iteration
// order of concurrent siblings - are chosen by the generator ("tag") and a replay is exact.
//
// A script is a list of steps: "w" replica a writes a delete record on top of ITS OWN current heads (previous ids
// = the heads of its real tree, snapshot base = the root of its real tree, payload written by the real factory
// from its incrementally kept state); "d" a batch of records (change numbers, causally closed w.r.t. what the
// target holds) arrives at replica a through SyncTree.AddRawChanges / AddRawChangesFromPeer - the real
// Append / Rebuild dispatch to settingsObject.Update / Rebuild; "r" replica a restarts (new settings object, Init
// over the same storage, incl. checkHistoryState).  After EVERY step the harness observes at that replica: the tree
// mode, the root, the ids iterated after the start point (LastIteratedId of the kept state for Append, else the
// root) and from the root, the incrementally kept state's DeletedIds (verif hook), a from-scratch
// StateBuilder.Build on the same tree, and the accumulated ids handed to DeletionManager.UpdateState.
package main

import (
	"context"
	"fmt"
	"os"
	"sort"
	"sync/atomic"

	"github.com/anyproto/any-sync/app"
	"github.com/anyproto/any-sync/commonspace/headsync/headstorage"
	"github.com/anyproto/any-sync/commonspace/headsync/statestorage"
	"github.com/anyproto/any-sync/commonspace/object/tree/objecttree"
	"github.com/anyproto/any-sync/commonspace/object/tree/synctree"
	"github.com/anyproto/any-sync/commonspace/object/tree/synctree/updatelistener"
	"github.com/anyproto/any-sync/commonspace/object/tree/treechangeproto"
	"github.com/anyproto/any-sync/commonspace/settings"
	"github.com/anyproto/any-sync/commonspace/settings/settingsstate"
	"github.com/anyproto/any-sync/commonspace/spacestorage"
	"github.com/anyproto/any-sync/commonspace/spacesyncproto"

	"verifharness/vlib"
)

type SOStep struct {
	K    string `json:"k"` // w (write) d (deliver) r (restart)
	A    int    `json:"a"` // replica
	Ids  []int  `json:"ids,omitempty"`
	Snap bool   `json:"snap,omitempty"`
	Tag  int    `json:"tag,omitempty"` // w: leading part of the change id (orders concurrent siblings)
	B    []int  `json:"b,omitempty"`   // d: change numbers of the batch in the order handed to the tree
	Src  int    `json:"src,omitempty"` // d: 0 = the (possibly delayed) head update the author of the single change B[0] sent when it
	// wrote it (heads = [B[0]], snapshot path = the author's at that time); i > 0 = a response of replica i-1 (its current
	// heads and snapshot path; B is a causally closed part of what it holds)
	Peer bool `json:"peer,omitempty"` // d: through AddRawChangesFromPeer
	// d: hand the records over WITHOUT a snapshot path (never generated: the sync layer always sends one; kept for
	// replaying the commonSnapshot observation described in notes/C15.md)
	NoPath bool `json:"nopath,omitempty"`
}

type SODesc struct {
	Kind  string   `json:"kind"` // "sobj"
	P     int      `json:"p"`
	Steps []SOStep `json:"steps"`
}

// ---------------------------------------------------------------- doubles

// recDM is the deletion manager double: like the real deletion state it accumulates every id it is told about.
type recDM struct {
	seen  map[string]struct{}
	calls int
}

func (m *recDM) Init(a *app.App) error           { return nil }
func (m *recDM) Name() string                    { return "verif.delmanager" }
func (m *recDM) Run(ctx context.Context) error   { return nil }
func (m *recDM) Close(ctx context.Context) error { return nil }
func (m *recDM) UpdateState(ctx context.Context, state *settingsstate.State) error {
	m.calls++
	for id := range state.DeletedIds {
		m.seen[id] = struct{}{}
	}
	return nil
}

type soStateStorage struct {
	statestorage.StateStorage
	settingsId string
}

func (s soStateStorage) GetState(ctx context.Context) (statestorage.State, error) {
	return statestorage.State{SettingsId: s.settingsId}, nil
}
func (s soStateStorage) SettingsId() string { return s.settingsId }

// soSpace is the space storage wiring of one replica: TreeStorage opens the stored settings tree the way
// spaceStorage.TreeStorage does (objecttree.NewStorage + SetAddSeq).
type soSpace struct {
	spacestorage.SpaceStorage
	sw         *setWorld
	settingsId string
	addSeq     atomic.Uint64
}

func (s *soSpace) StateStorage() statestorage.StateStorage {
	return soStateStorage{settingsId: s.settingsId}
}
func (s *soSpace) HeadStorage() headstorage.HeadStorage { return s.sw.heads }
func (s *soSpace) TreeStorage(c context.Context, id string) (objecttree.Storage, error) {
	st, err := objecttree.NewStorage(c, id, s.sw.heads, s.sw.db)
	if err != nil {
		return nil, err
	}
	st.(addSeqSetter).SetAddSeq(&s.addSeq)
	return st, nil
}

var historyHookInstalled bool

// the changes of the harness carry no signatures: Init's checkHistoryState gets the repository's own
// testable (non-verifying) history-tree builder instead of the verifying one
func installHistoryHook() {
	if historyHookInstalled {
		return
	}
	historyHookInstalled = true
	settings.VerifSetBuildHistoryTree(func(objTree objecttree.ObjectTree) (objecttree.ReadableObjectTree, error) {
		return objecttree.VerifBuildTestableHistoryTree(objecttree.HistoryTreeParams{Storage: objTree.Storage(), AclList: objTree.AclList()})
	})
}

// ---------------------------------------------------------------- one replica

type soObs struct {
	held    []int
	mode    int // 0 init / restart, 1 append, 2 rebuild, 3 nothing
	root    int
	after   []int
	all     []int
	state   []int
	scratch []int
	seen    []int
}

type soReplica struct {
	sfx   string
	space *soSpace
	obj   settings.SettingsObject
	dm    *recDM
	held  []int
	has   map[int]bool
	obs   []soObs
}

type soChange struct {
	prev []int
	base int
	snap bool
	data []byte
	ids  []int
	tag  int
	path []int // snapshot path of the author's tree right after the write (what its head update carries)
}

type soRun struct {
	f     *Fixtures
	sw    *setWorld
	pref  string
	chgs  []soChange // index k-1
	reps  []*soReplica
	stats []string
}

func (r *soRun) name(k int, sfx string) string {
	tag := 0
	if k > 0 {
		tag = r.chgs[k-1].tag
	}
	return fmt.Sprintf("%s%02d.%04d%s", r.pref, tag, k, sfx)
}

func (r *soRun) num(id string, sfx string) int {
	if len(id) != len(r.pref)+7+len(sfx) {
		return 9999
	}
	var tag, k int
	if _, err := fmt.Sscanf(id[len(r.pref):len(id)-len(sfx)], "%02d.%04d", &tag, &k); err != nil {
		return 9999
	}
	return k
}

func (r *soRun) raw(k int, sfx string) *treechangeproto.RawTreeChangeWithId {
	c := r.chgs[k-1]
	prev := make([]string, len(c.prev))
	for i, p := range c.prev {
		prev[i] = r.name(p, sfx)
	}
	return r.f.creator.CreateRawWithData(r.name(k, sfx), r.f.aclHead, r.name(c.base, sfx), c.snap, c.data, prev...)
}

func (r *soRun) open(rep *soReplica) {
	rep.obj = settings.NewSettingsObject(settings.Deps{
		BuildFunc: func(c context.Context, id string, listener updatelistener.UpdateListener) (synctree.SyncTree, error) {
			return synctree.BuildSyncTreeOrGetRemote(c, id, synctree.BuildDeps{
				SpaceId:         r.f.spaceId,
				SyncClient:      &remote{RequestFactory: synctree.NewRequestFactory(r.f.spaceId)},
				Listener:        listener,
				AclList:         r.f.acl,
				SpaceStorage:    rep.space,
				OnClose:         func(id string) {},
				SyncStatus:      noStatus{},
				BuildObjectTree: objecttree.BuildTestableTree,
			})
		},
		Store:      rep.space,
		DelManager: rep.dm,
	}, r.f.spaceId)
	must(rep.obj.Init(ctx))
}

func (r *soRun) newReplica(i int) *soReplica {
	rep := &soReplica{sfx: fmt.Sprintf("p%d", i), dm: &recDM{seen: map[string]struct{}{}}, has: map[int]bool{}}
	root := r.f.creator.CreateRoot(r.name(0, rep.sfx), r.f.aclHead)
	_, err := objecttree.CreateStorage(ctx, root, r.sw.heads, r.sw.db)
	must(err)
	rep.space = &soSpace{sw: r.sw, settingsId: root.Id}
	r.open(rep)
	r.observe(rep, 0, "")
	return rep
}

func sortedKeys(m map[string]struct{}) []int {
	var res []int
	for id := range m {
		res = append(res, unoid(id))
	}
	sort.Ints(res)
	return res
}

// observe records what the replica shows after a step; prevLast = LastIteratedId of the kept state before the step
func (r *soRun) observe(rep *soReplica, mode int, prevLast string) {
	rep.obj.Lock()
	defer rep.obj.Unlock()
	num := func(id string) int { return r.num(id, rep.sfx) }
	o := soObs{held: append([]int(nil), rep.held...), mode: mode, root: num(rep.obj.Root().Id)}
	o.all = iterAfter(rep.obj, rep.obj.Root().Id, num)
	switch {
	case mode == 1 && prevLast != "":
		o.after = iterAfter(rep.obj, prevLast, num)
	case mode == 3:
	default:
		o.after = o.all
	}
	if st := settings.VerifState(rep.obj); st != nil {
		o.state = sortedIds(st)
	}
	sc, err := settingsstate.NewStateBuilder().Build(rep.obj, nil)
	must(err)
	o.scratch = sortedIds(sc)
	o.seen = sortedKeys(rep.dm.seen)
	rep.obs = append(rep.obs, o)
	if os.Getenv("VERIF_C15_DEBUG") != "" {
		u := map[int]bool{}
		for _, k := range o.held {
			for _, x := range r.chgs[k-1].ids {
				u[x] = true
			}
		}
		var ul []int
		for x := range u {
			ul = append(ul, x)
		}
		sort.Ints(ul)
		flag := ""
		if fmt.Sprint(ul) != fmt.Sprint(o.state) || fmt.Sprint(ul) != fmt.Sprint(o.scratch) || fmt.Sprint(ul) != fmt.Sprint(o.seen) {
			flag = "  <<<<<< DIFFERS"
		}
		fmt.Fprintf(os.Stderr, "   obs %s mode=%d root=%d held=%v after=%v all=%v state=%v scratch=%v seen=%v union=%v%s\n", rep.sfx, o.mode, o.root, o.held, o.after, o.all, o.state, o.scratch, o.seen, ul, flag)
	}
}

func modeCode(m objecttree.Mode) int {
	switch m {
	case objecttree.Append:
		return 1
	case objecttree.Rebuild:
		return 2
	}
	return 3
}

// deliver hands the batch to the replica's sync tree; returns false if the batch is not causally closed
func (r *soRun) pathOf(rep *soReplica) []int {
	rep.obj.Lock()
	defer rep.obj.Unlock()
	sp, err := rep.obj.SnapshotPath()
	must(err)
	res := make([]int, len(sp))
	for i, id := range sp {
		res[i] = r.num(id, rep.sfx)
	}
	return res
}

func (r *soRun) deliver(rep *soReplica, batch []int, peer bool, src int, nopath bool) bool {
	var path, srcHeads []int
	if src == 0 {
		if len(batch) != 1 || batch[0] < 1 || batch[0] > len(r.chgs) {
			return false
		}
		path = r.chgs[batch[0]-1].path
	} else {
		if src-1 >= len(r.reps) || r.reps[src-1] == rep {
			return false
		}
		from := r.reps[src-1]
		for _, k := range batch {
			if !from.has[k] {
				return false
			}
		}
		path = r.pathOf(from)
		from.obj.Lock()
		for _, h := range from.obj.Heads() {
			srcHeads = append(srcHeads, r.num(h, from.sfx))
		}
		from.obj.Unlock()
	}
	in := map[int]bool{}
	for _, k := range batch {
		if k < 1 || k > len(r.chgs) {
			return false
		}
		in[k] = true
	}
	for _, k := range batch {
		for _, p := range r.chgs[k-1].prev {
			if p != 0 && !rep.has[p] && !in[p] {
				return false
			}
		}
	}
	var raws []*treechangeproto.RawTreeChangeWithId
	isPrev := map[int]bool{}
	for _, k := range batch {
		raws = append(raws, r.raw(k, rep.sfx))
		for _, p := range r.chgs[k-1].prev {
			isPrev[p] = true
		}
	}
	var heads, spath []string
	if src == 0 {
		for _, k := range batch {
			if !isPrev[k] {
				heads = append(heads, r.name(k, rep.sfx))
			}
		}
	} else {
		for _, k := range srcHeads {
			heads = append(heads, r.name(k, rep.sfx))
		}
	}
	for _, k := range path {
		spath = append(spath, r.name(k, rep.sfx))
	}
	if nopath {
		spath = nil
	}
	rep.obj.Lock()
	prevLast := ""
	if st := settings.VerifState(rep.obj); st != nil {
		prevLast = st.LastIteratedId
	}
	payload := objecttree.RawChangesPayload{NewHeads: heads, RawChanges: raws, SnapshotPath: spath}
	var res objecttree.AddResult
	var err error
	if peer {
		res, err = rep.obj.AddRawChangesFromPeer(ctx, "peer", payload)
	} else {
		res, err = rep.obj.AddRawChanges(ctx, payload)
	}
	rep.obj.Unlock()
	must(err)
	newBefore := false
	for _, k := range batch {
		if !rep.has[k] {
			rep.has[k] = true
			rep.held = append(rep.held, k)
		}
	}
	mode := modeCode(res.Mode)
	r.observe(rep, mode, prevLast)
	// coverage statistics: how many of the new changes are iterated BEFORE the point the kept state stopped at
	if mode == 2 && prevLast != "" {
		o := rep.obs[len(rep.obs)-1]
		pl := r.num(prevLast, rep.sfx)
		for _, x := range o.all {
			if x == pl {
				break
			}
			if in[x] {
				newBefore = true
			}
		}
		if newBefore {
			r.stats = append(r.stats, "sobj:rebuild:new-change-sorted-before-last-iterated")
		}
		if o.root != 0 {
			r.stats = append(r.stats, "sobj:rebuild:snapshot-root")
		}
	}
	r.stats = append(r.stats, fmt.Sprintf("sobj:mode:%s", []string{"init", "append", "rebuild", "nothing"}[mode]))
	return true
}

func (r *soRun) write(rep *soReplica, s SOStep) {
	rep.obj.Lock()
	heads := append([]string(nil), rep.obj.Heads()...)
	base := r.num(rep.obj.Root().Id, rep.sfx)
	st := settings.VerifState(rep.obj)
	rep.obj.Unlock()
	data, err := settingsstate.NewChangeFactory().CreateObjectDeleteChange(oids(s.Ids), st, s.Snap)
	must(err)
	c := soChange{base: base, snap: s.Snap, data: data, ids: s.Ids, tag: ((s.Tag % 100) + 100) % 100}
	for _, h := range heads {
		c.prev = append(c.prev, r.num(h, rep.sfx))
	}
	sort.Ints(c.prev)
	r.chgs = append(r.chgs, c)
	if len(heads) > 1 {
		r.stats = append(r.stats, fmt.Sprintf("sobj:write:merge-of-%d", len(heads)))
	}
	if s.Snap {
		r.stats = append(r.stats, "sobj:write:snapshot")
	}
	k := len(r.chgs)
	// the own record enters the author's tree with the author's own snapshot path; what its head update carries is
	// the path read back right after the record was added
	r.chgs[k-1].path = r.pathOf(rep)
	if !r.deliver(rep, []int{k}, false, 0, false) {
		panic("own write is not causally closed")
	}
	r.chgs[k-1].path = r.pathOf(rep)
}

func runSObj(f *Fixtures, sw *setWorld, d SODesc) (term string, stats []string, nontrivial bool, ok bool) {
	installHistoryHook()
	sw.n++
	r := &soRun{f: f, sw: sw, pref: fmt.Sprintf("q%06d.", sw.n)}
	p := d.P
	if p < 1 || p > 6 {
		return "", nil, false, false
	}
	for i := 0; i < p; i++ {
		r.reps = append(r.reps, r.newReplica(i))
	}
	defer func() {
		for _, rep := range r.reps {
			_ = rep.obj.Close()
		}
	}()
	for si, s := range d.Steps {
		if s.A < 0 || s.A >= p {
			return "", nil, false, false
		}
		rep := r.reps[s.A]
		if os.Getenv("VERIF_C15_DEBUG") != "" {
			fmt.Fprintf(os.Stderr, "sobj step %d %+v heads=%v root=%s n=%d\n", si, s, rep.obj.Heads(), rep.obj.Root().Id, len(r.chgs))
		}
		switch s.K {
		case "w":
			if len(s.Ids) == 0 {
				return "", nil, false, false
			}
			r.write(rep, s)
		case "d":
			if !r.deliver(rep, s.B, s.Peer, s.Src, s.NoPath) {
				return "", nil, false, false
			}
		case "r":
			_ = rep.obj.Close()
			r.open(rep)
			r.observe(rep, 0, "")
			r.stats = append(r.stats, "sobj:mode:init")
		default:
			return "", nil, false, false
		}
	}
	// Coq term
	schs := make([]string, len(r.chgs))
	for k, c := range r.chgs {
		snapTerm := "None"
		if c.snap {
			sd := &spacesyncproto.SettingsData{}
			must(sd.UnmarshalVT(c.data))
			var ids []int
			for _, id := range sd.GetSnapshot().GetDeletedIds() {
				ids = append(ids, unoid(id))
			}
			sort.Ints(ids)
			snapTerm = vlib.Some(vlib.NList(u64s(ids)))
		}
		schs[k] = vlib.App("mkSC", vlib.N(uint64(k+1)), vlib.NList(u64s(c.ids)), snapTerm)
	}
	reps := make([]string, len(r.reps))
	for i, rep := range r.reps {
		evs := make([]string, len(rep.obs))
		for j, o := range rep.obs {
			evs[j] = vlib.App("mkSObs", vlib.NList(u64s(o.held)), vlib.N(uint64(o.mode)), vlib.N(uint64(o.root)),
				vlib.NList(u64s(o.after)), vlib.NList(u64s(o.all)), vlib.NList(u64s(o.state)), vlib.NList(u64s(o.scratch)), vlib.NList(u64s(o.seen)))
			if o.mode == 2 {
				nontrivial = true
			}
		}
		reps[i] = vlib.List(evs)
	}
	return vlib.App("CSObj", vlib.List(schs), vlib.List(reps)), r.stats, nontrivial, true
}

// ---------------------------------------------------------------- generator

// genSObj simulates the replicas' held sets and the log's previous-id relation (previous ids of a write = the
// childless changes the writer holds) to generate causally closed deliveries.
func genSObj(rd *vlib.Rand) SODesc {
	p := 2 + rd.Intn(3)
	d := SODesc{Kind: "sobj", P: p}
	var prev [][]int // index k-1
	held := make([]map[int]bool, p)
	for i := range held {
		held[i] = map[int]bool{}
	}
	headsOf := func(a int) []int {
		child := map[int]bool{}
		for k := range held[a] {
			for _, q := range prev[k-1] {
				child[q] = true
			}
		}
		var hs []int
		for k := range held[a] {
			if !child[k] {
				hs = append(hs, k)
			}
		}
		sort.Ints(hs)
		return hs
	}
	write := func(a int) {
		c := SOStep{K: "w", A: a, Snap: rd.Chance(1, 6), Tag: rd.Intn(100)}
		m := 1 + rd.Intn(2)
		for j := 0; j < m; j++ {
			c.Ids = append(c.Ids, 1+rd.Intn(14))
		}
		prev = append(prev, headsOf(a))
		held[a][len(prev)] = true
		d.Steps = append(d.Steps, c)
	}
	missing := func(a int, src map[int]bool) []int {
		var ms []int
		for k := range src {
			if !held[a][k] {
				ms = append(ms, k)
			}
		}
		sort.Ints(ms)
		return ms
	}
	all := func() map[int]bool {
		u := map[int]bool{}
		for k := range prev {
			u[k+1] = true
		}
		return u
	}
	// the missing changes whose previous changes the replica holds (or that are in got)
	ready := func(a int, ms []int, got map[int]bool) []int {
		var res []int
		for _, k := range ms {
			if got[k] {
				continue
			}
			ok := true
			for _, q := range prev[k-1] {
				if q != 0 && !held[a][q] && !got[q] {
					ok = false
				}
			}
			if ok {
				res = append(res, k)
			}
		}
		return res
	}
	// a random causally closed selection of at most n of the missing changes, in a random topological order
	pickClosed := func(a int, ms []int, n int) []int {
		var out []int
		got := map[int]bool{}
		for len(out) < n {
			rs := ready(a, ms, got)
			if len(rs) == 0 {
				break
			}
			k := rs[rd.Intn(len(rs))]
			got[k] = true
			out = append(out, k)
		}
		return out
	}
	// a delayed head update of some author reaches a: one record whose previous records a holds
	single := func(a int) bool {
		rs := ready(a, missing(a, all()), nil)
		if len(rs) == 0 {
			return false
		}
		k := rs[rd.Intn(len(rs))]
		held[a][k] = true
		d.Steps = append(d.Steps, SOStep{K: "d", A: a, B: []int{k}, Peer: rd.Chance(1, 2)})
		return true
	}
	// a response of replica b reaches a: what b holds and a misses (sometimes only a causally closed part)
	from := func(a, b int) {
		ms := missing(a, held[b])
		if a == b || len(ms) == 0 {
			return
		}
		lim := len(ms)
		if rd.Chance(1, 4) {
			lim = 1 + rd.Intn(len(ms))
		}
		bt := pickClosed(a, ms, lim)
		if len(bt) > 1 && rd.Chance(1, 3) { // arrival order inside a batch is arbitrary too
			for i := len(bt) - 1; i > 0; i-- {
				j := rd.Intn(i + 1)
				bt[i], bt[j] = bt[j], bt[i]
			}
		}
		for _, k := range bt {
			held[a][k] = true
		}
		d.Steps = append(d.Steps, SOStep{K: "d", A: a, B: bt, Src: b + 1, Peer: rd.Chance(1, 2)})
	}
	n := 6 + rd.Intn(14)
	for s := 0; s < n; s++ {
		x := rd.Intn(100)
		a := rd.Intn(p)
		switch {
		case x < 40:
			write(a)
		case x < 68:
			if !single(a) && len(held[a]) > 0 && rd.Chance(1, 3) { // re-delivery of something already held
				hs := headsOf(a)
				d.Steps = append(d.Steps, SOStep{K: "d", A: a, B: []int{hs[rd.Intn(len(hs))]}, Peer: rd.Chance(1, 2)})
			}
		case x < 88:
			from(a, rd.Intn(p))
		case x < 93:
			d.Steps = append(d.Steps, SOStep{K: "r", A: a})
		default: // two or three replicas write concurrently on top of the same state
			bs := []int{a, (a + 1) % p, (a + 2) % p}[:2+rd.Intn(2)]
			for _, b := range bs[1:] {
				from(b, a)
			}
			for i, b := range bs {
				if i == 0 || b != a {
					write(b)
				}
			}
		}
	}
	// convergence: every replica receives what it misses (mostly one record at a time, in a random causal order),
	// then one replica writes on top of all branches and the merge reaches everybody
	for a := 0; a < p; a++ {
		for len(missing(a, all())) > 0 {
			if rd.Chance(1, 5) {
				from(a, rd.Intn(p))
			} else {
				single(a)
			}
		}
	}
	if len(prev) > 0 {
		a := rd.Intn(p)
		write(a)
		for b := 0; b < p; b++ {
			if b != a {
				single(b)
			}
		}
		if rd.Chance(1, 3) {
			d.Steps = append(d.Steps, SOStep{K: "r", A: rd.Intn(p)})
		}
	}
	return d
}
