// Settings part of the C15 harness: a real settings-like object tree (non-verifying builder) on any-store whose
// changes carry real spacesyncproto.SettingsData payloads written by the real settingsstate.ChangeFactory; the
// real settingsstate.StateBuilder is run the way settingsObject runs it (incrementally after an Append, from
// scratch after a Rebuild), plus from scratch at the end and on the history tree.  Linear logs with snapshots;
// the receiving replica gets the changes in batches.
package main

import (
	"fmt"
	"path/filepath"
	"sort"
	"sync/atomic"

	anystore "github.com/anyproto/any-store"

	"github.com/anyproto/any-sync/commonspace/headsync/headstorage"
	"github.com/anyproto/any-sync/commonspace/object/tree/objecttree"
	"github.com/anyproto/any-sync/commonspace/object/tree/treechangeproto"
	"github.com/anyproto/any-sync/commonspace/settings/settingsstate"

	"verifharness/vlib"
)

type SChg struct {
	Ids  []int `json:"ids"`
	Snap bool  `json:"snap,omitempty"`
}

type SDesc struct {
	Kind    string `json:"kind"`
	Chgs    []SChg `json:"chgs"`    // change k+1 has previous change k (0 = the root)
	Batches []int  `json:"batches"` // sizes of the arrival batches at the receiving replica
}

type setWorld struct {
	db    anystore.DB
	heads headstorage.HeadStorage
	n     int
}

type addSeqSetter interface{ SetAddSeq(seq *atomic.Uint64) }

func newSetWorld(f *Fixtures) *setWorld {
	db, err := anystore.Open(ctx, filepath.Join(f.root, "settings.db"), &anystore.Config{SQLiteConnectionOptions: map[string]string{"synchronous": "off"}})
	must(err)
	coll, err := db.Collection(ctx, objecttree.CollName)
	must(err)
	must(coll.EnsureIndex(ctx, anystore.IndexInfo{Fields: []string{objecttree.TreeKey, objecttree.OrderKey}, Unique: true}))
	hs, err := headstorage.New(ctx, db)
	must(err)
	return &setWorld{db: db, heads: hs}
}

func (sw *setWorld) newTree(f *Fixtures, root *treechangeproto.RawTreeChangeWithId) objecttree.ObjectTree {
	st, err := objecttree.CreateStorage(ctx, root, sw.heads, sw.db)
	must(err)
	st.(addSeqSetter).SetAddSeq(&atomic.Uint64{})
	tr, err := objecttree.BuildTestableTree(st, f.acl)
	must(err)
	return tr
}

type buildObs struct {
	held     []int
	root     int
	after    []int
	inc      bool
	observed []int
}

func sortedIds(st *settingsstate.State) []int {
	var r []int
	for id := range st.DeletedIds {
		r = append(r, unoid(id))
	}
	sort.Ints(r)
	return r
}

// iterate as StateBuilder.Build does: from start, returning the change numbers after the start change
func iterAfter(tr objecttree.ReadableObjectTree, start string, num func(string) int) []int {
	var ids []int
	first := true
	// convert = nil: plain iteration (a converting iteration would consume the change data)
	_ = tr.IterateFrom(start, nil, func(c *objecttree.Change) bool {
		if first {
			first = false
			return true
		}
		ids = append(ids, num(c.Id))
		return true
	})
	return ids
}

func runSettings(f *Fixtures, sw *setWorld, d SDesc) (term string, stats []string) {
	sw.n++
	pref := fmt.Sprintf("s%06d.", sw.n)
	name := func(k int) string { return fmt.Sprintf("%s%04d", pref, k) }
	num := func(s string) int {
		var k int
		if _, err := fmt.Sscanf(s[len(pref):], "%d", &k); err != nil {
			return 9999
		}
		return k
	}
	factory := settingsstate.NewChangeFactory()
	builder := settingsstate.NewStateBuilder()
	raws := make([]*treechangeproto.RawTreeChangeWithId, len(d.Chgs)+1)
	root := f.creator.CreateRoot(name(0), f.aclHead)
	raws[0] = root
	// author replica: holds everything, writes each change with the real factory from its own derived state;
	// the author state is derived by a real builder over a real tree that receives every change
	aTree := sw.newTree(f, &treechangeproto.RawTreeChangeWithId{RawChange: root.RawChange, Id: name(0)})
	var aState *settingsstate.State
	var err error
	aState, err = builder.Build(aTree, nil)
	must(err)
	lastSnap := 0
	schs := make([]string, 0, len(d.Chgs))
	for k, c := range d.Chgs {
		ids := oids(c.Ids)
		data, err := factory.CreateObjectDeleteChange(ids, aState, c.Snap)
		must(err)
		raw := f.creator.CreateRawWithData(name(k+1), f.aclHead, name(lastSnap), c.Snap, data, name(k))
		raws[k+1] = raw
		res, err := aTree.AddRawChanges(ctx, objecttree.RawChangesPayload{NewHeads: []string{name(k + 1)}, RawChanges: []*treechangeproto.RawTreeChangeWithId{raw}})
		must(err)
		if res.Mode == objecttree.Rebuild {
			aState, err = builder.Build(aTree, nil)
		} else {
			aState, err = builder.Build(aTree, aState)
		}
		must(err)
		snapTerm := "None"
		if c.Snap {
			lastSnap = k + 1
			snapTerm = vlib.Some(vlib.NList(u64s(sortedIds(aState))))
		}
		schs = append(schs, vlib.App("mkSC", vlib.N(uint64(k+1)), vlib.NList(u64s(c.Ids)), snapTerm))
	}
	// receiving replica (a second tree id over the same raw changes is not possible: ids are content; so the
	// receiver lives under the "r" suffix and gets re-created raws with the same payloads)
	rname := func(k int) string { return name(k) + "r" }
	rnum := func(s string) int { return num(s[:len(s)-1]) }
	rTree := sw.newTree(f, &treechangeproto.RawTreeChangeWithId{RawChange: root.RawChange, Id: rname(0)})
	var rState *settingsstate.State
	rState, err = builder.Build(rTree, nil)
	must(err)
	var builds []buildObs
	held := []int{}
	k := 0
	lastSnap = 0
	snapOf := make([]int, len(d.Chgs)+1)
	for i, c := range d.Chgs {
		snapOf[i+1] = lastSnap
		if c.Snap {
			lastSnap = i + 1
		}
	}
	for _, bs := range d.Batches {
		if k >= len(d.Chgs) {
			break
		}
		var batch []*treechangeproto.RawTreeChangeWithId
		end := k + bs
		if end > len(d.Chgs) {
			end = len(d.Chgs)
		}
		for j := k; j < end; j++ {
			// same payload bytes as the author's change, ids re-based to the receiver's tree
			orig := &treechangeproto.RawTreeChange{}
			must(orig.UnmarshalVT(raws[j+1].RawChange))
			tc := &treechangeproto.TreeChange{}
			must(tc.UnmarshalVT(orig.Payload))
			raw := f.creator.CreateRawWithData(rname(j+1), f.aclHead, rname(snapOf[j+1]), d.Chgs[j].Snap, tc.ChangesData, rname(j))
			batch = append(batch, raw)
			held = append(held, j+1)
		}
		k = end
		prevLast := ""
		if rState != nil {
			prevLast = rState.LastIteratedId
		}
		res, err := rTree.AddRawChanges(ctx, objecttree.RawChangesPayload{NewHeads: []string{rname(k)}, RawChanges: batch})
		must(err)
		var bo buildObs
		bo.held = append([]int(nil), held...)
		switch res.Mode {
		case objecttree.Rebuild:
			stats = append(stats, "settings:rebuild")
			rState, err = builder.Build(rTree, nil)
			must(err)
			bo.root = rnum(rTree.Root().Id)
			bo.after = iterAfter(rTree, rTree.Root().Id, rnum)
		case objecttree.Append:
			stats = append(stats, "settings:append")
			start := prevLast
			if start == "" {
				start = rTree.Root().Id
			}
			bo.inc = true
			bo.after = iterAfter(rTree, start, rnum)
			rState, err = builder.Build(rTree, rState)
			must(err)
		default:
			stats = append(stats, "settings:nothing")
			continue
		}
		bo.observed = sortedIds(rState)
		builds = append(builds, bo)
	}
	// from scratch on the current tree
	{
		st, err := builder.Build(rTree, nil)
		must(err)
		builds = append(builds, buildObs{held: append([]int(nil), held...), root: rnum(rTree.Root().Id), after: iterAfter(rTree, rTree.Root().Id, rnum), observed: sortedIds(st)})
		if rnum(rTree.Root().Id) != 0 {
			stats = append(stats, "settings:scratch-from-snapshot")
		}
	}
	// from scratch on the full history tree (settingsObject.checkHistoryState)
	{
		ht, err := objecttree.BuildHistoryTree(objecttree.HistoryTreeParams{Storage: rTree.Storage(), AclList: rTree.AclList()})
		if err == nil {
			st, err := builder.Build(ht, nil)
			must(err)
			builds = append(builds, buildObs{held: append([]int(nil), held...), root: rnum(ht.Root().Id), after: iterAfter(ht, ht.Root().Id, rnum), observed: sortedIds(st)})
			stats = append(stats, "settings:history")
		} else {
			stats = append(stats, "settings:history-unavailable")
		}
	}
	bt := make([]string, len(builds))
	for i, b := range builds {
		bt[i] = vlib.Pair(vlib.NList(u64s(b.held)),
			"("+vlib.N(uint64(b.root))+", "+vlib.NList(u64s(b.after))+", "+vlib.Bool(b.inc)+", "+vlib.NList(u64s(b.observed))+")")
	}
	return vlib.App("CSettings", vlib.List(schs), vlib.List(bt)), stats
}

func genSettings(r *vlib.Rand) SDesc {
	d := SDesc{Kind: "settings"}
	n := 2 + r.Intn(10)
	for i := 0; i < n; i++ {
		c := SChg{Snap: r.Chance(1, 4)}
		m := 1 + r.Intn(2)
		for j := 0; j < m; j++ {
			c.Ids = append(c.Ids, 1+r.Intn(12))
		}
		d.Chgs = append(d.Chgs, c)
	}
	left := n
	for left > 0 {
		b := 1 + r.Intn(4)
		d.Batches = append(d.Batches, b)
		left -= b
	}
	return d
}
