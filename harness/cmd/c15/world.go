// Driving code of the C15 harness: one real space storage on any-store per history, the real deletionstate,
// deletionmanager (deleter driven step by step through the verif hook), headstorage, the real headsync component
// (headsync.New: its diffSyncer registers itself as the head-storage observer and feeds its own DiffManager through
// the asynchronous headUpdater queue; see headsync.go in this directory) and the real synctree.PutSyncTree /
// BuildSyncTreeOrGetRemote; the tree manager and the sync client (the "remote peer") are harness doubles.
package main

import (
	"context"
	"errors"
	"fmt"
	"os"
	"path/filepath"
	"sort"
	"testing"

	anystore "github.com/anyproto/any-store"
	"github.com/anyproto/any-store/query"

	"github.com/anyproto/any-sync/app"
	"github.com/anyproto/any-sync/commonspace/deletionmanager"
	"github.com/anyproto/any-sync/commonspace/deletionstate"
	"github.com/anyproto/any-sync/commonspace/headsync"
	"github.com/anyproto/any-sync/commonspace/headsync/headstorage"
	"github.com/anyproto/any-sync/commonspace/object/accountdata"
	"github.com/anyproto/any-sync/commonspace/object/acl/list"
	"github.com/anyproto/any-sync/commonspace/object/acl/syncacl"
	"github.com/anyproto/any-sync/commonspace/object/tree/objecttree"
	"github.com/anyproto/any-sync/commonspace/object/tree/synctree"
	"github.com/anyproto/any-sync/commonspace/object/tree/synctree/response"
	"github.com/anyproto/any-sync/commonspace/object/tree/treechangeproto"
	"github.com/anyproto/any-sync/commonspace/object/tree/treestorage"
	"github.com/anyproto/any-sync/commonspace/object/treemanager"
	"github.com/anyproto/any-sync/commonspace/settings/settingsstate"
	"github.com/anyproto/any-sync/commonspace/spacepayloads"
	"github.com/anyproto/any-sync/commonspace/spacestate"
	"github.com/anyproto/any-sync/commonspace/spacestorage"
	"github.com/anyproto/any-sync/commonspace/sync/objectsync/objectmessages"
	"github.com/anyproto/any-sync/commonspace/sync/syncdeps"
	"github.com/anyproto/any-sync/net/peer"
	"github.com/anyproto/any-sync/util/crypto"
)

var ctx = context.Background()

func must(err error) {
	if err != nil {
		panic(err)
	}
}

// ---------------------------------------------------------------- process-wide fixtures

type Fixtures struct {
	root    string // work directory, removed at the end
	payload spacestorage.SpaceStorageCreatePayload
	spaceId string
	acl     list.AclList
	aclHead string
	creator *objecttree.MockChangeCreator
	seq     int
}

func NewFixtures(workRoot string) *Fixtures {
	f := &Fixtures{}
	must(os.MkdirAll(workRoot, 0o755))
	dir, err := os.MkdirTemp(workRoot, "run_")
	must(err)
	f.root = dir
	keys, err := accountdata.NewRandom()
	must(err)
	f.acl, err = list.NewInMemoryDerivedAcl("spaceId", keys)
	must(err)
	f.aclHead = f.acl.Head().Id
	meta, _, err := crypto.GenerateRandomEd25519KeyPair()
	must(err)
	master, _, err := crypto.GenerateRandomEd25519KeyPair()
	must(err)
	f.payload, err = spacepayloads.StoragePayloadForSpaceCreate(spacepayloads.SpaceCreatePayload{
		SigningKey: keys.SignKey, MasterKey: master, SpaceType: "verif", ReplicationKey: 7,
		ReadKey: crypto.NewAES(), MetadataKey: meta, Metadata: []byte("m"),
	})
	must(err)
	f.spaceId = f.payload.SpaceHeaderWithId.Id
	// CreateNewTreeStorage installs the non-verifying StorageChangeBuilder (package-level variable); the
	// harness roots and changes carry no signatures
	wdb, err := anystore.Open(ctx, filepath.Join(dir, "warmup.db"), nil)
	must(err)
	f.creator = objecttree.NewMockChangeCreator(func() anystore.DB { return wdb })
	_ = f.creator.CreateNewTreeStorage(&testing.T{}, "warmup", f.aclHead, false)
	_ = wdb.Close()
	return f
}

func (f *Fixtures) Cleanup() { _ = os.RemoveAll(f.root) }

// ---------------------------------------------------------------- doubles

type noStatus struct{}

func (noStatus) Init(a *app.App) error { return nil }
func (noStatus) Name() string          { return "verif.nostatus" }

func (noStatus) HeadsChange(treeId string, heads []string)                              {}
func (noStatus) HeadsReceive(senderId, treeId string, heads []string)                   {}
func (noStatus) ObjectReceive(senderId, treeId string, heads []string)                  {}
func (noStatus) HeadsApply(senderId, treeId string, heads []string, allAdded bool) {}

// recState wraps the real deletion state and records what GetQueued returned (the order is a Go map iteration).
type recState struct {
	deletionstate.ObjectDeletionState
	lastQueued []string
	gotQueued  bool
}

func (r *recState) GetQueued() []string {
	q := r.ObjectDeletionState.GetQueued()
	r.lastQueued = append([]string(nil), q...)
	r.gotQueued = true
	return q
}

type fakeSyncAcl struct {
	syncacl.SyncAcl
	l list.AclList
}

func (f fakeSyncAcl) Id() string              { return f.l.Id() }
func (f fakeSyncAcl) Head() *list.AclRecord   { return f.l.Head() }

// treeMgr is the tree manager double.  DeleteTree does what the tree managers of the applications (and the
// repository's own testTreeManager) do: take the sync tree from the tree CACHE - building the real sync tree with
// BuildSyncTreeOrGetRemote and caching it on a miss -, call its Delete, and drop it from the cache when that succeeded;
// a tree whose Delete failed stays cached, so the worker's retry reaches the SAME sync tree instance.  The cache lives
// as long as the components (a restart starts with an empty one).  MarkTreeDeleted is a no-op.  Both count calls, fail
// for the ids in fail and cancel the worker context after k calls.  Storage faults: the tree storages handed to the
// sync trees built here are wrapped (faultSpace / faultStorage); objecttree.Storage.Delete of an id in sfail fails with
// a transient error without touching the store, every time it is tried while the id is in sfail (= during that run).
type treeMgr struct {
	w      *World
	calls  int
	k      int
	fail   map[string]bool
	sfail  map[string]bool
	cancel context.CancelFunc
	log    []string
	cache  map[string]synctree.SyncTree
	// bookkeeping for the statistics: storage-delete faults that fired in the current run, ids with an earlier fault,
	// DeleteTree calls of the current run for an id with an earlier fault (retries) / that found the tree cached
	faultHits int
	faulted   map[string]bool
	retries   int
	cacheHits int
}

var errStorageFault = errors.New("verif: injected transient storage error (tree storage Delete)")

// faultSpace is the space storage handed to the sync trees the tree manager builds: the real one, its tree storages
// wrapped in faultStorage.
type faultSpace struct {
	spacestorage.SpaceStorage
	t *treeMgr
}

func (s *faultSpace) TreeStorage(c context.Context, id string) (objecttree.Storage, error) {
	st, err := s.SpaceStorage.TreeStorage(c, id)
	if err != nil {
		return st, err
	}
	return &faultStorage{Storage: st, id: id, t: s.t}, nil
}

type faultStorage struct {
	objecttree.Storage
	id string
	t  *treeMgr
}

func (s *faultStorage) Delete(c context.Context) error {
	if s.t.sfail[s.id] {
		s.t.faultHits++
		if s.t.faulted == nil {
			s.t.faulted = map[string]bool{}
		}
		s.t.faulted[s.id] = true
		s.t.log = append(s.t.log, "sfault:"+s.id)
		return errStorageFault
	}
	return s.Storage.Delete(c)
}

func (t *treeMgr) Init(a *app.App) error            { return nil }
func (t *treeMgr) Name() string                     { return treemanager.CName }
func (t *treeMgr) Run(ctx context.Context) error    { return nil }
func (t *treeMgr) Close(ctx context.Context) error  { return nil }
func (t *treeMgr) GetTree(ctx context.Context, spaceId, treeId string) (objecttree.ObjectTree, error) {
	return nil, errors.New("not used")
}
func (t *treeMgr) ValidateAndPutTree(ctx context.Context, spaceId string, payload treestorage.TreeStorageCreatePayload) error {
	return nil
}
func (t *treeMgr) tick() {
	t.calls++
	if t.k >= 0 && t.calls >= t.k && t.cancel != nil {
		t.cancel()
	}
}
func (t *treeMgr) MarkTreeDeleted(_ context.Context, spaceId, treeId string) error {
	t.log = append(t.log, "mark:"+treeId)
	t.tick()
	if t.fail[treeId] {
		return errors.New("tree manager failure")
	}
	return nil
}
func (t *treeMgr) DeleteTree(_ context.Context, spaceId, treeId string) error {
	t.log = append(t.log, "delete:"+treeId)
	t.tick()
	if t.fail[treeId] {
		return errors.New("tree manager failure")
	}
	if t.faulted[treeId] && !t.sfail[treeId] {
		t.retries++
	}
	tr, cached := t.cache[treeId]
	if cached {
		t.cacheHits++
	} else {
		deps := t.w.deps(nil)
		deps.SpaceStorage = &faultSpace{SpaceStorage: t.w.sp, t: t}
		var err error
		tr, err = synctree.BuildSyncTreeOrGetRemote(ctx, treeId, deps)
		if err != nil {
			return err
		}
		if t.cache == nil {
			t.cache = map[string]synctree.SyncTree{}
		}
		t.cache[treeId] = tr
	}
	if err := tr.Delete(); err != nil {
		return err
	}
	delete(t.cache, treeId)
	return nil
}

// remote is the sync client double: SendTreeRequest plays the remote peer.
type remote struct {
	synctree.RequestFactory
	w       *World
	plan    *fetchPlan
	invoked bool
}

type fetchPlan struct {
	has     bool
	root    *treechangeproto.RawTreeChangeWithId
	changes []*treechangeproto.RawTreeChangeWithId
	heads   []string
	during  func() // runs while the request is "in flight"
	hook    *stageHook
}

// stageHook runs fn once, when the running operation reaches the chosen point.  Points of a remote fetch
// (BuildSyncTreeOrGetRemote): "lookup" the local storage lookup missed, the tombstone check comes next; "send" the
// request is about to be sent; "flight" the remote has answered, the response is about to be collected; "deferred"
// CreateStorageWithDeferredCreation has just handed out the deferred storage (the changes are validated next);
// "addall" entry of the first AddAll of that storage, before its creating write transaction; "stored" that AddAll
// returned.  Points of PutSyncTree: "check" its tombstone check is about to read the head storage; "create" entry of
// CreateTreeStorage (the creating transaction comes next); "created" CreateTreeStorage returned.
type stageHook struct {
	point string
	fn    func()
	fired bool
}

func (h *stageHook) at(point string) {
	if h == nil || h.fired || h.point != point {
		return
	}
	h.fired = true
	h.fn()
}

var fetchPoints = []string{"lookup", "send", "flight", "deferred", "addall", "stored"}
var putPoints = []string{"check", "create", "created"}

// hookSpace is the space storage handed to synctree (SpaceStorage of BuildDeps = the TreeStorageCreator of the
// validator): the real one, with the stage hook called around the calls the fetch / put path makes.
type hookSpace struct {
	spacestorage.SpaceStorage
	h *stageHook
}

func (s *hookSpace) TreeStorage(c context.Context, id string) (objecttree.Storage, error) {
	st, err := s.SpaceStorage.TreeStorage(c, id)
	if err != nil && errors.Is(err, treestorage.ErrUnknownTreeId) {
		s.h.at("lookup")
	}
	return st, err
}

func (s *hookSpace) HeadStorage() headstorage.HeadStorage {
	s.h.at("check")
	return s.SpaceStorage.HeadStorage()
}

func (s *hookSpace) CreateTreeStorage(c context.Context, payload treestorage.TreeStorageCreatePayload) (objecttree.Storage, error) {
	s.h.at("create")
	st, err := s.SpaceStorage.CreateTreeStorage(c, payload)
	s.h.at("created")
	return st, err
}

func (s *hookSpace) CreateStorageWithDeferredCreation(c context.Context, payload treestorage.TreeStorageCreatePayload) (objecttree.Storage, error) {
	st, err := s.SpaceStorage.CreateStorageWithDeferredCreation(c, payload)
	if err != nil {
		return st, err
	}
	s.h.at("deferred")
	return &hookStorage{Storage: st, h: s.h}, nil
}

// hookStorage: the deferred storage with the hook around its first AddAll (the call that creates the tree)
type hookStorage struct {
	objecttree.Storage
	h *stageHook
}

func (s *hookStorage) AddAll(c context.Context, changes []objecttree.StorageChange, heads []string, commonSnapshot string) error {
	s.h.at("addall")
	err := s.Storage.AddAll(c, changes, heads, commonSnapshot)
	s.h.at("stored")
	return err
}

func (r *remote) Broadcast(ctx context.Context, hu *objectmessages.HeadUpdate) error { return nil }
func (r *remote) QueueRequest(ctx context.Context, req syncdeps.Request) error      { return nil }
func (r *remote) SendTreeRequest(c context.Context, req syncdeps.Request, collector syncdeps.ResponseCollector) error {
	r.invoked = true
	if r.plan != nil {
		r.plan.hook.at("send")
	}
	if r.plan == nil || !r.plan.has {
		return errors.New("remote: no such tree")
	}
	if r.plan.during != nil {
		r.plan.during()
	}
	r.plan.hook.at("flight")
	return collector.CollectResponse(c, "peerR", req.ObjectId(), &response.Response{
		SpaceId: r.w.f.spaceId, ObjectId: req.ObjectId(), Root: r.plan.root, Changes: r.plan.changes, Heads: r.plan.heads,
	})
}

// validateTestable is objecttree.ValidateRawTreeDefault with the non-verifying tree builder.
func validateTestable(payload treestorage.TreeStorageCreatePayload, sc objecttree.TreeStorageCreator, aclList list.AclList) (objecttree.ObjectTree, error) {
	st, err := sc.CreateStorageWithDeferredCreation(ctx, treestorage.TreeStorageCreatePayload{
		RootRawChange: payload.RootRawChange, Heads: []string{payload.RootRawChange.Id},
	})
	if err != nil {
		return nil, err
	}
	tree, err := objecttree.BuildTestableTree(st, aclList)
	if err != nil {
		return nil, err
	}
	tree.Lock()
	defer tree.Unlock()
	_, err = tree.AddRawChanges(ctx, objecttree.RawChangesPayload{NewHeads: payload.Heads, RawChanges: payload.Changes})
	if err != nil {
		return nil, err
	}
	if objecttree.IsEmptyDerivedTree(tree) {
		return nil, objecttree.ErrDerived
	}
	return tree, nil
}

// ---------------------------------------------------------------- one space

type World struct {
	f    *Fixtures
	dir  string
	db   anystore.DB
	sp   spacestorage.SpaceStorage
	ds   *recState
	dm   deletionmanager.DeletionManager
	del  deletionmanager.Deleter
	tm   *treeMgr
	hs   headsync.HeadSync // the real head sync component; advertised ids = hs.AllIds()
	pipe *pipeline         // observer registrations / state-storage guard of the running hs (headsync.go)
	rem  *remote
	// notifications of the head storage since the last start, in the order the head storage made them
	hist []headstorage.HeadsEntry
	drainSeq int // sentinel counter of drain()
	nobs     int // observers the head sync component registered at its last start
	// harness-held settings state
	slog [][]string
	sset map[string]struct{}
	roots map[string]*treechangeproto.RawTreeChangeWithId
	uses  int
	observed spacestorage.SpaceStorage
}

// OnUpdate: the World is the one observer registered at the real head storage object; it records the notification
// (for late re-delivery) and hands it, synchronously and in registration order, to the observers the running
// components registered through the space storage they were given (the real diffSyncer).
func (w *World) OnUpdate(e headstorage.HeadsEntry) {
	if w.pipe == nil {
		return // start-up (deletionstate.Run): no observer is registered yet
	}
	cp := e
	cp.Heads = append([]string(nil), e.Heads...)
	w.hist = append(w.hist, cp)
	w.pipe.deliver(e)
}

// flush waits until every notification made so far has gone through the observer pipeline (diffSyncer.OnUpdate ->
// headUpdater queue -> DiffManager.UpdateHeads).
func (w *World) flush() { w.pipe.drain() }

func NewWorld(f *Fixtures) *World {
	f.seq++
	w := &World{f: f, dir: filepath.Join(f.root, fmt.Sprintf("h%06d", f.seq)), sset: map[string]struct{}{}, roots: map[string]*treechangeproto.RawTreeChangeWithId{}}
	must(os.MkdirAll(w.dir, 0o755))
	db, err := anystore.Open(ctx, filepath.Join(w.dir, "space.db"), &anystore.Config{SQLiteConnectionOptions: map[string]string{"synchronous": "off"}})
	must(err)
	w.db = db
	w.sp, err = spacestorage.Create(ctx, db, f.payload)
	must(err)
	w.assemble()
	return w
}

// assemble builds the in-memory components over w.sp, as a space start does: deletionstate.Run, FillDiff.
func (w *World) assemble() {
	w.stopHeadSync()
	a := new(app.App)
	real := deletionstate.New()
	w.ds = &recState{ObjectDeletionState: real}
	w.tm = &treeMgr{w: w, k: -1}
	a.Register(w.sp)
	a.Register(&spacestate.SpaceState{SpaceId: w.f.spaceId})
	a.Register(w.tm)
	a.Register(w.ds)
	must(real.Init(a))
	must(real.(app.ComponentRunnable).Run(ctx))
	w.dm = deletionmanager.New()
	a.Register(w.dm)
	must(w.dm.Init(a))
	w.del = deletionmanager.VerifDeleter(w.dm)
	if w.observed != w.sp {
		// one observer per head storage object (Reset keeps the space storage)
		w.sp.HeadStorage().AddObserver(w)
		w.observed = w.sp
	}
	w.hist = nil
	w.startHeadSync()
	w.rem = &remote{RequestFactory: synctree.NewRequestFactory(w.f.spaceId), w: w}
	w.sset = map[string]struct{}{}
}

func (w *World) Restart() {
	w.stopHeadSync()
	must(w.db.Close())
	db, err := anystore.Open(ctx, filepath.Join(w.dir, "space.db"), &anystore.Config{SQLiteConnectionOptions: map[string]string{"synchronous": "off"}})
	must(err)
	w.db = db
	w.sp, err = spacestorage.New(ctx, w.f.spaceId, db)
	must(err)
	w.assemble()
}

func (w *World) Close() {
	func() {
		defer func() { _ = recover() }()
		w.stopHeadSync()
	}()
	_ = w.db.Close()
	_ = os.RemoveAll(w.dir)
}

// Reset removes every heads entry and every stored change of the universe ids and rebuilds the in-memory
// components, so that the next history starts from an empty space without creating a new database file.
func (w *World) Reset(univ []string) {
	heads, err := w.db.Collection(ctx, headstorage.HeadsCollectionName)
	must(err)
	coll, err := w.db.Collection(ctx, objecttree.CollName)
	must(err)
	for _, id := range univ {
		if err := heads.DeleteId(ctx, id); err != nil && !errors.Is(err, anystore.ErrDocNotFound) {
			panic(err)
		}
		_, err := coll.Find(query.Key{Path: []string{objecttree.TreeKey}, Filter: query.NewComp(query.CompOpEq, id)}).Delete(ctx)
		must(err)
	}
	w.slog = nil
	w.roots = map[string]*treechangeproto.RawTreeChangeWithId{}
	w.assemble()
	w.uses++
}

func (w *World) deps(plan *fetchPlan) synctree.BuildDeps { return w.depsHooked(plan, nil) }

func (w *World) depsHooked(plan *fetchPlan, h *stageHook) synctree.BuildDeps {
	w.rem = &remote{RequestFactory: synctree.NewRequestFactory(w.f.spaceId), w: w, plan: plan}
	var sp spacestorage.SpaceStorage = w.sp
	if h != nil {
		sp = &hookSpace{SpaceStorage: w.sp, h: h}
	}
	return synctree.BuildDeps{
		SpaceId:            w.f.spaceId,
		SyncClient:         w.rem,
		AclList:            w.f.acl,
		SpaceStorage:       sp,
		OnClose:            func(id string) {},
		SyncStatus:         noStatus{},
		BuildObjectTree:    objecttree.BuildTestableTree,
		ValidateObjectTree: validateTestable,
	}
}

// root change of tree id with the given parent / derived flag (no signature: the storage builder is non-verifying)
func (w *World) rootOf(id, parent string, derived bool) *treechangeproto.RawTreeChangeWithId {
	rc := &treechangeproto.RootChange{AclHeadId: w.f.aclHead, IsDerived: derived, ParentId: parent, SpaceId: w.f.spaceId, ChangeType: "verif"}
	res, err := rc.MarshalVT()
	must(err)
	raw := &treechangeproto.RawTreeChange{Payload: res}
	rm, err := raw.MarshalVT()
	must(err)
	return &treechangeproto.RawTreeChangeWithId{RawChange: rm, Id: id}
}

func classify(err error) string {
	switch {
	case err == nil:
		return "OOk"
	case errors.Is(err, spacestorage.ErrTreeStorageAlreadyDeleted):
		return "OErrDeleted"
	case errors.Is(err, treestorage.ErrTreeExists):
		return "OErrExists"
	case errors.Is(err, objecttree.ErrParentNotFound):
		return "OErrParent"
	case errors.Is(err, objecttree.ErrDerivedParent):
		return "OErrDerivedParent"
	}
	return "OErrOther"
}

func (w *World) Put(id, parent string, derived bool) (string, error) { return w.PutHooked(id, parent, derived, nil) }

func (w *World) PutHooked(id, parent string, derived bool, h *stageHook) (string, error) {
	_, err := synctree.PutSyncTree(ctx, treestorage.TreeStorageCreatePayload{RootRawChange: w.rootOf(id, parent, derived)}, w.depsHooked(nil, h))
	w.flush()
	return classify(err), err
}

func (w *World) Fetch(id, parent string, derived bool, changeId string, has bool, during func()) (string, error) {
	return w.FetchHooked(id, parent, derived, changeId, has, during, nil)
}

func (w *World) FetchHooked(id, parent string, derived bool, changeId string, has bool, during func(), h *stageHook) (string, error) {
	root := w.rootOf(id, parent, derived)
	plan := &fetchPlan{has: has, root: root, heads: []string{changeId}, during: during, hook: h,
		changes: []*treechangeproto.RawTreeChangeWithId{w.f.creator.CreateRaw(changeId, w.f.aclHead, id, false, id)}}
	deps := w.depsHooked(plan, h)
	rem := w.rem
	_, err := synctree.BuildSyncTreeOrGetRemote(peer.CtxWithPeerId(ctx, "peerR"), id, deps)
	w.flush()
	if err == nil && !rem.invoked {
		return "OLocal", nil
	}
	return classify(err), err
}

// Head adds one new change on top of the current heads of a locally stored tree (an incoming head update).
func (w *World) Head(id, changeId string) (string, error) {
	if _, err := w.sp.TreeStorage(ctx, id); err != nil {
		if errors.Is(err, treestorage.ErrUnknownTreeId) {
			return "ONoTree", nil
		}
		return "OErrOther", err
	}
	tr, err := synctree.BuildSyncTreeOrGetRemote(ctx, id, w.deps(nil))
	if err != nil {
		return "OErrOther", err
	}
	tr.Lock()
	heads := append([]string(nil), tr.Heads()...)
	raw := w.f.creator.CreateRaw(changeId, w.f.aclHead, id, false, heads...)
	_, err = tr.AddRawChanges(ctx, objecttree.RawChangesPayload{NewHeads: []string{changeId}, RawChanges: []*treechangeproto.RawTreeChangeWithId{raw}})
	tr.Unlock()
	w.flush()
	if err != nil {
		return "OErrOther", err
	}
	return "OOk", nil
}

func (w *World) Stale(n int) string {
	if n < 0 || n >= len(w.hist) {
		return "ONoTree"
	}
	// late re-delivery: the observer is called once more with an earlier notification
	w.pipe.deliver(w.hist[n])
	w.flush()
	return "OOk"
}

func (w *World) Settings(ids []string) {
	w.slog = append(w.slog, ids)
	for _, id := range ids {
		w.sset[id] = struct{}{}
	}
	w.updateState()
}

func (w *World) SettingsInit() {
	w.sset = map[string]struct{}{}
	for _, ids := range w.slog {
		for _, id := range ids {
			w.sset[id] = struct{}{}
		}
	}
	w.updateState()
}

func (w *World) updateState() {
	cp := make(map[string]struct{}, len(w.sset))
	for k := range w.sset {
		cp[k] = struct{}{}
	}
	must(w.dm.UpdateState(ctx, &settingsstate.State{DeletedIds: cp}))
	w.flush()
}

// Worker runs deleter.Delete once; the context is cancelled after k tree-manager calls (k < 0: never).
func (w *World) Worker(k int, fail []string) (order []string) { return w.WorkerFaults(k, fail, nil) }

// WorkerFaults: the same with transient storage errors - for the ids in sfail every objecttree.Storage.Delete tried
// during this run fails (without touching the store); the faults are gone when the run is over.
func (w *World) WorkerFaults(k int, fail, sfail []string) (order []string) {
	c, cancel := context.WithCancel(ctx)
	defer cancel()
	w.tm.calls, w.tm.k, w.tm.cancel = 0, k, cancel
	w.tm.faultHits, w.tm.retries, w.tm.cacheHits = 0, 0, 0
	w.tm.fail = map[string]bool{}
	for _, id := range fail {
		w.tm.fail[id] = true
	}
	w.tm.sfail = map[string]bool{}
	for _, id := range sfail {
		w.tm.sfail[id] = true
	}
	defer func() { w.tm.sfail = nil }()
	if k == 0 {
		cancel()
	}
	w.ds.gotQueued = false
	w.ds.lastQueued = nil
	w.del.Delete(c)
	w.flush()
	w.tm.cancel = nil
	return w.ds.lastQueued
}

// ---------------------------------------------------------------- observation

type Obs struct {
	St   int  `json:"st"`
	Idx  bool `json:"idx"`
	NChg int  `json:"nchg"`
	Mem  bool `json:"mem"`
}

func (w *World) Observe(univ []string) []Obs {
	inIdx := map[string]bool{}
	for _, id := range w.hs.AllIds() {
		inIdx[id] = true
	}
	coll, err := w.db.Collection(ctx, objecttree.CollName)
	must(err)
	res := make([]Obs, len(univ))
	for i, id := range univ {
		var o Obs
		e, err := w.sp.HeadStorage().GetEntry(ctx, id)
		if err != nil {
			if !errors.Is(err, anystore.ErrDocNotFound) {
				panic(err)
			}
		} else {
			o.St = int(e.DeletedStatus) + 1
		}
		o.Idx = inIdx[id]
		n, err := coll.Find(query.Key{Path: []string{objecttree.TreeKey}, Filter: query.NewComp(query.CompOpEq, id)}).Count(ctx)
		must(err)
		o.NChg = n
		o.Mem = w.ds.Exists(id)
		res[i] = o
	}
	return res
}

func sortedCopy(s []string) []string {
	c := append([]string(nil), s...)
	sort.Strings(c)
	return c
}
