package main

// Mid-stream stores: changes that the RESPONDER stores while its response is being streamed.
//
// synctree.HandleStreamRequest creates the response producer under the tree lock and calls NewResponse (NextBatch)
// after the lock is released, so a third peer's delivery (AddRawChanges) or a local change (AddContent) can be stored
// between the creation of the producer and any later batch.  The interleaving is FORCED here, not raced: a MidStep
// with At = k is executed by the (single-threaded) harness right before the k-th NewResponse call (k = 0: after the
// producer exists, before the first batch).  A concurrent branch growing out of an older change gets an order id in
// the middle of the range that is still to be streamed; a change on a head is appended.
//
// Observed for the model/spec: the responder's store when the request is handled (sigma0) and the store found by every
// call before which something was stored (chg); Run/C09_run.v case CMid, Model/LoadIterMid.v respond_mid / spec_C09_mid.

import (
	"fmt"
	"sort"

	"verifharness/vlib"
)

type MidStep struct {
	At  int    `json:"at"`            // executed right before the At-th NewResponse call
	K   string `json:"k"`             // raw | content | snapshot
	New []Chg  `json:"new,omitempty"` // raw: changes of a third peer, delivered in one AddRawChanges call
	ID  int    `json:"id,omitempty"`  // content/snapshot: abstract id of the local change
	Pad int    `json:"pad,omitempty"`
}

// MidGen asks runCase to generate the mid-stream stores against the state the responder really is in at that moment
// (attached changes, heads, tree root); the concrete steps are recorded in Case.Mid (a replay re-executes those).
type MidGen struct {
	Seed uint64 `json:"seed"`
}

type storeObs struct {
	at    int
	ids   []int
	sizes []int
}

type midState struct {
	c    *Case
	dm   map[int]Chg
	a    *Peer
	g    *vlib.Rand
	made int
	next int
}

func inDag(d []Chg, id int) bool {
	for _, c := range d {
		if c.ID == id {
			return true
		}
	}
	return false
}

func (m *midState) record(ch Chg) {
	m.dm[ch.ID] = ch
	if !inDag(m.c.Dag, ch.ID) {
		m.c.Dag = append(m.c.Dag, ch)
	}
}

func (m *midState) freshID(lo, n int) int {
	for {
		v := lo + m.g.Intn(n)
		if _, used := m.dm[v]; !used && v > 0 {
			return v
		}
	}
}

// gen: the steps to execute before call k (possibly none)
func (m *midState) gen(k int) []MidStep {
	if m.g == nil || m.made >= 3 {
		return nil
	}
	// most of the stores happen before the first or second batch; later ones need a stream that is still going
	switch {
	case k == 0 && !m.g.Chance(2, 3):
		return nil
	case k > 0 && !m.g.Chance(1, 3):
		return nil
	}
	m.made++
	att, _ := m.a.Iter()
	heads := m.a.Heads()
	if len(att) == 0 {
		return nil
	}
	bigPad := func() int {
		// oversized with respect to the limit of this case (such a change may only ever travel alone)
		p := m.c.MaxSize * (2 + m.g.Intn(9))
		if p > 20000 {
			p = 2000 + m.g.Intn(6000)
		}
		return p
	}
	if m.g.Chance(1, 5) {
		st := MidStep{At: k, K: "content", ID: m.freshID(20000, 9999), Pad: m.g.Intn(200)}
		if m.g.Chance(1, 4) {
			st.K = "snapshot"
		}
		if m.g.Chance(1, 3) {
			st.Pad = bigPad()
		}
		return []MidStep{st}
	}
	rootNow := m.a.in.N(m.a.tree.Root().Id)
	var nw []Chg
	nb := 1 + m.g.Intn(2)
	for b := 0; b < nb; b++ {
		// a concurrent branch out of an older change (ordered into the middle of the stored range) or out of a head
		start := att[m.g.Intn(len(att))]
		if m.g.Chance(1, 3) && len(heads) > 0 {
			start = heads[m.g.Intn(len(heads))]
		}
		ln := 1 + m.g.Intn(3)
		prev := start
		for j := 0; j < ln; j++ {
			ch := Chg{ID: m.freshID(1, 9999), Prev: []int{prev}, Snap: rootNow}
			switch m.g.Intn(3) {
			case 0:
				ch.Pad = bigPad()
			case 1:
				ch.Pad = 1 + m.g.Intn(300)
			}
			m.dm[ch.ID] = ch // reserve the id
			nw = append(nw, ch)
			prev = ch.ID
		}
	}
	return []MidStep{{At: k, K: "raw", New: nw}}
}

// apply executes one step on the real responder; returns false if nothing was stored
func (m *midState) apply(st MidStep) bool {
	before, _, _ := m.a.Stored()
	switch st.K {
	case "raw":
		var ids []int
		for _, ch := range st.New {
			if ch.ID <= 0 {
				continue
			}
			m.record(ch)
			ids = append(ids, ch.ID)
		}
		if len(ids) > 0 {
			_, _ = m.a.AddRaw(m.dm, ids, childless(m.dm, ids), m.a.Path(), 0)
		}
	case "content", "snapshot":
		if st.ID <= 0 {
			return false
		}
		if _, known := m.a.in.strs[st.ID]; known {
			return false
		}
		ch, err := m.a.AddContent(st.ID, st.K == "snapshot", st.Pad, int64(1700000000+st.ID))
		if err == nil {
			m.record(ch)
		}
	}
	after, _, _ := m.a.Stored()
	return len(after) != len(before)
}

// walkedOver: a mid-stored change lies, in the final store, before a change that was sent in a batch produced after it
// was stored, i.e. the scan of that batch walked over it (the situation the cache-miss guard exists for)
func walkedOver(final []int, sigma0 []int, mid []MidStep, batches []Batch) bool {
	pos := map[int]int{}
	for i, id := range final {
		pos[id] = i
	}
	was := map[int]bool{}
	for _, id := range sigma0 {
		was[id] = true
	}
	for _, st := range mid {
		var ids []int
		for _, ch := range st.New {
			ids = append(ids, ch.ID)
		}
		if st.ID > 0 {
			ids = append(ids, st.ID)
		}
		for _, x := range ids {
			px, ok := pos[x]
			if !ok || was[x] {
				continue
			}
			for k := st.At; k < len(batches); k++ {
				for _, id := range batches[k].IDs {
					if p, ok := pos[id]; ok && p > px && id != x {
						return true
					}
				}
			}
		}
	}
	return false
}

func seTerm(dm map[int]Chg, ids, sizes []int) string {
	s := "["
	for i, id := range ids {
		if i > 0 {
			s += ";"
		}
		ch := dm[id]
		s += fmt.Sprintf("(mkSE (mkChange %d %s %d %s) %d)", id, nl(ch.Prev), ch.Snap, vlib.Bool(ch.IsSnap), sizes[i])
	}
	return s + "]"
}

func sortedCopy(v []int) []int {
	r := append([]int{}, v...)
	sort.Ints(r)
	return r
}

// fixed mid-stream cases: the responder holds a chain, the requester only the root; a third peer's oversized change is
// stored (a) before the first batch as a concurrent branch in the middle of the chain, (b) between the first and the
// second batch further down the chain, (c) appended on the head before the first batch; and a local change.
func fixedMidCases() []Case {
	root := Chg{ID: 1, IsSnap: true}
	dag := []Chg{root}
	have := []int{1}
	prev := 1
	for _, id := range []int{10, 11, 12, 13, 50, 51, 52, 53, 54, 55, 56, 57, 58, 59} {
		dag = append(dag, Chg{ID: id, Prev: []int{prev}, Snap: 1, Pad: 64})
		have = append(have, id)
		prev = id
	}
	full := State{Have: have, Heads: []int{59}, Path: []int{1}}
	empty := State{Have: []int{1}, Heads: []int{1}, Path: []int{1}}
	mk := func(ms int, mid ...MidStep) Case {
		return Case{Dag: append([]Chg{}, dag...), A: full, B: empty, ReqHeads: []int{1}, ReqPath: []int{1}, MaxSize: ms,
			Variant: "fixed_mid", Mid: mid}
	}
	big := func(id, parent int) Chg { return Chg{ID: id, Prev: []int{parent}, Snap: 1, Pad: 6000} }
	small := func(id, parent int) Chg { return Chg{ID: id, Prev: []int{parent}, Snap: 1, Pad: 30} }
	var cs []Case
	for _, ms := range []int{1, 700, 10 * 1024 * 1024} {
		cs = append(cs,
			mk(ms, MidStep{At: 0, K: "raw", New: []Chg{big(14, 13)}}),
			mk(ms, MidStep{At: 1, K: "raw", New: []Chg{big(60, 55)}}),
			mk(ms, MidStep{At: 0, K: "raw", New: []Chg{small(14, 13), small(15, 14)}}, MidStep{At: 2, K: "raw", New: []Chg{big(61, 57)}}),
			mk(ms, MidStep{At: 0, K: "raw", New: []Chg{big(70, 59)}}),
			mk(ms, MidStep{At: 1, K: "content", ID: 20001, Pad: 3000}),
		)
	}
	return cs
}
