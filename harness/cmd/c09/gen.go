package main

import (
	"sort"

	"verifharness/vlib"
)

func allIDs(dag []Chg) []int {
	r := make([]int, len(dag))
	for i, c := range dag {
		r[i] = c.ID
	}
	return r
}

func snapshotState(p *Peer) State {
	ids, _, _ := p.Stored()
	return State{Have: ids, Heads: p.Heads(), Path: p.Path()}
}

// author: 2-4 real peers create changes (on their own heads, snapshot base = their current root, sometimes a
// snapshot) and exchange everything they have at random moments; returns the DAG and recorded replica states.
func author(w *World, g *vlib.Rand, size int) ([]Chg, []State) {
	used := map[int]bool{}
	newID := func() int {
		for {
			v := 1 + g.Intn(9999)
			if !used[v] {
				used[v] = true
				return v
			}
		}
	}
	root := Chg{ID: newID(), IsSnap: true}
	dag := []Chg{root}
	dm := map[int]Chg{root.ID: root}
	np := 2 + g.Intn(3)
	peers := make([]*Peer, np)
	for i := range peers {
		peers[i] = w.NewPeer(root)
	}
	var states []State
	snapProb := 2 + g.Intn(8)
	syncProb := 2 + g.Intn(4)
	sync := func(from, to *Peer) {
		ids, _, _ := from.Stored()
		_, _ = to.AddRaw(dm, ids, from.Heads(), from.Path(), 0)
	}
	for len(dag) < size {
		p := peers[g.Intn(np)]
		if g.Chance(1, syncProb) {
			q := peers[g.Intn(np)]
			if q != p {
				sync(p, q)
				if g.Chance(1, 2) {
					states = append(states, snapshotState(q))
				}
			}
			continue
		}
		rootNow := p.in.N(p.tree.Root().Id)
		c := Chg{ID: newID(), Prev: p.Heads(), Snap: rootNow, IsSnap: g.Chance(1, snapProb)}
		if g.Chance(1, 2) {
			c.Pad = g.Intn(300)
		}
		dm[c.ID] = c
		if _, err := p.AddRaw(dm, []int{c.ID}, []int{c.ID}, p.Path(), 0); err != nil {
			delete(dm, c.ID)
			continue
		}
		dag = append(dag, c)
		if g.Chance(1, 2) {
			states = append(states, snapshotState(p))
		}
	}
	for _, p := range peers {
		states = append(states, snapshotState(p))
	}
	for round := 0; round < 2; round++ {
		for i := 1; i < np; i++ {
			sync(peers[i], peers[0])
		}
	}
	final := snapshotState(peers[0])
	if len(final.Have) == len(dag) {
		states = append(states, final)
	}
	return dag, states
}

func headsOf(dag []Chg) []int {
	has := map[int]bool{}
	for _, c := range dag {
		for _, p := range c.Prev {
			has[p] = true
		}
	}
	var h []int
	for _, c := range dag {
		if !has[c.ID] {
			h = append(h, c.ID)
		}
	}
	sort.Ints(h)
	return h
}
