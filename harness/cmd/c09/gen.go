package main

import (
	"fmt"
	"sort"

	"verifharness/vlib"
)

func allIDs(dag []Chg) []int {
	r := make([]int, len(dag))
	for i, c := range dag {
		r[i] = c.ID
	}
	return r
}

func snapshotState(p *Peer) State {
	ids, _, _ := p.Stored()
	return State{Have: ids, Heads: p.Heads(), Path: p.Path()}
}

// author: 2-4 real peers create changes (on their own heads, snapshot base = their current root, sometimes a
// snapshot) and exchange everything they have at random moments; returns the DAG and recorded replica states.
func author(w *World, g *vlib.Rand, size int) ([]Chg, []State) {
	used := map[int]bool{}
	newID := func() int {
		for {
			v := 1 + g.Intn(9999)
			if !used[v] {
				used[v] = true
				return v
			}
		}
	}
	root := Chg{ID: newID(), IsSnap: true}
	dag := []Chg{root}
	dm := map[int]Chg{root.ID: root}
	np := 2 + g.Intn(3)
	peers := make([]*Peer, np)
	for i := range peers {
		peers[i] = w.NewPeer(root)
	}
	var states []State
	snapProb := 2 + g.Intn(8)
	syncProb := 2 + g.Intn(4)
	sync := func(from, to *Peer) {
		ids, _, _ := from.Stored()
		_, _ = to.AddRaw(dm, ids, from.Heads(), from.Path(), 0)
	}
	for len(dag) < size {
		p := peers[g.Intn(np)]
		if g.Chance(1, syncProb) {
			q := peers[g.Intn(np)]
			if q != p {
				sync(p, q)
				if g.Chance(1, 2) {
					states = append(states, snapshotState(q))
				}
			}
			continue
		}
		rootNow := p.in.N(p.tree.Root().Id)
		c := Chg{ID: newID(), Prev: p.Heads(), Snap: rootNow, IsSnap: g.Chance(1, snapProb)}
		if g.Chance(1, 2) {
			c.Pad = g.Intn(300)
		}
		dm[c.ID] = c
		if _, err := p.AddRaw(dm, []int{c.ID}, []int{c.ID}, p.Path(), 0); err != nil {
			delete(dm, c.ID)
			continue
		}
		dag = append(dag, c)
		if g.Chance(1, 2) {
			states = append(states, snapshotState(p))
		}
	}
	for _, p := range peers {
		states = append(states, snapshotState(p))
	}
	for round := 0; round < 2; round++ {
		for i := 1; i < np; i++ {
			sync(peers[i], peers[0])
		}
	}
	final := snapshotState(peers[0])
	if len(final.Have) == len(dag) {
		states = append(states, final)
	}
	return dag, states
}

func headsOf(dag []Chg) []int {
	has := map[int]bool{}
	for _, c := range dag {
		for _, p := range c.Prev {
			has[p] = true
		}
	}
	var h []int
	for _, c := range dag {
		if !has[c.ID] {
			h = append(h, c.ID)
		}
	}
	sort.Ints(h)
	return h
}

// ---------------------------------------------------------------- script worlds
//
// A script builds the replicas through the object tree's OWN operations: remote AddRawChanges batches (several
// concurrent branches of different lengths, delivered in one or more batches, possibly shuffled), LOCAL AddContent
// (plain and snapshot) on whatever heads the replica has at that moment, exchanges between replicas (the receiver gets
// the sender's stored sequence or a prefix of it) and reopen points.  The DAG is not an input of such a case, it is
// what the replicas made of the script (the parents / snapshot base of a local change are chosen by the tree).
// Locally created changes keep their real CID on the replica that created them; for every other replica they are
// rendered like any remote change under the abstract id (>= 10000) the script gave them.

type Op struct {
	K       string  `json:"k"` // raw | content | snapshot | sync | reopen
	P       int     `json:"p"`
	New     []Chg   `json:"new,omitempty"`     // raw: the remotely authored changes
	Batches [][]int `json:"batches,omitempty"` // raw: delivery batches
	ID      int     `json:"id,omitempty"`      // content/snapshot: abstract id of the local change
	Pad     int     `json:"pad,omitempty"`
	From    int     `json:"from,omitempty"` // sync: the sending replica
	Upto    int     `json:"upto,omitempty"` // sync: length of the prefix of the sender's stored sequence (0 = all)
}

type Script struct {
	NP   int  `json:"np"`
	Root Chg  `json:"root"`
	Ops  []Op `json:"ops"`
}

type scriptWorld struct {
	peers      []*Peer
	dag        []Chg
	dm         map[int]Chg
	contentErr int
	contentErrMsg string
	localOnMulti int // local changes created on a tree with >= 2 heads
	localOnSkew  int // ... where the head with the greatest id was not the last iterated one
}

func childless(dm map[int]Chg, ids []int) []int {
	has := map[int]bool{}
	for _, id := range ids {
		for _, p := range dm[id].Prev {
			has[p] = true
		}
	}
	var h []int
	for _, id := range ids {
		if !has[id] {
			h = append(h, id)
		}
	}
	sort.Ints(h)
	return h
}

// lastIteratedHead: the head that comes last in the replica's own iteration
func lastIteratedHead(p *Peer) int {
	it, _ := p.Iter()
	hs := p.Heads()
	for i := len(it) - 1; i >= 0; i-- {
		if contains(hs, it[i]) {
			return it[i]
		}
	}
	return 0
}

func greatestHead(p *Peer) int {
	hs := p.tree.Heads()
	if len(hs) == 0 {
		return 0
	}
	m := hs[0]
	for _, h := range hs {
		if h > m {
			m = h
		}
	}
	return p.in.N(m)
}

// applyOp executes one operation on the real replicas and records what it created.
func (sw *scriptWorld) applyOp(op Op) {
	if op.P < 0 || op.P >= len(sw.peers) {
		return
	}
	p := sw.peers[op.P]
	switch op.K {
	case "raw":
		var ids []int
		for _, c := range op.New {
			if _, dup := sw.dm[c.ID]; dup || c.ID <= 0 {
				continue
			}
			sw.dm[c.ID] = c
			sw.dag = append(sw.dag, c)
			ids = append(ids, c.ID)
		}
		path := p.Path()
		for _, b := range op.Batches {
			var bb []int
			for _, id := range b {
				if _, ok := sw.dm[id]; ok {
					bb = append(bb, id)
				}
			}
			if len(bb) > 0 {
				_, _ = p.AddRaw(sw.dm, bb, childless(sw.dm, bb), path, 0)
			}
		}
	case "content", "snapshot":
		if _, dup := sw.dm[op.ID]; dup || op.ID <= 0 {
			return
		}
		multi := len(p.Heads()) >= 2
		skew := multi && lastIteratedHead(p) != greatestHead(p)
		c, err := p.AddContent(op.ID, op.K == "snapshot", op.Pad, int64(1700000000+op.ID))
		if err != nil {
			sw.contentErr++
			if sw.contentErrMsg == "" {
				sw.contentErrMsg = fmt.Sprintf("op %s on replica %d (heads %v): %v", op.K, op.P, p.Heads(), err)
			}
			return
		}
		sw.dm[c.ID] = c
		sw.dag = append(sw.dag, c)
		if multi {
			sw.localOnMulti++
		}
		if skew {
			sw.localOnSkew++
		}
	case "sync":
		if op.From < 0 || op.From >= len(sw.peers) || op.From == op.P {
			return
		}
		q := sw.peers[op.From]
		ids, _, _ := q.Stored()
		if op.Upto > 0 && op.Upto < len(ids) && len(q.Path()) == 1 {
			ids = ids[:op.Upto]
			_, _ = p.AddRaw(sw.dm, ids, childless(sw.dm, ids), q.Path(), 0)
		} else {
			_, _ = p.AddRaw(sw.dm, ids, q.Heads(), q.Path(), 0)
		}
	case "reopen":
		_ = p.Reopen()
	}
}

func newScriptWorld(w *World, s *Script) *scriptWorld {
	sw := &scriptWorld{dm: map[int]Chg{s.Root.ID: s.Root}, dag: []Chg{s.Root}}
	np := s.NP
	if np < 1 {
		np = 1
	}
	if np > 6 {
		np = 6
	}
	for i := 0; i < np; i++ {
		sw.peers = append(sw.peers, w.NewPeer(s.Root))
	}
	return sw
}

func runScript(w *World, s *Script) *scriptWorld {
	sw := newScriptWorld(w, s)
	for _, op := range s.Ops {
		sw.applyOp(op)
	}
	return sw
}

// genScript drives real replicas while it generates, so that every operation is chosen against the state the
// replicas really are in (current heads, attached changes, tree root).
func genScript(w *World, g *vlib.Rand) (*Script, *scriptWorld) {
	used := map[int]bool{}
	newID := func() int {
		for {
			v := 1 + g.Intn(9999)
			if !used[v] {
				used[v] = true
				return v
			}
		}
	}
	nextLocal := 10000
	s := &Script{NP: 2 + g.Intn(2), Root: Chg{ID: newID(), IsSnap: true}}
	sw := newScriptWorld(w, s)
	do := func(op Op) {
		s.Ops = append(s.Ops, op)
		sw.applyOp(op)
	}
	nOps := 4 + g.Intn(9)
	localProb := 2 + g.Intn(3)
	for len(s.Ops) < nOps {
		pi := g.Intn(s.NP)
		p := sw.peers[pi]
		switch k := g.Intn(10); {
		case k < 4:
			// a remote batch: 1-3 concurrent branches of different lengths growing out of changes the replica has
			att, _ := p.Iter()
			if len(att) == 0 {
				continue
			}
			heads := p.Heads()
			rootNow := p.in.N(p.tree.Root().Id)
			var nw []Chg
			var branches [][]int
			nb := 1 + g.Intn(3)
			for b := 0; b < nb; b++ {
				start := att[g.Intn(len(att))]
				if g.Chance(1, 2) && len(heads) > 0 {
					start = heads[g.Intn(len(heads))]
				}
				ln := 1 + g.Intn(4)
				var br []int
				prev := start
				for j := 0; j < ln; j++ {
					c := Chg{ID: newID(), Prev: []int{prev}, Snap: rootNow}
					if g.Chance(1, 2) {
						c.Pad = g.Intn(300)
					}
					if j == ln-1 && g.Chance(1, 12) {
						c.IsSnap = true
					}
					nw = append(nw, c)
					br = append(br, c.ID)
					prev = c.ID
				}
				branches = append(branches, br)
			}
			all := make([]int, len(nw))
			for i, c := range nw {
				all[i] = c.ID
			}
			var batches [][]int
			switch g.Intn(4) {
			case 0: // everything at once, creation order
				batches = [][]int{all}
			case 1: // everything at once, shuffled (the wait list sorts it out)
				pm := g.Perm(len(all))
				sh := make([]int, len(all))
				for i, j := range pm {
					sh[i] = all[j]
				}
				batches = [][]int{sh}
			case 2: // branch by branch
				batches = branches
			default: // round robin over the branches, one change per call
				for j := 0; j < 4; j++ {
					for _, br := range branches {
						if j < len(br) {
							batches = append(batches, []int{br[j]})
						}
					}
				}
			}
			do(Op{K: "raw", P: pi, New: nw, Batches: batches})
			if len(p.Heads()) >= 2 && g.Chance(1, localProb) {
				nextLocal++
				do(Op{K: "content", P: pi, ID: nextLocal, Pad: g.Intn(200)})
			}
		case k < 7:
			nextLocal++
			op := Op{K: "content", P: pi, ID: nextLocal, Pad: g.Intn(200)}
			if g.Chance(1, 5) {
				op.K = "snapshot"
			}
			do(op)
		case k < 9:
			from := g.Intn(s.NP)
			if from == pi {
				continue
			}
			op := Op{K: "sync", P: pi, From: from}
			if g.Chance(1, 3) {
				ids, _, _ := sw.peers[from].Stored()
				if len(ids) > 2 {
					op.Upto = 1 + g.Intn(len(ids)-1)
				}
			}
			do(op)
		default:
			do(Op{K: "reopen", P: pi})
		}
	}
	return s, sw
}
