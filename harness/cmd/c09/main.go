// Correspondence driver for C09 (full-sync responses are complete, causally ordered, size-bounded and
// announce consistent heads).  Real peers author an honest DAG (snapshots, concurrent branches, reduced
// trees); for pairs of the resulting replica states the responder answers the requester's request
// (heads + snapshot path) through response.NewResponseProducer / NewResponse(maxSize) until an empty batch;
// the batches are then applied to a copy of the requester the way synctree.AddRawChangesFromPeer does.
package main

import (
	"encoding/json"
	"fmt"
	"sort"
	"strings"

	"github.com/anyproto/any-sync/commonspace/object/tree/synctree/response"

	"verifharness/vlib"
)

type State struct {
	Have  []int `json:"have"`
	Heads []int `json:"heads"`
	Path  []int `json:"path"`
}

type Case struct {
	Dag       []Chg  `json:"dag"`
	A         State  `json:"a"` // responder: stored order
	B         State  `json:"b"` // requester
	ReqHeads  []int  `json:"req_heads"`
	ReqPath   []int  `json:"req_path"`
	MaxSize   int    `json:"max_size"`
	Variant   string `json:"variant"`
	Tags      []string `json:"tags,omitempty"`
	// script worlds: the replicas are what the real object trees made of the script; Dag / A / B are then only a
	// record of what was observed (a replay re-executes the script).  AP / BP: responder / requester replica
	// (BP = -1: a fresh replica holding only the root).
	Script *Script `json:"script,omitempty"`
	AP     int     `json:"ap,omitempty"`
	BP     int     `json:"bp,omitempty"`
	// mid-stream stores (mid.go): changes the responder stores between the creation of the response producer and a
	// later batch.  MidGen: generate them at run time against the real responder (then recorded in Mid).
	Mid    []MidStep `json:"mid,omitempty"`
	MidGen *MidGen   `json:"mid_gen,omitempty"`
}

type Batch struct {
	IDs   []int
	Heads []int
}

func dagMap(d []Chg) map[int]Chg {
	m := make(map[int]Chg, len(d))
	for _, c := range d {
		m[c.ID] = c
	}
	return m
}

// build a peer holding exactly the given stored sequence (fed in stored order, in chunks that mimic how it
// could have arrived: one call per change keeps the snapshot/reduce behaviour of an incremental replica)
func buildPeer(w *World, dag []Chg, st State) *Peer {
	dm := dagMap(dag)
	p := w.NewPeer(dag[0])
	for _, id := range st.Have {
		if id == dag[0].ID {
			continue
		}
		_, _ = p.AddRaw(dm, []int{id}, []int{id}, st.Path, 0)
	}
	// anything that needed a rebuild path or was dropped: once more all at once
	_, _ = p.AddRaw(dm, st.Have, st.Heads, st.Path, 0)
	return p
}

func contains(l []int, x int) bool {
	for _, y := range l {
		if y == x {
			return true
		}
	}
	return false
}

func sameSet(a, b []int) bool {
	if len(a) != len(b) {
		return false
	}
	x := append([]int{}, a...)
	y := append([]int{}, b...)
	sort.Ints(x)
	sort.Ints(y)
	for i := range x {
		if x[i] != y[i] {
			return false
		}
	}
	return true
}

type outcome struct {
	ok      bool
	batches []Batch
	sigma   []int
	sizes   []int
	ourPath []int
	haveB   []int
	finalB  []int
	panicked string
	nonterm bool // the batch-count guard was hit: the stream did not end with an empty batch
	sw      *scriptWorld
	chg     []storeObs // the responder's store as found by the calls before which something was stored (sigma = at request time)
	final   []int
}

func runCase(w *World, c *Case) (o outcome) {
	defer func() {
		if r := recover(); r != nil {
			o.panicked = fmt.Sprint(r)
		}
	}()
	var dm map[int]Chg
	var a, b *Peer
	if c.Script != nil {
		sw := runScript(w, c.Script)
		o.sw = sw
		dm = sw.dm
		if c.AP < 0 || c.AP >= len(sw.peers) {
			c.AP = 0
		}
		a = sw.peers[c.AP]
		if c.BP >= 0 && c.BP < len(sw.peers) && c.BP != c.AP {
			b = sw.peers[c.BP]
		} else {
			c.BP = -1
			b = w.NewPeer(c.Script.Root)
		}
		c.Dag = sw.dag
		c.A, c.B = snapshotState(a), snapshotState(b)
		switch c.Variant {
		case "empty_request":
			c.ReqHeads, c.ReqPath = nil, nil
		case "path_only":
			c.ReqHeads, c.ReqPath = []int{}, c.B.Path
		default:
			c.ReqHeads, c.ReqPath = c.B.Heads, c.B.Path
		}
	} else {
		dm = dagMap(c.Dag)
		a = buildPeer(w, c.Dag, c.A)
		b = buildPeer(w, c.Dag, c.B)
	}
	ids, all, _ := a.Stored()
	o.sigma = ids
	for _, sc := range all {
		o.sizes = append(o.sizes, len(sc.RawChange))
	}
	o.ourPath = a.Path()
	o.haveB, _, _ = b.Stored()
	var reqHeads, reqPath []string
	if c.ReqHeads != nil {
		reqHeads = a.in.Ss(c.ReqHeads)
	}
	if c.ReqPath != nil {
		reqPath = a.in.Ss(c.ReqPath)
	}
	prod, err := response.NewResponseProducer("space", a.tree, reqHeads, reqPath)
	if err != nil {
		o.ok = false
		o.finalB = o.haveB
		return
	}
	o.ok = true
	// batch-count guard: a correct stream sends every stored change at most once, so it has at most len(ids)
	// non-empty batches; a stream that is still going after that is reported, not suffered
	o.nonterm = true
	ms := &midState{c: c, dm: dm, a: a}
	given := c.Mid
	if c.MidGen != nil && len(given) == 0 {
		ms.g = vlib.NewRand(c.MidGen.Seed)
	}
	c.MidGen = nil
	c.Mid = nil
	o.final = ids
	for guard := 0; guard < len(o.final)+5; guard++ {
		// forced interleaving: what the responder stores after the producer exists and before this call
		var steps []MidStep
		if ms.g != nil {
			steps = ms.gen(guard)
		} else {
			for _, st := range given {
				if st.At == guard {
					steps = append(steps, st)
				}
			}
		}
		stored := false
		for _, st := range steps {
			if ms.apply(st) {
				stored = true
			}
			c.Mid = append(c.Mid, st)
		}
		if stored {
			sids, sall, _ := a.Stored()
			so := storeObs{at: guard, ids: sids}
			for _, sc := range sall {
				so.sizes = append(so.sizes, len(sc.RawChange))
			}
			o.chg = append(o.chg, so)
			o.final = sids
		}
		resp, err := prod.NewResponse(c.MaxSize)
		if err != nil {
			panic(err)
		}
		if len(resp.Changes) == 0 {
			o.nonterm = false
			break
		}
		var bt Batch
		for _, ch := range resp.Changes {
			bt.IDs = append(bt.IDs, a.in.N(ch.Id))
		}
		bt.Heads = a.in.Ns(resp.Heads)
		o.batches = append(o.batches, bt)
		// requester side, as synctree.AddRawChangesFromPeer: skip when the announced heads are already there
		bh := b.Heads()
		has := sameSet(bh, bt.Heads) || b.tree.HasChanges(b.in.Ss(bt.Heads)...)
		if !has {
			_, _ = b.AddRaw(dm, bt.IDs, bt.Heads, a.in.Ns(resp.SnapshotPath), 0)
		}
	}
	o.finalB, _, _ = b.Stored()
	return
}

func nl(v []int) string {
	s := make([]string, len(v))
	for i, x := range v {
		s[i] = fmt.Sprintf("%d", x)
	}
	return "[" + strings.Join(s, ";") + "]"
}

func caseTerm(c Case, o outcome) string {
	var sb strings.Builder
	if len(o.chg) > 0 {
		sb.WriteString("(CMid [")
	} else {
		sb.WriteString("(CResp [")
	}
	for i, ch := range c.Dag {
		if i > 0 {
			sb.WriteString(";")
		}
		fmt.Fprintf(&sb, "(mkChange %d %s %d %s)", ch.ID, nl(ch.Prev), ch.Snap, vlib.Bool(ch.IsSnap))
	}
	sb.WriteString("] [")
	dm := dagMap(c.Dag)
	for i, id := range o.sigma {
		if i > 0 {
			sb.WriteString(";")
		}
		ch := dm[id]
		fmt.Fprintf(&sb, "(mkSE (mkChange %d %s %d %s) %d)", ch.ID, nl(ch.Prev), ch.Snap, vlib.Bool(ch.IsSnap), o.sizes[i])
	}
	if len(o.chg) > 0 {
		sb.WriteString("] [")
		for i, so := range o.chg {
			if i > 0 {
				sb.WriteString(";")
			}
			fmt.Fprintf(&sb, "(%d,%s)", so.at, seTerm(dm, so.ids, so.sizes))
		}
	}
	fmt.Fprintf(&sb, "] %s %s %s %s %d %s [", nl(o.ourPath), nl(c.ReqPath), nl(c.ReqHeads), nl(o.haveB), c.MaxSize, vlib.Bool(o.ok))
	for i, b := range o.batches {
		if i > 0 {
			sb.WriteString(";")
		}
		fmt.Fprintf(&sb, "(%s,%s)", nl(b.IDs), nl(b.Heads))
	}
	fmt.Fprintf(&sb, "] %s)", nl(o.finalB))
	return sb.String()
}

type runner struct {
	w       *World
	out     *vlib.Writer
	samples []interface{}
}

func (r *runner) run(c Case) {
	r.w.Tick()
	o := runCase(r.w, &c)
	if o.panicked != "" {
		idx := r.out.Add("(CResp [] [] [] [] [] [] 1 true [] [])", c, fmt.Sprint(c), false)
		r.out.Violation(idx, "panic", "the implementation panicked: "+o.panicked, nil)
		return
	}
	term := caseTerm(c, o)
	sent := 0
	multiHead := false
	for _, b := range o.batches {
		sent += len(b.IDs)
		if len(b.Heads) > 1 {
			multiHead = true
		}
	}
	nontrivial := len(o.batches) >= 1 && sent >= 2
	if len(o.chg) > 0 {
		// a mid-stream case counts if the scan of a later batch really walked over a change stored meanwhile
		walked := walkedOver(o.final, o.sigma, c.Mid, o.batches)
		nontrivial = nontrivial && walked
		r.out.Stat("mid_cases")
		if walked {
			r.out.Stat("mid_store_walked_over_by_a_later_batch")
		}
		for _, st := range c.Mid {
			r.out.Stat("mid_step_" + st.K)
			if st.At > 0 {
				r.out.Stat("mid_step_after_first_batch")
			}
		}
	}
	idx := r.out.Add(term, c, term, nontrivial)
	if o.nonterm {
		r.out.Violation(idx, "nonterminating", fmt.Sprintf("the response stream did not end with an empty batch within %d batches "+
			"(the responder stores %d changes)", len(o.batches), len(o.sigma)), o.batches)
	}
	r.out.Stat("variant_" + c.Variant)
	if o.sw != nil {
		r.out.Stat("script_cases")
		if o.sw.localOnMulti > 0 {
			r.out.Stat("script_local_change_on_multi_head_tree")
		}
		if o.sw.localOnSkew > 0 {
			r.out.Stat("script_local_change_where_greatest_head_is_not_last_iterated")
		}
		if o.sw.contentErr > 0 {
			// a replica refused to create a local change on its own healthy tree (e.g. the order id it derived for the
			// new change collides with a stored one): the states of this case could not be built by legal operations
			r.out.Stat("script_local_add_error")
			r.out.Violation(idx, "local-add-failed", "a LOCAL AddContent on a replica built by the script returned an error: "+
				o.sw.contentErrMsg, nil)
		}
		if c.BP >= 0 {
			r.out.Stat("script_requester_is_replica")
		}
	}
	switch n := len(o.batches); {
	case n == 0:
		r.out.Stat("batches_0")
	case n == 1:
		r.out.Stat("batches_1")
	case n <= 4:
		r.out.Stat("batches_2_4")
	default:
		r.out.Stat("batches_gt4")
	}
	if !o.ok {
		r.out.Stat("no_common_snapshot")
	}
	if multiHead {
		r.out.Stat("multi_head_batches")
	}
	if len(o.ourPath) > 1 {
		r.out.Stat("responder_reduced")
	}
	if len(c.ReqPath) > 1 {
		r.out.Stat("requester_reduced")
	}
	if sent < len(o.sigma) && sent > 0 {
		r.out.Stat("partial_send")
	}
	if len(r.samples) < 4 && len(o.batches) >= 2 && len(c.Dag) <= 8 {
		r.samples = append(r.samples, map[string]interface{}{"case": c, "batches": o.batches})
	}
}

func main() {
	o := vlib.ParseFlags()
	vlib.Quiet()
	w := NewWorld()
	defer w.Close()
	r := &runner{w: w, out: vlib.NewWriter(o.Out, "C09_run", 60)}
	if o.Replay != "" {
		for _, raw := range vlib.ReadReplay(o.Replay) {
			var c Case
			if json.Unmarshal(raw, &c) != nil || (len(c.Dag) == 0 && c.Script == nil) {
				continue
			}
			r.run(c)
		}
		r.out.Finish("replay", r.samples, nil)
		return
	}
	rng := vlib.NewRand(o.Seed)
	// the F16 witness tree 0->a, 0->b->c first (three batches under a small limit)
	f16 := []Chg{{ID: 1, IsSnap: true}, {ID: 2, Prev: []int{1}, Snap: 1}, {ID: 3, Prev: []int{1}, Snap: 1}, {ID: 4, Prev: []int{3}, Snap: 1}}
	full := State{Have: []int{1, 2, 3, 4}, Heads: []int{2, 4}, Path: []int{1}}
	empty := State{Have: []int{1}, Heads: []int{1}, Path: []int{1}}
	for _, ms := range []int{1, 150, 100000} {
		r.run(Case{Dag: f16, A: full, B: empty, ReqHeads: []int{1}, ReqPath: []int{1}, MaxSize: ms, Variant: "fixed"})
		r.run(Case{Dag: f16, A: full, B: empty, ReqHeads: nil, ReqPath: nil, MaxSize: ms, Variant: "fixed_empty_request"})
	}
	// a local merge on a two-branch tree whose greatest head (99) is not the last iterated one (33):
	// 10 -> 11 -> 99 and 10 -> 22 -> 23 -> 24 -> 33, then AddContent; a fresh requester asks for everything
	merge := &Script{NP: 2, Root: Chg{ID: 10, IsSnap: true}, Ops: []Op{
		{K: "raw", P: 0, New: []Chg{{ID: 11, Prev: []int{10}, Snap: 10}, {ID: 99, Prev: []int{11}, Snap: 10},
			{ID: 22, Prev: []int{10}, Snap: 10}, {ID: 23, Prev: []int{22}, Snap: 10}, {ID: 24, Prev: []int{23}, Snap: 10},
			{ID: 33, Prev: []int{24}, Snap: 10}}, Batches: [][]int{{11, 99, 22, 23, 24, 33}}},
		{K: "content", P: 0, ID: 10001, Pad: 5},
		{K: "raw", P: 1, New: []Chg{{ID: 40, Prev: []int{10}, Snap: 10}}, Batches: [][]int{{40}}},
	}}
	for _, ms := range []int{1, 150, 10 * 1024 * 1024} {
		r.run(Case{Script: merge, AP: 0, BP: -1, MaxSize: ms, Variant: "heads_and_path"})
		r.run(Case{Script: merge, AP: 0, BP: 1, MaxSize: ms, Variant: "heads_and_path"})
	}
	for _, c := range fixedMidCases() {
		r.run(c)
	}
	nDag := 110 * o.Budget
	if o.Tier == "thorough" {
		nDag = 1200 * o.Budget
	}
	for k := 0; k < nDag; k++ {
		g := rng.Fork(uint64(k))
		size := 3 + g.Intn(14)
		if g.Chance(1, 14) {
			size = 30 + g.Intn(70)
		}
		dag, states := author(w, g, size)
		if len(states) < 2 {
			continue
		}
		nPairs := 2 + g.Intn(2)
		for q := 0; q < nPairs; q++ {
			a := states[g.Intn(len(states))]
			b := states[g.Intn(len(states))]
			if g.Chance(1, 4) {
				b = State{Have: []int{dag[0].ID}, Heads: []int{dag[0].ID}, Path: []int{dag[0].ID}}
			}
			// size limits: 1 byte, around one change, a few changes, larger than the tree
			limits := []int{1, 60 + g.Intn(200), 300 + g.Intn(900), 10 * 1024 * 1024}
			ms := limits[g.Intn(len(limits))]
			c := Case{Dag: dag, A: a, B: b, ReqHeads: b.Heads, ReqPath: b.Path, MaxSize: ms, Variant: "heads_and_path"}
			switch g.Intn(6) {
			case 0:
				c.ReqHeads, c.ReqPath, c.Variant = nil, nil, "empty_request"
			case 1:
				// heads the responder may not know, path only
				c.ReqHeads, c.Variant = []int{}, "path_only"
			}
			r.run(c)
			if g.Chance(1, 2) {
				c.MaxSize = limits[g.Intn(len(limits))]
				r.run(c)
			}
			if q == 0 && k%2 == 0 {
				// the same request while a third peer / the responder itself stores changes during the stream
				c.MaxSize = limits[g.Intn(3)]
				if g.Chance(1, 6) {
					c.MaxSize = limits[3]
				}
				c.MidGen = &MidGen{Seed: g.U64()}
				r.run(c)
			}
		}
	}
	// script worlds: replicas built through the tree's own operations (remote batches + LOCAL AddContent on
	// multi-head trees + exchanges + reopen), see gen.go
	nScript := 70 * o.Budget
	if o.Tier == "thorough" {
		nScript = 800 * o.Budget
	}
	for k := 0; k < nScript; k++ {
		g := rng.Fork(uint64(1000000 + k))
		sc, _ := genScript(w, g)
		nPairs := 2 + g.Intn(2)
		for q := 0; q < nPairs; q++ {
			ap := g.Intn(sc.NP)
			bp := g.Intn(sc.NP)
			if bp == ap || g.Chance(1, 4) {
				bp = -1
			}
			limits := []int{1, 60 + g.Intn(200), 300 + g.Intn(900), 10 * 1024 * 1024}
			c := Case{Script: sc, AP: ap, BP: bp, MaxSize: limits[g.Intn(len(limits))], Variant: "heads_and_path"}
			switch g.Intn(6) {
			case 0:
				c.Variant = "empty_request"
			case 1:
				c.Variant = "path_only"
			}
			r.run(c)
			if q == 0 && k%2 == 0 {
				c.MaxSize = limits[g.Intn(3)]
				c.MidGen = &MidGen{Seed: g.U64()}
				r.run(c)
			}
		}
	}
	r.out.Finish("one case = one request answered by a real responder until the first empty batch, then applied to a copy of the "+
		"requester; replica states are taken from honest DAGs authored by 2-4 real peers (diverged, one ahead, reduced to later "+
		"snapshots, concurrent snapshots, requester with only the root) and from script worlds (replicas built through the object "+
		"tree's own operations: remote AddRawChanges batches of concurrent branches of different lengths, LOCAL AddContent / snapshot on "+
		"multi-head trees, exchanges of stored prefixes, reopen); limits 1 byte .. 10 MiB; request variants heads+path / "+
		"empty request / path only; mid-stream cases: the responder stores changes of a third peer (concurrent branches out of older "+
		"changes / heads, small and oversized) or local ones between the creation of the producer and a later batch (forced, single-threaded); "+
		"a case is non-trivial if at least one batch and at least two changes are sent (mid-stream cases: and the scan of a later batch "+
		"walked over a change stored meanwhile); distinct by full case term",
		r.samples, nil)
}
