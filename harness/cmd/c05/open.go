package main

// Long-lived OPEN object trees: at the start of every history the owner creates one encrypted tree; every account
// (members and outsiders alike) opens it ONCE with the production builder objecttree.BuildObjectTree over its own
// storage and its own validating ACL list, and keeps that tree object for the whole membership history.  After
// every accepted ACL record the accounts that may write do so through their already open trees, the raw change is
// delivered to every other account's open tree, and every account reads (IterateRoot with a converter) through its
// open tree (and, for some members, through a freshly built one).  One history = one COpen case.

import (
	"bytes"
	"fmt"
	"os"
	"path/filepath"
	"sort"
	"strings"

	anystore "github.com/anyproto/any-store"

	"github.com/anyproto/any-sync/commonspace/headsync/headstorage"
	"github.com/anyproto/any-sync/commonspace/object/tree/objecttree"
	"github.com/anyproto/any-sync/commonspace/object/tree/treechangeproto"
	"github.com/anyproto/any-sync/util/crypto"

	"verifharness/cmd/c04/aclh"
	"verifharness/vlib"
)

// one any-store DB per account and history (every account needs its own storage: the tree id is the same)
type acctDB struct {
	dir   string
	db    anystore.DB
	heads headstorage.HeadStorage
}

var acctDBs = map[int]*acctDB{}

// applyAccountsAdd replaces the AccountState of an account that is added again, dropping its earlier
// PermissionChanges; PermissionsAtRecord then answers None for the tree changes the account wrote during its earlier
// membership, ValidateFullTree fails and no member can build the tree from storage any more
// (fixes/C05-accountsadd-keeps-permission-history.patch).
const histResetTag = "C05-accountsadd-resets-permission-history"

// scratchBase: the per-account stores are throw-away; a memory file system (when the machine has one) keeps the sqlite
// work of storage.AddAll off the disk.  "" = the default temporary directory.
func scratchBase() string {
	if os.Getenv("C05_DISK_STORES") == "" {
		if fi, err := os.Stat("/dev/shm"); err == nil && fi.IsDir() {
			if d, err := os.MkdirTemp("/dev/shm", "verif_c05_probe_"); err == nil {
				_ = os.RemoveAll(d)
				return "/dev/shm"
			}
		}
	}
	return ""
}

func acctStore(a int) (*acctDB, error) {
	if d, ok := acctDBs[a]; ok {
		return d, nil
	}
	dir, err := os.MkdirTemp(scratchBase(), fmt.Sprintf("verif_c05_open%d_", a))
	if err != nil {
		return nil, err
	}
	db, err := anystore.Open(ctx, filepath.Join(dir, "changes.db"), nil)
	if err != nil {
		_ = os.RemoveAll(dir)
		return nil, err
	}
	coll, err := db.Collection(ctx, objecttree.CollName)
	if err == nil {
		err = coll.EnsureIndex(ctx, anystore.IndexInfo{Fields: []string{objecttree.TreeKey, objecttree.OrderKey}, Unique: true})
	}
	var heads headstorage.HeadStorage
	if err == nil {
		heads, err = headstorage.New(ctx, db)
	}
	if err != nil {
		_ = db.Close()
		_ = os.RemoveAll(dir)
		return nil, err
	}
	d := &acctDB{dir: dir, db: db, heads: heads}
	acctDBs[a] = d
	return d, nil
}

func closeAcctStores() {
	for a, d := range acctDBs {
		_ = d.db.Close()
		_ = os.RemoveAll(d.dir)
		delete(acctDBs, a)
	}
}

type openTrees struct {
	root    *treechangeproto.RawTreeChangeWithId
	trees   map[int]objecttree.ObjectTree
	r       *vlib.Rand
	rounds  []string
	nWrites int
	marker  map[int][]byte // change number -> plaintext
	idxOf   map[string]int // change id -> change number
	prev    map[int]int    // permission of every account after the previous record
	ever    map[int]bool   // held a permission at some earlier record boundary
	wrote   map[int]int    // changes written so far, per account
	tagged  bool           // the history is an instance of the finding histResetTag
}

func (h *hist) openSetup() {
	w := h.w
	if os.Getenv("C05_NOOPEN") != "" { // development aid: time the rest of the harness
		return
	}
	defer func() {
		if p := recover(); p != nil {
			w.Stat("open_infra_panic")
			h.open = nil
		}
	}()
	root, err := objecttree.CreateObjectTreeRoot(objecttree.ObjectTreeCreatePayload{
		PrivKey: h.W.Key(h.owner), ChangeType: "c05-open", SpaceId: h.spaceId, IsEncrypted: true,
		Seed: []byte(fmt.Sprintf("open-%d-%d", h.seed, h.idx)),
	}, h.actors[h.owner].l)
	if err != nil {
		w.Stat("open_infra_error")
		return
	}
	o := &openTrees{root: root, trees: map[int]objecttree.ObjectTree{}, r: vlib.NewRand(h.seed).Fork(h.idx).Fork(0x0c05),
		marker: map[int][]byte{}, idxOf: map[string]int{}, prev: map[int]int{h.owner: 1}, ever: map[int]bool{h.owner: true}, wrote: map[int]int{}}
	for a := 1; a <= nAccounts; a++ {
		d, err := acctStore(a)
		if err != nil {
			w.Stat("open_infra_error")
			return
		}
		st, err := objecttree.CreateStorage(ctx, root, d.heads, d.db)
		if err != nil {
			w.Stat("open_infra_error")
			return
		}
		setAddSeq(st)
		t, err := objecttree.BuildObjectTree(st, h.actors[a].l)
		if err != nil {
			w.Stat("open_infra_error")
			return
		}
		o.trees[a] = t
	}
	h.open = o
}

// readAll: IterateRoot with a converter; returns whether it finished without error and the numbers of the changes it
// handed over as their original plaintext.
func (o *openTrees) readAll(t objecttree.ObjectTree) (ok bool, got []int) {
	defer func() {
		if p := recover(); p != nil {
			ok = false
		}
	}()
	err := t.IterateRoot(func(ch *objecttree.Change, decrypted []byte) (any, error) {
		return string(decrypted), nil
	}, func(ch *objecttree.Change) bool {
		if idx, known := o.idxOf[ch.Id]; known {
			if s, isStr := ch.Model.(string); isStr && s == string(o.marker[idx]) {
				got = append(got, idx)
			}
		}
		return true
	})
	sort.Ints(got)
	return err == nil, got
}

func (h *hist) heldGens(a int) []int {
	var ids []int
	for id, k := range h.actors[a].l.AclState().Keys() {
		if k.ReadKey != nil {
			ids = append(ids, h.W.RidNum(id))
		}
	}
	sort.Ints(ids)
	return ids
}

// openRound is called after every accepted ACL record (after it was delivered to the accounts' ACL lists).
func (h *hist) openRound(after aclh.State) {
	o := h.open
	if o == nil {
		return
	}
	w := h.w
	defer func() {
		if p := recover(); p != nil {
			w.Stat("open_infra_panic")
			if os.Getenv("C05_DEBUG") != "" {
				fmt.Printf("OPEN PANIC: %v\n", p)
			}
			h.open = nil
		}
	}()
	v := view{after}
	refState := h.ref.AclState()
	gen := h.W.RidNum(refState.CurrentReadKeyId())

	// who writes: every account whose permission changed with this record and may write now, plus one other writer
	// (two when nobody's permission changed)
	var affected, others []int
	for a := 1; a <= nAccounts; a++ {
		p := v.perm(a)
		if p >= 1 && p <= 3 && h.actors[a].synced {
			if o.prev[a] != p {
				affected = append(affected, a)
				if o.prev[a] == 0 && o.ever[a] {
					w.Stat("open_write_by_readmitted")
				}
			} else {
				others = append(others, a)
			}
		}
	}
	pm := o.r.Perm(len(others))
	writers := append([]int{}, affected...)
	nOthers := 1
	if len(affected) == 0 {
		nOthers = 2
	}
	for i := 0; i < len(pm) && i < nOthers; i++ {
		writers = append(writers, others[pm[i]])
	}
	// recogniser of finding C05-accountsadd-resets-permission-history: an account that held a permission before and
	// wrote into the tree is added again by AccountsAdd, which REPLACES its permission history by one entry
	for a := 1; a <= nAccounts; a++ {
		if x := v.acc(a); x != nil && o.ever[a] && o.prev[a] == 0 && v.perm(a) != 0 && len(x.Hist) == 1 && o.wrote[a] > 0 && !o.tagged {
			o.tagged = true
			w.Stat("open_histories_tagged_" + histResetTag)
		}
	}
	for a := 1; a <= nAccounts; a++ {
		o.prev[a] = v.perm(a)
		if v.perm(a) != 0 {
			o.ever[a] = true
		}
	}

	// every key generation the harness knows, ascending
	type kg struct {
		n int
		k crypto.SymKey
	}
	var tried []kg
	for _, k := range h.known {
		raw, err := k.Raw()
		if err != nil {
			continue
		}
		tried = append(tried, kg{h.gen[string(raw)], k})
	}
	sort.Slice(tried, func(i, j int) bool { return tried[i].n < tried[j].n })
	var triedNums []int
	for _, t := range tried {
		triedNums = append(triedNums, t.n)
	}

	var writes []string
	var batch []*treechangeproto.RawTreeChangeWithId
	var batchBy []int
	newHeads := map[string]bool{}
	for _, wr := range writers {
		o.nWrites++
		idx := o.nWrites
		marker := []byte(fmt.Sprintf("C05-OPEN-PLAINTEXT-%d-%d-%d-", h.seed, h.idx, idx))
		for len(marker) < 40 {
			marker = append(marker, 'y')
		}
		o.marker[idx] = marker
		tree := o.trees[wr]
		tree.Lock() // the tree's users hold its lock (otherwise every call logs a compressed stack trace: a third of the run time)
		res, err := tree.AddContent(ctx, objecttree.SignableChangeContent{Data: marker, Key: h.W.Key(wr), ShouldBeEncrypted: true, DataType: "c05"})
		tree.Unlock()
		if err != nil || len(res.Added) == 0 {
			// an account with write permission could not write encrypted content through its open tree
			w.Stat("open_write_failed")
			if err != nil {
				w.Stat("open_write_failed_" + strings.ReplaceAll(err.Error(), " ", "_"))
			}
			writes = append(writes, fmt.Sprintf("(mkW %d %d %d 0 false %s [])", idx, wr, gen, ints(triedNums)))
			continue
		}
		raw := res.Added[0].RawTreeChangeWithId()
		o.idxOf[raw.Id] = idx
		o.wrote[wr]++
		keyId, plain := 0, bytes.Contains(raw.RawChange, marker)
		var opens []int
		if ch, err := objecttree.NewChangeBuilder(crypto.NewKeyStorage(), o.root).Unmarshall(raw, true); err == nil {
			keyId = h.W.RidNum(ch.ReadKeyId)
			for _, t := range tried {
				kraw, err := t.k.Raw()
				if err != nil {
					continue
				}
				tk, err := crypto.DeriveSymmetricKey(kraw, fmt.Sprintf(crypto.AnysyncTreePath, o.root.Id))
				if err != nil {
					continue
				}
				if pt, err := safeSymDecrypt(tk, ch.Data); err == nil && bytes.Equal(pt, marker) {
					opens = append(opens, t.n)
				}
			}
		} else {
			w.Stat("open_written_change_unreadable")
		}
		if opens == nil {
			opens = []int{}
		}
		writes = append(writes, fmt.Sprintf("(mkW %d %d %d %d %s %s %s)", idx, wr, gen, keyId, vlib.Bool(plain), ints(triedNums), ints(opens)))
		w.Stat("open_writes")
		batch = append(batch, raw)
		batchBy = append(batchBy, wr)
		for _, hd := range tree.Heads() {
			newHeads[hd] = true
		}
	}
	// every raw change of the round goes to every other account's open tree (members and non-members alike), one
	// AddRawChanges call per receiving tree: the writers of a round write concurrently on the same heads
	if len(batch) > 0 {
		var heads []string
		for hd := range newHeads {
			heads = append(heads, hd)
		}
		sort.Strings(heads)
		for a := 1; a <= nAccounts; a++ {
			if !h.actors[a].synced {
				continue
			}
			var raws []*treechangeproto.RawTreeChangeWithId
			for i, raw := range batch {
				if batchBy[i] != a {
					raws = append(raws, raw)
				}
			}
			if len(raws) == 0 {
				continue
			}
			o.trees[a].Lock()
			_, err := o.trees[a].AddRawChanges(ctx, objecttree.RawChangesPayload{NewHeads: heads, RawChanges: raws})
			o.trees[a].Unlock()
			if err != nil {
				w.Stat("open_deliver_error")
			}
		}
	}
	if len(writes) == 0 {
		w.Stat("open_round_without_writer")
		return
	}
	// readings
	var members []int
	for a := 1; a <= nAccounts; a++ {
		if v.perm(a) != 0 && h.actors[a].synced {
			members = append(members, a)
		}
	}
	freshFor := map[int]bool{}
	if len(members) > 0 {
		freshFor[members[o.r.Intn(len(members))]] = true
	}
	for _, a := range affected {
		freshFor[a] = true
	}
	var readers []string
	for a := 1; a <= nAccounts; a++ {
		if !h.actors[a].synced {
			continue
		}
		ok, got := o.readAll(o.trees[a])
		fresh := "None"
		if freshFor[a] {
			d := acctDBs[a]
			if st, err := objecttree.NewStorage(ctx, o.root.Id, d.heads, d.db); err == nil {
				setAddSeq(st)
				if ft, err := objecttree.BuildObjectTree(st, h.actors[a].l); err == nil {
					fok, fgot := o.readAll(ft)
					fresh = fmt.Sprintf("(Some (%s, %s))", vlib.Bool(fok), ints(fgot))
				} else {
					fresh = "(Some (false, []))"
					w.Stat("open_fresh_build_error")
					if os.Getenv("C05_DEBUG") != "" {
						fmt.Printf("FRESH BUILD ERROR acct %d perm %d: %v\n", a, v.perm(a), err)
					}
				}
			} else {
				w.Stat("open_infra_error")
			}
		}
		readers = append(readers, fmt.Sprintf("(mkR %d %d %s %s %s %s)", a, v.perm(a), ints(h.heldGens(a)), vlib.Bool(ok), ints(got), fresh))
		w.Stat(fmt.Sprintf("open_reader_member_%v_ok_%v", v.perm(a) != 0, ok))
	}
	o.rounds = append(o.rounds, fmt.Sprintf("(mkRound %s %s)", vlib.List(writes), vlib.List(readers)))
}

func (h *hist) openFinish() {
	o := h.open
	if o == nil || len(o.rounds) == 0 {
		return
	}
	w := h.w
	term := fmt.Sprintf("(COpen %s)", vlib.List(o.rounds))
	d := caseDesc{Kind: "open", Seed: h.seed, Idx: h.idx, NoProbe: h.noProbe, Tier: h.tier}
	if o.tagged {
		d.Tags = []string{histResetTag}
	}
	// non-trivial: the open trees lived through at least one rotation and one admission
	w.Add(term, d, fmt.Sprintf("open/%d/%d/%s", h.seed, h.idx, term), h.nRot >= 1 && h.nAdm >= 1)
	w.Stat("open_cases")
	w.Stat(fmt.Sprintf("open_rounds_%02d", len(o.rounds)))
}
