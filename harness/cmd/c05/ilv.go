package main

// Controlled interleavings: ONE encrypted AddContent through an open production tree racing ONE pending ACL record.
//
// The writer's AclList is wrapped in a decorator (ilvAcl) that sees every RLock / RUnlock / Lock / Unlock the tree code
// performs on the ACL list.  Every such call at which the writer does NOT hold the ACL lock (just before a lock is
// taken while none is held, right after the last held lock has been released) is a "crossing": a point at which another
// goroutine (the sync goroutine applying a head update) can legitimately win the ACL write lock.  For EVERY crossing
// k = 0, 1, 2, ... of one AddContent (counted on the fly: k is increased until the crossing is no longer reached) the
// pending record is applied to the writer's ACL list at that point (under the list's write lock), standing in for that
// other goroutine.  The record then reaches every other account's list, the stored change every other account's open
// tree, and everybody reads.  One (world, record kind, writer role, k) = one CIlv case.
//
// What is decided from the OBSERVED change: the ACL head it names (the head before the record / the record itself)
// sequences the write before or after the record; the generation at that head is what its ReadKeyId must name and what
// its ciphertext must open with (and with no other generation).  A failed AddContent is recorded as such (None); the
// same account then writes again sequentially after the record when it may write.

import (
	"bytes"
	"fmt"
	"os"
	"sort"

	"github.com/anyproto/any-sync/commonspace/object/acl/list"
	"github.com/anyproto/any-sync/commonspace/object/tree/objecttree"
	"github.com/anyproto/any-sync/commonspace/object/tree/treechangeproto"
	"github.com/anyproto/any-sync/consensus/consensusproto"
	"github.com/anyproto/any-sync/util/crypto"

	"verifharness/cmd/c04/aclh"
	"verifharness/vlib"
)

const ilvIdxBase = 1000000 // rng stream of an interleaving world: Fork(ilvIdxBase + idx)
const ilvMaxK = 24

// ---------------------------------------------------------------- the decorator

type ilvAcl struct {
	list.AclList
	depth  int    // ACL locks (read or write) the user of this decorator holds right now
	armed  bool   // counting crossings
	n      int    // crossings seen since arming
	at     int    // crossing at which inject runs
	fired  bool   // inject ran
	nested int    // lock calls while a lock was already held (no crossing there)
	events []byte // the crossings seen while armed: r = before RLock, u = after RUnlock, l = before Lock, n = after Unlock
	inject func()
}

func (d *ilvAcl) cross(ev byte) {
	if !d.armed {
		return
	}
	d.events = append(d.events, ev)
	if d.n == d.at && !d.fired {
		d.fired = true
		d.inject()
	}
	d.n++
}

func (d *ilvAcl) before(ev byte) {
	if d.depth == 0 {
		d.cross(ev)
	} else if d.armed {
		d.nested++
	}
}

func (d *ilvAcl) after(ev byte) {
	d.depth--
	if d.depth == 0 {
		d.cross(ev)
	}
}

func (d *ilvAcl) RLock()   { d.before('r'); d.AclList.RLock(); d.depth++ }
func (d *ilvAcl) RUnlock() { d.AclList.RUnlock(); d.after('u') }
func (d *ilvAcl) Lock()    { d.before('l'); d.AclList.Lock(); d.depth++ }
func (d *ilvAcl) Unlock()  { d.AclList.Unlock(); d.after('n') }

// ---------------------------------------------------------------- worlds

type ilvSel struct {
	rec, role string
	k         int
}

type ilvDesc struct {
	Kind string   `json:"kind"`
	Seed uint64   `json:"seed"`
	Idx  uint64   `json:"idx"`
	Tier string   `json:"tier,omitempty"`
	Rec  string   `json:"rec"`  // kind of the injected ACL record
	Role string   `json:"role"` // which account of the world writes: writer / owner / reader
	K    int      `json:"k"`    // crossing index at which the record is injected
	Info string   `json:"info,omitempty"`
	Tags []string `json:"tags,omitempty"`
}

type ilvGen struct {
	n int
	k crypto.SymKey
}

type ilvPending struct {
	kind, role string
	code       int
	wr         int
	num        int
	rec        *RawRec
	gen1       int
	can0, can1 bool
	perm0      map[int]int
	perm1      map[int]int
}

var ilvKindCode = map[string]int{"rk": 1, "remove_other": 2, "remove_writer": 3, "readd": 4, "add": 5, "perm_down": 6,
	"perm_other": 7, "perm_up": 8, "batch_remove_add": 9, "rand": 10}

func (h *hist) ownerAttempt(kind string, build func(b list.AclRecordBuilder) (*consensusproto.RawRecord, error), keys ...crypto.SymKey) *attempt {
	return &attempt{kind: kind, actor: h.owner, keys: keys, build: build}
}

func (h *hist) atAdd(kind string, accs, perms []int) *attempt {
	var adds []list.AccountAdd
	for i, a := range accs {
		adds = append(adds, list.AccountAdd{Identity: h.pub(a), Permissions: list.AclPermissions(perms[i]), Metadata: []byte(fmt.Sprintf("ilv-added-%d", a))})
	}
	return h.ownerAttempt(kind, func(b list.AclRecordBuilder) (*consensusproto.RawRecord, error) {
		return b.BuildAccountsAdd(list.AccountsAddPayload{Additions: adds})
	})
}

func (h *hist) atRemove(kind string, accs []int) *attempt {
	var ids []crypto.PubKey
	for _, a := range accs {
		ids = append(ids, h.pub(a))
	}
	ch := newChange()
	return h.ownerAttempt(kind, func(b list.AclRecordBuilder) (*consensusproto.RawRecord, error) {
		return b.BuildAccountRemove(list.AccountRemovePayload{Identities: ids, Change: ch})
	}, ch.ReadKey)
}

func (h *hist) atRk(kind string) *attempt {
	ch := newChange()
	return h.ownerAttempt(kind, func(b list.AclRecordBuilder) (*consensusproto.RawRecord, error) {
		return b.BuildReadKeyChange(ch)
	}, ch.ReadKey)
}

func (h *hist) atPerm(kind string, a, p int) *attempt {
	return h.ownerAttempt(kind, func(b list.AclRecordBuilder) (*consensusproto.RawRecord, error) {
		return b.BuildPermissionChange(list.PermissionChangePayload{Identity: h.pub(a), Permissions: list.AclPermissions(p)})
	})
}

func (h *hist) atBatch(kind string, rem int, add, perm int) *attempt {
	ch := newChange()
	p := list.BatchRequestPayload{
		Removals:  list.AccountRemovePayload{Identities: []crypto.PubKey{h.pub(rem)}, Change: ch},
		Additions: []list.AccountAdd{{Identity: h.pub(add), Permissions: list.AclPermissions(perm), Metadata: []byte("ilv-batch-add")}},
	}
	return h.ownerAttempt(kind, func(b list.AclRecordBuilder) (*consensusproto.RawRecord, error) {
		res, err := b.BuildBatchRequest(p)
		return res.Rec, err
	}, ch.ReadKey)
}

// ilvBuild: build the record with the real builder over the actor's list, consensus-sign, number it, register its keys.
func (h *hist) ilvBuild(a *attempt) (rec *RawRec, num int) {
	if a == nil {
		return nil, 0
	}
	raw, err, p := h.tryBuild(a)
	if p != nil || err != nil || raw == nil {
		if a.fallback == nil {
			h.w.Stat("ilv_builder_refused_" + a.kind)
			return nil, 0
		}
		raw = h.W.RawRecord(h.ref.Head().Id, a.actor, a.fallback)
	}
	rec = h.consensus(raw)
	num = h.nsub + 2
	h.nsub++
	h.W.Bind(num, rec.Id)
	for _, k := range a.keys {
		h.regKey(k, num)
	}
	return rec, num
}

// ilvPrefix: a record of the world's prefix: accepted by the reference list => appended to the log, delivered to all.
func (h *hist) ilvPrefix(a *attempt) bool {
	rec, _ := h.ilvBuild(a)
	if rec == nil {
		return false
	}
	if err, _ := safeAdd(h.ref, rec); err != nil {
		h.w.Stat("ilv_prefix_rejected_" + a.kind)
		return false
	}
	h.log = append(h.log, rec)
	for id := 1; id <= nAccounts; id++ {
		if ac := h.actors[id]; ac.synced {
			if e, _ := safeAdd(ac.l, rec); e != nil {
				ac.synced = false
				h.w.Stat("ilv_actor_list_rejected")
			}
		}
	}
	h.w.Stat("ilv_prefix_" + a.kind)
	return true
}

func permsOf(h *hist, st *list.AclState) map[int]int {
	m := map[int]int{}
	for a := 1; a <= nAccounts; a++ {
		m[a] = int(st.Permissions(h.W.Pub(a)))
	}
	return m
}

func canWrite(p int) bool { return p >= 1 && p <= 3 }

// runIlvWorld generates one world (membership prefix with the real builders), plans the pending records, and runs the
// sub-cases (all of them, or the selected ones when replaying).
func runIlvWorld(w *vlib.Writer, seed, idx uint64, tier string, only []ilvSel) {
	defer func() {
		if p := recover(); p != nil {
			w.Stat("ilv_infra_panic")
			if os.Getenv("C05_DEBUG") != "" {
				fmt.Printf("ILV WORLD PANIC: %v\n", p)
			}
		}
		closeAcctStores()
	}()
	h := newHist(w, seed, ilvIdxBase+idx, true, tier)
	h.noOpen = true
	h.setup()
	r := h.r

	// ---- prefix: A, B (writers / reader), C reader, D added and removed (rotation), E outsider; then 0-3 random records
	var others []int
	for a := 1; a <= nAccounts; a++ {
		if a != h.owner {
			others = append(others, a)
		}
	}
	pm := r.Perm(len(others))
	A, B, C, D := others[pm[0]], others[pm[1]], others[pm[2]], others[pm[3]]
	h.ilvPrefix(h.atAdd("add", []int{A, B}, []int{3, []int{3, 4}[r.Intn(2)]}))
	h.ilvPrefix(h.atAdd("add", []int{C, D}, []int{4, []int{3, 4}[r.Intn(2)]}))
	h.ilvPrefix(h.atRemove("remove", []int{D}))
	// (every second world has at least one random record)
	for extras := r.Intn(3) + int(idx%2); extras > 0; extras-- {
		for tries := 0; tries < 12; tries++ {
			a := h.choose(view{h.W.Dump(h.ref.AclState())})
			if a == nil {
				continue
			}
			h.ilvPrefix(a)
			break
		}
	}
	v := view{h.W.Dump(h.ref.AclState())}
	synced := func(a int) bool { return h.actors[a].synced }
	writersNO := v.filter(func(a int) bool { p := v.perm(a); return a != h.owner && (p == 2 || p == 3) && synced(a) })
	if len(writersNO) == 0 { // the random records took every non-owner writer away: make one
		if rd := v.filter(func(a int) bool { return v.perm(a) == 4 }); len(rd) > 0 {
			h.ilvPrefix(h.atPerm("perm", h.pick(rd), 3))
		} else if out := v.filter(func(a int) bool { return v.perm(a) == 0 && !v.pending(a) }); len(out) > 0 {
			h.ilvPrefix(h.atAdd("add", []int{h.pick(out)}, []int{3}))
		}
		v = view{h.W.Dump(h.ref.AclState())}
		writersNO = v.filter(func(a int) bool { p := v.perm(a); return a != h.owner && (p == 2 || p == 3) && synced(a) })
	}
	if len(writersNO) == 0 || !synced(h.owner) || v.perm(h.owner) != 1 {
		w.Stat("ilv_world_without_writer")
		return
	}
	w.Stat("ilv_worlds")
	st0 := h.ref.AclState()
	gen0 := h.W.RidNum(st0.CurrentReadKeyId())
	head0 := h.ref.Head().Id
	perm0 := permsOf(h, st0)
	prefixNums := h.nsub + 1 // record numbers <= prefixNums belong to the prefix

	// ---- roles and the pending records (all decisions drawn here, whatever is selected later)
	W := h.pick(writersNO)
	readers := v.filter(func(a int) bool { return v.perm(a) == 4 && synced(a) })
	RD := h.pick(readers)
	removed := v.filter(func(a int) bool { return v.perm(a) == 0 && !v.pending(a) && v.wasMember(a) })
	outsiders := v.filter(func(a int) bool { return v.perm(a) == 0 && !v.pending(a) && !v.wasMember(a) })
	ownerToo := r.Chance(1, 2) || tier == "thorough"
	baseCands := v.filter(func(a int) bool { return canWrite(v.perm(a)) && synced(a) })
	baseWriter := h.pick(baseCands)

	type plan struct {
		kind, role string
		wr         int
		at         *attempt
	}
	var plans []plan
	for _, role := range []string{"writer", "owner"} {
		wr := W
		if role == "owner" {
			wr = h.owner
		}
		otherMembers := v.filter(func(a int) bool { return v.perm(a) != 0 && a != h.owner && a != wr })
		otherRW := v.filter(func(a int) bool { p := v.perm(a); return (p == 3 || p == 4) && a != h.owner && a != wr })
		x, y, re, out := h.pick(otherMembers), h.pick(otherRW), h.pick(removed), h.pick(outsiders)
		pRe, pOut := []int{3, 4}[r.Intn(2)], []int{3, 4}[r.Intn(2)]
		batchAdd := out
		if batchAdd == 0 || (re != 0 && r.Bool()) {
			batchAdd = re
		}
		add := func(kind string, at *attempt) { plans = append(plans, plan{kind, role, wr, at}) }
		add("rk", h.atRk("rk"))
		if x != 0 {
			add("remove_other", h.atRemove("remove_other", []int{x}))
		}
		if wr != h.owner {
			add("remove_writer", h.atRemove("remove_writer", []int{wr}))
			add("perm_down", h.atPerm("perm_down", wr, 4))
		}
		if re != 0 {
			add("readd", h.atAdd("readd", []int{re}, []int{pRe}))
		}
		if out != 0 {
			add("add", h.atAdd("add", []int{out}, []int{pOut}))
		}
		if y != 0 {
			add("perm_other", h.atPerm("perm_other", y, 7-v.perm(y)))
		}
		if x != 0 && batchAdd != 0 {
			add("batch_remove_add", h.atBatch("batch_remove_add", x, batchAdd, pOut))
		}
		// whatever the history generator draws in this state (any of its record kinds, any actor)
		var rnd *attempt
		for tries := 0; tries < 12 && rnd == nil; tries++ {
			rnd = h.choose(v)
		}
		if rnd != nil {
			add("rand", rnd)
		}
	}
	if RD != 0 {
		plans = append(plans, plan{"perm_up", "reader", RD, h.atPerm("perm_up", RD, 3)})
	}

	want := func(kind, role string) bool {
		if only == nil {
			return role != "owner" || ownerToo
		}
		for _, s := range only {
			if s.rec == kind && s.role == role {
				return true
			}
		}
		return false
	}
	for _, pl := range plans {
		// every planned record is built (and numbered) whether or not it is selected: a replayed sub-case gets the same
		// record numbers as in the run that produced it
		rec, num := h.ilvBuild(pl.at)
		if rec == nil || !want(pl.kind, pl.role) {
			continue
		}
		ref1, err := h.buildList(aclh.Observer, true)
		if err != nil {
			w.Stat("ilv_infra_error")
			continue
		}
		if e, _ := safeAdd(ref1, rec); e != nil {
			w.Stat("ilv_pending_rejected_" + pl.kind)
			continue
		}
		st1 := ref1.AclState()
		p := &ilvPending{kind: pl.kind, role: pl.role, code: ilvKindCode[pl.kind], wr: pl.wr, num: num, rec: rec,
			gen1: h.W.RidNum(st1.CurrentReadKeyId()), perm0: perm0, perm1: permsOf(h, st1)}
		p.can0, p.can1 = canWrite(p.perm0[p.wr]), canWrite(p.perm1[p.wr])
		// the key generations of this sub-world: the prefix's and the pending record's own
		var gens []ilvGen
		for _, k := range h.known {
			raw, err := k.Raw()
			if err != nil {
				continue
			}
			if n := h.gen[string(raw)]; n <= prefixNums || n == num {
				gens = append(gens, ilvGen{n, k})
			}
		}
		sort.Slice(gens, func(i, j int) bool { return gens[i].n < gens[j].n })
		if only != nil {
			for _, s := range only {
				if s.rec == pl.kind && s.role == pl.role {
					h.ilvCase(p, s.k, gen0, head0, baseWriter, gens, idx)
				}
			}
			continue
		}
		for k := 0; k <= ilvMaxK; k++ {
			if fired := h.ilvCase(p, k, gen0, head0, baseWriter, gens, idx); !fired {
				break
			}
		}
	}
}

type ilvWrite struct {
	term    string
	head    int
	ok      bool
	raw     *treechangeproto.RawTreeChangeWithId
	keyId   int
	opens   []int
	errText string
}

// ilvObserve: what the stored change names and which generations open it.
func (h *hist) ilvObserve(root *treechangeproto.RawTreeChangeWithId, raw *treechangeproto.RawTreeChangeWithId, idx, author int, marker []byte,
	gens []ilvGen, headGen func(head string) (int, int)) ilvWrite {
	var tried []int
	for _, g := range gens {
		tried = append(tried, g.n)
	}
	out := ilvWrite{ok: true, raw: raw, head: 2, opens: []int{}}
	plain := bytes.Contains(raw.RawChange, marker)
	gen := 0
	if ch, err := objecttree.NewChangeBuilder(crypto.NewKeyStorage(), root).Unmarshall(raw, true); err == nil {
		out.keyId = h.W.RidNum(ch.ReadKeyId)
		out.head, gen = headGen(ch.AclHeadId)
		for _, g := range gens {
			kraw, err := g.k.Raw()
			if err != nil {
				continue
			}
			tk, err := crypto.DeriveSymmetricKey(kraw, fmt.Sprintf(crypto.AnysyncTreePath, root.Id))
			if err != nil {
				continue
			}
			if pt, err := safeSymDecrypt(tk, ch.Data); err == nil && bytes.Equal(pt, marker) {
				out.opens = append(out.opens, g.n)
			}
		}
	} else {
		h.w.Stat("ilv_written_change_unreadable")
	}
	out.term = fmt.Sprintf("(mkW %d %d %d %d %s %s %s)", idx, author, gen, out.keyId, vlib.Bool(plain), ints(tried), ints(out.opens))
	return out
}

func ilvMarker(seed, idx uint64, kind string, k, n int) []byte {
	m := []byte(fmt.Sprintf("C05-ILV-PLAINTEXT-%d-%d-%s-%d-%d-", seed, idx, kind, k, n))
	for len(m) < 48 {
		m = append(m, 'z')
	}
	return m
}

// ilvCase: one sub-case.  Returns whether the crossing k was reached (the record was injected during AddContent).
func (h *hist) ilvCase(p *ilvPending, k int, gen0 int, head0 string, baseWriter int, gens []ilvGen, worldIdx uint64) (fired bool) {
	w := h.w
	defer func() {
		if pn := recover(); pn != nil {
			w.Stat("ilv_infra_panic")
			if os.Getenv("C05_DEBUG") != "" {
				fmt.Printf("ILV CASE PANIC %s k=%d: %v\n", p.kind, k, pn)
			}
			fired = false
		}
	}()
	// every account's own validating list at the head before the record
	lists := map[int]list.AclList{}
	for a := 1; a <= nAccounts; a++ {
		l, err := h.buildList(a, true)
		if err != nil {
			w.Stat("ilv_infra_error")
			return false
		}
		lists[a] = l
	}
	dec := &ilvAcl{AclList: lists[p.wr]}
	root, err := objecttree.CreateObjectTreeRoot(objecttree.ObjectTreeCreatePayload{
		PrivKey: h.W.Key(h.owner), ChangeType: "c05-ilv", SpaceId: h.spaceId, IsEncrypted: true,
		Seed: []byte(fmt.Sprintf("ilv-%d-%d-%s-%s-%d", h.seed, worldIdx, p.kind, p.role, k)),
	}, lists[h.owner])
	if err != nil {
		w.Stat("ilv_infra_error")
		return false
	}
	trees := map[int]objecttree.ObjectTree{}
	for a := 1; a <= nAccounts; a++ {
		d, err := acctStore(a)
		if err != nil {
			w.Stat("ilv_infra_error")
			return false
		}
		st, err := objecttree.CreateStorage(ctx, root, d.heads, d.db)
		if err != nil {
			w.Stat("ilv_infra_error")
			return false
		}
		setAddSeq(st)
		var l list.AclList = lists[a]
		if a == p.wr {
			l = dec
		}
		t, err := objecttree.BuildObjectTree(st, l)
		if err != nil {
			w.Stat("ilv_infra_error")
			return false
		}
		trees[a] = t
	}
	markers := map[int][]byte{}
	idxOf := map[string]int{}
	headGen := func(head string) (int, int) {
		switch head {
		case head0:
			return 0, gen0
		case p.rec.Id:
			return 1, p.gen1
		}
		return 2, 0
	}
	content := func(n int, by int) objecttree.SignableChangeContent {
		markers[n] = ilvMarker(h.seed, worldIdx, p.kind, k, n)
		return objecttree.SignableChangeContent{Data: markers[n], Key: h.W.Key(by), ShouldBeEncrypted: true, DataType: "c05"}
	}

	// delivery of stored changes to the other accounts' open trees (one AddRawChanges per receiving tree)
	deliver := func(raws []*treechangeproto.RawTreeChangeWithId, from int, to []int, heads []string) {
		for _, a := range to {
			if a == from {
				continue
			}
			trees[a].Lock()
			_, err := trees[a].AddRawChanges(ctx, objecttree.RawChangesPayload{NewHeads: heads, RawChanges: raws})
			trees[a].Unlock()
			if err != nil {
				w.Stat("ilv_deliver_error")
			}
		}
	}
	addContent := func(by, n int) (objecttree.AddResult, error) {
		trees[by].Lock()
		defer trees[by].Unlock()
		return trees[by].AddContent(ctx, content(n, by))
	}
	var all []int
	for a := 1; a <= nAccounts; a++ {
		all = append(all, a)
	}

	// ---- before the race: one change written at the head before the record; it reaches the racing writer's tree now,
	// the other trees together with the racing change (one storage transaction per tree less)
	var pre []string
	var raws []*treechangeproto.RawTreeChangeWithId
	if res, err := addContent(baseWriter, 1); err == nil && len(res.Added) == 1 {
		raw := res.Added[0].RawTreeChangeWithId()
		idxOf[raw.Id] = 1
		ob := h.ilvObserve(root, raw, 1, baseWriter, markers[1], gens, headGen)
		pre = append(pre, fmt.Sprintf("(mkRound [%s] [])", ob.term))
		deliver([]*treechangeproto.RawTreeChangeWithId{raw}, baseWriter, []int{p.wr}, trees[baseWriter].Heads())
		raws = append(raws, raw)
	} else {
		w.Stat("ilv_base_write_failed")
		pre = append(pre, fmt.Sprintf("(mkRound [(mkW 1 %d %d 0 false [] [])] [])", baseWriter, gen0))
	}

	// ---- the race
	addTo := func(l list.AclList) error {
		if tl, ok := l.(interface{ TryLock() bool }); ok {
			if !tl.TryLock() {
				// the writer still holds the ACL lock at a point counted as a crossing: an error of this harness
				w.Stat("ilv_HARNESS_ERROR_injection_while_lock_held")
				return fmt.Errorf("acl lock held")
			}
		} else {
			l.Lock()
		}
		err, _ := safeAdd(l, p.rec)
		l.Unlock()
		return err
	}
	var injErr error
	dec.at, dec.inject = k, func() { injErr = addTo(lists[p.wr]) }
	headsBefore := append([]string(nil), trees[p.wr].Heads()...)
	dec.armed = true
	res, werr := addContent(p.wr, 2)
	dec.armed = false
	fired = dec.fired
	if dec.depth != 0 {
		w.Stat("ilv_acl_lock_left_held")
	}
	if dec.nested > 0 {
		w.Stat("ilv_nested_acl_lock")
	}
	w.Stat(fmt.Sprintf("ilv_crossings_seen_%s", string(dec.events)))
	for a := 1; a <= nAccounts; a++ {
		if a == p.wr && fired {
			continue
		}
		if err := addTo(lists[a]); err != nil {
			w.Stat("ilv_list_rejected_pending")
		}
	}
	if injErr != nil {
		w.Stat("ilv_injected_record_rejected")
	}
	writeTerm, retryTerm, head := "None", "None", 2
	outcome := "fail"
	if werr == nil && len(res.Added) == 1 {
		raw := res.Added[0].RawTreeChangeWithId()
		idxOf[raw.Id] = 2
		ob := h.ilvObserve(root, raw, 2, p.wr, markers[2], gens, headGen)
		writeTerm, head = "(Some "+ob.term+")", ob.head
		outcome = []string{"before", "after", "otherhead"}[ob.head]
		raws = append(raws, raw)
	} else {
		errText := "nothing-added"
		if werr != nil {
			errText = werr.Error()
		}
		w.Stat("ilv_write_failed_" + errText)
		hs := trees[p.wr].Heads()
		if len(hs) != len(headsBefore) || (len(hs) > 0 && hs[0] != headsBefore[0]) {
			w.Stat("ilv_failed_write_changed_heads")
		}
		if p.can1 {
			// sequential write of the same account after the record
			if res2, err := addContent(p.wr, 3); err == nil && len(res2.Added) == 1 {
				raw := res2.Added[0].RawTreeChangeWithId()
				idxOf[raw.Id] = 3
				ob := h.ilvObserve(root, raw, 3, p.wr, markers[3], gens, headGen)
				retryTerm = "(Some " + ob.term + ")"
				raws = append(raws, raw)
			} else {
				w.Stat("ilv_retry_failed")
			}
		}
	}
	// every other tree receives everything it has not got yet (the base writer's tree knows change 1, the racing
	// writer's tree wrote the rest itself)
	for _, a := range all {
		var miss []*treechangeproto.RawTreeChangeWithId
		for _, raw := range raws {
			n := idxOf[raw.Id]
			if (n == 1 && (a == baseWriter || a == p.wr)) || (n != 1 && a == p.wr) {
				continue
			}
			miss = append(miss, raw)
		}
		if len(miss) > 0 {
			deliver(miss, 0, []int{a}, trees[p.wr].Heads())
		}
	}

	// ---- readings: every account through its open tree; the writer and the accounts the record affects through a fresh one
	readAll := func(t objecttree.ObjectTree) (ok bool, got []int) {
		defer func() {
			if pn := recover(); pn != nil {
				ok = false
			}
		}()
		err := t.IterateRoot(func(ch *objecttree.Change, decrypted []byte) (any, error) {
			return string(decrypted), nil
		}, func(ch *objecttree.Change) bool {
			if n, known := idxOf[ch.Id]; known {
				if s, isStr := ch.Model.(string); isStr && s == string(markers[n]) {
					got = append(got, n)
				}
			}
			return true
		})
		sort.Ints(got)
		return err == nil, got
	}
	var readers []string
	for a := 1; a <= nAccounts; a++ {
		ok, got := readAll(trees[a])
		fresh := "None"
		if a == p.wr || p.perm0[a] != p.perm1[a] {
			d := acctDBs[a]
			if st, err := objecttree.NewStorage(ctx, root.Id, d.heads, d.db); err == nil {
				setAddSeq(st)
				if ft, err := objecttree.BuildObjectTree(st, lists[a]); err == nil {
					fok, fgot := readAll(ft)
					fresh = fmt.Sprintf("(Some (%s, %s))", vlib.Bool(fok), ints(fgot))
				} else {
					fresh = "(Some (false, []))"
					w.Stat("ilv_fresh_build_error")
				}
			} else {
				w.Stat("ilv_infra_error")
			}
		}
		var held []int
		for id, kk := range lists[a].AclState().Keys() {
			if kk.ReadKey != nil {
				held = append(held, h.W.RidNum(id))
			}
		}
		sort.Ints(held)
		readers = append(readers, fmt.Sprintf("(mkR %d %d %s %s %s %s)", a, p.perm1[a], ints(held), vlib.Bool(ok), ints(got), fresh))
	}
	term := fmt.Sprintf("(CIlv (mkI %d %d %s %d %d %s %s %d %s %s %s %s))", p.code, k, vlib.Bool(fired), gen0, p.gen1,
		vlib.Bool(p.can0), vlib.Bool(p.can1), head, writeTerm, retryTerm, vlib.List(pre), vlib.List(readers))
	d := ilvDesc{Kind: "ilv", Seed: h.seed, Idx: worldIdx, Tier: h.tier, Rec: p.kind, Role: p.role, K: k,
		Info: fmt.Sprintf("writer %d (perm %d->%d) owner %d; record %d %s; generation %d->%d; crossings seen %q; outcome %s",
			p.wr, p.perm0[p.wr], p.perm1[p.wr], h.owner, p.num, p.kind, gen0, p.gen1, string(dec.events), outcome)}
	// non-trivial: the record really landed inside the AddContent call
	w.Add(term, d, fmt.Sprintf("ilv/%d/%d/%s/%s/%d/%s", h.seed, worldIdx, p.kind, p.role, k, term), fired)
	w.Stat("ilv_cases")
	w.Stat("ilv_kind_" + p.kind)
	w.Stat("ilv_role_" + p.role)
	w.Stat(fmt.Sprintf("ilv_k_%02d_fired_%v", k, fired))
	w.Stat(fmt.Sprintf("ilv_outcome_%s_fired_%v", outcome, fired))
	if p.gen1 != gen0 {
		w.Stat("ilv_cases_rotating_record")
	}
	return fired
}
