// C05 harness — read keys.  Drives the REAL ACL record builders / validating lists over random membership
// histories, decrypts every key-carrying ciphertext of every record with the private keys it holds, rebuilds every
// account's private key view from the raw log after every record, and probes encrypted tree content.
// One history = one CHist case; tree probes = CTree cases.
package main

import (
	"encoding/json"
	"fmt"
	"os"
	"runtime/pprof"

	"verifharness/vlib"
)

const rule = "history case: >= 1 accepted read-key rotation AND >= 1 accepted admission (add / accept / invite-join) in the history; tree case: always (encrypted change built with the real tree and read back by every in-sync account); open case (one per history: every account keeps ONE open production tree for the whole history, writers write through it after every accepted record, everybody reads): >= 1 rotation AND >= 1 admission in the history; interleaving case (one encrypted AddContent through an open production tree with ONE pending ACL record applied to the writer's ACL list at crossing k of the ACL lock): the crossing was reached, i.e. the record landed inside the AddContent call"

type caseDesc struct {
	Kind    string   `json:"kind"`
	Seed    uint64   `json:"seed"`
	Idx     uint64   `json:"idx"`
	NoProbe bool     `json:"noprobe"`
	Tier    string   `json:"tier,omitempty"`
	At      int      `json:"at,omitempty"`
	Tags    []string `json:"tags,omitempty"`
	// interleaving cases (ilv.go)
	Rec  string `json:"rec,omitempty"`
	Role string `json:"role,omitempty"`
	K    int    `json:"k,omitempty"`
}

func main() {
	o := vlib.ParseFlags()
	vlib.Quiet()
	if pf := os.Getenv("C05_CPUPROFILE"); pf != "" { // development aid
		if f, err := os.Create(pf); err == nil {
			_ = pprof.StartCPUProfile(f)
			defer pprof.StopCPUProfile()
		}
	}
	w := vlib.NewWriter(o.Out, "C05_run", 40)
	var samples []interface{}

	run := func(seed, idx uint64, noProbe bool) {
		h := newHist(w, seed, idx, noProbe, o.Tier)
		h.run()
		if len(samples) < 3 && h.histDesc != nil {
			samples = append(samples, h.histDesc)
		}
	}

	if o.Replay != "" {
		type key struct {
			s, i uint64
			np   bool
		}
		seen := map[key]bool{}
		type wkey struct{ s, i uint64 }
		ilvSels := map[wkey][]ilvSel{}
		var ilvOrder []wkey
		for _, raw := range vlib.ReadReplay(o.Replay) {
			var d caseDesc
			if err := json.Unmarshal(raw, &d); err == nil && d.Kind == "ilv" {
				wk := wkey{d.Seed, d.Idx}
				if _, ok := ilvSels[wk]; !ok {
					ilvOrder = append(ilvOrder, wk)
				}
				dup := false
				for _, s := range ilvSels[wk] {
					dup = dup || s == ilvSel{d.Rec, d.Role, d.K}
				}
				if !dup {
					ilvSels[wk] = append(ilvSels[wk], ilvSel{d.Rec, d.Role, d.K})
				}
				continue
			}
			if err := json.Unmarshal(raw, &d); err != nil || (d.Kind != "hist" && d.Kind != "tree" && d.Kind != "open") {
				w.Stat("replay_unreadable_desc")
				continue
			}
			k := key{d.Seed, d.Idx, d.NoProbe}
			if seen[k] {
				continue
			}
			seen[k] = true
			run(d.Seed, d.Idx, d.NoProbe)
		}
		for _, wk := range ilvOrder {
			runIlvWorld(w, wk.s, wk.i, o.Tier, ilvSels[wk])
		}
	} else {
		n := 60
		if o.Tier == "thorough" {
			n = 1500
		}
		if o.Budget > 1 {
			n *= o.Budget
		}
		if os.Getenv("C05_ILV_ONLY") != "" { // development aid: only the interleaving worlds
			n = 0
		}
		for i := 0; i < n; i++ {
			run(o.Seed, uint64(i), false)
		}
		// controlled interleavings of one tree write with one pending ACL record (ilv.go)
		nw := 2
		if o.Tier == "thorough" {
			nw = 25
		}
		if o.Budget > 1 {
			nw *= o.Budget
		}
		for i := 0; i < nw; i++ {
			runIlvWorld(w, o.Seed, uint64(i), o.Tier, nil)
		}
	}
	closeAcctStores()
	w.Finish(rule, samples, nil)
	fmt.Printf("c05: %d cases, %d nontrivial, %d direct violations\n", w.Count(), w.NonTrivial, len(w.Direct))
}
