// C05 harness — read keys.  Drives the REAL ACL record builders / validating lists over random membership
// histories, decrypts every key-carrying ciphertext of every record with the private keys it holds, rebuilds every
// account's private key view from the raw log after every record, and probes encrypted tree content.
// One history = one CHist case; tree probes = CTree cases.
package main

import (
	"encoding/json"
	"fmt"

	"verifharness/vlib"
)

const rule = "history case: >= 1 accepted read-key rotation AND >= 1 accepted admission (add / accept / invite-join) in the history; tree case: always (encrypted change built with the real tree and read back by every in-sync account); open case (one per history: every account keeps ONE open production tree for the whole history, writers write through it after every accepted record, everybody reads): >= 1 rotation AND >= 1 admission in the history"

type caseDesc struct {
	Kind    string   `json:"kind"`
	Seed    uint64   `json:"seed"`
	Idx     uint64   `json:"idx"`
	NoProbe bool     `json:"noprobe"`
	Tier    string   `json:"tier,omitempty"`
	At      int      `json:"at,omitempty"`
	Tags    []string `json:"tags,omitempty"`
}

func main() {
	o := vlib.ParseFlags()
	vlib.Quiet()
	w := vlib.NewWriter(o.Out, "C05_run", 40)
	var samples []interface{}

	run := func(seed, idx uint64, noProbe bool) {
		h := newHist(w, seed, idx, noProbe, o.Tier)
		h.run()
		if len(samples) < 3 && h.histDesc != nil {
			samples = append(samples, h.histDesc)
		}
	}

	if o.Replay != "" {
		type key struct {
			s, i uint64
			np   bool
		}
		seen := map[key]bool{}
		for _, raw := range vlib.ReadReplay(o.Replay) {
			var d caseDesc
			if err := json.Unmarshal(raw, &d); err != nil || (d.Kind != "hist" && d.Kind != "tree" && d.Kind != "open") {
				w.Stat("replay_unreadable_desc")
				continue
			}
			k := key{d.Seed, d.Idx, d.NoProbe}
			if seen[k] {
				continue
			}
			seen[k] = true
			run(d.Seed, d.Idx, d.NoProbe)
		}
	} else {
		n := 60
		if o.Tier == "thorough" {
			n = 1500
		}
		if o.Budget > 1 {
			n *= o.Budget
		}
		for i := 0; i < n; i++ {
			run(o.Seed, uint64(i), false)
		}
	}
	closeAcctStores()
	w.Finish(rule, samples, nil)
	fmt.Printf("c05: %d cases, %d nontrivial, %d direct violations\n", w.Count(), w.NonTrivial, len(w.Direct))
}
