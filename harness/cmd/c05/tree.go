package main

// Tree probes: an encrypted change is built by the real object tree over a member's real ACL list, and read back
// (IterateRoot) by every account whose list is in sync.

import (
	"bytes"
	"context"
	"fmt"
	"os"
	"path/filepath"
	"strings"
	"sync/atomic"

	anystore "github.com/anyproto/any-store"

	"github.com/anyproto/any-sync/commonspace/headsync/headstorage"
	"github.com/anyproto/any-sync/commonspace/object/acl/list"
	"github.com/anyproto/any-sync/commonspace/object/tree/objecttree"
	"github.com/anyproto/any-sync/util/crypto"

	"verifharness/cmd/c04/aclh"
	"verifharness/vlib"
)

var ctx = context.Background()

func (h *hist) openDB() error {
	if h.db != nil {
		return nil
	}
	dir, err := os.MkdirTemp("", "verif_c05_")
	if err != nil {
		return err
	}
	db, err := anystore.Open(ctx, filepath.Join(dir, "changes.db"), nil)
	if err != nil {
		_ = os.RemoveAll(dir)
		return err
	}
	coll, err := db.Collection(ctx, objecttree.CollName)
	if err == nil {
		err = coll.EnsureIndex(ctx, anystore.IndexInfo{Fields: []string{objecttree.TreeKey, objecttree.OrderKey}, Unique: true})
	}
	var heads headstorage.HeadStorage
	if err == nil {
		heads, err = headstorage.New(ctx, db)
	}
	if err != nil {
		_ = db.Close()
		_ = os.RemoveAll(dir)
		return err
	}
	h.dir, h.db, h.heads = dir, db, heads
	return nil
}

func (h *hist) closeDB() {
	if h.db != nil {
		_ = h.db.Close()
		_ = os.RemoveAll(h.dir)
		h.db = nil
	}
}

func setAddSeq(st objecttree.Storage) {
	if s, ok := st.(interface{ SetAddSeq(*atomic.Uint64) }); ok {
		s.SetAddSeq(&atomic.Uint64{})
	}
}

// readBack: does account a's tree over the same storage hand the plaintext to the converter?
func (h *hist) readBack(rootId string, l list.AclList, marker []byte) (got bool) {
	defer func() {
		if p := recover(); p != nil {
			h.w.Stat("tree_reader_panic")
			got = false
		}
	}()
	st, err := objecttree.NewStorage(ctx, rootId, h.heads, h.db)
	if err != nil {
		h.w.Stat("tree_reader_storage_error")
		return false
	}
	setAddSeq(st)
	t, err := objecttree.BuildObjectTree(st, l)
	if err != nil {
		h.w.Stat("tree_reader_build_error")
		return false
	}
	seen := false
	err = t.IterateRoot(func(ch *objecttree.Change, decrypted []byte) (any, error) {
		if bytes.Equal(decrypted, marker) {
			seen = true
		}
		return struct{}{}, nil
	}, func(ch *objecttree.Change) bool { return true })
	if err != nil {
		return false
	}
	return seen
}

// treeProbe emits one CTree case for the current state (st = dump of the reference state).
func (h *hist) treeProbe(st aclh.State) {
	w := h.w
	defer func() {
		if p := recover(); p != nil {
			w.Stat("tree_infra_error")
			w.Stat("tree_infra_panic")
			if os.Getenv("C05_DEBUG") != "" {
				fmt.Printf("TREE PANIC: %v\n", p)
			}
		}
	}()
	v := view{st}
	writers := v.filter(func(a int) bool { p := v.perm(a); return p >= 1 && p <= 3 && h.actors[a].synced })
	if len(writers) == 0 {
		w.Stat("tree_no_writer")
		return
	}
	wr := h.pick(writers)
	al := h.actors[wr].l
	if err := h.openDB(); err != nil {
		w.Stat("tree_infra_error")
		return
	}
	h.nTree++
	marker := []byte(fmt.Sprintf("C05-PLAINTEXT-MARKER-%d-%d-", h.idx, h.nTree))
	for len(marker) < 32 {
		marker = append(marker, 'x')
	}
	root, err := objecttree.CreateObjectTreeRoot(objecttree.ObjectTreeCreatePayload{
		PrivKey: h.W.Key(wr), ChangeType: "c05", SpaceId: h.spaceId, IsEncrypted: true,
		Seed: []byte(fmt.Sprintf("seed-%d-%d-%d", h.seed, h.idx, h.nTree)),
	}, al)
	if err != nil {
		w.Stat("tree_infra_error")
		return
	}
	storage, err := objecttree.CreateStorage(ctx, root, h.heads, h.db)
	if err != nil {
		w.Stat("tree_infra_error")
		return
	}
	setAddSeq(storage)
	tree, err := objecttree.BuildObjectTree(storage, al)
	if err != nil {
		w.Stat("tree_infra_error")
		return
	}
	res, err := tree.AddContent(ctx, objecttree.SignableChangeContent{Data: marker, Key: h.W.Key(wr), ShouldBeEncrypted: true, DataType: "c05"})
	if err != nil || len(res.Added) == 0 {
		// a writer that holds no current read key (possible after an accepted perm_nonmember) cannot encrypt
		w.Stat("tree_add_failed")
		if err != nil {
			w.Stat("tree_add_failed_" + strings.ReplaceAll(err.Error(), " ", "_"))
		}
		return
	}
	added := res.Added[0]
	gen := h.W.RidNum(al.AclState().CurrentReadKeyId())
	keyId := -1
	if ch, err := tree.GetChange(added.Id); err == nil && ch != nil {
		keyId = h.W.RidNum(ch.ReadKeyId)
	} else {
		w.Stat("tree_infra_error")
		return
	}
	stored, err := storage.Get(ctx, added.Id)
	if err != nil {
		w.Stat("tree_infra_error")
		return
	}
	plainStore := bytes.Contains(stored.RawChange, marker)
	plainWire := bytes.Contains(added.RawTreeChangeWithId().RawChange, marker)

	var readers []string
	for a := 1; a <= nAccounts; a++ {
		ac := h.actors[a]
		if !ac.synced {
			continue
		}
		as := ac.l.AclState()
		k, ok := as.Keys()[as.CurrentReadKeyId()]
		holds := ok && k.ReadKey != nil
		got := h.readBack(root.Id, ac.l, marker)
		readers = append(readers, fmt.Sprintf("(%d, %s, %s)", a, vlib.Bool(holds), vlib.Bool(got)))
		w.Stat(fmt.Sprintf("tree_reader_holds_%v_got_%v", holds, got))
	}

	_, _, berr := objecttree.NewChangeBuilder(crypto.NewKeyStorage(), root).Build(objecttree.BuilderContent{
		TreeHeadIds: []string{root.Id}, AclHeadId: al.Head().Id, SnapshotBaseId: root.Id, PrivKey: h.W.Key(wr),
		Content: marker, Unencrypted: false, ReadKey: nil,
	})
	nokey := berr == objecttree.ErrMissingEncryptKey

	term := fmt.Sprintf("(CTree (mkTobs %d %d %s %s %s %s))", gen, keyId, vlib.Bool(plainStore), vlib.Bool(plainWire), vlib.List(readers), vlib.Bool(nokey))
	d := caseDesc{Kind: "tree", Seed: h.seed, Idx: h.idx, NoProbe: h.noProbe, Tier: h.tier, At: len(h.steps)}
	w.Add(term, d, fmt.Sprintf("%d/%d/%d/%s", h.seed, h.idx, h.nTree, term), true)
	w.Stat("tree_cases")
}
