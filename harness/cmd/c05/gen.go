package main

// History generation with the REAL record builders (one validating list per account), reference list, decoding of
// the key payloads, per-account views rebuilt from the raw log.

import (
	"fmt"
	"os"
	"runtime/debug"
	"sort"
	"strings"

	anystore "github.com/anyproto/any-store"

	"github.com/anyproto/any-sync/commonspace/headsync/headstorage"
	"github.com/anyproto/any-sync/commonspace/object/acl/aclrecordproto"
	"github.com/anyproto/any-sync/commonspace/object/acl/list"
	"github.com/anyproto/any-sync/commonspace/object/acl/recordverifier"
	"github.com/anyproto/any-sync/consensus/consensusproto"
	"github.com/anyproto/any-sync/util/crypto"

	"verifharness/cmd/c04/aclh"
	"verifharness/vlib"
)

const (
	worldSeed    = 5050
	nAccounts    = 6
	netKeyNum    = 950
	masterKeyNum = 901
	probeTag     = "C05-permchange-nonmember"
)

type RawRec = consensusproto.RawRecordWithId

type actor struct {
	l      list.AclList
	synced bool
}

type attempt struct {
	kind     string
	actor    int
	keys     []crypto.SymKey // fresh read keys handed to the builder for this record's rotation
	build    func(b list.AclRecordBuilder) (*consensusproto.RawRecord, error)
	fallback []aclh.C // hand-assembled contents when the builder refuses (probe only)
}

var rotationKinds = map[string]bool{"rk": true, "remove": true, "revoke_rotate": true, "batch_remove_add": true}
var admissionKinds = map[string]bool{"add": true, "readd": true, "accept": true, "ijoin": true, "batch_remove_add": true}

type hist struct {
	w       *vlib.Writer
	r       *vlib.Rand
	seed    uint64
	idx     uint64
	noProbe bool
	tier    string

	W       *aclh.World
	owner   int
	spaceId string
	netKey  crypto.PrivKey
	netId   []byte
	root    *RawRec
	ref     list.AclList
	actors  map[int]*actor
	log     []*RawRec // root + records accepted by the reference list
	gen     map[string]int
	known   []crypto.SymKey
	invKeys map[int]crypto.PrivKey
	nsub    int // submitted records (accepted or not)

	probe       bool // this history may contain perm_nonmember
	probed      int
	probeOK     bool
	removedOnce bool
	nRot, nAdm  int
	midTrees    int
	steps       []string
	histDesc    *caseDesc

	// tree infrastructure (lazily opened, one DB per history)
	dir   string
	db    anystore.DB
	heads headstorage.HeadStorage
	nTree int

	// long-lived open trees of all accounts (open.go)
	open   *openTrees
	noOpen bool // interleaving worlds (ilv.go) build their own trees per sub-case
}

func newHist(w *vlib.Writer, seed, idx uint64, noProbe bool, tier string) *hist {
	return &hist{w: w, r: vlib.NewRand(seed).Fork(idx), seed: seed, idx: idx, noProbe: noProbe, tier: tier}
}

func newChange() list.ReadKeyChangePayload {
	mk, _, err := crypto.GenerateRandomEd25519KeyPair()
	if err != nil {
		panic(err)
	}
	return list.ReadKeyChangePayload{MetadataKey: mk, ReadKey: crypto.NewAES()}
}

func (h *hist) regKey(k crypto.SymKey, n int) {
	raw, err := k.Raw()
	if err != nil {
		panic(err)
	}
	h.gen[string(raw)] = n
	h.known = append(h.known, k)
}

func (h *hist) regInvite(k crypto.PrivKey) {
	if k == nil {
		return
	}
	n := h.W.RegisterPub(k.GetPublic())
	h.invKeys[n] = k
}

func (h *hist) consensus(raw *consensusproto.RawRecord) *RawRec {
	raw.AcceptorIdentity = h.netId
	sig, err := h.netKey.Sign(raw.Payload)
	if err != nil {
		panic(err)
	}
	raw.AcceptorSignature = sig
	raw.AcceptorTimestamp = 1700000100
	return aclh.WithId(raw)
}

func (h *hist) buildList(a int, full bool) (l list.AclList, err error) {
	defer func() {
		if p := recover(); p != nil {
			err = fmt.Errorf("PANIC in build: %v", p)
		}
	}()
	st, err := list.NewInMemoryStorage(h.root.Id, append([]*RawRec(nil), h.log...))
	if err != nil {
		return nil, err
	}
	var v recordverifier.AcceptorVerifier
	if full {
		v = recordverifier.NewValidateFull()
	} else {
		v = recordverifier.New(h.netKey.GetPublic())
	}
	return list.BuildAclListWithIdentity(h.W.AccountKeys(a), st, v)
}

func safeAdd(l list.AclList, rec *RawRec) (err error, panicked interface{}) {
	defer func() {
		if p := recover(); p != nil {
			panicked = p
			err = fmt.Errorf("PANIC: %v", p)
		}
	}()
	err = l.AddRawRecord(rec)
	return
}

func (h *hist) setup() {
	r := h.r
	h.W = aclh.NewWorld(worldSeed)
	h.owner = 1 + r.Intn(nAccounts)
	h.probe = r.Chance(1, 4) && !h.noProbe
	h.netKey = h.W.Key(netKeyNum)
	h.netId, _ = h.netKey.GetPublic().Marshall()
	h.invKeys = map[int]crypto.PrivKey{}
	h.gen = map[string]int{}
	h.actors = map[int]*actor{}
	h.spaceId = fmt.Sprintf("space-c05-%d-%d", h.seed, h.idx)

	rootKey := crypto.NewAES()
	b := list.NewAclRecordBuilder("", crypto.NewKeyStorage(), h.W.AccountKeys(h.owner), recordverifier.NewValidateFull())
	root, err := b.BuildRoot(list.RootContent{
		PrivKey:   h.W.Key(h.owner),
		MasterKey: h.W.Key(masterKeyNum),
		SpaceId:   h.spaceId,
		Change:    list.ReadKeyChangePayload{MetadataKey: h.W.MetaKey, ReadKey: rootKey},
		Metadata:  []byte("owner"),
	})
	if err != nil {
		panic(err)
	}
	h.root = root
	h.W.Bind(1, root.Id)
	h.regKey(rootKey, 1)
	h.log = []*RawRec{root}
	for a := 1; a <= nAccounts; a++ {
		l, err := h.buildList(a, true)
		if err != nil {
			panic(fmt.Sprintf("actor list %d: %v", a, err))
		}
		h.actors[a] = &actor{l: l, synced: true}
	}
	h.ref, err = h.buildList(aclh.Observer, true)
	if err != nil {
		panic(err)
	}
	if !h.noOpen {
		h.openSetup()
	}
}

// ---------------------------------------------------------------- state helpers

type view struct{ st aclh.State }

func (v view) acc(a int) *aclh.Acc {
	for i := range v.st.Accs {
		if v.st.Accs[i].Id == a {
			return &v.st.Accs[i]
		}
	}
	return nil
}
func (v view) perm(a int) int {
	if x := v.acc(a); x != nil {
		return x.Perm
	}
	return 0
}
func (v view) pending(a int) bool {
	for _, p := range v.st.Pend {
		if p[0] == a {
			return true
		}
	}
	return false
}
func (v view) wasMember(a int) bool {
	x := v.acc(a)
	if x == nil {
		return false
	}
	for _, e := range x.Hist {
		if e[1] != 0 {
			return true
		}
	}
	return false
}
func (v view) filter(f func(a int) bool) []int {
	var out []int
	for a := 1; a <= nAccounts; a++ {
		if f(a) {
			out = append(out, a)
		}
	}
	return out
}

func (h *hist) pick(l []int) int {
	if len(l) == 0 {
		return 0
	}
	return l[h.r.Intn(len(l))]
}

func (h *hist) pub(a int) crypto.PubKey { return h.W.Pub(a) }

var opKinds = []string{"invite", "invite_anyone", "invite_anyone", "rjoin", "rjoin", "accept", "accept", "decline", "ijoin", "ijoin", "add", "add",
	"remove", "remove", "rremove", "revoke", "revoke_rotate", "rk", "rk", "readd", "readd", "perm", "batch_remove_add"}

// choose returns the next attempt (nil = the drawn operation is not feasible in this state).
func (h *hist) choose(v view) *attempt {
	r := h.r
	// the only managers these histories create are owners (granted permissions are Writer / Reader)
	mgrs := v.filter(func(a int) bool { p := v.perm(a); return (p == 1 || p == 2) && h.actors[a].synced })
	mgr := h.pick(mgrs)
	members := v.filter(func(a int) bool { return v.perm(a) != 0 })
	removable := v.filter(func(a int) bool { p := v.perm(a); return p != 0 && p != 1 && a != mgr })
	outsiders := v.filter(func(a int) bool { return v.perm(a) == 0 && !v.pending(a) })
	var joinReqs, removeReqs []aclh.Req
	for _, q := range v.st.Reqs {
		if q.Ident < 1 || q.Ident > nAccounts {
			continue
		}
		if q.Type == 1 && v.perm(q.Ident) == 0 {
			joinReqs = append(joinReqs, q)
		}
		if q.Type != 1 && v.perm(q.Ident) != 0 && v.perm(q.Ident) != 1 {
			removeReqs = append(removeReqs, q)
		}
	}
	invsOf := func(ty int, needKey bool) []aclh.Inv {
		var out []aclh.Inv
		for _, i := range v.st.Invs {
			if (ty < 0 || i.Type == ty) && (!needKey || h.invKeys[i.Key] != nil) {
				out = append(out, i)
			}
		}
		return out
	}
	nonMembersInTable := v.filter(func(a int) bool { return v.acc(a) != nil && v.perm(a) == 0 && a != mgr })

	kind := opKinds[r.Intn(len(opKinds))]
	forcedTarget := 0
	switch {
	case len(removeReqs) > 0 && r.Chance(2, 3):
		kind, forcedTarget = "remove", removeReqs[r.Intn(len(removeReqs))].Ident
	case h.probe && h.probed == 0 && h.removedOnce && len(nonMembersInTable) > 0 && r.Chance(1, 2):
		kind = "perm_nonmember"
	case h.probe && h.probed == 0 && !h.removedOnce && len(removable) > 0 && r.Chance(1, 2):
		kind = "remove"
	case h.probe && h.probed == 0 && len(members) < 2 && r.Chance(1, 2):
		kind = "add"
	case h.probed > 0 && r.Chance(1, 3):
		kind = []string{"rk", "remove", "rk"}[r.Intn(3)]
	case len(joinReqs) > 0 && r.Chance(1, 3):
		kind = []string{"accept", "accept", "decline"}[r.Intn(3)]
	case r.Chance(1, 20):
		kind = "hostile"
	}

	switch kind {
	case "invite":
		if mgr == 0 {
			return nil
		}
		return &attempt{kind: kind, actor: mgr, build: func(b list.AclRecordBuilder) (*consensusproto.RawRecord, error) {
			res, err := b.BuildInvite()
			h.regInvite(res.InviteKey)
			return res.InviteRec, err
		}}
	case "invite_anyone":
		if mgr == 0 {
			return nil
		}
		p := []int{4, 3}[r.Intn(2)]
		return &attempt{kind: kind, actor: mgr, build: func(b list.AclRecordBuilder) (*consensusproto.RawRecord, error) {
			res, err := b.BuildInviteAnyone(list.AclPermissions(p))
			h.regInvite(res.InviteKey)
			return res.InviteRec, err
		}}
	case "rjoin":
		cands := v.filter(func(a int) bool { return v.perm(a) == 0 && !v.pending(a) && h.actors[a].synced })
		invs := invsOf(0, true)
		if len(cands) == 0 || len(invs) == 0 {
			return nil
		}
		act, inv := h.pick(cands), invs[r.Intn(len(invs))]
		meta := []byte(fmt.Sprintf("join-%d", act))
		return &attempt{kind: kind, actor: act, build: func(b list.AclRecordBuilder) (*consensusproto.RawRecord, error) {
			return b.BuildRequestJoin(list.RequestJoinPayload{InviteKey: h.invKeys[inv.Key], Metadata: meta})
		}}
	case "accept":
		if mgr == 0 || len(joinReqs) == 0 {
			return nil
		}
		q, p := joinReqs[r.Intn(len(joinReqs))], []int{3, 4}[r.Intn(2)]
		return &attempt{kind: kind, actor: mgr, build: func(b list.AclRecordBuilder) (*consensusproto.RawRecord, error) {
			return b.BuildRequestAccept(list.RequestAcceptPayload{RequestRecordId: h.W.Rid(q.Rid), Permissions: list.AclPermissions(p)})
		}}
	case "decline":
		if mgr == 0 || len(joinReqs) == 0 {
			return nil
		}
		q := joinReqs[r.Intn(len(joinReqs))]
		return &attempt{kind: kind, actor: mgr, build: func(b list.AclRecordBuilder) (*consensusproto.RawRecord, error) {
			return b.BuildRequestDecline(h.W.Rid(q.Rid))
		}}
	case "ijoin":
		cands := v.filter(func(a int) bool { return v.perm(a) == 0 && !v.pending(a) && h.actors[a].synced })
		invs := invsOf(1, true)
		if len(cands) == 0 || len(invs) == 0 {
			return nil
		}
		act, inv := h.pick(cands), invs[r.Intn(len(invs))]
		p := 0
		if r.Bool() {
			p = 4
			if inv.Perm == 3 && r.Bool() {
				p = 3
			}
		}
		meta := []byte(fmt.Sprintf("ijoin-%d", act))
		return &attempt{kind: kind, actor: act, build: func(b list.AclRecordBuilder) (*consensusproto.RawRecord, error) {
			return b.BuildInviteJoinWithoutApprove(list.InviteJoinPayload{InviteKey: h.invKeys[inv.Key], Permissions: list.AclPermissions(p), Metadata: meta})
		}}
	case "add", "readd":
		cands := outsiders
		if kind == "readd" {
			cands = v.filter(func(a int) bool { return v.perm(a) == 0 && !v.pending(a) && v.wasMember(a) })
		}
		if mgr == 0 || len(cands) == 0 {
			return nil
		}
		var adds []list.AccountAdd
		pm := r.Perm(len(cands))
		n := 1 + r.Intn(2)
		for i := 0; i < n && i < len(cands); i++ {
			a := cands[pm[i]]
			adds = append(adds, list.AccountAdd{Identity: h.pub(a), Permissions: list.AclPermissions([]int{3, 4}[r.Intn(2)]), Metadata: []byte(fmt.Sprintf("added-%d", a))})
		}
		return &attempt{kind: kind, actor: mgr, build: func(b list.AclRecordBuilder) (*consensusproto.RawRecord, error) {
			return b.BuildAccountsAdd(list.AccountsAddPayload{Additions: adds})
		}}
	case "remove":
		if mgr == 0 || len(removable) == 0 {
			return nil
		}
		var ids []crypto.PubKey
		if forcedTarget != 0 && forcedTarget != mgr {
			ids = append(ids, h.pub(forcedTarget))
		} else {
			pm := r.Perm(len(removable))
			n := 1 + r.Intn(2)
			for i := 0; i < n && i < len(removable); i++ {
				ids = append(ids, h.pub(removable[pm[i]]))
			}
		}
		ch := newChange()
		return &attempt{kind: kind, actor: mgr, keys: []crypto.SymKey{ch.ReadKey}, build: func(b list.AclRecordBuilder) (*consensusproto.RawRecord, error) {
			return b.BuildAccountRemove(list.AccountRemovePayload{Identities: ids, Change: ch})
		}}
	case "rremove":
		cands := v.filter(func(a int) bool { p := v.perm(a); return p != 0 && p != 1 && !v.pending(a) && h.actors[a].synced })
		if len(cands) == 0 {
			return nil
		}
		return &attempt{kind: kind, actor: h.pick(cands), build: func(b list.AclRecordBuilder) (*consensusproto.RawRecord, error) {
			return b.BuildRequestRemove()
		}}
	case "revoke":
		if mgr == 0 || len(v.st.Invs) == 0 {
			return nil
		}
		i := v.st.Invs[r.Intn(len(v.st.Invs))]
		return &attempt{kind: kind, actor: mgr, build: func(b list.AclRecordBuilder) (*consensusproto.RawRecord, error) {
			return b.BuildInviteRevoke(h.W.Rid(i.Rid))
		}}
	case "revoke_rotate":
		if mgr == 0 || len(v.st.Invs) == 0 {
			return nil
		}
		i := v.st.Invs[r.Intn(len(v.st.Invs))]
		ch := newChange()
		return &attempt{kind: kind, actor: mgr, keys: []crypto.SymKey{ch.ReadKey}, build: func(b list.AclRecordBuilder) (*consensusproto.RawRecord, error) {
			res, err := b.BuildBatchRequest(list.BatchRequestPayload{InviteRevokes: []string{h.W.Rid(i.Rid)}, ReadKeyChange: &ch})
			return res.Rec, err
		}}
	case "rk":
		if mgr == 0 {
			return nil
		}
		ch := newChange()
		return &attempt{kind: kind, actor: mgr, keys: []crypto.SymKey{ch.ReadKey}, build: func(b list.AclRecordBuilder) (*consensusproto.RawRecord, error) {
			return b.BuildReadKeyChange(ch)
		}}
	case "perm":
		cands := v.filter(func(a int) bool { p := v.perm(a); return a != mgr && (p == 3 || p == 4) })
		if mgr == 0 || len(cands) == 0 {
			return nil
		}
		a := h.pick(cands)
		p := 7 - v.perm(a)
		if r.Chance(1, 6) {
			p = 0
		}
		return &attempt{kind: kind, actor: mgr, build: func(b list.AclRecordBuilder) (*consensusproto.RawRecord, error) {
			return b.BuildPermissionChange(list.PermissionChangePayload{Identity: h.pub(a), Permissions: list.AclPermissions(p)})
		}}
	case "batch_remove_add":
		if mgr == 0 || len(removable) == 0 || len(outsiders) == 0 {
			return nil
		}
		ch := newChange()
		p := list.BatchRequestPayload{Removals: list.AccountRemovePayload{Identities: []crypto.PubKey{h.pub(h.pick(removable))}, Change: ch}}
		pm := r.Perm(len(outsiders))
		n := 1 + r.Intn(2)
		for i := 0; i < n && i < len(outsiders); i++ {
			a := outsiders[pm[i]]
			p.Additions = append(p.Additions, list.AccountAdd{Identity: h.pub(a), Permissions: list.AclPermissions([]int{3, 4}[r.Intn(2)]), Metadata: []byte("batch-add")})
		}
		return &attempt{kind: kind, actor: mgr, keys: []crypto.SymKey{ch.ReadKey}, build: func(b list.AclRecordBuilder) (*consensusproto.RawRecord, error) {
			res, err := b.BuildBatchRequest(p)
			return res.Rec, err
		}}
	case "hostile":
		// a non-manager (member or outsider) hand-assembles a record only a manager may issue: must be rejected
		cands := v.filter(func(a int) bool { p := v.perm(a); return p != 1 && p != 2 })
		if len(cands) == 0 {
			return nil
		}
		act := h.pick(cands)
		var cs []aclh.C
		switch r.Intn(3) {
		case 0:
			t := h.pick(v.filter(func(a int) bool { return a != act && (v.perm(a) == 3 || v.perm(a) == 4) }))
			if t == 0 {
				return nil
			}
			cs = []aclh.C{{K: "perm", A: t, P: 7 - v.perm(t)}}
		case 1:
			// (no invite keys: aclh.World cannot render builder-made invite keys (numbers >= 2000) in hand-assembled records)
			cs = []aclh.C{{K: "rk", Rk: &aclh.Rk{Meta: true, Fields: true, Acc: v.st.ActiveUsers(nil), Inv: []int{}}}}
		default:
			t := h.pick(v.filter(func(a int) bool { return a != act && v.perm(a) == 0 && !v.pending(a) }))
			if t == 0 {
				return nil
			}
			cs = []aclh.C{{K: "add", L: []aclh.AP{{A: t, P: 4}}}}
		}
		return &attempt{kind: kind, actor: act, fallback: cs, build: func(b list.AclRecordBuilder) (*consensusproto.RawRecord, error) {
			return nil, fmt.Errorf("hand-assembled")
		}}
	case "perm_nonmember":
		if mgr == 0 || len(nonMembersInTable) == 0 {
			return nil
		}
		x := h.pick(nonMembersInTable)
		p := []int{4, 3}[r.Intn(2)]
		return &attempt{kind: kind, actor: mgr, fallback: []aclh.C{{K: "perm", A: x, P: p}}, build: func(b list.AclRecordBuilder) (*consensusproto.RawRecord, error) {
			return b.BuildPermissionChange(list.PermissionChangePayload{Identity: h.pub(x), Permissions: list.AclPermissions(p)})
		}}
	}
	return nil
}

func (h *hist) tryBuild(a *attempt) (raw *consensusproto.RawRecord, err error, panicked interface{}) {
	defer func() {
		if p := recover(); p != nil {
			panicked = p
			if os.Getenv("C05_DEBUG") != "" {
				fmt.Printf("BUILDER PANIC %s actor %d: %v\n%s\n", a.kind, a.actor, p, debug.Stack())
			}
		}
	}()
	raw, err = a.build(h.actors[a.actor].l.RecordBuilder())
	return
}

// ---------------------------------------------------------------- key payloads

func (h *hist) genOf(plain []byte, err error) string {
	if err != nil || plain == nil {
		return "None"
	}
	k, err := crypto.UnmarshallAESKeyProto(plain)
	if err != nil || k == nil {
		return "None"
	}
	raw, err := k.Raw()
	if err != nil {
		return "None"
	}
	if n, ok := h.gen[string(raw)]; ok {
		return fmt.Sprintf("(Some %d)", n)
	}
	return "None"
}

// privOf: the private key of key number n the harness holds (account / fixed keys, invite keys), nil if none.
func (h *hist) privOf(n int) crypto.PrivKey {
	if n >= 1 && n < 2000 {
		return h.W.Key(n)
	}
	return h.invKeys[n]
}

func (h *hist) asym(identity []byte, ct []byte) string {
	priv := h.privOf(h.W.IdNum(identity))
	if priv == nil || len(ct) == 0 {
		return "None"
	}
	return h.genOf(safeDecrypt(priv, ct))
}

func safeDecrypt(priv crypto.PrivKey, ct []byte) (pt []byte, err error) {
	defer func() {
		if p := recover(); p != nil {
			pt, err = nil, fmt.Errorf("panic: %v", p)
		}
	}()
	return priv.Decrypt(ct)
}

func safeSymDecrypt(k crypto.SymKey, ct []byte) (pt []byte, err error) {
	defer func() {
		if p := recover(); p != nil {
			pt, err = nil, fmt.Errorf("panic: %v", p)
		}
	}()
	return k.Decrypt(ct)
}

func (h *hist) rotPay(rk *aclrecordproto.AclReadKeyChange, newKeys []crypto.SymKey) string {
	if rk == nil {
		return "KNone"
	}
	var accs, invs []string
	for _, e := range rk.AccountKeys {
		accs = append(accs, h.asym(e.GetIdentity(), e.GetEncryptedReadKey()))
	}
	for _, e := range rk.InviteKeys {
		invs = append(invs, h.asym(e.GetIdentity(), e.GetEncryptedReadKey()))
	}
	old := "None"
	if len(rk.EncryptedOldReadKey) > 0 {
		try := append(append([]crypto.SymKey(nil), newKeys...), h.known...)
		for _, k := range try {
			if pt, err := safeSymDecrypt(k, rk.EncryptedOldReadKey); err == nil {
				old = h.genOf(pt, nil)
				break
			}
		}
	}
	return fmt.Sprintf("(KRot %s %s %s)", vlib.List(accs), vlib.List(invs), old)
}

func (h *hist) kpay(ch *aclrecordproto.AclContentValue, newKeys []crypto.SymKey) string {
	switch {
	case ch.GetInvite() != nil:
		m := ch.GetInvite()
		return fmt.Sprintf("(KDeliver [%s])", h.asym(m.InviteKey, m.EncryptedReadKey))
	case ch.GetRequestAccept() != nil:
		m := ch.GetRequestAccept()
		return fmt.Sprintf("(KDeliver [%s])", h.asym(m.Identity, m.EncryptedReadKey))
	case ch.GetInviteJoin() != nil:
		m := ch.GetInviteJoin()
		return fmt.Sprintf("(KDeliver [%s])", h.asym(m.Identity, m.EncryptedReadKey))
	case ch.GetAccountsAdd() != nil:
		var gs []string
		for _, a := range ch.GetAccountsAdd().Additions {
			gs = append(gs, h.asym(a.GetIdentity(), a.GetEncryptedReadKey()))
		}
		return fmt.Sprintf("(KDeliver %s)", vlib.List(gs))
	case ch.GetReadKeyChange() != nil:
		return h.rotPay(ch.GetReadKeyChange(), newKeys)
	case ch.GetAccountRemove() != nil:
		return h.rotPay(ch.GetAccountRemove().ReadKeyChange, newKeys)
	}
	return "KNone"
}

// decode: author number and the kcontent terms of a record (full proto decoding).
func (h *hist) decode(rec *RawRec, st aclh.State, newKeys []crypto.SymKey) (author int, terms []string, ok bool) {
	raw := &consensusproto.RawRecord{}
	if err := raw.UnmarshalVT(rec.Payload); err != nil {
		return 0, nil, false
	}
	r := &consensusproto.Record{}
	if err := r.UnmarshalVT(raw.Payload); err != nil {
		return 0, nil, false
	}
	author = h.W.IdNum(r.Identity)
	data := &aclrecordproto.AclData{}
	if err := data.UnmarshalVT(r.Data); err != nil {
		return author, nil, false
	}
	cs := aclh.Decode(h.W, data, st)
	for i, ch := range data.GetAclContent() {
		terms = append(terms, fmt.Sprintf("(%s, %s)", cs[i].Coq(), h.kpay(ch, newKeys)))
	}
	return author, terms, true
}

// ---------------------------------------------------------------- observations

func ints(v []int) string {
	s := make([]string, len(v))
	for i, x := range v {
		s[i] = fmt.Sprintf("%d", x)
	}
	return "[" + strings.Join(s, "; ") + "]"
}

// viewOf rebuilds account a's private view from the raw log.
func (h *hist) viewOf(a int, full bool) (term string, right bool) {
	l, err := h.buildList(a, full)
	if err != nil || l == nil {
		h.w.Stat("views_failed")
		return "None", true
	}
	right = true
	var ids []int
	for id, k := range l.AclState().Keys() {
		if k.ReadKey == nil {
			continue
		}
		n := h.W.RidNum(id)
		ids = append(ids, n)
		raw, err := k.ReadKey.Raw()
		if err != nil {
			right = false
			continue
		}
		if g, ok := h.gen[string(raw)]; !ok || g != n {
			right = false
		}
	}
	sort.Ints(ids)
	return "(Some " + ints(ids) + ")", right
}

func (h *hist) observe() string {
	st := h.ref.AclState()
	var obs []string
	for a := 1; a <= nAccounts; a++ {
		perm := int(st.Permissions(h.W.Pub(a)))
		v1, r1 := h.viewOf(a, true)
		v2, r2 := h.viewOf(a, false)
		obs = append(obs, fmt.Sprintf("(mkAobs %d %d %s %s %s)", a, perm, v1, v2, vlib.Bool(r1 && r2)))
	}
	return vlib.List(obs)
}

// submit: consensus, numbering, delivery, step emission.
func (h *hist) submit(a *attempt, raw *consensusproto.RawRecord, before aclh.State) {
	w := h.w
	rec := h.consensus(raw)
	n := h.nsub + 2
	h.nsub++
	h.W.Bind(n, rec.Id)
	for _, k := range a.keys {
		h.regKey(k, n)
	}
	author, terms, decOk := h.decode(rec, before, a.keys)
	if !decOk {
		w.Stat("record_undecodable")
	}
	err, p := safeAdd(h.ref, rec)
	if p != nil {
		w.Violation(w.Count(), "panic", fmt.Sprintf("reference AddRawRecord panicked on %s by %d: %v", a.kind, a.actor, p),
			caseDesc{Kind: "hist", Seed: h.seed, Idx: h.idx, NoProbe: h.noProbe, Tier: h.tier, At: len(h.steps)})
	}
	ok := err == nil
	w.Stat("built_" + a.kind)
	if ok {
		w.Stat("accepted_" + a.kind)
		h.log = append(h.log, rec)
		for id := 1; id <= nAccounts; id++ {
			ac := h.actors[id]
			if !ac.synced {
				continue
			}
			if e, _ := safeAdd(ac.l, rec); e != nil {
				ac.synced = false
				w.Stat("actor_list_rejected")
				w.Stat("actor_list_rejected_" + a.kind)
			}
		}
		if rotationKinds[a.kind] {
			h.nRot++
		}
		if admissionKinds[a.kind] {
			h.nAdm++
		}
		if a.kind == "remove" || a.kind == "batch_remove_add" {
			h.removedOnce = true
		}
	} else {
		w.Stat("rejected_" + a.kind)
	}
	if a.kind == "perm_nonmember" {
		h.probed++
		if ok {
			h.probeOK = true
		}
	}
	state := h.ref.AclState()
	after := h.W.Dump(state)
	cur := h.W.RidNum(state.CurrentReadKeyId())
	var open []string
	for _, i := range after.Invs {
		if i.Type == 1 {
			open = append(open, fmt.Sprintf("(%d, %d)", i.Rid, i.Key))
		}
	}
	h.steps = append(h.steps, fmt.Sprintf("(mkStep %d %d %s %s %d %s %s)", author, n, vlib.List(terms), vlib.Bool(ok), cur, vlib.List(open), h.observe()))
	if ok {
		h.openRound(after)
	}
	if ok && rotationKinds[a.kind] && h.midTrees < 2 {
		h.midTrees++
		h.treeProbe(after)
	}
}

func (h *hist) run() {
	w := h.w
	h.setup()
	defer h.closeDB()
	r := h.r
	target := 8 + r.Intn(11)
	for tries := 0; h.nsub < target && tries < target*15; tries++ {
		st := h.W.Dump(h.ref.AclState())
		a := h.choose(view{st})
		if a == nil {
			continue
		}
		raw, err, p := h.tryBuild(a)
		if p != nil {
			w.Stat("builder_panic_" + a.kind)
			continue
		}
		if raw == nil || err != nil {
			if a.fallback == nil {
				w.Stat("builder_refused_" + a.kind)
				continue
			}
			if a.kind != "hostile" {
				w.Stat("builder_refused_" + a.kind)
			}
			w.Stat("handassembled_" + a.kind)
			raw = h.W.RawRecord(h.ref.Head().Id, a.actor, a.fallback)
		}
		h.submit(a, raw, st)
	}
	h.treeProbe(h.W.Dump(h.ref.AclState()))
	h.openFinish()
	closeAcctStores() // one set of per-account stores per history: small DBs keep storage.AddAll cheap

	d := &caseDesc{Kind: "hist", Seed: h.seed, Idx: h.idx, NoProbe: h.noProbe, Tier: h.tier}
	if h.probeOK {
		d.Tags = []string{probeTag}
		w.Stat("histories_tagged_" + probeTag)
	}
	h.histDesc = d
	term := fmt.Sprintf("(CHist %d 1 [1; 2; 3; 4; 5; 6] %s)", h.owner, vlib.List(h.steps))
	nontrivial := h.nRot >= 1 && h.nAdm >= 1
	w.Add(term, d, term, nontrivial)
	w.Stat("histories")
	w.Stat(fmt.Sprintf("history_len_%02d", len(h.steps)))
	w.Stat(fmt.Sprintf("history_rotations_%d", h.nRot))
	if h.probe {
		w.Stat("histories_probe_enabled")
	}
	if h.probed > 0 {
		w.Stat("histories_with_perm_nonmember")
	}
	if nontrivial {
		w.Stat("histories_nontrivial")
	}
}
