// Rejected deliveries ("otv" cases): object trees built with the REAL objectTreeValidator over the world's real
// ACL.  The DAG of a case is an honest DAG extended by changes that fail validateChange on their own (unknown ACL
// head / identity without permission) and by valid changes hanging under them.  A delivery that ATTACHES one of
// the invalid changes is rejected after Tree.Add and rolled back (addChangesToTree.rollback) or, on the
// rebuild-from-storage path, the tree is reloaded from storage.  Every case holds a clean history (a replica that
// never sees the invalid changes) and histories that see rejected batches between the same accepted deliveries, so
// the property predicate compares the sequences presented for equal sets across them; reopen points compare with the
// tree reloaded from its own storage; accepted deliveries and changes on top of the heads follow.
package main

import (
	"sort"

	"verifharness/vlib"
)

func headsOfSet(dm map[int]Chg, set []int) []int {
	in := map[int]bool{}
	for _, id := range set {
		in[id] = true
	}
	cited := map[int]bool{}
	for _, id := range set {
		for _, p := range dm[id].Prev {
			cited[p] = true
		}
	}
	var h []int
	for _, id := range set {
		if !cited[id] {
			h = append(h, id)
		}
	}
	sort.Ints(h)
	if h == nil {
		h = []int{}
	}
	return h
}

func shuffled(g *vlib.Rand, l []int) []int {
	pm := g.Perm(len(l))
	r := make([]int, len(l))
	for i, j := range pm {
		r[i] = l[j]
	}
	return r
}

// rejStats records where the directly attachable changes of every rejected delivery sort among the children their
// parents already have in the presented view; returns whether some delivery was rejected after attaching something.
func (r *runner) rejStats(c Case, dm map[int]Chg, obs [][]Obs) bool {
	any := false
	for h, hist := range c.Hists {
		held := map[int]bool{c.Dag[0].ID: true}
		for i, st := range hist {
			o := obs[h][i]
			if st.Op == "raw" && o.Err {
				r.out.Stat("rej_delivery")
				att := 0
				seen := map[int]bool{}
				for _, id := range st.Batch {
					x := dm[id]
					if held[id] || seen[id] || len(x.Prev) == 0 {
						continue
					}
					seen[id] = true
					ok := true
					for _, p := range x.Prev {
						if !held[p] {
							ok = false
						}
					}
					if !ok {
						continue
					}
					att++
					for _, p := range x.Prev {
						n, before := 0, 0
						for hid := range held {
							for _, q := range dm[hid].Prev {
								if q == p {
									n++
									if hid < id {
										before++
									}
								}
							}
						}
						switch {
						case n < 2:
							r.out.Stat("rej_child_of_parent_with_lt2_children")
						case before == 0:
							r.out.Stat("rej_child_first_of_ge2")
						case before == n:
							r.out.Stat("rej_child_last_of_ge2")
						default:
							r.out.Stat("rej_child_middle_of_ge2")
						}
					}
				}
				if att > 0 {
					any = true
					r.out.Stat("rej_delivery_attached")
				}
				if att > 1 {
					r.out.Stat("rej_delivery_attached_several")
				}
			}
			held = map[int]bool{}
			for _, id := range o.Iter {
				held[id] = true
			}
		}
	}
	return any
}

// ---------------------------------------------------------------- systematic family

// rejFamily: a parent P with k = 2..3 valid children (each heading a short chain), an invalid child of P at every
// gap j = 0..k of the sibling ids; P is the root or a child of the root; variants: one invalid change (either
// kind), with a valid change hanging under it, a second invalid change under another parent in the same batch, a
// valid new change in the same rejected batch.  Every case: clean history, history with the rejected batch (then a
// re-delivery, the next change on top of the heads, reopen), history with partial sibling sets.
func rejFamily(r *runner) int {
	count := 0
	for _, deep := range []bool{false, true} {
		for k := 2; k <= 3; k++ {
			for j := 0; j <= k; j++ {
				for v := 0; v < 4; v++ {
					root := Chg{ID: 100, IsSnap: true}
					dag := []Chg{root}
					var pID int
					var kids []int
					var bad2 Chg
					if !deep {
						pID = 100
						for i := 0; i < k; i++ {
							kid := 200 + 100*i
							kids = append(kids, kid)
							dag = append(dag, Chg{ID: kid, Prev: []int{100}, Snap: 100}, Chg{ID: kid + 10, Prev: []int{kid}, Snap: 100})
						}
						// second multi-child parent: 200 has children 205 and 210
						dag = append(dag, Chg{ID: 205, Prev: []int{200}, Snap: 100})
						bad2 = Chg{ID: 201, Prev: []int{200}, Snap: 100, Bad: 1}
					} else {
						pID = 200
						dag = append(dag, Chg{ID: 200, Prev: []int{100}, Snap: 100}, Chg{ID: 300, Prev: []int{100}, Snap: 100})
						for i := 0; i < k; i++ {
							kid := 220 + 10*i
							kids = append(kids, kid)
							dag = append(dag, Chg{ID: kid, Prev: []int{200}, Snap: 100}, Chg{ID: kid + 1, Prev: []int{kid}, Snap: 100})
						}
						// second multi-child parent: the root (children 200, 300)
						bad2 = Chg{ID: 150, Prev: []int{100}, Snap: 100, Bad: 2}
					}
					goods := allIDs(dag)
					dm := dagMap(dag)
					later := Chg{ID: 900, Prev: headsOfSet(dm, goods), Snap: 100}
					var badID int
					switch {
					case j == 0:
						badID = kids[0] - 5
					case j == k:
						badID = kids[k-1] + 5
						if !deep {
							badID = kids[k-1] + 50
						}
					default:
						badID = (kids[j-1] + kids[j]) / 2
					}
					bad := Chg{ID: badID, Prev: []int{pID}, Snap: 100, Bad: 1 + v%2}
					dag = append(dag, later, bad)
					rej := []int{bad.ID}
					switch v {
					case 1:
						tail := Chg{ID: bad.ID + 1, Prev: []int{bad.ID}, Snap: 100}
						dag = append(dag, tail)
						rej = []int{tail.ID, bad.ID}
					case 2:
						dag = append(dag, bad2)
						rej = []int{bad.ID, bad2.ID}
					case 3:
						rej = []int{later.ID, bad.ID}
					}
					dm = dagMap(dag)
					hd := headsOfSet(dm, goods)
					path := []int{100}
					full := Step{Op: "raw", Batch: goods, Heads: hd, Path: path}
					top := Step{Op: "raw", Batch: []int{later.ID}, Heads: []int{later.ID}, Path: path}
					rejStep := Step{Op: "raw", Batch: rej, Heads: headsOfSet(dm, append(append([]int{}, goods...), rej...)), Path: path}
					h0 := []Step{full, top, {Op: "reopen"}}
					h1 := []Step{full, rejStep, full, top, {Op: "reopen"}}
					// partial sibling sets: everything but the last sibling's branch, rejected, the rest, rejected, reopen
					var part, rest []int
					lastKid := kids[k-1]
					for _, id := range goods {
						if id == lastKid || (len(dm[id].Prev) == 1 && dm[id].Prev[0] == lastKid) {
							rest = append(rest, id)
						} else {
							part = append(part, id)
						}
					}
					h2 := []Step{
						{Op: "raw", Batch: part, Heads: headsOfSet(dm, part), Path: path},
						rejStep,
						{Op: "raw", Batch: rest, Heads: hd, Path: path},
						rejStep,
						{Op: "reopen"},
						top,
					}
					h3 := []Step{{Op: "raw", Batch: part, Heads: headsOfSet(dm, part), Path: path}, {Op: "raw", Batch: rest, Heads: hd, Path: path}}
					r.run(Case{Kind: "otv", Gen: "reject_family", Dag: dag, Hists: [][]Step{h0, h1, h2, h3}})
					count++
				}
			}
		}
	}
	return count
}

// ---------------------------------------------------------------- random worlds

// bushyDag: no snapshots; parents are heads or arbitrary earlier changes, so that many changes have several children.
func bushyDag(g *vlib.Rand, size int) []Chg {
	used := map[int]bool{}
	newID := func() int {
		for {
			v := 1 + g.Intn(9999)
			if !used[v] {
				used[v] = true
				return v
			}
		}
	}
	root := newID()
	dag := []Chg{{ID: root, IsSnap: true}}
	for len(dag) < size {
		n := 1
		if g.Chance(1, 4) {
			n = 2
		}
		var prev []int
		for len(prev) < n {
			var p int
			if g.Chance(1, 2) {
				p = dag[len(dag)-1-g.Intn(minInt(len(dag), 3))].ID
			} else {
				p = dag[g.Intn(len(dag))].ID
			}
			dup := false
			for _, q := range prev {
				if q == p {
					dup = true
				}
			}
			if dup {
				if len(dag) < 2 {
					break
				}
				continue
			}
			prev = append(prev, p)
		}
		sort.Ints(prev)
		dag = append(dag, Chg{ID: newID(), Prev: prev, Snap: root})
	}
	return dag
}

func minInt(a, b int) int {
	if a < b {
		return a
	}
	return b
}

// addBads extends an honest DAG by nb invalid changes (and sometimes valid changes under them); ids are chosen to
// fall into a uniformly chosen gap of the sorted ids of the children the chosen parent already has.
func addBads(g *vlib.Rand, dag []Chg, nb int, merges bool) []Chg {
	used := map[int]bool{}
	kids := map[int][]int{}
	for _, c := range dag {
		used[c.ID] = true
		for _, p := range c.Prev {
			kids[p] = append(kids[p], c.ID)
		}
	}
	dm := dagMap(dag)
	good := allIDs(dag)
	var multi []int
	for _, id := range good {
		if len(kids[id]) >= 2 {
			multi = append(multi, id)
		}
	}
	var bads []int
	pickID := func(parent int) int {
		ks := append([]int{}, kids[parent]...)
		sort.Ints(ks)
		gap := g.Intn(len(ks) + 1)
		lo, hi := 0, 10000
		if gap > 0 {
			lo = ks[gap-1]
		}
		if gap < len(ks) {
			hi = ks[gap]
		}
		for try := 0; try < 20 && hi-lo > 1; try++ {
			v := lo + 1 + g.Intn(hi-lo-1)
			if !used[v] {
				return v
			}
		}
		for {
			v := 1 + g.Intn(9999)
			if !used[v] {
				return v
			}
		}
	}
	snapFor := func(p Chg) int {
		if p.IsSnap {
			return p.ID
		}
		return p.Snap
	}
	add := func(c Chg) {
		used[c.ID] = true
		dm[c.ID] = c
		for _, p := range c.Prev {
			kids[p] = append(kids[p], c.ID)
		}
		dag = append(dag, c)
	}
	for b := 0; b < nb; b++ {
		var parent int
		switch {
		case len(bads) > 0 && g.Chance(1, 4):
			parent = bads[g.Intn(len(bads))] // nested under another invalid change
		case len(multi) > 0 && g.Chance(3, 4):
			parent = multi[g.Intn(len(multi))]
		default:
			parent = good[g.Intn(len(good))]
		}
		p := dm[parent]
		c := Chg{ID: pickID(parent), Prev: []int{parent}, Snap: snapFor(p), Bad: 1 + g.Intn(2)}
		if merges && g.Chance(1, 5) {
			q := good[g.Intn(len(good))]
			if q != parent {
				c.Prev = append(c.Prev, q)
				sort.Ints(c.Prev)
			}
		}
		if g.Chance(1, 8) {
			c.IsSnap = true
		}
		add(c)
		bads = append(bads, c.ID)
		if g.Chance(1, 3) {
			// a change that is valid on its own but can only ever attach together with its invalid parent
			add(Chg{ID: pickID(c.ID), Prev: []int{c.ID}, Snap: snapFor(c)})
		}
	}
	return dag
}

func rejRandom(w *World, g *vlib.Rand) Case {
	var honest []Chg
	var chain []State
	gen := "reject_bushy"
	if g.Chance(1, 2) {
		size := 4 + g.Intn(13)
		if g.Chance(1, 10) {
			size = 30 + g.Intn(40)
		}
		honest = bushyDag(g, size)
		dm := dagMap(honest)
		ids := allIDs(honest)
		cut := 2 + g.Intn(len(ids)-1)
		for {
			if cut > len(ids) {
				cut = len(ids)
			}
			chain = append(chain, State{Have: append([]int{}, ids[:cut]...), Heads: headsOfSet(dm, ids[:cut]), Path: []int{ids[0]}})
			if cut == len(ids) {
				break
			}
			cut += 1 + g.Intn(len(ids)-cut+1)
		}
	} else {
		gen = "reject_authored"
		size := 4 + g.Intn(12)
		if g.Chance(1, 12) {
			size = 30 + g.Intn(40)
		}
		var states []State
		honest, states = author(w, g, size)
		for n := g.Intn(3); n > 0; n-- {
			chain = append(chain, states[g.Intn(len(states))])
		}
		chain = append(chain, states[len(states)-1])
	}
	nHonest := len(honest)
	dag := addBads(g, honest, 1+g.Intn(4), gen == "reject_bushy")
	dm := dagMap(dag)
	var extra []int // the invalid changes and what hangs under them
	for _, c := range dag[nHonest:] {
		extra = append(extra, c.ID)
	}
	final := chain[len(chain)-1]

	deliver := func(x State, shuffle bool) Step {
		b := x.Have
		if shuffle {
			b = shuffled(g, b)
		}
		return Step{Op: "raw", Batch: b, Heads: x.Heads, Path: x.Path}
	}
	var hists [][]Step
	// clean replica
	var h0 []Step
	for _, x := range chain {
		h0 = append(h0, deliver(x, g.Chance(1, 2)))
	}
	h0 = append(h0, Step{Op: "reopen"})
	hists = append(hists, h0)
	for k := 1 + g.Intn(2); k > 0; k-- {
		var h []Step
		for i, x := range chain {
			h = append(h, deliver(x, g.Chance(1, 2)))
			for n := g.Intn(3); n > 0; n-- {
				var batch []int
				for _, id := range extra {
					if g.Chance(2, 3) {
						batch = append(batch, id)
					}
				}
				if len(batch) == 0 {
					batch = append(batch, extra[g.Intn(len(extra))])
				}
				var more []int
				if i+1 < len(chain) && g.Chance(1, 2) {
					// valid changes the replica does not hold yet, in the same batch: they are rolled back too
					more = append(more, chain[i+1].Have...)
				}
				if g.Chance(1, 3) && len(x.Have) > 0 {
					more = append(more, x.Have[g.Intn(len(x.Have))]) // something already held
				}
				switch g.Intn(3) {
				case 0:
					batch = shuffled(g, append(batch, more...))
				case 1:
					batch = append(more, batch...)
				default:
					batch = append(batch, more...)
				}
				set := append(append([]int{}, x.Have...), batch...)
				h = append(h, Step{Op: "raw", Batch: batch, Heads: headsOfSet(dm, set), Path: x.Path})
				if g.Chance(1, 4) {
					h = append(h, Step{Op: "reopen"})
				}
				if g.Chance(1, 4) {
					h = append(h, deliver(x, false)) // nothing new: only the tail of AddRawChanges runs
				}
			}
		}
		h = append(h, deliver(final, true), deliver(final, false))
		if g.Chance(1, 2) {
			h = append(h, Step{Op: "reopen"})
		}
		hists = append(hists, h)
	}
	return Case{Kind: "otv", Gen: gen, Dag: dag, Hists: hists}
}
