// Interleaved independent trees ("pool" cases; added for seeded change C06-seed4).
//
// All trees of a process share one sync.Pool of sort iterators (treeiterator.go).  A presentation of tree A
// (IterateSkip / IterateBranching on the Tree type, IterateRoot / IterateFrom on an object tree) is a sequence of
// consumer callbacks; between two callbacks the consumer may read or grow OTHER trees (nested use on the same
// goroutine), or block while another goroutine works on another tree.  What A presents must be a function of A's set
// alone.  One case = 2..4 independent trees (disjoint ids) + a flat trace of events
//
//	fast/add k batch   Tree.AddFast / Tree.Add (level "tree"), CreateStorage+BuildTestableTree / AddRawChanges (level "ot")
//	read k             a whole presentation of tree k with a consumer that does nothing else
//	open r k from      reader r starts a presentation of tree k at change `from`; the first change is handed out and the
//	                   consumer is now inside its callback
//	next r             the callback of r returns true (next change handed out, or the iteration ends)
//	close r            the callback of r returns false
//
// executed either with really nested callbacks on one goroutine (exec "nested"; "nested1" = the same under
// GOMAXPROCS(1)) or with one goroutine per reader, strictly sequentialised by handshakes, under GOMAXPROCS(1)
// (exec "co": the reader blocks inside its callback while the driver works on other trees; any interleaving of
// readers, not only properly nested ones).  GOMAXPROCS(1) pins everything to one P, so that sync.Pool hands the most
// recently released iterator to the next taker deterministically; observations never depend on timing on a correct tree.
package main

import (
	"fmt"
	"runtime"
	"sort"
	"strings"
	"time"

	"github.com/anyproto/any-sync/commonspace/object/tree/objecttree"

	"verifharness/vlib"
)

type PEv struct {
	E     string `json:"e"`
	K     int    `json:"k,omitempty"`
	R     int    `json:"r,omitempty"`
	From  int    `json:"from,omitempty"`
	Batch []int  `json:"batch,omitempty"`
	Via   string `json:"via,omitempty"` // open: skip | branch | conv
}

type poolTree struct {
	level string
	tr    *objecttree.Tree
	p     *Peer
	dm    map[int]Chg
	root  int
	held  []int
	sorts int // how often this tree was sorted (read / open / addition that attached something)
}

func (pt *poolTree) empty() bool {
	if pt.level == "tree" {
		return pt.tr == nil || pt.tr.Root() == nil
	}
	return pt.p == nil
}

func (pt *poolTree) heads() []int {
	var h []int
	if pt.level == "tree" {
		for _, s := range pt.tr.Heads() {
			h = append(h, n5(s))
		}
		sort.Ints(h)
		return h
	}
	return pt.p.Heads()
}

// iterate presents the tree from change `from`; cb gets abstract ids.
func (pt *poolTree) iterate(from int, via string, cb func(id int) bool) {
	if pt.level == "tree" {
		f := func(c *objecttree.Change) bool { return cb(n5(c.Id)) }
		if via == "branch" && from == pt.root {
			pt.tr.IterateBranching(s5(from), func(c *objecttree.Change, _ int) bool { return f(c) })
			return
		}
		pt.tr.IterateSkip(s5(from), f)
		return
	}
	in := pt.p.in
	f := func(c *objecttree.Change) bool { return cb(in.N(c.Id)) }
	var conv objecttree.ChangeConvertFunc
	if via == "conv" {
		conv = func(c *objecttree.Change, _ []byte) (any, error) { return struct{}{}, nil }
	}
	if from == pt.root {
		_ = pt.p.tree.IterateRoot(conv, f)
		return
	}
	_ = pt.p.tree.IterateFrom(in.S(from), conv, f)
}

type coReader struct {
	item   chan int // >= 0 id, -1 ended, -2 panicked
	resume chan bool
	pan    string
}

type poolReader struct {
	k        int
	co       *coReader
	otherAt  int // sorts of other trees when the reader was opened
	mixed    bool
	itemsMix int
}

type poolRun struct {
	w       *World
	c       Case
	dm      map[int]Chg
	trees   map[int]*poolTree
	obs     []string
	readers map[int]*poolReader
	total   int // sorts of all trees
	i       int // nested executor: next event
	viol    []oidViol
	mixed   int // readers that were handed changes after another tree had been sorted
	bad     bool
}

func (x *poolRun) tree(k int) *poolTree {
	pt := x.trees[k]
	if pt == nil {
		pt = &poolTree{level: x.c.Level, dm: x.dm}
		if pt.level == "tree" {
			pt.tr = new(objecttree.Tree)
		}
		x.trees[k] = pt
	}
	return pt
}

func (x *poolRun) sorted(pt *poolTree) {
	pt.sorts++
	x.total++
}

func item(id int) string {
	if id < 0 {
		return "(OItem None)"
	}
	return fmt.Sprintf("(OItem (Some %d))", id)
}

// handed: bookkeeping for the non-triviality rule
func (x *poolRun) handed(r int) {
	rd := x.readers[r]
	if rd == nil {
		return
	}
	pt := x.trees[rd.k]
	if x.total-pt.sorts > rd.otherAt {
		rd.itemsMix++
		if !rd.mixed {
			rd.mixed = true
			x.mixed++
		}
	}
}

// simple executes add / fast / read
func (x *poolRun) simple(idx int, e PEv) {
	pt := x.tree(e.K)
	switch e.E {
	case "add", "fast":
		if len(e.Batch) == 0 {
			x.bad = true
			x.obs[idx] = "ONone"
			return
		}
		mode := "Nothing"
		if pt.level == "tree" {
			chs := make([]*objecttree.Change, 0, len(e.Batch))
			for _, id := range e.Batch {
				chs = append(chs, mkChange(x.dm[id]))
			}
			if pt.tr.Root() == nil {
				pt.root = e.Batch[0]
			}
			if e.E == "fast" {
				pt.tr.AddFast(chs...)
			} else {
				m, _ := pt.tr.Add(chs...)
				mode = modeName(m)
			}
		} else if pt.p == nil {
			// creation: storage holding the root + the object tree built from it
			pt.root = e.Batch[0]
			pt.p = x.w.newPeer(x.dm[pt.root], false)
			e.E = "fast"
		} else {
			set := append(append([]int{}, pt.held...), e.Batch...)
			res, err := pt.p.AddRaw(x.dm, e.Batch, headsOfSet(x.dm, set), []int{pt.root}, 0)
			if err != nil {
				if res == "PANIC" {
					panic(err)
				}
				x.viol = append(x.viol, oidViol{"pool-add-failed", fmt.Sprintf("AddRawChanges of %v on tree %d failed: %v", e.Batch, e.K, err), nil})
			} else {
				mode = res
			}
		}
		pt.held = append(pt.held, e.Batch...)
		if mode != "Nothing" || e.E == "fast" {
			x.sorted(pt)
		}
		if e.E == "fast" {
			x.obs[idx] = fmt.Sprintf("(OFast %s)", nl(pt.heads()))
		} else {
			x.obs[idx] = fmt.Sprintf("(OAdd %s %s)", mode, nl(pt.heads()))
		}
	case "read":
		var seq []int
		if !pt.empty() {
			pt.iterate(pt.root, "skip", func(id int) bool { seq = append(seq, id); return true })
			x.sorted(pt)
		}
		x.obs[idx] = fmt.Sprintf("(ORead %s)", nl(seq))
	}
}

// ---- executor 1: really nested callbacks on one goroutine

// runNested executes events from x.i on; it returns at the first next/close event addressed to the active reader
// `stop` (index of that event), or -1 at the end of the trace.
func (x *poolRun) runNested(stop int) int {
	for x.i < len(x.c.Ev) {
		idx := x.i
		e := x.c.Ev[idx]
		x.i++
		switch e.E {
		case "add", "fast", "read":
			x.simple(idx, e)
		case "next", "close":
			if e.R == stop {
				return idx
			}
			if x.readers[e.R] != nil {
				// not properly nested: cannot be executed on one goroutine
				x.bad = true
			}
			if e.E == "next" {
				x.obs[idx] = item(-1)
			} else {
				x.obs[idx] = "ONone"
			}
		case "open":
			pt := x.tree(e.K)
			if x.readers[e.R] != nil {
				x.obs[idx] = "ONone"
				continue
			}
			if pt.empty() {
				x.obs[idx] = item(-1)
				continue
			}
			x.sorted(pt)
			x.readers[e.R] = &poolReader{k: e.K, otherAt: x.total - pt.sorts}
			cur, filled, closed := idx, false, false
			r := e.R
			pt.iterate(e.From, e.Via, func(id int) bool {
				x.obs[cur] = item(id)
				filled = true
				x.handed(r)
				nx := x.runNested(r)
				if nx < 0 {
					closed = true // the trace ended with the reader inside its callback
					return false
				}
				if x.c.Ev[nx].E == "close" {
					x.obs[nx] = "ONone"
					closed = true
					return false
				}
				cur, filled = nx, false
				return true
			})
			if !closed && !filled {
				x.obs[cur] = item(-1)
			}
			delete(x.readers, r)
		default:
			x.bad = true
		}
	}
	return -1
}

// ---- executor 2: one goroutine per reader, sequentialised by handshakes

const poolWatchdog = 120 * time.Second

func (x *poolRun) wait(rd *coReader, what string) (int, bool) {
	select {
	case v := <-rd.item:
		return v, true
	case <-time.After(poolWatchdog):
		x.viol = append(x.viol, oidViol{"hang", "a presentation did not hand out the next change / did not end within 120 s: " + what, nil})
		return -1, false
	}
}

func (x *poolRun) runCo() {
	for idx, e := range x.c.Ev {
		switch e.E {
		case "add", "fast", "read":
			x.simple(idx, e)
		case "open":
			pt := x.tree(e.K)
			if x.readers[e.R] != nil {
				x.obs[idx] = "ONone"
				continue
			}
			if pt.empty() {
				x.obs[idx] = item(-1)
				continue
			}
			co := &coReader{item: make(chan int), resume: make(chan bool)}
			x.sorted(pt)
			x.readers[e.R] = &poolReader{k: e.K, co: co, otherAt: x.total - pt.sorts}
			from, via := e.From, e.Via
			go func() {
				defer func() {
					if r := recover(); r != nil {
						co.pan = fmt.Sprint(r)
						co.item <- -2
					}
				}()
				pt.iterate(from, via, func(id int) bool {
					co.item <- id
					return <-co.resume
				})
				co.item <- -1
			}()
			x.got(idx, e.R, co, "open")
		case "next", "close":
			rd := x.readers[e.R]
			if rd == nil {
				if e.E == "next" {
					x.obs[idx] = item(-1)
				} else {
					x.obs[idx] = "ONone"
				}
				continue
			}
			rd.co.resume <- e.E == "next"
			x.got(idx, e.R, rd.co, e.E)
		default:
			x.bad = true
		}
		if x.bad {
			break
		}
	}
	// readers still inside their callbacks at the end of the trace: let them go
	for r, rd := range x.readers {
		select {
		case rd.co.resume <- false:
			x.wait(rd.co, "end of trace")
		case <-time.After(poolWatchdog):
		}
		delete(x.readers, r)
	}
}

func (x *poolRun) got(idx, r int, co *coReader, what string) {
	v, ok := x.wait(co, fmt.Sprintf("event %d (%s reader %d)", idx, what, r))
	if !ok {
		x.bad = true
		x.obs[idx] = "ONone"
		delete(x.readers, r)
		return
	}
	if v == -2 {
		x.viol = append(x.viol, oidViol{"panic", "the implementation panicked inside a presentation: " + co.pan, nil})
		v = -1
	}
	if what == "close" {
		x.obs[idx] = "ONone"
		delete(x.readers, r)
		return
	}
	x.obs[idx] = item(v)
	if v < 0 {
		delete(x.readers, r)
	} else {
		x.handed(r)
	}
}

// ---- running one pool case

func evTerm(e PEv) string {
	switch e.E {
	case "add":
		return fmt.Sprintf("PAdd %d %s", e.K, nl(e.Batch))
	case "fast":
		return fmt.Sprintf("PFast %d %s", e.K, nl(e.Batch))
	case "read":
		return fmt.Sprintf("PRead %d", e.K)
	case "open":
		return fmt.Sprintf("POpen %d %d %d", e.R, e.K, e.From)
	case "next":
		return fmt.Sprintf("PNext %d", e.R)
	}
	return fmt.Sprintf("PClose %d", e.R)
}

func (r *runner) runPool(c Case) {
	r.w.Tick()
	x := &poolRun{w: r.w, c: c, dm: dagMap(c.Dag), trees: map[int]*poolTree{}, obs: make([]string, len(c.Ev)),
		readers: map[int]*poolReader{}}
	if c.Level == "ot" {
		// the first addition to an object tree is its creation: recorded as "fast"
		seen := map[int]bool{}
		for i := range c.Ev {
			if e := c.Ev[i]; e.E == "add" || e.E == "fast" {
				if !seen[e.K] {
					c.Ev[i].E = "fast"
				} else {
					c.Ev[i].E = "add"
				}
				seen[e.K] = true
			}
		}
	}
	pan := ""
	func() {
		defer func() {
			if rec := recover(); rec != nil {
				pan = fmt.Sprint(rec)
			}
		}()
		if c.Exec != "nested" {
			defer runtime.GOMAXPROCS(runtime.GOMAXPROCS(1))
		}
		if c.Exec == "co" {
			x.runCo()
		} else {
			x.runNested(-1)
		}
	}()
	for i := range x.obs {
		if x.obs[i] == "" {
			x.obs[i] = "ONone"
		}
	}
	var sb strings.Builder
	sb.WriteString("(CPool [")
	for i, ch := range c.Dag {
		if i > 0 {
			sb.WriteString(";")
		}
		sb.WriteString(chgTerm(ch))
	}
	sb.WriteString("] [")
	for i, e := range c.Ev {
		if i > 0 {
			sb.WriteString(";")
		}
		if i%8 == 7 {
			sb.WriteString("\n  ")
		}
		sb.WriteString("(" + evTerm(e) + ", " + x.obs[i] + ")")
	}
	sb.WriteString("])")
	term := sb.String()
	nontrivial := len(x.trees) >= 2 && x.mixed > 0 && !x.bad
	idx := r.out.Add(term, c, term, nontrivial)
	if pan != "" {
		r.out.Violation(idx, "panic", "the implementation panicked: "+pan, nil)
	}
	if x.bad && pan == "" && len(x.viol) == 0 {
		r.out.Stat("pool_malformed_trace")
	}
	for _, v := range x.viol {
		r.out.Violation(idx, v.tag, v.what, v.data)
	}
	r.out.Stat("kind_pool")
	r.out.Stat("gen_" + c.Gen)
	r.out.Stat("pool_level_" + c.Level)
	r.out.Stat("pool_exec_" + c.Exec)
	for j := 0; j < x.mixed; j++ {
		r.out.Stat("pool_readers_interleaved_with_other_trees")
	}
	for _, e := range c.Ev {
		r.out.Stat("pool_ev_" + e.E)
	}
	if len(r.samples) < 5 && nontrivial && len(c.Ev) <= 30 && !r.poolSample {
		r.poolSample = true
		r.samples = append(r.samples, map[string]interface{}{"case": c, "observed": x.obs})
	}
}

// ---------------------------------------------------------------- generators

// poolDags: nT DAGs without further snapshots, ids of tree k (1-based) in k*10000 + 1..9999
func poolDags(g *vlib.Rand, nT int) ([]Chg, [][]int) {
	var all []Chg
	var order [][]int // creation order per tree (root first)
	for k := 1; k <= nT; k++ {
		size := 3 + g.Intn(9)
		var d []Chg
		if g.Chance(1, 2) {
			d = bushyDag(g, size)
		} else {
			d = randomDag(g, size)
		}
		var ids []int
		for _, c := range d {
			nc := Chg{ID: k*10000 + c.ID, IsSnap: c.IsSnap}
			if c.Snap != 0 {
				nc.Snap = k*10000 + c.Snap
			}
			for _, p := range c.Prev {
				nc.Prev = append(nc.Prev, k*10000+p)
			}
			all = append(all, nc)
			ids = append(ids, nc.ID)
		}
		order = append(order, ids)
	}
	return all, order
}

func genPool(g *vlib.Rand, level, exec string) Case {
	nT := 2 + g.Intn(3)
	dag, order := poolDags(g, nT)
	c := Case{Kind: "pool", Gen: "pool-random", Level: level, Exec: exec, Dag: dag}
	deliv := make([]int, nT+1) // how many changes of tree k were delivered
	reading := make([]int, nT+1)
	var ev []PEv
	chunk := func(k int) bool {
		o := order[k-1]
		if deliv[k] >= len(o) || reading[k] > 0 {
			return false
		}
		n := 1 + g.Intn(3)
		if deliv[k]+n > len(o) {
			n = len(o) - deliv[k]
		}
		b := shuffled(g, o[deliv[k]:deliv[k]+n])
		deliv[k] += n
		ev = append(ev, PEv{E: "add", K: k, Batch: b}, PEv{E: "read", K: k})
		return true
	}
	for k := 1; k <= nT; k++ {
		e := "fast"
		if level == "tree" && g.Bool() {
			e = "add"
		}
		ev = append(ev, PEv{E: e, K: k, Batch: []int{order[k-1][0]}})
		deliv[k] = 1
		chunk(k)
		if g.Bool() {
			chunk(k)
		}
	}
	type act struct{ r, k, left int }
	var stack []act
	nextR := 1
	vias := []string{"skip", "skip", "branch"}
	if level == "ot" {
		vias = []string{"skip", "skip", "conv"}
	}
	pick := func() int { // index into stack of the reader to step: the innermost one for nested executors
		if exec == "co" {
			return g.Intn(len(stack))
		}
		return len(stack) - 1
	}
	drop := func(i int) {
		reading[stack[i].k]--
		stack = append(stack[:i], stack[i+1:]...)
	}
	steps := 8 + g.Intn(18)
	for s := 0; s < steps; s++ {
		switch x := g.Intn(10); {
		case x < 2 && len(stack) < 3:
			k := 1 + g.Intn(nT)
			from := order[k-1][0]
			if g.Chance(1, 4) {
				from = order[k-1][g.Intn(deliv[k])]
			}
			ev = append(ev, PEv{E: "open", R: nextR, K: k, From: from, Via: vias[g.Intn(len(vias))]})
			stack = append(stack, act{nextR, k, deliv[k]})
			reading[k]++
			nextR++
		case x < 6 && len(stack) > 0:
			// something is done with a tree (mostly ANOTHER one) while readers are inside their callbacks
			k := 1 + g.Intn(nT)
			if k == stack[len(stack)-1].k {
				k = 1 + g.Intn(nT)
			}
			if g.Bool() || !chunk(k) {
				ev = append(ev, PEv{E: "read", K: k})
			}
		case x < 9 && len(stack) > 0:
			i := pick()
			ev = append(ev, PEv{E: "next", R: stack[i].r})
			stack[i].left--
		case len(stack) > 0:
			i := pick()
			if g.Bool() {
				ev = append(ev, PEv{E: "close", R: stack[i].r})
			} else {
				for j := 0; j <= stack[i].left; j++ {
					ev = append(ev, PEv{E: "next", R: stack[i].r})
				}
			}
			drop(i)
		default:
			k := 1 + g.Intn(nT)
			if !chunk(k) {
				ev = append(ev, PEv{E: "read", K: k})
			}
		}
	}
	for len(stack) > 0 {
		i := len(stack) - 1
		if g.Chance(1, 3) {
			ev = append(ev, PEv{E: "close", R: stack[i].r})
		} else {
			for j := 0; j <= stack[i].left; j++ {
				ev = append(ev, PEv{E: "next", R: stack[i].r})
			}
		}
		drop(i)
	}
	for k := 1; k <= nT; k++ {
		ev = append(ev, PEv{E: "read", K: k})
	}
	c.Ev = ev
	return c
}

// poolDemo: fixed small cases. Tree 1: 1 -> 2 -> {3,4} -> 5; tree 2: a chain of six.
//
//	0: the consumer of tree 1 reads tree 2 from inside its first callback
//	1: the consumer of tree 1 grows tree 2 from inside its callbacks
//	2: two readers in progress (tree 1, tree 2), stepped alternately (needs exec "co")
func poolDemo(variant int, level, exec string) Case {
	a := func(i int) int { return 10000 + i }
	b := func(i int) int { return 20000 + i }
	dag := []Chg{{ID: a(1), IsSnap: true}, {ID: a(2), Prev: []int{a(1)}, Snap: a(1)}, {ID: a(3), Prev: []int{a(2)}, Snap: a(1)},
		{ID: a(4), Prev: []int{a(2)}, Snap: a(1)}, {ID: a(5), Prev: []int{a(3), a(4)}, Snap: a(1)}, {ID: b(1), IsSnap: true}}
	for i := 2; i <= 9; i++ {
		dag = append(dag, Chg{ID: b(i), Prev: []int{b(i - 1)}, Snap: b(1)})
	}
	ev := []PEv{{E: "fast", K: 1, Batch: []int{a(1)}}, {E: "add", K: 1, Batch: []int{a(2), a(3), a(4), a(5)}}, {E: "read", K: 1},
		{E: "fast", K: 2, Batch: []int{b(1)}}, {E: "add", K: 2, Batch: []int{b(2), b(3), b(4), b(5), b(6)}}, {E: "read", K: 2}}
	nexts := func(r, n int) {
		for i := 0; i < n; i++ {
			ev = append(ev, PEv{E: "next", R: r})
		}
	}
	switch variant {
	case 0:
		ev = append(ev, PEv{E: "open", R: 1, K: 1, From: a(1), Via: "skip"}, PEv{E: "read", K: 2})
		nexts(1, 5)
	case 1:
		ev = append(ev, PEv{E: "open", R: 1, K: 1, From: a(1), Via: "skip"})
		for i := 7; i <= 9; i++ {
			ev = append(ev, PEv{E: "add", K: 2, Batch: []int{b(i)}}, PEv{E: "next", R: 1})
		}
		nexts(1, 2)
		ev = append(ev, PEv{E: "read", K: 2})
	default:
		ev = append(ev, PEv{E: "open", R: 1, K: 1, From: a(1), Via: "skip"}, PEv{E: "open", R: 2, K: 2, From: b(1), Via: "skip"})
		for i := 0; i < 4; i++ {
			ev = append(ev, PEv{E: "next", R: 1}, PEv{E: "next", R: 2})
		}
		ev = append(ev, PEv{E: "close", R: 2}, PEv{E: "next", R: 1})
	}
	ev = append(ev, PEv{E: "read", K: 1})
	return Case{Kind: "pool", Gen: "pool-demo", Level: level, Exec: exec, Dag: dag, Ev: ev}
}

// poolAll runs the fixed cases and n random ones; returns the number of cases.
func poolAll(r *runner, rng *vlib.Rand, n int) int {
	cnt := 0
	for _, level := range []string{"tree", "ot"} {
		for v := 0; v < 3; v++ {
			for _, exec := range []string{"nested", "nested1", "co"} {
				if v == 2 && exec != "co" {
					continue
				}
				r.runPool(poolDemo(v, level, exec))
				cnt++
			}
		}
	}
	execs := []string{"nested", "nested1", "co", "co"}
	for k := 0; k < n; k++ {
		g := rng.Fork(uint64(4000000 + k))
		level := "tree"
		if k%3 == 2 {
			level = "ot"
		}
		r.runPool(genPool(g, level, execs[g.Intn(len(execs))]))
		cnt++
	}
	return cnt
}
