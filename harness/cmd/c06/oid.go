// Order ids (COI cases).  Every object-tree case carries, per step, the ranking of the replica's stored changes by
// their real OrderId STRINGS (read change by change with Storage.Get and sorted here, independent of GetAfterOrder);
// the Coq side compares it with the ranking induced by the model's order ids (Model/OrderIds.v over rationals) and
// with the stored sequence.  Direct checks on the strings themselves (no reader involved):
//   stored-order            a stored change whose OrderId is not greater than the OrderId of a stored previous change
//   orderid-duplicate       two stored changes of a tree with the same OrderId
//   orderid-missing         a stored change with an empty OrderId
//   local-add-failed        AddContent returned an error / panicked on the replica's own healthy tree
//   lexid-law               lexid.Next / NextBefore (same configuration as tree.go) break prev < Next(prev) or
//                           prev < NextBefore(prev, b) < b on a pair of adjacent stored OrderIds (the two laws the
//                           Coq theorems assume of the order ids)
// "oi" worlds add LOCAL AddContent steps (plain and snapshot) on multi-head trees: the author replica (history 0)
// receives remote batches of concurrent branches and creates local changes on whatever heads it has (order id =
// Next(OrderId of lastIteratedHeadId)); the other histories replay the resulting DAG (local changes rendered as
// ordinary raw changes) in other arrival orders, with reopen points and local changes of their own.
package main

import (
	"context"
	"fmt"
	"sort"

	"github.com/anyproto/lexid"

	"github.com/anyproto/any-sync/commonspace/object/tree/objecttree"
	"github.com/anyproto/any-sync/commonspace/object/tree/treechangeproto"

	"verifharness/vlib"
)

// the configuration of commonspace/object/tree/objecttree/tree.go
var lexID = lexid.Must(lexid.CharsAllNoEscape, 4, 100)

type oidViol struct {
	tag, what string
	data      interface{}
}

type oidCheck struct {
	hist         int
	viol         []oidViol
	stats        map[string]int
	localOnMulti int
	seen         map[string]bool
}

func (k *oidCheck) stat(s string) {
	if k.stats == nil {
		k.stats = map[string]int{}
	}
	k.stats[s]++
}

func (k *oidCheck) add(tag, what string, data interface{}) {
	if k.seen == nil {
		k.seen = map[string]bool{}
	}
	if k.seen[tag] && len(k.viol) > 6 {
		return
	}
	k.seen[tag] = true
	k.viol = append(k.viol, oidViol{tag, what, data})
}

// lastIteratedHead: the head that comes last in the replica's own iteration
func lastIteratedHead(p *Peer) int {
	it, _ := p.Iter()
	hs := p.Heads()
	for i := len(it) - 1; i >= 0; i-- {
		for _, h := range hs {
			if h == it[i] {
				return h
			}
		}
	}
	return 0
}

func greatestHead(p *Peer) int {
	hs := p.tree.Heads()
	if len(hs) == 0 {
		return 0
	}
	m := hs[0]
	for _, h := range hs {
		if h > m {
			m = h
		}
	}
	return p.in.N(m)
}

func (k *oidCheck) beforeLocal(p *Peer) {
	k.stat("local_add")
	if len(p.Heads()) >= 2 {
		k.localOnMulti++
		k.stat("local_on_multi_head")
		if lastIteratedHead(p) != greatestHead(p) {
			k.stat("local_on_multi_head_greatest_not_last")
		}
	}
}

func (k *oidCheck) localFailed(p *Peer, st Step, err error) {
	k.add("local-add-failed", fmt.Sprintf("STORED-ORDER: AddContent failed on the replica's own tree (history %d, local change %d, heads %v): %v",
		k.hist, st.ID, p.Heads(), err), nil)
}

// rank reads the OrderId of every stored change with Storage.Get, checks the strings against the DAG and returns the
// stored ids sorted by OrderId string.
func (k *oidCheck) rank(p *Peer, dm map[int]Chg, all []objecttree.StorageChange) []int {
	type ent struct {
		id  int
		oid string
	}
	ents := make([]ent, 0, len(all))
	oidOf := map[int]string{}
	for _, sc := range all {
		got, err := p.storage.Get(context.Background(), sc.Id)
		o := sc.OrderId
		if err == nil {
			o = got.OrderId
		}
		id := p.in.N(sc.Id)
		ents = append(ents, ent{id, o})
		oidOf[id] = o
		if o == "" {
			k.add("orderid-missing", fmt.Sprintf("STORED-ORDER: stored change %d has an empty OrderId (history %d)", id, k.hist), nil)
		}
	}
	sort.SliceStable(ents, func(i, j int) bool { return ents[i].oid < ents[j].oid })
	r := make([]int, len(ents))
	for i, e := range ents {
		r[i] = e.id
		if i > 0 && ents[i-1].oid == e.oid {
			k.add("orderid-duplicate", fmt.Sprintf("STORED-ORDER: stored changes %d and %d share OrderId %q (history %d)", ents[i-1].id, e.id, e.oid, k.hist), nil)
		}
	}
	for _, e := range ents {
		c, ok := dm[e.id]
		if !ok {
			continue
		}
		for _, pr := range c.Prev {
			if po, held := oidOf[pr]; held && !(po < e.oid) {
				k.add("stored-order", fmt.Sprintf("STORED-ORDER: change %d is stored with OrderId %q, not after its previous change %d (OrderId %q) (history %d)",
					e.id, e.oid, pr, po, k.hist), map[string]interface{}{"change": e.id, "order_id": e.oid, "prev": pr, "prev_order_id": po})
			}
		}
	}
	return r
}

// lexidLaws checks the two laws on the adjacent OrderId pairs of the final stored sequence.
func (k *oidCheck) lexidLaws(p *Peer) {
	_, all, _ := p.Stored()
	for i := range all {
		a := all[i].OrderId
		if n := lexID.Next(a); !(a < n) {
			k.add("lexid-law", fmt.Sprintf("lexid.Next(%q) = %q is not greater", a, n), nil)
		}
		k.stat("lexid_pairs_checked")
		if i+1 < len(all) {
			b := all[i+1].OrderId
			if !(a < b) {
				continue
			}
			m, err := lexID.NextBefore(a, b)
			if err != nil || !(a < m && m < b) {
				k.add("lexid-law", fmt.Sprintf("lexid.NextBefore(%q, %q) = %q (%v) is not strictly between", a, b, m, err), nil)
			}
		}
	}
}

// AddContent creates a change LOCALLY through the object tree's own AddContent (it merges all current heads; its
// storage order id is derived by the tree from lastIteratedHeadId).  absID is the abstract id the new change is
// known by in the DAG; the returned Chg carries the parents / snapshot base the tree chose.
func (p *Peer) AddContent(absID int, isSnap bool) (c Chg, err error) {
	defer func() {
		if r := recover(); r != nil {
			err = fmt.Errorf("PANIC %v", r)
		}
	}()
	p.tree.Lock()
	defer p.tree.Unlock()
	res, e := p.tree.AddContent(ctx, objecttree.SignableChangeContent{
		Data: []byte("local"), Key: p.in.w.keys.SignKey, IsSnapshot: isSnap, ShouldBeEncrypted: false,
		Timestamp: int64(1700000000 + absID), DataType: "mock"})
	if e != nil {
		return c, e
	}
	if len(res.Added) != 1 {
		return c, fmt.Errorf("AddContent added %d changes", len(res.Added))
	}
	sc := res.Added[0]
	prev := p.in.Ns(sc.PrevIds)
	sort.Ints(prev)
	snap := p.in.N(sc.SnapshotId)
	p.in.cids[sc.Id] = absID
	p.in.strs[absID] = sc.Id
	p.in.raws[absID] = &treechangeproto.RawTreeChangeWithId{RawChange: append([]byte(nil), sc.RawChange...), Id: sc.Id}
	return Chg{ID: absID, Prev: prev, Snap: snap, IsSnap: isSnap}, nil
}

// ---------------------------------------------------------------- "oi" worlds

func childlessOf(dm map[int]Chg, ids []int) []int {
	h := headsOfSet(dm, ids)
	return h
}

// oidDemo: the shape of the seeded demonstration: 10 -> 11 -> 99 and 10 -> 22 -> 23 -> 24 -> 33 arrive, the replica
// presents 10 11 99 22 23 24 33 (last iterated head 33, greatest head id 99) and then creates a local merge.
func oidDemo(variant int) Case {
	dag := []Chg{{ID: 10, IsSnap: true},
		{ID: 11, Prev: []int{10}, Snap: 10}, {ID: 99, Prev: []int{11}, Snap: 10},
		{ID: 22, Prev: []int{10}, Snap: 10}, {ID: 23, Prev: []int{22}, Snap: 10}, {ID: 24, Prev: []int{23}, Snap: 10}, {ID: 33, Prev: []int{24}, Snap: 10},
		{ID: 10001, Prev: []int{33, 99}, Snap: 10},
		{ID: 44, Prev: []int{10001}, Snap: 10}}
	path := []int{10}
	h0 := []Step{{Op: "raw", Batch: []int{11, 99}, Heads: []int{99}, Path: path},
		{Op: "raw", Batch: []int{22, 23, 24, 33}, Heads: []int{33}, Path: path}}
	switch variant {
	case 1:
		h0 = []Step{{Op: "raw", Batch: []int{22, 23, 24, 33}, Heads: []int{33}, Path: path},
			{Op: "raw", Batch: []int{11, 99}, Heads: []int{99}, Path: path}, {Op: "reopen"}}
	case 2:
		h0 = []Step{{Op: "raw", Batch: []int{33, 99, 24, 11, 23, 22}, Heads: []int{33, 99}, Path: path}}
	}
	h0 = append(h0, Step{Op: "local", ID: 10001}, Step{Op: "reopen"},
		Step{Op: "raw", Batch: []int{44}, Heads: []int{44}, Path: path})
	all := []int{10, 11, 99, 22, 23, 24, 33, 10001, 44}
	h1 := []Step{{Op: "raw", Batch: all, Heads: []int{44}, Path: path}, {Op: "reopen"}}
	h2 := []Step{{Op: "raw", Batch: []int{11, 22, 23}, Heads: []int{11, 23}, Path: path},
		{Op: "raw", Batch: []int{44, 10001, 33, 24, 99}, Heads: []int{44}, Path: path}}
	return Case{Kind: "oi", Gen: "oid_demo", Dag: dag, Hists: [][]Step{h0, h1, h2}}
}

// genOid drives a real author replica while it generates, so that every operation is chosen against the state the
// replica really is in; the local changes enter the DAG with the parents the tree chose.
func genOid(w *World, g *vlib.Rand) Case {
	used := map[int]bool{}
	newID := func() int {
		for {
			v := 1 + g.Intn(9999)
			if !used[v] {
				used[v] = true
				return v
			}
		}
	}
	real := g.Chance(1, 4)
	root := Chg{ID: newID(), IsSnap: true}
	dag := []Chg{root}
	dm := map[int]Chg{root.ID: root}
	p := w.newPeer(root, real)
	var h0 []Step
	var states []State
	nextLocal := 10000
	nOps := 3 + g.Intn(8)
	localProb := 1 + g.Intn(3)
	local := func(snapOK bool) {
		nextLocal++
		st := Step{Op: "local", ID: nextLocal}
		if snapOK && g.Chance(1, 6) {
			st.Snap = true
		}
		c, err := p.AddContent(st.ID, st.Snap)
		if err != nil {
			// keep the step: the run reports it; give the DAG a plausible record
			c = Chg{ID: st.ID, Prev: p.Heads(), Snap: p.in.N(p.tree.Root().Id), IsSnap: st.Snap}
		}
		dm[c.ID] = c
		dag = append(dag, c)
		h0 = append(h0, st)
	}
	for len(h0) < nOps {
		switch k := g.Intn(10); {
		case k < 5:
			// a remote batch: 1-3 concurrent branches of different lengths growing out of changes the replica has
			att, _ := p.Iter()
			if len(att) == 0 {
				continue
			}
			heads := p.Heads()
			rootNow := p.in.N(p.tree.Root().Id)
			var nw []Chg
			var branches [][]int
			nb := 1 + g.Intn(3)
			for b := 0; b < nb; b++ {
				start := att[g.Intn(len(att))]
				if g.Chance(1, 2) && len(heads) > 0 {
					start = heads[g.Intn(len(heads))]
				}
				ln := 1 + g.Intn(4)
				var br []int
				prev := start
				for j := 0; j < ln; j++ {
					c := Chg{ID: newID(), Prev: []int{prev}, Snap: rootNow}
					if j == ln-1 && g.Chance(1, 12) {
						c.IsSnap = true
					}
					nw = append(nw, c)
					br = append(br, c.ID)
					prev = c.ID
				}
				branches = append(branches, br)
			}
			var all []int
			for _, c := range nw {
				dm[c.ID] = c
				dag = append(dag, c)
				all = append(all, c.ID)
			}
			var batches [][]int
			switch g.Intn(4) {
			case 0:
				batches = [][]int{all}
			case 1:
				batches = [][]int{shuffled(g, all)}
			case 2:
				batches = branches
			default:
				for j := 0; j < 4; j++ {
					for _, br := range branches {
						if j < len(br) {
							batches = append(batches, []int{br[j]})
						}
					}
				}
			}
			path := p.Path()
			for _, b := range batches {
				st := Step{Op: "raw", Batch: b, Heads: childlessOf(dm, b), Path: path}
				_, _ = p.AddRaw(dm, st.Batch, st.Heads, st.Path, 0)
				h0 = append(h0, st)
			}
			if len(p.Heads()) >= 2 && g.Chance(1, localProb) {
				local(false)
			}
		case k < 8:
			local(true)
		default:
			_ = p.Reopen()
			h0 = append(h0, Step{Op: "reopen"})
		}
		if g.Chance(1, 2) {
			states = append(states, snapshotState(p))
		}
	}
	if len(p.Heads()) >= 2 {
		local(false)
	}
	if g.Chance(1, 2) {
		_ = p.Reopen()
		h0 = append(h0, Step{Op: "reopen"})
	}
	final := snapshotState(p)
	states = append(states, final)
	hists := [][]Step{h0}
	// other replicas: the same DAG in other arrival orders (the local changes arrive as ordinary raw changes)
	for _, h := range otHists(g, dag, states, 1+g.Intn(2)) {
		hists = append(hists, h)
	}
	// a second author: gets a prefix state, creates local changes of its own (ids above the first author's)
	if g.Chance(1, 2) {
		x := states[g.Intn(len(states))]
		h := []Step{{Op: "raw", Batch: shuffled(g, x.Have), Heads: x.Heads, Path: x.Path}}
		q := w.newPeer(root, real)
		_, _ = q.AddRaw(dm, h[0].Batch, x.Heads, x.Path, 0)
		id := 20001
		if len(q.Heads()) >= 1 {
			c, err := q.AddContent(id, false)
			if err == nil {
				dm[c.ID] = c
				dag = append(dag, c)
				h = append(h, Step{Op: "local", ID: id})
				h = append(h, Step{Op: "raw", Batch: shuffled(g, final.Have), Heads: final.Heads, Path: final.Path})
				if len(q.Heads()) >= 1 {
					_, _ = q.AddRaw(dm, final.Have, final.Heads, final.Path, 0)
					if c2, err2 := q.AddContent(id+1, false); err2 == nil {
						dm[c2.ID] = c2
						dag = append(dag, c2)
						h = append(h, Step{Op: "local", ID: id + 1}, Step{Op: "reopen"})
					}
				}
				hists = append(hists, h)
			}
		}
	}
	return Case{Kind: "oi", Gen: "oid_script", Real: real, Dag: dag, Hists: hists}
}
