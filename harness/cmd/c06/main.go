// Correspondence driver for C06 (change order is a function of the change set; incremental = rebuilt).
// Level 1 drives the exported objecttree.Tree type directly (Add / AddFast); level 2 drives real object
// trees over real any-store storage (AddRawChanges with the sender's heads and snapshot path, reopen).
// One case = one DAG with several arrival histories, so that the property predicate can compare the
// sequences presented for equal change sets across histories.
package main

import (
	"encoding/json"
	"fmt"
	"os"
	"sort"
	"strings"

	"github.com/anyproto/any-sync/commonspace/object/tree/objecttree"

	"verifharness/vlib"
)

// ---------------------------------------------------------------- inputs

type Step struct {
	Op    string `json:"op"` // add | fast | raw | reopen | local (AddContent on the replica's own heads)
	Batch []int  `json:"batch,omitempty"`
	Heads []int  `json:"heads,omitempty"` // sender's heads (raw)
	Path  []int  `json:"path,omitempty"`  // sender's snapshot path (raw)
	ID    int    `json:"id,omitempty"`    // local: abstract id of the change to create
	Snap  bool   `json:"snap,omitempty"`  // local: create a snapshot
}

type Case struct {
	Kind  string   `json:"kind"` // tree | ot | otv (object tree with the real validator; dag entries may be "bad") | oi (ot/otv with local AddContent steps; Real selects the validator)
	Real  bool     `json:"real,omitempty"`
	Gen   string   `json:"gen"`
	Dag   []Chg    `json:"dag"` // root first
	Hists [][]Step `json:"hists"`
	Tags  []string `json:"tags,omitempty"`
	// kind "pool" (pool.go): several independent trees (Dag = all their changes, disjoint ids) + one event trace
	Level string `json:"level,omitempty"` // tree | ot
	Exec  string `json:"exec,omitempty"`  // nested | nested1 | co
	Ev    []PEv  `json:"ev,omitempty"`
}

type Obs struct {
	Mode   string
	Err    bool
	Heads  []int
	Iter   []int
	Stored []int
	Rank   []int // stored changes sorted by their OrderId strings (object-tree kinds)
}

func dagMap(d []Chg) map[int]Chg {
	m := make(map[int]Chg, len(d))
	for _, c := range d {
		m[c.ID] = c
	}
	return m
}

// ---------------------------------------------------------------- level 1: objecttree.Tree

func s5(id int) string {
	if id == 0 {
		return ""
	}
	return fmt.Sprintf("%05d", id)
}
func n5(s string) int {
	var v int
	if _, err := fmt.Sscanf(s, "%d", &v); err != nil {
		return 99999
	}
	return v
}

func mkChange(c Chg) *objecttree.Change {
	prev := make([]string, len(c.Prev))
	for i, p := range c.Prev {
		prev[i] = s5(p)
	}
	return &objecttree.Change{Id: s5(c.ID), PreviousIds: prev, SnapshotId: s5(c.Snap), IsSnapshot: c.IsSnap}
}

func runTreeHist(dm map[int]Chg, hist []Step) (obs []Obs, monoBad bool, panicked string) {
	defer func() {
		if r := recover(); r != nil {
			panicked = fmt.Sprint(r)
		}
	}()
	tr := new(objecttree.Tree)
	for _, st := range hist {
		chs := make([]*objecttree.Change, 0, len(st.Batch))
		for _, id := range st.Batch {
			chs = append(chs, mkChange(dm[id]))
		}
		o := Obs{}
		if st.Op == "fast" {
			tr.AddFast(chs...)
			o.Mode = "Nothing"
		} else {
			m, _ := tr.Add(chs...)
			o.Mode = modeName(m)
		}
		for _, h := range tr.Heads() {
			o.Heads = append(o.Heads, n5(h))
		}
		sort.Ints(o.Heads)
		prev := ""
		if tr.Root() != nil {
			tr.IterateSkip(tr.RootId(), func(c *objecttree.Change) bool {
				o.Iter = append(o.Iter, n5(c.Id))
				if c.OrderId == "" || (prev != "" && !(prev < c.OrderId)) {
					monoBad = true
				}
				prev = c.OrderId
				return true
			})
		}
		obs = append(obs, o)
	}
	return
}

// ---------------------------------------------------------------- level 2: object tree + storage

func runOTHist(w *World, dm map[int]Chg, root Chg, hist []Step, real bool, chk *oidCheck) (obs []Obs, monoBad bool, panicked string) {
	defer func() {
		if r := recover(); r != nil {
			panicked = fmt.Sprint(r)
		}
	}()
	p := w.newPeer(root, real)
	for _, st := range hist {
		o := Obs{Mode: "Nothing"}
		switch st.Op {
		case "reopen":
			if err := p.Reopen(); err != nil {
				o.Err = true
			}
		case "local":
			chk.beforeLocal(p)
			c, err := p.AddContent(st.ID, st.Snap)
			if err != nil {
				o.Err = true
				chk.localFailed(p, st, err)
			} else {
				dm[c.ID] = c
				o.Mode = "Append"
				if st.Snap {
					o.Mode = "Rebuild"
				}
			}
		default:
			res, err := p.AddRaw(dm, st.Batch, st.Heads, st.Path, 0)
			if err != nil {
				if res == "PANIC" {
					panic(err)
				}
				o.Err = true
			} else {
				o.Mode = res
			}
		}
		o.Heads = p.Heads()
		var m1, m2 bool
		o.Iter, m1 = p.Iter()
		var all []objecttree.StorageChange
		o.Stored, all, m2 = p.Stored()
		if !m1 || !m2 {
			monoBad = true
		}
		o.Rank = chk.rank(p, dm, all)
		obs = append(obs, o)
	}
	chk.lexidLaws(p)
	return
}

// ---------------------------------------------------------------- Coq terms

func nl(v []int) string {
	s := make([]string, len(v))
	for i, x := range v {
		s[i] = fmt.Sprintf("%d", x)
	}
	return "[" + strings.Join(s, ";") + "]"
}

func chgTerm(c Chg) string {
	return fmt.Sprintf("(mkChange %d %s %d %s)", c.ID, nl(c.Prev), c.Snap, vlib.Bool(c.IsSnap))
}

func stepTerm(st Step, o Obs) string {
	switch st.Op {
	case "add":
		return fmt.Sprintf("(SAdd %s %s %s %s)", nl(st.Batch), o.Mode, nl(o.Heads), nl(o.Iter))
	case "fast":
		return fmt.Sprintf("(SAddFast %s %s %s)", nl(st.Batch), nl(o.Heads), nl(o.Iter))
	case "raw":
		return fmt.Sprintf("(SRaw %s %s %s %s %s %s %s)", nl(st.Batch), nl(st.Path), vlib.Bool(!o.Err), o.Mode, nl(o.Heads), nl(o.Iter), nl(o.Stored))
	}
	return fmt.Sprintf("(SReopen %s %s %s %s)", vlib.Bool(!o.Err), nl(o.Heads), nl(o.Iter), nl(o.Stored))
}

// object-tree kinds: steps with the ranking of the stored changes by their real OrderId strings (COI cases)
func istepTerm(st Step, o Obs) string {
	switch st.Op {
	case "raw":
		return fmt.Sprintf("(XRaw %s %s %s %s %s %s %s %s)", nl(st.Batch), nl(st.Path), vlib.Bool(!o.Err), o.Mode, nl(o.Heads), nl(o.Iter), nl(o.Stored), nl(o.Rank))
	case "local":
		return fmt.Sprintf("(XLocal %d %s %s %s %s %s %s)", st.ID, vlib.Bool(st.Snap), vlib.Bool(!o.Err), nl(o.Heads), nl(o.Iter), nl(o.Stored), nl(o.Rank))
	}
	return fmt.Sprintf("(XReopen %s %s %s %s %s)", vlib.Bool(!o.Err), nl(o.Heads), nl(o.Iter), nl(o.Stored), nl(o.Rank))
}

func caseTerm(c Case, obs [][]Obs) string {
	var sb strings.Builder
	switch c.Kind {
	case "tree":
		sb.WriteString("(CTree [")
	default:
		sb.WriteString("(COI [")
	}
	for i, ch := range c.Dag {
		if i > 0 {
			sb.WriteString(";")
		}
		sb.WriteString(chgTerm(ch))
	}
	if c.Kind != "tree" {
		var bad []int
		for _, ch := range c.Dag {
			if ch.Bad != 0 {
				bad = append(bad, ch.ID)
			}
		}
		sb.WriteString("] " + nl(bad) + " [")
	} else {
		sb.WriteString("] [")
	}
	for h, hist := range c.Hists {
		if h > 0 {
			sb.WriteString(";\n  ")
		}
		sb.WriteString("[")
		for i, st := range hist {
			if i > 0 {
				sb.WriteString(";")
			}
			if c.Kind == "tree" {
				sb.WriteString(stepTerm(st, obs[h][i]))
			} else {
				sb.WriteString(istepTerm(st, obs[h][i]))
			}
		}
		sb.WriteString("]")
	}
	sb.WriteString("])")
	return sb.String()
}

// ---------------------------------------------------------------- running one case

type runner struct {
	w       *World
	out     *vlib.Writer
	samples []interface{}
	// one sample of an interleaved-trees case
	poolSample bool
}

func (r *runner) run(c Case) {
	if c.Kind == "pool" {
		r.runPool(c)
		return
	}
	r.w.Tick()
	dm := dagMap(c.Dag)
	obs := make([][]Obs, len(c.Hists))
	mono := false
	pan := ""
	chk := &oidCheck{}
	for h, hist := range c.Hists {
		var mb bool
		var p string
		if c.Kind == "tree" {
			obs[h], mb, p = runTreeHist(dm, hist)
		} else {
			chk.hist = h
			obs[h], mb, p = runOTHist(r.w, dm, c.Dag[0], hist, c.Kind == "otv" || c.Real, chk)
		}
		mono = mono || mb
		if p != "" {
			pan = p
			// pad the observations so that the term is well formed
			for len(obs[h]) < len(hist) {
				obs[h] = append(obs[h], Obs{Mode: "Nothing", Err: true})
			}
		}
	}
	// local changes: the DAG records the parents / snapshot base the real tree chose in THIS run
	for i := range c.Dag {
		c.Dag[i] = dm[c.Dag[i].ID]
	}
	branching := false
	kids := map[int]int{}
	for _, ch := range c.Dag {
		if len(ch.Prev) > 1 {
			branching = true
		}
		for _, p := range ch.Prev {
			kids[p]++
			if kids[p] > 1 {
				branching = true
			}
		}
	}
	nontrivial := len(c.Dag) >= 3 && branching && len(c.Hists) >= 2
	if c.Kind == "oi" {
		nontrivial = nontrivial && chk.localOnMulti > 0
	}
	if c.Kind == "otv" {
		// a rejected-delivery case counts only if some delivery really was rejected after attaching something
		nontrivial = nontrivial && r.rejStats(c, dm, obs)
	}
	term := caseTerm(c, obs)
	idx := r.out.Add(term, c, term, nontrivial)
	if pan != "" {
		r.out.Violation(idx, "panic", "the implementation panicked: "+pan, nil)
	}
	if mono {
		r.out.Violation(idx, "orderid-not-increasing", "OrderId strings do not strictly increase along an iteration / the stored sequence", nil)
	}
	for _, v := range chk.viol {
		r.out.Violation(idx, v.tag, v.what, v.data)
	}
	for k, n := range chk.stats {
		for j := 0; j < n; j++ {
			r.out.Stat(k)
		}
	}
	r.out.Stat("kind_" + c.Kind)
	r.out.Stat("gen_" + c.Gen)
	switch n := len(c.Dag); {
	case n <= 4:
		r.out.Stat("dag_le4")
	case n <= 12:
		r.out.Stat("dag_5_12")
	case n <= 50:
		r.out.Stat("dag_13_50")
	default:
		r.out.Stat("dag_gt50")
	}
	for h := range obs {
		for i, o := range obs[h] {
			if c.Hists[h][i].Op == "add" || c.Hists[h][i].Op == "raw" {
				r.out.Stat("mode_" + o.Mode)
			}
			if o.Err {
				r.out.Stat("step_error")
			}
			if c.Hists[h][i].Op == "reopen" {
				r.out.Stat("reopen")
			}
			if len(o.Stored) > len(o.Iter) && len(o.Iter) > 0 {
				r.out.Stat("obs_reduced_view")
			}
		}
	}
	if len(r.samples) < 4 && nontrivial && len(c.Dag) <= 8 && (len(r.samples) < 2 || c.Kind == "ot") {
		r.samples = append(r.samples, map[string]interface{}{"case": c, "observed_last": obs[0][len(obs[0])-1]})
	}
}

func main() {
	o := vlib.ParseFlags()
	vlib.Quiet()
	w := NewWorld()
	defer w.Close()
	r := &runner{w: w, out: vlib.NewWriter(o.Out, "C06_run", 40)}

	if o.Replay != "" {
		for _, raw := range vlib.ReadReplay(o.Replay) {
			var c Case
			if json.Unmarshal(raw, &c) != nil || len(c.Dag) == 0 {
				continue
			}
			r.run(c)
		}
		r.out.Finish("replay", r.samples, nil)
		return
	}
	rng := vlib.NewRand(o.Seed)
	thorough := o.Tier == "thorough"

	// C06_PART=rej runs only the rejected-delivery generators, C06_PART=base everything else (development aid)
	part := os.Getenv("C06_PART")
	// 1. exhaustive small DAGs on the Tree type: all parent-set choices x all id assignments x arrival orders
	maxN := 3
	if thorough {
		maxN = 4
	}
	exh := 0
	for n := 1; n <= maxN && part != "rej" && part != "oid" && part != "pool"; n++ {
		exh += exhaustiveTree(r, rng, n)
	}
	// 2. random DAGs on the Tree type
	nTree := 200 * o.Budget
	if thorough {
		nTree = 2000 * o.Budget
	}
	if part == "rej" || part == "oid" || part == "pool" {
		nTree = 0
	}
	for k := 0; k < nTree; k++ {
		g := rng.Fork(uint64(k))
		size := 2 + g.Intn(14)
		if g.Chance(1, 12) {
			size = 40 + g.Intn(160)
		}
		dag := randomDag(g, size)
		r.run(Case{Kind: "tree", Gen: "random", Dag: dag, Hists: treeHists(g, dag, 3+g.Intn(3))})
	}
	// 3. authored honest DAGs (real peers create and exchange changes, snapshots included) replayed on
	//    object trees over storage
	nOT := 100 * o.Budget
	if thorough {
		nOT = 900 * o.Budget
	}
	if part == "rej" || part == "oid" || part == "pool" {
		nOT = 0
	}
	for k := 0; k < nOT; k++ {
		g := rng.Fork(uint64(1000000 + k))
		size := 3 + g.Intn(12)
		if g.Chance(1, 15) {
			size = 30 + g.Intn(90)
		}
		dag, states := author(w, g, size)
		r.run(Case{Kind: "ot", Gen: "authored", Dag: dag, Hists: otHists(g, dag, states, 2+g.Intn(3))})
		if g.Chance(1, 3) {
			r.run(Case{Kind: "tree", Gen: "authored", Dag: dag, Hists: treeHists(g, dag, 3)})
		}
	}
	// 4. rejected deliveries: object trees with the REAL validator; batches that attach and are then rejected
	famN := 0
	nRej := 60 * o.Budget
	if thorough {
		nRej = 600 * o.Budget
	}
	if part == "base" || part == "oid" || part == "pool" {
		nRej = 0
	} else {
		famN = rejFamily(r)
	}
	for k := 0; k < nRej; k++ {
		g := rng.Fork(uint64(2000000 + k))
		r.run(rejRandom(w, g))
	}
	// 5. order-id worlds: local AddContent merges on multi-head trees next to remote deliveries, replayed elsewhere
	nOid := 70 * o.Budget
	if thorough {
		nOid = 700 * o.Budget
	}
	if part == "rej" || part == "base" || part == "pool" {
		nOid = 0
	}
	if part == "oid" || part == "" {
		for v := 0; v < 3; v++ {
			r.run(oidDemo(v))
		}
	}
	for k := 0; k < nOid; k++ {
		g := rng.Fork(uint64(3000000 + k))
		r.run(genOid(w, g))
	}
	// 6. interleaved independent trees: readers in progress while other trees are read / grown (shared iterator pool)
	nPool := 0
	if part == "" || part == "pool" {
		n := 110 * o.Budget
		if thorough {
			n = 1500 * o.Budget
		}
		nPool = poolAll(r, rng, n)
	}
	r.out.Finish("one case = one DAG with several arrival histories (permutation, partition into batches, duplicates, "+
		"reopen points); otv cases: object trees with the real validator, DAG extended by changes that fail validation, "+
		"histories with deliveries that attach and are rejected (rollback) next to a clean history over the same sets "+
		"(non-trivial only if a delivery was rejected after attaching); oi cases: object trees with local AddContent steps (non-trivial only if a "+
		"local change was created on a tree with >= 2 heads); pool cases: 2-4 independent trees with disjoint ids and one flat trace of additions, whole reads and "+
		"readers in progress (open / next / close) executed with nested callbacks on one goroutine or with one goroutine per reader sequentialised by handshakes under GOMAXPROCS(1) "+
		"(non-trivial only if some reader was handed changes after ANOTHER tree had been sorted since the reader was opened); every object-tree step carries the ranking of the stored changes by their real OrderId strings; generators: exhaustive DAGs with <= maxN non-root changes x all id assignments x arrival orders on the "+
		"Tree type, random DAGs up to 200 changes on the Tree type, honest DAGs authored by 2-4 real peers (snapshots, concurrent "+
		"snapshots, reduced trees) replayed on object trees over any-store storage; a case is non-trivial if the DAG has >= 3 "+
		"changes, branches or merges, and is replayed in >= 2 histories; distinct by full case term",
		r.samples, map[string]interface{}{"exhaustive_dags": exh, "max_n": maxN, "reject_family_cases": famN, "pool_cases": nPool})
}
