package main

import (
	"sort"

	"verifharness/vlib"
)

// ---------------------------------------------------------------- DAG generators

// exhaustiveTree enumerates every DAG with n non-root changes (change i picks a non-empty parent set among
// the earlier ones) and every assignment of ids 2..n+1 to them, and replays each in many arrival orders.
func exhaustiveTree(r *runner, rng *vlib.Rand, n int) int {
	count := 0
	perms := permutations(n)
	var rec func(i int, parents [][]int)
	rec = func(i int, parents [][]int) {
		if i > n {
			for _, pm := range perms {
				idOf := func(k int) int {
					if k == 0 {
						return 1
					}
					return pm[k-1] + 2
				}
				dag := []Chg{{ID: 1, IsSnap: true}}
				for k := 1; k <= n; k++ {
					var pv []int
					for _, p := range parents[k-1] {
						pv = append(pv, idOf(p))
					}
					dag = append(dag, Chg{ID: idOf(k), Prev: pv, Snap: 1})
				}
				var hists [][]Step
				arr := perms
				if len(arr) > 6 {
					g := rng.Fork(uint64(count))
					var pick [][]int
					for j := 0; j < 6; j++ {
						pick = append(pick, arr[g.Intn(len(arr))])
					}
					arr = pick
				}
				for _, ap := range arr {
					h := []Step{{Op: "add", Batch: []int{1}}}
					for _, k := range ap {
						h = append(h, Step{Op: "add", Batch: []int{dag[k+1].ID}})
					}
					// whatever was dropped on the way arrives again, in creation order
					h = append(h, Step{Op: "add", Batch: allIDs(dag)})
					hists = append(hists, h)
				}
				// everything at once in reverse creation order, and a two-batch split with a duplicate
				rev := allIDs(dag)
				for a, b := 1, len(rev)-1; a < b; a, b = a+1, b-1 {
					rev[a], rev[b] = rev[b], rev[a]
				}
				hists = append(hists, []Step{{Op: "add", Batch: rev}})
				all := allIDs(dag)
				half := 1 + n/2
				hists = append(hists, []Step{{Op: "add", Batch: all[:half]}, {Op: "add", Batch: append(append([]int{}, all[half-1:]...), all[len(all)-1])}, {Op: "fast", Batch: all}})
				r.run(Case{Kind: "tree", Gen: "exhaustive", Dag: dag, Hists: hists})
				count++
			}
			return
		}
		for mask := 1; mask < 1<<i; mask++ {
			var ps []int
			for b := 0; b < i; b++ {
				if mask&(1<<b) != 0 {
					ps = append(ps, b)
				}
			}
			rec(i+1, append(parents, ps))
		}
	}
	rec(1, nil)
	return count
}

func permutations(n int) [][]int {
	var res [][]int
	cur := make([]int, 0, n)
	used := make([]bool, n)
	var rec func()
	rec = func() {
		if len(cur) == n {
			res = append(res, append([]int{}, cur...))
			return
		}
		for i := 0; i < n; i++ {
			if !used[i] {
				used[i] = true
				cur = append(cur, i)
				rec()
				cur = cur[:len(cur)-1]
				used[i] = false
			}
		}
	}
	rec()
	return res
}

func allIDs(dag []Chg) []int {
	r := make([]int, len(dag))
	for i, c := range dag {
		r[i] = c.ID
	}
	return r
}

// randomDag: ids are a random injection into 1..9999; parents mostly among the current heads.
func randomDag(g *vlib.Rand, size int) []Chg {
	used := map[int]bool{}
	newID := func() int {
		for {
			v := 1 + g.Intn(9999)
			if !used[v] {
				used[v] = true
				return v
			}
		}
	}
	root := newID()
	dag := []Chg{{ID: root, IsSnap: true}}
	heads := []int{root}
	for len(dag) < size {
		var prev []int
		k := 1
		if g.Chance(1, 3) {
			k = 1 + g.Intn(3)
		}
		if g.Chance(1, 6) {
			// a parent anywhere in the past (branch from an old change)
			prev = append(prev, dag[g.Intn(len(dag))].ID)
		} else {
			pm := g.Perm(len(heads))
			for j := 0; j < k && j < len(heads); j++ {
				prev = append(prev, heads[pm[j]])
			}
		}
		id := newID()
		dag = append(dag, Chg{ID: id, Prev: prev, Snap: root})
		var nh []int
		for _, h := range heads {
			keep := true
			for _, p := range prev {
				if p == h {
					keep = false
				}
			}
			if keep {
				nh = append(nh, h)
			}
		}
		heads = append(nh, id)
	}
	return dag
}

// ---------------------------------------------------------------- arrival histories for the Tree type

func treeHists(g *vlib.Rand, dag []Chg, k int) [][]Step {
	var hists [][]Step
	for h := 0; h < k; h++ {
		ids := allIDs(dag)
		rest := ids[1:]
		pm := g.Perm(len(rest))
		arrival := []int{ids[0]}
		for _, j := range pm {
			arrival = append(arrival, rest[j])
		}
		if g.Chance(1, 12) && len(arrival) > 1 {
			// the root does not arrive first: the first change of the first batch becomes the tree root
			arrival[0], arrival[1] = arrival[1], arrival[0]
		}
		var hist []Step
		sent := []int{}
		for i := 0; i < len(arrival); {
			sz := 1 + g.Intn(4)
			if g.Chance(1, 4) {
				sz = 1 + g.Intn(len(arrival))
			}
			if i+sz > len(arrival) {
				sz = len(arrival) - i
			}
			batch := append([]int{}, arrival[i:i+sz]...)
			if g.Chance(1, 4) && len(sent) > 0 {
				batch = append(batch, sent[g.Intn(len(sent))]) // duplicate of something sent earlier
			}
			if g.Chance(1, 6) {
				batch = append(batch, batch[g.Intn(len(batch))]) // duplicate inside the batch
			}
			op := "add"
			if g.Chance(1, 6) {
				op = "fast"
			}
			hist = append(hist, Step{Op: op, Batch: batch})
			sent = append(sent, arrival[i:i+sz]...)
			i += sz
		}
		// dropped changes arrive again until everything is attached: creation order, one batch
		hist = append(hist, Step{Op: "add", Batch: allIDs(dag)})
		if g.Chance(1, 3) {
			hist = append(hist, Step{Op: "add", Batch: allIDs(dag)})
		}
		hists = append(hists, hist)
	}
	return hists
}

// ---------------------------------------------------------------- authoring honest DAGs with real peers

type State struct {
	Have  []int
	Heads []int
	Path  []int
}

func snapshotState(p *Peer) State {
	ids, _, _ := p.Stored()
	return State{Have: ids, Heads: p.Heads(), Path: p.Path()}
}

func author(w *World, g *vlib.Rand, size int) ([]Chg, []State) {
	used := map[int]bool{}
	newID := func() int {
		for {
			v := 1 + g.Intn(9999)
			if !used[v] {
				used[v] = true
				return v
			}
		}
	}
	root := Chg{ID: newID(), IsSnap: true}
	dag := []Chg{root}
	dm := map[int]Chg{root.ID: root}
	np := 2 + g.Intn(3)
	peers := make([]*Peer, np)
	for i := range peers {
		peers[i] = w.NewPeer(root)
	}
	var states []State
	snapProb := 2 + g.Intn(8)
	syncProb := 2 + g.Intn(4)
	sync := func(from, to *Peer) {
		ids, _, _ := from.Stored()
		_, _ = to.AddRaw(dm, ids, from.Heads(), from.Path(), 0)
	}
	for len(dag) < size {
		p := peers[g.Intn(np)]
		if g.Chance(1, syncProb) {
			q := peers[g.Intn(np)]
			if q != p {
				sync(p, q)
				if g.Chance(1, 2) {
					states = append(states, snapshotState(q))
				}
			}
			continue
		}
		rootNow := p.in.N(p.tree.Root().Id)
		c := Chg{ID: newID(), Prev: p.Heads(), Snap: rootNow, IsSnap: g.Chance(1, snapProb)}
		dm[c.ID] = c
		if _, err := p.AddRaw(dm, []int{c.ID}, []int{c.ID}, p.Path(), 0); err != nil {
			delete(dm, c.ID)
			continue
		}
		dag = append(dag, c)
		if g.Chance(1, 2) {
			states = append(states, snapshotState(p))
		}
	}
	// final exchange so that one peer holds everything
	for round := 0; round < 2; round++ {
		for i := 1; i < np; i++ {
			sync(peers[i], peers[0])
		}
	}
	final := snapshotState(peers[0])
	if len(final.Have) != len(dag) {
		// could not gather everything through the real sync path: fall back to the full set with computed heads
		final = State{Have: allIDs(dag), Heads: headsOf(dag), Path: []int{root.ID}}
	}
	states = append(states, final)
	return dag, states
}

func headsOf(dag []Chg) []int {
	has := map[int]bool{}
	for _, c := range dag {
		for _, p := range c.Prev {
			has[p] = true
		}
	}
	var h []int
	for _, c := range dag {
		if !has[c.ID] {
			h = append(h, c.ID)
		}
	}
	sort.Ints(h)
	return h
}

func otHists(g *vlib.Rand, dag []Chg, states []State, k int) [][]Step {
	var hists [][]Step
	final := states[len(states)-1]
	for h := 0; h < k; h++ {
		var hist []Step
		steps := 1 + g.Intn(6)
		for s := 0; s < steps; s++ {
			x := states[g.Intn(len(states))]
			var batch []int
			all := g.Chance(1, 3)
			for _, id := range x.Have {
				if all || g.Chance(1, 2) {
					batch = append(batch, id)
				}
			}
			if g.Chance(2, 3) {
				pm := g.Perm(len(batch))
				nb := make([]int, len(batch))
				for i, j := range pm {
					nb[i] = batch[j]
				}
				batch = nb
			}
			if g.Chance(1, 5) && len(batch) > 0 {
				batch = append(batch, batch[g.Intn(len(batch))])
			}
			hist = append(hist, Step{Op: "raw", Batch: batch, Heads: x.Heads, Path: x.Path})
			if g.Chance(1, 5) {
				hist = append(hist, Step{Op: "reopen"})
			}
		}
		// the full final state, shuffled, then once more in stored order
		pm := g.Perm(len(final.Have))
		sh := make([]int, len(pm))
		for i, j := range pm {
			sh[i] = final.Have[j]
		}
		hist = append(hist, Step{Op: "raw", Batch: sh, Heads: final.Heads, Path: final.Path})
		hist = append(hist, Step{Op: "raw", Batch: final.Have, Heads: final.Heads, Path: final.Path})
		if g.Chance(1, 2) {
			hist = append(hist, Step{Op: "reopen"})
		}
		hists = append(hists, hist)
	}
	return hists
}
