// Shared driving code for the C06 harness: one any-store DB for the whole run (with the production
// (t,o) unique index), per-instance id prefixes so that many trees over the same abstract DAG can live
// in one DB, helpers to author honest DAGs with real object trees and to observe real trees.
package main

import (
	"context"
	"fmt"
	"os"
	"path/filepath"
	"sort"
	"strconv"
	"strings"
	"sync/atomic"
	"testing"

	anystore "github.com/anyproto/any-store"

	"github.com/anyproto/any-sync/commonspace/headsync/headstorage"
	"github.com/anyproto/any-sync/commonspace/object/accountdata"
	"github.com/anyproto/any-sync/commonspace/object/acl/list"
	"github.com/anyproto/any-sync/commonspace/object/tree/objecttree"
	"github.com/anyproto/any-sync/commonspace/object/tree/treechangeproto"
)

var ctx = context.Background()

// Chg is one abstract change; ids are small positive ints (0 = none).
type Chg struct {
	ID     int   `json:"id"`
	Prev   []int `json:"prev"`
	Snap   int   `json:"snap"`
	IsSnap bool  `json:"is_snap,omitempty"`
	// Bad: the change fails objectTreeValidator.validateChange on its own (only used by "otv" cases, whose trees
	// are built with the real validator): 1 = its ACL head id is unknown to the ACL, 2 = its identity has no
	// permission in the ACL. 0 = valid (owner identity, the ACL's head).
	Bad int `json:"bad,omitempty"`
}

type World struct {
	dir     string
	db      anystore.DB
	heads   headstorage.HeadStorage
	acl     list.AclList
	aclHead string
	creator *objecttree.MockChangeCreator
	inst    int
	dbCount int
	// identities for trees built with the real validator: the ACL owner (may write) and a stranger (no account)
	ownerID    []byte
	strangerID []byte
	keys       *accountdata.AccountKeys
}

func NewWorld() *World {
	w := &World{}
	keys, err := accountdata.NewRandom()
	must(err)
	w.keys = keys
	w.acl, err = list.NewInMemoryDerivedAcl("spaceId", keys)
	must(err)
	w.aclHead = w.acl.Head().Id
	w.ownerID, err = keys.SignKey.GetPublic().Marshall()
	must(err)
	stranger, err := accountdata.NewRandom()
	must(err)
	w.strangerID, err = stranger.SignKey.GetPublic().Marshall()
	must(err)
	w.creator = objecttree.NewMockChangeCreator(func() anystore.DB { return w.db })
	w.freshDB()
	// CreateNewTreeStorage installs the non-verifying StorageChangeBuilder (package-level variable)
	_ = w.creator.CreateNewTreeStorage(&testing.T{}, "warmup", w.aclHead, false)
	return w
}

func must(err error) {
	if err != nil {
		panic(err)
	}
}

func (w *World) freshDB() {
	if w.db != nil {
		_ = w.db.Close()
		_ = os.RemoveAll(w.dir)
	}
	dir, err := os.MkdirTemp("", "verif_c06_")
	must(err)
	w.dir = dir
	db, err := anystore.Open(ctx, filepath.Join(dir, "changes.db"), nil)
	must(err)
	w.db = db
	coll, err := db.Collection(ctx, objecttree.CollName)
	must(err)
	// the production index of spacestorage.Create: unique (tree id, order id)
	must(coll.EnsureIndex(ctx, anystore.IndexInfo{Fields: []string{objecttree.TreeKey, objecttree.OrderKey}, Unique: true}))
	w.heads, err = headstorage.New(ctx, db)
	must(err)
	w.dbCount = 0
}

// Tick is called between cases: start a new DB file when the current one has served many trees.
func (w *World) Tick() {
	if w.dbCount > 600 {
		w.freshDB()
	}
}

func (w *World) Close() {
	if w.db != nil {
		_ = w.db.Close()
		_ = os.RemoveAll(w.dir)
		w.db = nil
	}
}

// Inst is one naming instance: ids of the abstract DAG rendered with a unique fixed-width prefix.
// String comparison of rendered ids of one instance = numeric comparison of the abstract ids.
//
// Changes created LOCALLY on a peer (AddContent) get a real CID as id; the instance remembers the abstract id it
// stands for (cids / strs).  A CID ("bafy...") is greater than every rendered id ("0000012.00345") of the instance,
// so the abstract id of a local change must be greater than every other id that replica ever holds (the generators
// number local changes from 10001 / 20001 and deliver them only to replicas whose own local changes are greater).
type Inst struct {
	w    *World
	pref string
	raws map[int]*treechangeproto.RawTreeChangeWithId
	cids map[string]int
	strs map[int]string
	// real: raw changes carry a real identity and the tree is built with the real validator
	real bool
}

func (w *World) NewInst() *Inst {
	w.inst++
	w.dbCount++
	return &Inst{w: w, pref: fmt.Sprintf("%07d.", w.inst), raws: map[int]*treechangeproto.RawTreeChangeWithId{},
		cids: map[string]int{}, strs: map[int]string{}}
}

func (in *Inst) S(id int) string {
	if id == 0 {
		return ""
	}
	if s, ok := in.strs[id]; ok {
		return s
	}
	return in.pref + fmt.Sprintf("%05d", id)
}
func (in *Inst) Ss(ids []int) []string {
	r := make([]string, len(ids))
	for i, x := range ids {
		r[i] = in.S(x)
	}
	return r
}
func (in *Inst) N(s string) int {
	if v, ok := in.cids[s]; ok {
		return v
	}
	if !strings.HasPrefix(s, in.pref) {
		return 99999
	}
	v, err := strconv.Atoi(s[len(in.pref):])
	if err != nil {
		return 99999
	}
	return v
}
func (in *Inst) Ns(ss []string) []int {
	r := make([]int, len(ss))
	for i, s := range ss {
		r[i] = in.N(s)
	}
	return r
}

// Raw returns (building once) the raw change of c under this instance's naming; size pads the payload.
func (in *Inst) Raw(c Chg, pad int) *treechangeproto.RawTreeChangeWithId {
	if r, ok := in.raws[c.ID]; ok {
		return r
	}
	var r *treechangeproto.RawTreeChangeWithId
	if in.real {
		r = in.rawReal(c)
	} else if c.Snap == 0 && len(c.Prev) == 0 {
		r = in.w.creator.CreateRoot(in.S(c.ID), in.w.aclHead)
	} else {
		var data []byte
		if pad > 0 {
			data = make([]byte, pad)
		}
		r = in.w.creator.CreateRawWithData(in.S(c.ID), in.w.aclHead, in.S(c.Snap), c.IsSnap, data, in.Ss(c.Prev)...)
	}
	in.raws[c.ID] = r
	return r
}

const unknownAclHead = "verif-unknown-acl-head"

// rawReal assembles the raw change by hand (the MockChangeCreator cannot set an identity): same wire shape as
// changeBuilder.Build / BuildRoot, no signature, the id is the rendered abstract id (the trees are built with the
// non-verifying change builder, so neither the CID nor the signature is checked; the VALIDATOR is the real one).
func (in *Inst) rawReal(c Chg) *treechangeproto.RawTreeChangeWithId {
	w := in.w
	var payload []byte
	var err error
	if c.Snap == 0 && len(c.Prev) == 0 {
		payload, err = (&treechangeproto.RootChange{AclHeadId: w.aclHead, Identity: w.ownerID}).MarshalVT()
	} else {
		aclHead, identity := w.aclHead, w.ownerID
		switch c.Bad {
		case 1:
			aclHead = unknownAclHead
		case 2:
			identity = w.strangerID
		}
		payload, err = (&treechangeproto.TreeChange{
			TreeHeadIds:    in.Ss(c.Prev),
			AclHeadId:      aclHead,
			SnapshotBaseId: in.S(c.Snap),
			IsSnapshot:     c.IsSnap,
			Identity:       identity,
			DataType:       "mockDataType",
		}).MarshalVT()
	}
	must(err)
	raw, err := (&treechangeproto.RawTreeChange{Payload: payload}).MarshalVT()
	must(err)
	return &treechangeproto.RawTreeChangeWithId{RawChange: raw, Id: in.S(c.ID)}
}

// Peer is a real object tree over real storage.
type Peer struct {
	in      *Inst
	storage objecttree.Storage
	tree    objecttree.ObjectTree
	rootID  int
}

type addSeqSetter interface{ SetAddSeq(seq *atomic.Uint64) }

func (w *World) NewPeer(root Chg) *Peer { return w.newPeer(root, false) }

// NewPeerV: the object tree is built with objecttree.BuildMigratableObjectTree = the REAL objectTreeValidator
// (permissions of the change's identity at its ACL head, ACL heads monotone along previous ids) over the world's
// real ACL + the non-verifying change builder (ids stay the order-preserving rendered abstract ids).
func (w *World) NewPeerV(root Chg) *Peer { return w.newPeer(root, true) }

func (in *Inst) build(st objecttree.Storage) (objecttree.ObjectTree, error) {
	if in.real {
		return objecttree.BuildMigratableObjectTree(st, in.w.acl)
	}
	return objecttree.BuildTestableTree(st, in.w.acl)
}

func (w *World) newPeer(root Chg, real bool) *Peer {
	in := w.NewInst()
	in.real = real
	st, err := objecttree.CreateStorage(ctx, in.Raw(root, 0), in.w.heads, in.w.db)
	must(err)
	st.(addSeqSetter).SetAddSeq(&atomic.Uint64{})
	tr, err := in.build(st)
	must(err)
	return &Peer{in: in, storage: st, tree: tr, rootID: root.ID}
}

// Reopen builds a new storage object and a new object tree from what is in the DB.
func (p *Peer) Reopen() error {
	st, err := objecttree.NewStorage(ctx, p.in.S(p.rootID), p.in.w.heads, p.in.w.db)
	if err != nil {
		return err
	}
	st.(addSeqSetter).SetAddSeq(&atomic.Uint64{})
	tr, err := p.in.build(st)
	if err != nil {
		return err
	}
	p.storage, p.tree = st, tr
	return nil
}

func (p *Peer) Heads() []int {
	h := p.in.Ns(p.tree.Heads())
	sort.Ints(h)
	return h
}

// Iter returns the IterateRoot id sequence and whether OrderId strings strictly increase along it.
func (p *Peer) Iter() ([]int, bool) {
	var ids []int
	mono := true
	prev := ""
	_ = p.tree.IterateRoot(nil, func(c *objecttree.Change) bool {
		ids = append(ids, p.in.N(c.Id))
		if c.OrderId == "" || (prev != "" && !(prev < c.OrderId)) {
			mono = false
		}
		prev = c.OrderId
		return true
	})
	return ids, mono
}

// Stored returns Storage.GetAfterOrder("") and whether the order ids strictly increase.
func (p *Peer) Stored() ([]int, []objecttree.StorageChange, bool) {
	var ids []int
	var all []objecttree.StorageChange
	mono := true
	prev := ""
	_ = p.storage.GetAfterOrder(ctx, "", func(_ context.Context, c objecttree.StorageChange) (bool, error) {
		ids = append(ids, p.in.N(c.Id))
		cp := c
		cp.RawChange = append([]byte(nil), c.RawChange...)
		all = append(all, cp)
		if prev != "" && !(prev < c.OrderId) {
			mono = false
		}
		prev = c.OrderId
		return true, nil
	})
	return ids, all, mono
}

func (p *Peer) Path() []int {
	sp, err := p.tree.SnapshotPath()
	if err != nil {
		return nil
	}
	return p.in.Ns(sp)
}

func modeName(m objecttree.Mode) string {
	switch m {
	case objecttree.Append:
		return "Append"
	case objecttree.Rebuild:
		return "Rebuild"
	}
	return "Nothing"
}

// AddRaw calls AddRawChanges; returns mode name or "ERR".
func (p *Peer) AddRaw(dag map[int]Chg, batch []int, heads []int, path []int, pad int) (res string, err error) {
	defer func() {
		if r := recover(); r != nil {
			res, err = "PANIC", fmt.Errorf("%v", r)
		}
	}()
	raws := make([]*treechangeproto.RawTreeChangeWithId, 0, len(batch))
	for _, id := range batch {
		raws = append(raws, p.in.Raw(dag[id], pad))
	}
	r, e := p.tree.AddRawChanges(ctx, objecttree.RawChangesPayload{
		NewHeads: p.in.Ss(heads), RawChanges: raws, SnapshotPath: p.in.Ss(path)})
	if e != nil {
		return "ERR", e
	}
	return modeName(r.Mode), nil
}
