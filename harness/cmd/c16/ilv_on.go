//go:build c16ilv

package main

import "github.com/anyproto/any-sync/app/ocache"

// this binary was built with the instrumented copy of app/ocache (ilvbuild.go)
const ilvBuilt = true

func installHook() { ocache.VerifLockHook = lockHook }
