// Correspondence driver for C16: forces chosen schedules on the real app/ocache and writes what it observed
// as Coq cases (checked against Model/OCache.v [accept] and spec_C16 by coqc).
//
// The harness owns LoadFunc, Object.Close and Object.TryClose; each parks its goroutine on a gate. The
// scheduler performs ONE action at a time (start the next call of a thread, or let one parked gate return with
// a chosen result) and then waits for quiescence: a stop-the-world goroutine dump (runtime.Stack(all)) in
// which every goroutine of the run is blocked on a channel/select (or has exited). A goroutine that was woken
// by a channel close is "runnable" in that dump, so quiescence is exact, not a timing guess.
package main

import (
	"bytes"
	"context"
	"encoding/json"
	"errors"
	"fmt"
	"os"
	"runtime"
	"strconv"
	"strings"
	"sync"
	"sync/atomic"
	"time"

	"github.com/anyproto/any-sync/app/ocache"

	"verifharness/vlib"
)

// ---------------------------------------------------------------------------------------- descriptions

type Op struct {
	Op  string `json:"op"`            // get pick add remove removesame tryremove gc close
	Id  int    `json:"id,omitempty"`  // 1,2
	Cur bool   `json:"cur,omitempty"` // removesame: pass the most recently created instance of id (else a foreign object)
}

type Desc struct {
	Kind    string `json:"kind"`
	Setup   []Op   `json:"setup,omitempty"` // run to completion by an extra thread before anything else
	Progs   [][]Op `json:"progs"`
	Choices []int  `json:"choices"`
	// Fine: lock-region granularity (see ilv.go). Every goroutine is additionally parked in front of each
	// outermost mutex acquisition of the cache; "let thread t take its next lock" is a scheduler action.
	Fine  bool `json:"fine,omitempty"`
	Bound int  `json:"bound,omitempty"` // preemption bound the schedule was enumerated under (informational)
}

type Ev struct {
	K   string // call ret ls le ce cx te tx
	T   int
	Op  Op
	N   int // instance
	Id  int
	Res string // Coq result term
	B   bool
}

var errLoad = errors.New("harness: load failed")

// ---------------------------------------------------------------------------------------- runner

type resp struct{ ok bool }

type thread struct {
	prog   []Op
	pc     int
	inCall bool
	goid   int64
	parked string // "", load, close, try, lock
	gate   chan resp
	// fine mode; touched only by the goroutine of the thread's current call
	held     int  // instrumented mutexes held
	skipNext bool // a harness callback has just returned: the next outermost lock is passed through
	noYield  bool // setup thread
}

type obj struct {
	r  *runner
	n  int
	id int
}

type runner struct {
	mu        sync.Mutex
	cache     ocache.OCache
	th        []*thread
	goids     map[int64]int
	events    []Ev
	cuts      []int
	ninst     int
	last      map[int]*obj
	aborted   bool
	panics    []string
	problems  []string
	maxConc   int
	fine      bool
	nLockPark int
}

func curGoid() int64 {
	var buf [64]byte
	n := runtime.Stack(buf[:], false)
	// "goroutine 123 [running]:"
	f := bytes.Fields(buf[:n])
	if len(f) < 2 {
		return -1
	}
	id, _ := strconv.ParseInt(string(f[1]), 10, 64)
	return id
}

func (r *runner) curThread() int {
	g := curGoid()
	r.mu.Lock()
	defer r.mu.Unlock()
	if t, ok := r.goids[g]; ok {
		return t
	}
	r.problems = append(r.problems, "callback on unknown goroutine")
	return -1
}

func (r *runner) log(e Ev) {
	r.mu.Lock()
	r.events = append(r.events, e)
	r.mu.Unlock()
}

func (r *runner) park(t int, kind string) resp {
	if t < 0 {
		return resp{}
	}
	r.mu.Lock()
	if r.aborted {
		r.mu.Unlock()
		return resp{ok: kind != "load"}
	}
	th := r.th[t]
	th.parked = kind
	gate := th.gate
	r.mu.Unlock()
	v, ok := <-gate
	if !ok {
		return resp{ok: kind != "load"}
	}
	return v
}

func (r *runner) loadFunc(ctx context.Context, id string) (ocache.Object, error) {
	t := r.curThread()
	nid, _ := strconv.Atoi(id)
	r.log(Ev{K: "ls", T: t, Id: nid})
	rs := r.park(t, "load")
	r.afterCallback(t)
	r.mu.Lock()
	defer r.mu.Unlock()
	if rs.ok {
		r.ninst++
		o := &obj{r: r, n: r.ninst, id: nid}
		r.last[nid] = o
		r.events = append(r.events, Ev{K: "le", T: t, Id: nid, N: o.n})
		return o, nil
	}
	r.events = append(r.events, Ev{K: "le", T: t, Id: nid, N: 0})
	return nil, errLoad
}

func (o *obj) Close() error {
	t := o.r.curThread()
	o.r.log(Ev{K: "ce", T: t, N: o.n})
	o.r.park(t, "close")
	o.r.afterCallback(t)
	o.r.log(Ev{K: "cx", T: t, N: o.n})
	return nil
}

func (o *obj) TryClose(time.Duration) (bool, error) {
	t := o.r.curThread()
	o.r.log(Ev{K: "te", T: t, N: o.n})
	rs := o.r.park(t, "try")
	o.r.afterCallback(t)
	o.r.log(Ev{K: "tx", T: t, N: o.n, B: rs.ok})
	return rs.ok, nil
}

func newRunner(progs [][]Op) *runner {
	r := &runner{goids: map[int64]int{}, last: map[int]*obj{}}
	for _, p := range progs {
		r.th = append(r.th, &thread{prog: p, gate: make(chan resp)})
	}
	// negative TTL: GC's "lastUsage before now-ttl" filter holds for every entry; gc period 0: no ticker
	r.cache = ocache.New(r.loadFunc, ocache.WithTTL(-time.Hour), ocache.WithGCPeriod(0))
	return r
}

func valRes(v ocache.Object, err error) string {
	switch {
	case err == nil && v != nil:
		if o, ok := v.(*obj); ok {
			return fmt.Sprintf("(RVal %d)", o.n)
		}
		return "(RVal 0)"
	case err == nil:
		return "RNilNil"
	default:
		return errRes(err)
	}
}

func errRes(err error) string {
	switch {
	case err == nil:
		return "RNil"
	case errors.Is(err, ocache.ErrClosed):
		return "RErrClosed"
	case errors.Is(err, ocache.ErrExists):
		return "RErrExists"
	case errors.Is(err, ocache.ErrNotExists):
		return "RErrNotExists"
	case errors.Is(err, errLoad):
		return "RErrLoad"
	}
	return "OTHER:" + err.Error()
}

func okRes(ok bool, err error) string {
	if err == nil {
		return "(ROk " + vlib.Bool(ok) + ")"
	}
	return errRes(err)
}

// startCall runs the next call of thread t on a fresh goroutine.
func (r *runner) startCall(t int) {
	th := r.th[t]
	op := th.prog[th.pc]
	th.pc++
	th.inCall = true
	th.goid = 0
	ready := make(chan struct{})
	go func() {
		g := curGoid()
		r.mu.Lock()
		r.goids[g] = t
		th.goid = g
		th.held, th.skipNext = 0, false
		var addObj, sameObj *obj
		n := 0
		switch op.Op {
		case "add":
			r.ninst++
			addObj = &obj{r: r, n: r.ninst, id: op.Id}
			n = addObj.n
		case "removesame":
			if op.Cur && r.last[op.Id] != nil {
				sameObj = r.last[op.Id]
			} else {
				sameObj = &obj{r: r, n: 0, id: op.Id}
			}
			n = sameObj.n
		}
		r.events = append(r.events, Ev{K: "call", T: t, Op: op, N: n})
		r.mu.Unlock()
		close(ready)
		defer func() {
			if p := recover(); p != nil {
				r.mu.Lock()
				r.panics = append(r.panics, fmt.Sprintf("thread %d %s(%d): %v", t, op.Op, op.Id, p))
				th.inCall = false
				r.mu.Unlock()
			}
		}()
		ctx := context.Background()
		id := strconv.Itoa(op.Id)
		var res string
		switch op.Op {
		case "get":
			res = valRes(r.cache.Get(ctx, id))
		case "pick":
			res = valRes(r.cache.Pick(ctx, id))
		case "add":
			err := r.cache.Add(id, addObj)
			if err == nil {
				r.mu.Lock()
				r.last[op.Id] = addObj
				r.mu.Unlock()
			}
			res = errRes(err)
		case "remove":
			res = okRes(r.cache.Remove(ctx, id))
		case "removesame":
			res = okRes(r.cache.RemoveSame(ctx, id, sameObj))
		case "tryremove":
			res = okRes(r.cache.TryRemove(id))
		case "gc":
			r.cache.GC()
			res = "RNil"
		case "close":
			res = errRes(r.cache.Close())
		default:
			res = "OTHER:unknown op"
		}
		r.mu.Lock()
		r.events = append(r.events, Ev{K: "ret", T: t, Res: res})
		th.inCall = false
		r.mu.Unlock()
	}()
	<-ready
}

var blockedStates = map[string]bool{
	"chan receive": true, "select": true, "chan send": true, "select (no cases)": true,
	"chan receive (nil chan)": true, "sync.Cond.Wait": true, "sync.WaitGroup.Wait": true,
	// blocked on a mutex whose holder is parked (can only happen when a callback is invoked under a lock)
	"sync.Mutex.Lock": true, "sync.RWMutex.Lock": true, "sync.RWMutex.RLock": true,
}

// goroutineStates returns goid -> wait state of all goroutines (stop-the-world snapshot).
func goroutineStates(buf []byte) (map[int64]string, []byte) {
	for {
		n := runtime.Stack(buf, true)
		if n < len(buf) {
			buf = buf[:n]
			break
		}
		buf = make([]byte, 2*len(buf))
	}
	res := map[int64]string{}
	for _, line := range bytes.Split(buf, []byte("\n")) {
		if !bytes.HasPrefix(line, []byte("goroutine ")) {
			continue
		}
		rest := line[len("goroutine "):]
		sp := bytes.IndexByte(rest, ' ')
		lb := bytes.IndexByte(rest, '[')
		rb := bytes.LastIndexByte(rest, ']')
		if sp < 0 || lb < 0 || rb < lb {
			continue
		}
		id, err := strconv.ParseInt(string(rest[:sp]), 10, 64)
		if err != nil {
			continue
		}
		st := string(rest[lb+1 : rb])
		if c := strings.IndexByte(st, ','); c >= 0 {
			st = st[:c]
		}
		res[id] = st
	}
	return res, buf[:cap(buf)]
}

var stackBuf = make([]byte, 1<<16)

// settle waits until every goroutine of the run is blocked or gone. Returns false on timeout.
func (r *runner) settle(limit time.Duration) bool {
	deadline := time.Now().Add(limit)
	for i := 0; ; i++ {
		var states map[int64]string
		states, stackBuf = goroutineStates(stackBuf)
		// Only the scheduler starts goroutines, so the goroutines of the run are exactly the th.goid's it
		// has seen (stable here). The dump is one consistent snapshot: the run is quiescent iff each of
		// them is blocked in it or has exited. (Flags written by the goroutines are NOT consulted: they
		// could be newer than the snapshot.)
		quiet := true
		for _, th := range r.th {
			if th.goid == 0 {
				continue
			}
			st, alive := states[th.goid]
			if alive && !blockedStates[st] {
				quiet = false
				break
			}
		}
		if quiet {
			return true
		}
		if time.Now().After(deadline) {
			return false
		}
		if i < 50 {
			runtime.Gosched()
		} else {
			time.Sleep(20 * time.Microsecond)
		}
	}
}

// Wall-clock guard for "still running": generous (the machine may be heavily loaded; a goroutine that is merely
// waiting for a CPU must not be reported), cut down once a hang has been reported in this run.
var hangSeen atomic.Bool
var noHint = os.Getenv("C16_NOHINT") != ""

func settleLimit() time.Duration {
	if hangSeen.Load() {
		return 5 * time.Second
	}
	return 40 * time.Second
}

type option struct {
	t    int
	kind string // start, load, close, try, lock
	ok   bool
}

// options lists the scheduler's possible actions in canonical order: by thread; in fine mode the options of
// the thread that moved last come first (so that choice 0 = "no preemption").
func (r *runner) options(only, last int) []option {
	var res []option
	r.mu.Lock()
	defer r.mu.Unlock()
	order := make([]int, 0, len(r.th))
	if r.fine && last >= 0 {
		order = append(order, last)
	}
	for t := range r.th {
		if !(r.fine && last >= 0 && t == last) {
			order = append(order, t)
		}
	}
	for _, t := range order {
		th := r.th[t]
		if only >= 0 && t != only {
			continue
		}
		switch {
		case th.inCall && th.parked == "lock":
			res = append(res, option{t, "lock", true})
		case th.inCall && th.parked == "load":
			res = append(res, option{t, "load", true}, option{t, "load", false})
		case th.inCall && th.parked == "close":
			res = append(res, option{t, "close", true})
		case th.inCall && th.parked == "try":
			res = append(res, option{t, "try", true}, option{t, "try", false})
		case !th.inCall && th.pc < len(th.prog):
			res = append(res, option{t, "start", true})
		}
	}
	return res
}

func (r *runner) abort() {
	r.mu.Lock()
	r.aborted = true
	for _, th := range r.th {
		if th.parked != "" {
			th.parked = ""
			close(th.gate)
			th.gate = make(chan resp) // never used again
		}
	}
	r.mu.Unlock()
}

type outcome struct {
	choices []int
	counts  []int
	costs   [][]int // fine mode: per decision, per option: 1 = choosing it preempts the thread that moved last
	steps   [][]Ev
	movers  [][]int // fine mode: per step, the threads that were not frozen at a gate during it
	fine    bool
	locks   int // fine mode: number of lock gates passed
	nth     int
	bad     string // "", panic, hang, deadlock, error
	what    string
	conc    int
}

// runSchedule forces one schedule: choices[i] selects the i-th decision (index into the canonical option list);
// after the prefix, pick(i, n) chooses.
func runSchedule(d Desc, pick func(i, n int) int) outcome {
	return runScheduleOpts(d, func(i int, opts []option, last int) int { return pick(i, len(opts)) })
}

// runScheduleOpts: the chooser also sees the options and the thread that moved last.
func runScheduleOpts(d Desc, pick func(i int, opts []option, last int) int) outcome {
	progs := append([][]Op{}, d.Progs...)
	setupT := -1
	if len(d.Setup) > 0 {
		setupT = len(progs)
		progs = append(progs, d.Setup)
	}
	r := newRunner(progs)
	r.fine = d.Fine
	if setupT >= 0 {
		r.th[setupT].noYield = true
	}
	curRunner.Store(r)
	defer curRunner.Store(nil)
	out := outcome{nth: len(progs), fine: d.Fine}
	var movers [][]int
	last := -1
	start := time.Now()
	finish := func(bad, what string) outcome {
		r.abort()
		out.bad, out.what = bad, what
		r.mu.Lock()
		evs := append([]Ev{}, r.events...)
		cuts := append([]int{}, r.cuts...)
		r.mu.Unlock()
		for i := range cuts {
			end := len(evs)
			if i+1 < len(cuts) {
				end = cuts[i+1]
			}
			out.steps = append(out.steps, evs[cuts[i]:end])
		}
		out.conc = r.maxConc
		out.locks = r.nLockPark
		out.movers = movers
		return out
	}
	for step := 0; ; step++ {
		if lim := settleLimit(); !r.settle(lim) {
			hangSeen.Store(true)
			return finish("hang", fmt.Sprintf("goroutines still running %s after a scheduler action", lim))
		}
		r.mu.Lock()
		np, nprob := len(r.panics), len(r.problems)
		conc := 0
		for _, th := range r.th {
			if th.inCall {
				conc++
			}
		}
		if conc > r.maxConc {
			r.maxConc = conc
		}
		r.mu.Unlock()
		if np > 0 {
			return finish("panic", strings.Join(r.panics, "; "))
		}
		if nprob > 0 {
			return finish("error", strings.Join(r.problems, "; "))
		}
		only := -1
		if setupT >= 0 {
			th := r.th[setupT]
			if th.inCall || th.pc < len(th.prog) {
				only = setupT
			}
		}
		opts := r.options(only, last)
		if len(opts) == 0 {
			if conc > 0 {
				return finish("deadlock", "calls in progress, every goroutine blocked inside the cache, no gate to release")
			}
			return finish("", "")
		}
		if time.Since(start) > 4*settleLimit() || step > 400 {
			hangSeen.Store(true)
			return finish("hang", "schedule did not finish")
		}
		var c int
		if only >= 0 {
			c = 0 // setup: start / load ok
		} else {
			i := len(out.choices)
			if i < len(d.Choices) {
				c = d.Choices[i] % len(opts)
			} else {
				c = pick(i, opts, last)
			}
			out.choices = append(out.choices, c)
			out.counts = append(out.counts, len(opts))
			if d.Fine {
				lastHas := false
				for _, x := range opts {
					lastHas = lastHas || x.t == last
				}
				cs := make([]int, len(opts))
				for j, x := range opts {
					if lastHas && x.t != last {
						cs[j] = 1
					}
				}
				out.costs = append(out.costs, cs)
			}
		}
		o := opts[c]
		last = o.t
		r.mu.Lock()
		r.cuts = append(r.cuts, len(r.events))
		if d.Fine {
			// frozen during this step: every thread parked at a gate, except the one released now
			var mv []int
			for t, th := range r.th {
				if th.parked == "" || t == o.t {
					mv = append(mv, t)
				}
			}
			movers = append(movers, mv)
		}
		r.mu.Unlock()
		if o.kind == "start" {
			r.startCall(o.t)
		} else {
			r.mu.Lock()
			th := r.th[o.t]
			th.parked = ""
			g := th.gate
			r.mu.Unlock()
			g <- resp{ok: o.ok}
		}
		r.hint(o.t)
	}
}

// hint waits a short while for the thread that was just moved to reach its next gate or the end of its call,
// the usual outcome of a scheduler action. It only saves stop-the-world goroutine dumps: whether the run is
// quiescent is decided by settle alone.
func (r *runner) hint(t int) {
	if noHint {
		return
	}
	for i := 0; i < 150; i++ {
		r.mu.Lock()
		th := r.th[t]
		done := th.parked != "" || !th.inCall
		r.mu.Unlock()
		if done {
			return
		}
		if i < 100 {
			runtime.Gosched()
		} else {
			time.Sleep(10 * time.Microsecond)
		}
	}
}

// ---------------------------------------------------------------------------------------- Coq printing

func callTerm(e Ev) string {
	switch e.Op.Op {
	case "get":
		return fmt.Sprintf("(CGet %d)", e.Op.Id)
	case "pick":
		return fmt.Sprintf("(CPick %d)", e.Op.Id)
	case "add":
		return fmt.Sprintf("(CAdd %d %d)", e.Op.Id, e.N)
	case "remove":
		return fmt.Sprintf("(CRemove %d)", e.Op.Id)
	case "removesame":
		return fmt.Sprintf("(CRemoveSame %d %d)", e.Op.Id, e.N)
	case "tryremove":
		return fmt.Sprintf("(CTryRemove %d)", e.Op.Id)
	case "gc":
		return "CGC"
	case "close":
		return "CClose"
	}
	return "CGC"
}

func evTerm(e Ev) string {
	switch e.K {
	case "call":
		return fmt.Sprintf("ECall %d %s", e.T, callTerm(e))
	case "ret":
		return fmt.Sprintf("ERet %d %s", e.T, e.Res)
	case "ls":
		return fmt.Sprintf("ELoadStart %d %d", e.T, e.Id)
	case "le":
		if e.N == 0 {
			return fmt.Sprintf("ELoadEnd %d %d None", e.T, e.Id)
		}
		return fmt.Sprintf("ELoadEnd %d %d (Some %d)", e.T, e.Id, e.N)
	case "ce":
		return fmt.Sprintf("ECloseEntry %d %d", e.T, e.N)
	case "cx":
		return fmt.Sprintf("ECloseExit %d %d", e.T, e.N)
	case "te":
		return fmt.Sprintf("ETryEntry %d %d", e.T, e.N)
	case "tx":
		return fmt.Sprintf("ETryExit %d %d %s", e.T, e.N, vlib.Bool(e.B))
	}
	return "?"
}

func caseTerm(o outcome) string {
	steps := make([]string, len(o.steps))
	for i, s := range o.steps {
		evs := make([]string, len(s))
		for j, e := range s {
			evs[j] = evTerm(e)
		}
		steps[i] = vlib.List(evs)
		if o.fine {
			mv := make([]string, len(o.movers[i]))
			for j, t := range o.movers[i] {
				mv[j] = strconv.Itoa(t)
			}
			steps[i] = vlib.Pair(vlib.List(mv), steps[i])
		}
	}
	if o.fine {
		return fmt.Sprintf("CFine %s", vlib.List(steps))
	}
	return fmt.Sprintf("CSched %d %s", o.nth, vlib.List(steps))
}

// ---------------------------------------------------------------------------------------- generation

type gen struct {
	w            *vlib.Writer
	samples      []interface{}
	sampledKinds map[string]bool
}

func (g *gen) emit(d Desc, o outcome) {
	d.Choices = o.choices
	term := caseTerm(o)
	unexpected := ""
	for _, s := range o.steps {
		for _, e := range s {
			if e.K == "ret" && strings.HasPrefix(e.Res, "OTHER:") {
				unexpected = e.Res
			}
			if e.T < 0 {
				unexpected = "callback on unknown goroutine"
			}
		}
	}
	if unexpected != "" {
		// not expressible as a model result: report directly, keep the case well-typed
		term = strings.ReplaceAll(term, unexpected, "RNilNil")
	}
	idx := g.w.Add(term, d, term, o.conc >= 2)
	g.w.Stat("kind:" + d.Kind)
	g.w.Stat(fmt.Sprintf("threads:%d", len(d.Progs)))
	g.w.Stat(fmt.Sprintf("decisions:%02d", len(o.choices)/5*5))
	for _, s := range o.steps {
		for _, e := range s {
			switch e.K {
			case "call":
				g.w.Stat("op:" + e.Op.Op)
			case "ret":
				r := e.Res
				if i := strings.IndexByte(r, ' '); i > 0 {
					r = r[1:i]
				}
				g.w.Stat("ret:" + r)
			case "le":
				if e.N == 0 {
					g.w.Stat("load:err")
				} else {
					g.w.Stat("load:ok")
				}
			case "tx":
				g.w.Stat("tryclose:" + vlib.Bool(e.B))
			case "cx":
				g.w.Stat("close")
			}
		}
		if len(s) >= 4 {
			g.w.Stat("macrostep_events>=4")
		}
	}
	if o.bad != "" {
		g.w.Stat("bad:" + o.bad)
		g.w.Violation(idx, "C16-"+o.bad, o.bad+": "+o.what, map[string]interface{}{"desc": d})
	}
	if unexpected != "" {
		g.w.Violation(idx, "C16-unexpected-result", "a call returned something the property does not allow: "+unexpected, map[string]interface{}{"desc": d})
	}
	if len(g.samples) < 5 && o.conc >= 2 && len(o.choices) >= 5 && o.bad == "" && !g.sampledKinds[d.Kind] {
		g.sampledKinds[d.Kind] = true
		g.samples = append(g.samples, map[string]interface{}{"desc": d, "coq_case": term})
	}
}

// exhaustive enumeration of all schedules of d (stateless DFS over the decision tree), capped.
func (g *gen) explore(d Desc, limit int) int {
	prefix := []int{}
	n := 0
	for {
		dd := d
		dd.Choices = prefix
		o := runSchedule(dd, func(i, k int) int { return 0 })
		g.emit(d, o)
		n++
		if n >= limit {
			g.w.Stat("explore:truncated")
			return n
		}
		i := len(o.choices) - 1
		for i >= 0 && o.choices[i]+1 >= o.counts[i] {
			i--
		}
		if i < 0 {
			return n
		}
		prefix = append(append([]int{}, o.choices[:i]...), o.choices[i]+1)
	}
}

func (g *gen) random(d Desc, rnd *vlib.Rand) {
	o := runSchedule(d, func(i, k int) int { return rnd.Intn(k) })
	g.emit(d, o)
}

var alphabet = []Op{
	{Op: "get", Id: 1}, {Op: "pick", Id: 1}, {Op: "add", Id: 1}, {Op: "remove", Id: 1},
	{Op: "tryremove", Id: 1}, {Op: "removesame", Id: 1, Cur: true}, {Op: "gc"}, {Op: "close"},
}
var alphabet2 = []Op{
	{Op: "get", Id: 2}, {Op: "remove", Id: 2}, {Op: "tryremove", Id: 2}, {Op: "add", Id: 2},
	{Op: "removesame", Id: 1}, {Op: "pick", Id: 2},
}

func randOp(rnd *vlib.Rand) Op {
	if rnd.Chance(1, 4) {
		return alphabet2[rnd.Intn(len(alphabet2))]
	}
	// Close rarely: it ends everything
	for {
		op := alphabet[rnd.Intn(len(alphabet))]
		if op.Op == "close" && !rnd.Chance(1, 3) {
			continue
		}
		return op
	}
}

func main() {
	vlib.Quiet()
	o := vlib.ParseFlags()
	if !ilvBuilt {
		reexecInstrumented(o.Out) // builds the instrumented binary (ilvbuild.go) and becomes it
	}
	tStart := time.Now()
	installHook()
	if err := selfProbe(); err != nil {
		fmt.Fprintln(os.Stderr, "c16:", err)
		os.Exit(3)
	}
	w := vlib.NewWriter(o.Out, "C16_run", 220)
	g := &gen{w: w, sampledKinds: map[string]bool{}}
	rule := "every case is one forced schedule of the real ocache (one scheduler action at a time, exact quiescence " +
		"between actions): exhaustive enumeration of all schedules (incl. load ok/err and try-close verdicts) of all " +
		"unordered pairs over {get,pick,add,remove,tryremove,removesame,gc,close} on id 1 with and without a preloaded " +
		"instance, pairs mixing ids 1 and 2, sampled/exhaustive triples (thorough: quadruples), random multi-call programs; " +
		"interleaving families (kind ilv-*): the same on an instrumented build of app/ocache where every goroutine is also " +
		"parked in front of each outermost c.mu / e.mx acquisition, all schedules with at most 1-2 (thorough 2-3) preemptions of " +
		"all unordered pairs with/without a preloaded instance, of GC/Close against calls on a second id and of selected triples, " +
		"plus random schedules of random triples / two-call programs; " +
		"non-trivial = at least two calls were in progress at the same time; distinct by the full observed trace"

	if o.Replay != "" {
		for _, raw := range vlib.ReadReplay(o.Replay) {
			var d Desc
			if json.Unmarshal(raw, &d) != nil || len(d.Progs) == 0 {
				// violation files wrap the description
				var wrap struct {
					Desc Desc `json:"desc"`
				}
				if json.Unmarshal(raw, &wrap) != nil || len(wrap.Desc.Progs) == 0 {
					continue
				}
				d = wrap.Desc
			}
			res := runSchedule(d, func(i, k int) int { return 0 })
			g.emit(d, res)
		}
		w.Finish("replay", g.samples, nil)
		return
	}

	thorough := o.Tier == "thorough"
	setups := [][]Op{nil, {{Op: "get", Id: 1}}}
	capPair, capTriple := 400, 0
	if thorough {
		capPair, capTriple = 5000, 1500
	}
	nSched := 0
	// pairs on id 1
	for i := 0; i < len(alphabet); i++ {
		for j := i; j < len(alphabet); j++ {
			for _, su := range setups {
				d := Desc{Kind: "pair", Setup: su, Progs: [][]Op{{alphabet[i]}, {alphabet[j]}}}
				nSched += g.explore(d, capPair)
			}
		}
	}
	// pairs across two ids (the map is shared; GC / Close walk both entries)
	for _, a := range []Op{{Op: "gc"}, {Op: "close"}, {Op: "get", Id: 1}, {Op: "remove", Id: 1}} {
		for _, b := range alphabet2 {
			d := Desc{Kind: "pair2", Setup: []Op{{Op: "get", Id: 1}, {Op: "get", Id: 2}}, Progs: [][]Op{{a}, {b}}}
			nSched += g.explore(d, capPair)
		}
	}
	rnd := vlib.NewRand(o.Seed)
	// selected triples around a preloaded instance, exhaustively (capped) in every tier
	get1, rm1, try1, gc, cl := alphabet[0], alphabet[3], alphabet[4], alphabet[6], alphabet[7]
	for _, tr := range [][]Op{{try1, rm1, get1}, {get1, get1, rm1}, {gc, rm1, get1}, {cl, get1, try1}, {rm1, rm1, get1}} {
		d := Desc{Kind: "triple-selected", Setup: setups[1], Progs: [][]Op{{tr[0]}, {tr[1]}, {tr[2]}}}
		nSched += g.explore(d, 200*o.Budget)
	}
	// triples
	if capTriple > 0 {
		for i := 0; i < len(alphabet); i++ {
			for j := i; j < len(alphabet); j++ {
				for k := j; k < len(alphabet); k++ {
					d := Desc{Kind: "triple", Setup: setups[(i+j+k)%2], Progs: [][]Op{{alphabet[i]}, {alphabet[j]}, {alphabet[k]}}}
					nSched += g.explore(d, capTriple)
				}
			}
		}
	}
	t0 := time.Now()
	nBefore := w.Count()
	nSched += g.ilvFamilies(thorough, o.Budget, rnd.Fork(16))
	fmt.Fprintf(os.Stderr, "c16: gate-only families so far %d cases; interleaving families %d cases in %.1fs\n", nBefore, w.Count()-nBefore, time.Since(t0).Seconds())
	nTriple, nQuad, nLong := 500, 100, 300
	if thorough {
		nTriple, nQuad, nLong = 4000, 3000, 4000
	}
	nTriple, nQuad, nLong = nTriple*o.Budget, nQuad*o.Budget, nLong*o.Budget
	for n := 0; n < nTriple; n++ {
		d := Desc{Kind: "triple-random", Setup: setups[rnd.Intn(2)], Progs: [][]Op{{randOp(rnd)}, {randOp(rnd)}, {randOp(rnd)}}}
		g.random(d, rnd)
	}
	for n := 0; n < nQuad; n++ {
		d := Desc{Kind: "quad-random", Setup: setups[rnd.Intn(2)], Progs: [][]Op{{randOp(rnd)}, {randOp(rnd)}, {randOp(rnd)}, {randOp(rnd)}}}
		g.random(d, rnd)
	}
	for n := 0; n < nLong; n++ {
		nt := 2 + rnd.Intn(3)
		progs := make([][]Op, nt)
		for t := range progs {
			l := 2 + rnd.Intn(4)
			for k := 0; k < l; k++ {
				op := randOp(rnd)
				if op.Op == "close" && k < l-1 {
					op = Op{Op: "get", Id: 1 + rnd.Intn(2)}
				}
				progs[t] = append(progs[t], op)
			}
		}
		if rnd.Bool() {
			progs[0] = append(progs[0], Op{Op: "close"})
		}
		g.random(Desc{Kind: "long-random", Progs: progs}, rnd)
	}
	fmt.Fprintf(os.Stderr, "c16: %d cases generated in %.1fs (after the instrumented build)\n", w.Count(), time.Since(tStart).Seconds())
	w.Finish(rule, g.samples, map[string]interface{}{"enumerated_schedules": nSched})
}
