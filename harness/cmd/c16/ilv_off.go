//go:build !c16ilv

package main

const ilvBuilt = false

func installHook() {}
