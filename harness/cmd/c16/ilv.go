// Interleaving families ("ilv"): schedules forced at lock-region granularity.
//
// The gate-only scheduler of main.go can cut a call only inside LoadFunc / Close / TryClose. The windows between
// two lock regions of one call (e.g. TryRemove: `isActive()` under c.mu ... c.mu.Unlock() ... e.setClosing())
// are then never interleaved with other calls. For these families the harness runs an INSTRUMENTED build of
// app/ocache (see ilvbuild.go: the package sources of the checked tree with `sync.Mutex` replaced by a wrapper
// that calls a hook before Lock and after Unlock; nothing else is changed, /repo is not touched). The hook parks
// the calling goroutine in front of every OUTERMOST mutex acquisition (it holds no other instrumented mutex),
// except the first acquisition after a return of a harness-owned callback (the model treats such a return and
// the lock region that follows as one step). "Let thread t take the lock it is parked at" is a scheduler action
// like releasing a callback gate; channel waits need no gate (a goroutine blocked on a close/load channel is
// woken by the close and then runs to its next gate).
//
// Enumeration: preemption-bounded (CHESS style). Choice 0 always continues the thread that moved last; choosing
// another thread while that one could still move costs one preemption. All schedules with at most `bound`
// preemptions are enumerated by a stateless DFS (all load results / try-close verdicts included).
package main

import (
	"fmt"
	"sync/atomic"

	"verifharness/vlib"
)

var curRunner atomic.Pointer[runner]

// afterCallback: the goroutine of thread t has just been released from a callback gate.
func (r *runner) afterCallback(t int) {
	if t >= 0 && r.fine {
		r.th[t].skipNext = true
	}
}

// lockHook is installed as ocache.VerifLockHook in the instrumented build. kind 0: before Lock/RLock,
// 1: after Unlock/RUnlock, 2: after a successful TryLock.
func lockHook(kind int) {
	r := curRunner.Load()
	if r == nil || !r.fine {
		return
	}
	g := curGoid()
	r.mu.Lock()
	t, ok := r.goids[g]
	if !ok || r.th[t].goid != g {
		r.mu.Unlock()
		return
	}
	th := r.th[t]
	r.mu.Unlock()
	switch kind {
	case 0:
		if th.held == 0 && !th.noYield {
			if th.skipNext {
				th.skipNext = false
			} else {
				r.mu.Lock()
				r.nLockPark++
				r.mu.Unlock()
				r.park(t, "lock")
			}
		}
		th.held++
	case 1:
		if th.held > 0 {
			th.held--
		}
	case 2:
		th.held++
	}
}

// exploreBounded enumerates all schedules of d with at most bound preemptions (capped). Cases whose observed
// trace (Coq term) was already emitted for this description are not emitted again.
func (g *gen) exploreBounded(d Desc, bound, limit int) int {
	d.Fine, d.Bound = true, bound
	prefix := []int{}
	n := 0
	seen := map[string]bool{}
	for {
		dd := d
		dd.Choices = prefix
		o := runSchedule(dd, func(i, k int) int { return 0 })
		n++
		g.w.Stat("ilv:schedules")
		if t := caseTerm(o); !seen[t] || o.bad != "" {
			seen[t] = true
			g.emit(d, o)
		} else {
			g.w.Stat("ilv:same-observation")
		}
		if n >= limit {
			g.w.Stat("ilv:truncated")
			name := d.Kind
			for _, p := range d.Progs {
				name += ":" + p[0].Op
			}
			g.w.Stat("ilv:truncated:" + name)
			return n
		}
		// next prefix: deepest decision with an untried alternative that stays within the bound
		cum := make([]int, len(o.choices)+1)
		for i, c := range o.choices {
			cum[i+1] = cum[i] + o.costs[i][c]
		}
		found := false
		for i := len(o.choices) - 1; i >= 0 && !found; i-- {
			for j := o.choices[i] + 1; j < o.counts[i]; j++ {
				if cum[i]+o.costs[i][j] <= bound {
					prefix = append(append([]int{}, o.choices[:i]...), j)
					found = true
					break
				}
			}
		}
		if !found {
			return n
		}
	}
}

// sampleBounded runs n random schedules of d with at most bound preemptions, placed uniformly over the length of
// the schedule (a capped DFS would only vary the tail); load results / try-close verdicts are chosen at random.
func (g *gen) sampleBounded(d Desc, bound, n int, rnd *vlib.Rand) int {
	d.Fine, d.Bound = true, bound
	length := 12
	seen := map[string]bool{}
	for k := 0; k < n; k++ {
		at := map[int]bool{}
		for b := 0; b < bound; b++ {
			at[rnd.Intn(length+2)] = true
		}
		o := runScheduleOpts(d, func(i int, opts []option, last int) int {
			var same, other []int
			lastHas := false
			for _, x := range opts {
				lastHas = lastHas || x.t == last
			}
			for j, x := range opts {
				if !lastHas || x.t == last {
					same = append(same, j)
				} else {
					other = append(other, j)
				}
			}
			if at[i] && len(other) > 0 {
				return other[rnd.Intn(len(other))]
			}
			return same[rnd.Intn(len(same))]
		})
		if len(o.choices) > 4 {
			length = len(o.choices)
		}
		g.w.Stat("ilv:schedules")
		if t := caseTerm(o); !seen[t] || o.bad != "" {
			seen[t] = true
			g.emit(d, o)
		} else {
			g.w.Stat("ilv:same-observation")
		}
	}
	return n
}

func (g *gen) randomFine(d Desc, rnd *vlib.Rand) {
	d.Fine = true
	o := runSchedule(d, func(i, k int) int {
		// mostly continue the same thread, preempt with probability 1/3
		if k > 1 && rnd.Chance(1, 3) {
			return 1 + rnd.Intn(k-1)
		}
		return 0
	})
	g.emit(d, o)
}

// selfProbe: the instrumentation must be active (a Get passes at least two outermost lock acquisitions).
func selfProbe() error {
	d := Desc{Kind: "probe", Fine: true, Progs: [][]Op{{{Op: "get", Id: 1}}}}
	r0 := runSchedule(d, func(i, k int) int { return 0 })
	if r0.bad != "" {
		return fmt.Errorf("probe schedule failed: %s %s", r0.bad, r0.what)
	}
	if r0.locks < 2 {
		return fmt.Errorf("instrumented build is not active: a Get parked at %d lock gates (want >= 2)", r0.locks)
	}
	return nil
}

func (g *gen) ilvFamilies(thorough bool, budget int, rnd *vlib.Rand) int {
	n := 0
	setups := [][]Op{nil, {{Op: "get", Id: 1}}}
	isCloser := func(o Op) bool {
		switch o.Op {
		case "remove", "removesame", "tryremove", "gc", "close":
			return true
		}
		return false
	}
	// all unordered pairs on id 1, with and without a preloaded instance
	for i := 0; i < len(alphabet); i++ {
		for j := i; j < len(alphabet); j++ {
			a, b := alphabet[i], alphabet[j]
			bound, limit := 1, 150
			if isCloser(a) && isCloser(b) {
				bound, limit = 2, 300
			}
			if thorough {
				bound, limit = bound+1, 4000
			}
			for _, su := range setups {
				d := Desc{Kind: "ilv-pair", Setup: su, Progs: [][]Op{{a}, {b}}}
				n += g.exploreBounded(d, bound, limit*budget)
			}
		}
	}
	// pairs across two ids (GC / Close walk both entries)
	for _, a := range []Op{{Op: "gc"}, {Op: "close"}} {
		for _, b := range alphabet2 {
			bound, limit := 1, 80
			if thorough {
				bound, limit = 2, 2000
			}
			d := Desc{Kind: "ilv-pair2", Setup: []Op{{Op: "get", Id: 1}, {Op: "get", Id: 2}}, Progs: [][]Op{{a}, {b}}}
			n += g.exploreBounded(d, bound, limit*budget)
		}
	}
	// triples around a preloaded instance: two closers and a third call
	get1, pick1, add1, rm1, try1, rs1, gc, cl := alphabet[0], alphabet[1], alphabet[2], alphabet[3], alphabet[4], alphabet[5], alphabet[6], alphabet[7]
	triples := [][]Op{{try1, rm1, get1}, {try1, gc, get1}, {try1, rm1, add1}, {rm1, rs1, get1}, {try1, cl, get1}, {gc, rm1, pick1}, {try1, try1, rm1}}
	for _, tr := range triples {
		d := Desc{Kind: "ilv-triple", Setup: setups[1], Progs: [][]Op{{tr[0]}, {tr[1]}, {tr[2]}}}
		if thorough {
			n += g.exploreBounded(d, 2, 3000*budget)
		} else {
			n += g.sampleBounded(d, 2, 40*budget, rnd)
		}
	}
	// random schedules (unbounded preemptions) of random triples and two-call programs
	nRand := 150
	if thorough {
		nRand = 4000
	}
	for k := 0; k < nRand*budget; k++ {
		var d Desc
		if rnd.Bool() {
			d = Desc{Kind: "ilv-triple-random", Setup: setups[rnd.Intn(2)], Progs: [][]Op{{randOp(rnd)}, {randOp(rnd)}, {randOp(rnd)}}}
		} else {
			d = Desc{Kind: "ilv-prog-random", Setup: setups[rnd.Intn(2)], Progs: [][]Op{{randOp(rnd), randOp(rnd)}, {randOp(rnd), randOp(rnd)}}}
		}
		g.randomFine(d, rnd)
		n++
	}
	return n
}
