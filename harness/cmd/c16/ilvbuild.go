package main

// Build of the instrumented harness binary (see ilv.go). The plain binary that bin/check builds does no work
// itself: it writes an instrumented copy of the non-test sources of app/ocache of the checked tree
// ($VERIF_REPO, default /repo) into <out>/ilv, builds this same main package against it with
// `go build -overlay` (tags verif,c16ilv) and replaces itself by the result. The checked tree is not touched.
//
// Instrumentation = textual replacement of the types sync.Mutex / sync.RWMutex by wrappers with the same method
// set that call ocache.VerifLockHook before Lock and after Unlock, plus one added file defining the wrappers.
// With a nil hook the wrappers behave exactly like the originals.

import (
	"encoding/json"
	"fmt"
	"os"
	"os/exec"
	"path/filepath"
	"regexp"
	"runtime"
	"strings"
	"syscall"
	"time"
)

const ilvPkg = "app/ocache"

var reMutex = regexp.MustCompile(`\bsync\.(RW)?Mutex\b`)
var rePackage = regexp.MustCompile(`(?m)^package\s+(\w+)`)

const ilvWrappers = `//go:build verif

package %s

import "sync"

// VerifLockHook is called by the instrumented mutexes of this package: kind 0 before Lock/RLock (the caller does
// not hold the mutex yet), 1 after Unlock/RUnlock, 2 after a successful TryLock/TryRLock.
var VerifLockHook func(kind int)

type verifMutex struct{ m sync.Mutex }

func (v *verifMutex) Lock() {
	if h := VerifLockHook; h != nil {
		h(0)
	}
	v.m.Lock()
}
func (v *verifMutex) Unlock() {
	v.m.Unlock()
	if h := VerifLockHook; h != nil {
		h(1)
	}
}
func (v *verifMutex) TryLock() bool {
	ok := v.m.TryLock()
	if h := VerifLockHook; ok && h != nil {
		h(2)
	}
	return ok
}

type verifRWMutex struct{ m sync.RWMutex }

func (v *verifRWMutex) Lock() {
	if h := VerifLockHook; h != nil {
		h(0)
	}
	v.m.Lock()
}
func (v *verifRWMutex) Unlock() {
	v.m.Unlock()
	if h := VerifLockHook; h != nil {
		h(1)
	}
}
func (v *verifRWMutex) RLock() {
	if h := VerifLockHook; h != nil {
		h(0)
	}
	v.m.RLock()
}
func (v *verifRWMutex) RUnlock() {
	v.m.RUnlock()
	if h := VerifLockHook; h != nil {
		h(1)
	}
}
func (v *verifRWMutex) TryLock() bool {
	ok := v.m.TryLock()
	if h := VerifLockHook; ok && h != nil {
		h(2)
	}
	return ok
}
func (v *verifRWMutex) TryRLock() bool {
	ok := v.m.TryRLock()
	if h := VerifLockHook; ok && h != nil {
		h(2)
	}
	return ok
}
func (v *verifRWMutex) RLocker() sync.Locker { return rlocker{v} }

type rlocker struct{ v *verifRWMutex }

func (r rlocker) Lock()   { r.v.RLock() }
func (r rlocker) Unlock() { r.v.RUnlock() }
`

func ilvFail(format string, args ...interface{}) {
	fmt.Fprintf(os.Stderr, "c16: cannot build the instrumented harness: "+format+"\n", args...)
	os.Exit(2)
}

// reexecInstrumented never returns.
func reexecInstrumented(out string) {
	t0 := time.Now()
	repo := os.Getenv("VERIF_REPO")
	if repo == "" {
		repo = "/repo"
	}
	repo, _ = filepath.Abs(repo)
	harness := os.Getenv("VERIF_HARNESS")
	if harness == "" {
		_, file, _, ok := runtime.Caller(0)
		if !ok {
			ilvFail("cannot locate the harness sources")
		}
		harness = filepath.Dir(filepath.Dir(filepath.Dir(file))) // .../harness/cmd/c16/ilvbuild.go
		if _, err := os.Stat(filepath.Join(harness, "go.mod")); err != nil {
			// sources moved since the build: look for <ancestor of the output directory>/harness
			for d, _ := filepath.Abs(out); d != "/" && d != "."; d = filepath.Dir(d) {
				if _, err := os.Stat(filepath.Join(d, "harness", "cmd", "c16", "ilvbuild.go")); err == nil {
					harness = filepath.Join(d, "harness")
					break
				}
			}
		}
	}
	out, _ = filepath.Abs(out)
	dir := filepath.Join(out, "ilv")
	if err := os.MkdirAll(dir, 0o755); err != nil {
		ilvFail("%v", err)
	}
	pkgDir := filepath.Join(repo, filepath.FromSlash(ilvPkg))
	files, err := filepath.Glob(filepath.Join(pkgDir, "*.go"))
	if err != nil || len(files) == 0 {
		ilvFail("no sources in %s", pkgDir)
	}
	overlay := map[string]string{}
	pkgName, replaced := "", 0
	for _, f := range files {
		if strings.HasSuffix(f, "_test.go") {
			continue
		}
		src, err := os.ReadFile(f)
		if err != nil {
			ilvFail("%v", err)
		}
		if m := rePackage.FindSubmatch(src); m != nil && pkgName == "" {
			pkgName = string(m[1])
		}
		if !reMutex.Match(src) {
			continue
		}
		replaced += len(reMutex.FindAll(src, -1))
		dst := reMutex.ReplaceAll(src, []byte("verif${1}Mutex"))
		// keep the "sync" import used
		dst = append(dst, []byte("\n\nvar _ sync.Locker // keeps the import used in the instrumented copy\n")...)
		to := filepath.Join(dir, filepath.Base(f))
		if err := os.WriteFile(to, dst, 0o644); err != nil {
			ilvFail("%v", err)
		}
		overlay[f] = to
	}
	if replaced == 0 || pkgName == "" {
		ilvFail("no sync.Mutex found in %s", pkgDir)
	}
	wr := filepath.Join(dir, "zz_verif_ilv.go")
	if err := os.WriteFile(wr, []byte(fmt.Sprintf(ilvWrappers, pkgName)), 0o644); err != nil {
		ilvFail("%v", err)
	}
	overlay[filepath.Join(pkgDir, "zz_verif_ilv.go")] = wr
	ob, _ := json.MarshalIndent(map[string]interface{}{"Replace": overlay}, "", " ")
	ovPath := filepath.Join(dir, "overlay.json")
	if err := os.WriteFile(ovPath, ob, 0o644); err != nil {
		ilvFail("%v", err)
	}
	// private go.mod / go.sum (the shared ones in the harness directory are not written)
	mod, err := os.ReadFile(filepath.Join(harness, "go.mod"))
	if err != nil {
		ilvFail("%v", err)
	}
	modS := strings.Replace(string(mod), "=> /repo", "=> "+repo, 1)
	altMod := filepath.Join(dir, "alt.mod")
	if err := os.WriteFile(altMod, []byte(modS), 0o644); err != nil {
		ilvFail("%v", err)
	}
	sum, err := os.ReadFile(filepath.Join(repo, "go.sum"))
	if err != nil {
		if sum, err = os.ReadFile(filepath.Join(harness, "go.sum")); err != nil {
			ilvFail("%v", err)
		}
	}
	if err := os.WriteFile(filepath.Join(dir, "alt.sum"), sum, 0o644); err != nil {
		ilvFail("%v", err)
	}
	bin := filepath.Join(dir, "c16ilv")
	cmd := exec.Command("go", "build", "-tags", "verif,c16ilv", "-overlay", ovPath, "-modfile", altMod, "-o", bin, "./cmd/c16")
	cmd.Dir = harness
	cmd.Env = append(os.Environ(), "GOFLAGS=-mod=mod", "GOPROXY=off")
	if b, err := cmd.CombinedOutput(); err != nil {
		ilvFail("%v\n%s", err, b)
	}
	fmt.Fprintf(os.Stderr, "c16: instrumented build of %s in %.1fs\n", pkgDir, time.Since(t0).Seconds())
	args := append([]string{bin}, os.Args[1:]...)
	if err := syscall.Exec(bin, args, os.Environ()); err != nil {
		ilvFail("exec: %v", err)
	}
}
