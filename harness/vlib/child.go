package vlib

import (
	"bufio"
	"bytes"
	"fmt"
	"io"
	"os"
	"os/exec"
	"runtime/debug"
	"sync"
	"time"
)

// Child-process isolation: cases that may crash fatally (stack overflow), hang or exhaust memory are run in a
// child (the same binary re-executed with VERIF_CHILD=1).  Protocol: one request line -> one response line.

// ServeChild must be called at the start of main: in the child it never returns.
func ServeChild(handler func(req []byte) []byte) {
	if os.Getenv("VERIF_CHILD") != "1" {
		return
	}
	debug.SetMaxStack(64 << 20)
	Quiet()
	in := bufio.NewReaderSize(os.Stdin, 1<<20)
	out := bufio.NewWriterSize(os.Stdout, 1<<20)
	for {
		line, err := in.ReadBytes('\n')
		if len(line) > 0 {
			resp := handler(bytes.TrimRight(line, "\n"))
			out.Write(bytes.ReplaceAll(resp, []byte("\n"), []byte(" ")))
			out.WriteByte('\n')
			out.Flush()
		}
		if err != nil {
			os.Exit(0)
		}
	}
}

type Child struct {
	cmd    *exec.Cmd
	stdin  io.WriteCloser
	stdout *bufio.Reader
	stderr *tailBuf
	resp   chan []byte
}

type tailBuf struct {
	mu sync.Mutex
	b  []byte
}

func (t *tailBuf) Write(p []byte) (int, error) {
	t.mu.Lock()
	defer t.mu.Unlock()
	if len(t.b) < 4096 { // keep the head: the first lines of a Go crash say what happened
		t.b = append(t.b, p...)
	}
	return len(p), nil
}
func (t *tailBuf) String() string {
	t.mu.Lock()
	defer t.mu.Unlock()
	s := string(t.b)
	if len(s) > 900 {
		s = s[:900] + " ..."
	}
	return s
}

func (c *Child) start() error {
	c.cmd = exec.Command(os.Args[0])
	c.cmd.Env = append(os.Environ(), "VERIF_CHILD=1")
	var err error
	if c.stdin, err = c.cmd.StdinPipe(); err != nil {
		return err
	}
	so, err := c.cmd.StdoutPipe()
	if err != nil {
		return err
	}
	c.stdout = bufio.NewReaderSize(so, 1<<20)
	c.stderr = &tailBuf{}
	c.cmd.Stderr = c.stderr
	if err = c.cmd.Start(); err != nil {
		return err
	}
	c.resp = make(chan []byte, 1)
	go func(r *bufio.Reader, ch chan []byte) {
		for {
			line, err := r.ReadBytes('\n')
			if err != nil {
				close(ch)
				return
			}
			ch <- bytes.TrimRight(line, "\n")
		}
	}(c.stdout, c.resp)
	return nil
}

func (c *Child) kill() {
	if c.cmd != nil && c.cmd.Process != nil {
		c.cmd.Process.Kill()
		c.cmd.Wait()
	}
	c.cmd = nil
}

// Call sends one request; fail is "" on success, else "crash: ..." or "timeout".
func (c *Child) Call(req []byte, timeout time.Duration) (resp []byte, fail string) {
	if c.cmd == nil {
		if err := c.start(); err != nil {
			return nil, "crash: cannot start child: " + err.Error()
		}
	}
	if _, err := c.stdin.Write(append(bytes.ReplaceAll(req, []byte("\n"), []byte(" ")), '\n')); err != nil {
		msg := c.stderr.String()
		c.kill()
		return nil, "crash: " + msg
	}
	select {
	case r, ok := <-c.resp:
		if !ok {
			time.Sleep(20 * time.Millisecond)
			msg := c.stderr.String()
			c.kill()
			return nil, "crash: " + msg
		}
		return r, ""
	case <-time.After(timeout):
		c.kill()
		return nil, fmt.Sprintf("timeout after %s", timeout)
	}
}

func (c *Child) Close() {
	if c.cmd != nil {
		c.stdin.Close()
		done := make(chan struct{})
		go func() { c.cmd.Wait(); close(done) }()
		select {
		case <-done:
		case <-time.After(2 * time.Second):
			c.cmd.Process.Kill()
		}
		c.cmd = nil
	}
}
