package vlib

// C18SetPerShard closes the current shard and changes the number of cases per shard for the cases added
// afterwards (C18 mixes very large cases - one per shard - with thousands of tiny ones).
func (w *Writer) C18SetPerShard(n int) {
	w.closeShard()
	if n < 1 {
		n = 1
	}
	w.perShard = n
}
