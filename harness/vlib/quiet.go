package vlib

import (
	"github.com/anyproto/any-sync/app/logger"
	"go.uber.org/zap"
)

// Quiet silences any-sync's zap loggers (they write to stderr at debug level by default).
func Quiet() {
	logger.SetDefault(zap.NewNop())
	logger.SetNamedLevels(nil)
}
