// Package vlib: shared helpers of the correspondence harnesses — one PRNG, Coq term printing,
// sharded case files, statistics.
package vlib

import (
	"bufio"
	"encoding/json"
	"flag"
	"fmt"
	"os"
	"path/filepath"
	"sort"
	"strings"
)

// ---------------------------------------------------------------- PRNG (SplitMix64)

type Rand struct{ s uint64 }

func NewRand(seed uint64) *Rand { return &Rand{s: seed} }

func (r *Rand) U64() uint64 {
	r.s += 0x9e3779b97f4a7c15
	z := r.s
	z = (z ^ (z >> 30)) * 0xbf58476d1ce4e5b9
	z = (z ^ (z >> 27)) * 0x94d049bb133111eb
	return z ^ (z >> 31)
}

// Intn returns a value in [0,n).
func (r *Rand) Intn(n int) int {
	if n <= 0 {
		return 0
	}
	return int(r.U64() % uint64(n))
}
func (r *Rand) Bool() bool          { return r.U64()&1 == 1 }
func (r *Rand) Chance(p, q int) bool { return r.Intn(q) < p }

// Fork derives an independent generator (for a case index), so cases replay individually.
func (r *Rand) Fork(i uint64) *Rand {
	x := NewRand(r.s ^ (i+1)*0xd1342543de82ef95)
	x.U64()
	return x
}
func (r *Rand) Perm(n int) []int {
	p := make([]int, n)
	for i := range p {
		p[i] = i
	}
	for i := n - 1; i > 0; i-- {
		j := r.Intn(i + 1)
		p[i], p[j] = p[j], p[i]
	}
	return p
}

// ---------------------------------------------------------------- Coq term printing
// Case files open N_scope, so bare numerals are N; nat values are printed with %nat.

func N(v uint64) string   { return fmt.Sprintf("%d", v) }
func Nat(v int) string    { return fmt.Sprintf("%d%%nat", v) }
func Z(v int64) string {
	if v < 0 {
		return fmt.Sprintf("(%d)%%Z", v)
	}
	return fmt.Sprintf("%d%%Z", v)
}
func Bool(b bool) string {
	if b {
		return "true"
	}
	return "false"
}
func List(items []string) string { return "[" + strings.Join(items, "; ") + "]" }
func NList(v []uint64) string {
	s := make([]string, len(v))
	for i, x := range v {
		s[i] = N(x)
	}
	return List(s)
}
func NatList(v []int) string {
	s := make([]string, len(v))
	for i, x := range v {
		s[i] = Nat(x)
	}
	return List(s)
}
func Bytes(b []byte) string {
	s := make([]string, len(b))
	for i, x := range b {
		s[i] = fmt.Sprintf("%d", x)
	}
	return List(s)
}
func Some(s string) string { return "(Some " + s + ")" }
func Pair(a, b string) string { return "(" + a + ", " + b + ")" }
func App(f string, args ...string) string {
	return "(" + f + " " + strings.Join(args, " ") + ")"
}

// ---------------------------------------------------------------- options, case writer

type Opts struct {
	Seed   uint64
	Tier   string
	Out    string
	Budget int // multiplier for the case budget (1 = default)
	Replay string
}

func ParseFlags() Opts {
	var o Opts
	flag.Uint64Var(&o.Seed, "seed", 1, "PRNG seed")
	flag.StringVar(&o.Tier, "tier", "quick", "quick|thorough")
	flag.StringVar(&o.Out, "out", "", "output directory")
	flag.IntVar(&o.Budget, "budget", 1, "case budget multiplier")
	flag.StringVar(&o.Replay, "replay", "", "replay file (cases.jsonl subset) to re-run")
	flag.Parse()
	if o.Out == "" {
		fmt.Fprintln(os.Stderr, "missing -out")
		os.Exit(2)
	}
	_ = os.MkdirAll(o.Out, 0o755)
	return o
}

// Writer collects cases: the Coq term (checked by coqc) and a JSON description (replay / evidence).
type Writer struct {
	dir       string
	runModule string // e.g. "C20_run"
	perShard  int
	n         int
	shard     int
	cur       *bufio.Writer
	curF      *os.File
	curCount  int
	jl        *bufio.Writer
	jlF       *os.File
	Stats     map[string]int
	Direct    []DirectViolation // violations seen by the harness itself (panic, hang, ...)
	distinct  map[string]struct{}
	NonTrivial int
}

type DirectViolation struct {
	Case int         `json:"case"`
	What string      `json:"what"`
	Tag  string      `json:"tag"`
	Data interface{} `json:"data,omitempty"`
}

func NewWriter(dir, runModule string, perShard int) *Writer {
	w := &Writer{dir: dir, runModule: runModule, perShard: perShard, Stats: map[string]int{}, distinct: map[string]struct{}{}}
	f, err := os.Create(filepath.Join(dir, "cases.jsonl"))
	if err != nil {
		panic(err)
	}
	w.jlF = f
	w.jl = bufio.NewWriterSize(f, 1<<20)
	return w
}

func (w *Writer) openShard() {
	name := filepath.Join(w.dir, fmt.Sprintf("cases_%03d.v", w.shard))
	f, err := os.Create(name)
	if err != nil {
		panic(err)
	}
	w.curF = f
	w.cur = bufio.NewWriterSize(f, 1<<20)
	fmt.Fprintf(w.cur, "From Coq Require Import List NArith ZArith Bool.\nImport ListNotations.\nFrom AnySync Require Import Run.%s.\nImport %s.\nOpen Scope N_scope.\n", w.runModule, w.runModule)
	fmt.Fprintf(w.cur, "Definition cases : list case := [\n")
	w.curCount = 0
}

func (w *Writer) closeShard() {
	if w.cur == nil {
		return
	}
	base := w.n - w.curCount
	fmt.Fprintf(w.cur, "\n].\nDefinition R := Eval vm_compute in check_all %d cases.\nPrint R.\n", base)
	w.cur.Flush()
	w.curF.Close()
	w.cur = nil
	w.shard++
}

// Add appends one case. term: Coq term of type [case]; desc: JSON-able description;
// key: canonical string identifying the case for the distinct count; nontrivial: by the harness' stated rule.
func (w *Writer) Add(term string, desc interface{}, key string, nontrivial bool) int {
	if w.cur == nil {
		w.openShard()
	}
	if w.curCount > 0 {
		w.cur.WriteString(";\n")
	}
	w.cur.WriteString(term)
	idx := w.n
	w.n++
	w.curCount++
	b, _ := json.Marshal(map[string]interface{}{"case": idx, "desc": desc})
	w.jl.Write(b)
	w.jl.WriteByte('\n')
	if nontrivial {
		if _, ok := w.distinct[key]; !ok {
			w.distinct[key] = struct{}{}
			w.NonTrivial++
		}
	}
	if w.curCount >= w.perShard {
		w.closeShard()
	}
	return idx
}

func (w *Writer) Count() int { return w.n }

func (w *Writer) Stat(k string) { w.Stats[k]++ }

func (w *Writer) Violation(caseIdx int, tag, what string, data interface{}) {
	w.Direct = append(w.Direct, DirectViolation{Case: caseIdx, What: what, Tag: tag, Data: data})
}

// Finish writes stats.json: {evaluations, distinct_nontrivial, rule, stats, direct_violations, samples}.
func (w *Writer) Finish(rule string, samples []interface{}, extra map[string]interface{}) {
	w.closeShard()
	w.jl.Flush()
	w.jlF.Close()
	keys := make([]string, 0, len(w.Stats))
	for k := range w.Stats {
		keys = append(keys, k)
	}
	sort.Strings(keys)
	out := map[string]interface{}{
		"evaluations":         w.n,
		"distinct_nontrivial": w.NonTrivial,
		"rule":                rule,
		"distribution":        w.Stats,
		"direct_violations":   w.Direct,
		"samples":             samples,
		"shards":              w.shard,
	}
	for k, v := range extra {
		out[k] = v
	}
	b, _ := json.MarshalIndent(out, "", " ")
	if err := os.WriteFile(filepath.Join(w.dir, "stats.json"), b, 0o644); err != nil {
		panic(err)
	}
}

// ReadReplay returns the "desc" objects of a replay file (one JSON object per line, as in cases.jsonl).
func ReadReplay(path string) []json.RawMessage {
	f, err := os.Open(path)
	if err != nil {
		panic(err)
	}
	defer f.Close()
	var res []json.RawMessage
	sc := bufio.NewScanner(f)
	sc.Buffer(make([]byte, 1<<20), 1<<28)
	for sc.Scan() {
		line := strings.TrimSpace(sc.Text())
		if line == "" {
			continue
		}
		var m struct {
			Desc json.RawMessage `json:"desc"`
		}
		if json.Unmarshal([]byte(line), &m) == nil && m.Desc != nil {
			res = append(res, m.Desc)
		}
	}
	return res
}
